"""Shared machinery of the ./check driver (see DESIGN.md section 3)."""
import fcntl
import hashlib
import json
import os
import re
import subprocess
import sys
import time

VERIF = os.path.dirname(os.path.abspath(__file__))
REPO = os.environ.get("VERIF_REPO", "/repo")
COQ = os.path.join(VERIF, "coq")
BUILD = os.path.join(VERIF, "build")
HARNESS = os.path.join(VERIF, "harness")
HARNESS_BIN = os.path.join(HARNESS, "target", "release", "pmh-harness")
HARNESS_BIN_DEBUG = os.path.join(HARNESS, "target", "debug", "pmh-harness")
GUARD = "probminhash_verif"
NCPU = 16

os.makedirs(BUILD, exist_ok=True)
sys.path.insert(0, os.path.join(VERIF, "translate"))


def sh(cmd, timeout=600, cwd=None, env=None, input_text=None):
    """run a command (list or shell string); returns (rc, stdout+stderr). rc=124 on timeout."""
    e = dict(os.environ)
    e["CARGO_NET_OFFLINE"] = "true"
    if env:
        e.update(env)
    try:
        p = subprocess.run(cmd, shell=isinstance(cmd, str), cwd=cwd, env=e, timeout=timeout,
                           stdout=subprocess.PIPE, stderr=subprocess.STDOUT,
                           input=input_text, universal_newlines=True, errors="replace")
        return p.returncode, p.stdout
    except subprocess.TimeoutExpired as ex:
        out = ex.stdout or ""
        if isinstance(out, bytes):
            out = out.decode("utf-8", "replace")
        return 124, out + "\n[timeout after %ss]" % timeout


def sh2(cmd, timeout=600, cwd=None, env=None):
    """like sh but keeps stdout and stderr apart: (rc, stdout, stderr)"""
    e = dict(os.environ)
    e["CARGO_NET_OFFLINE"] = "true"
    if env:
        e.update(env)
    try:
        p = subprocess.run(cmd, shell=isinstance(cmd, str), cwd=cwd, env=e, timeout=timeout,
                           stdout=subprocess.PIPE, stderr=subprocess.PIPE,
                           universal_newlines=True, errors="replace")
        return p.returncode, p.stdout, p.stderr
    except subprocess.TimeoutExpired as ex:
        out = ex.stdout or ""
        if isinstance(out, bytes):
            out = out.decode("utf-8", "replace")
        return 124, out, "[timeout after %ss]" % timeout


class Lock:
    def __init__(self, name):
        self.path = os.path.join(BUILD, name + ".lock")

    def __enter__(self):
        self.f = open(self.path, "w")
        fcntl.flock(self.f, fcntl.LOCK_EX)
        return self

    def __exit__(self, *a):
        fcntl.flock(self.f, fcntl.LOCK_UN)
        self.f.close()


# --------------------------------------------------------------------------
# Coq
# --------------------------------------------------------------------------

def coq_sources():
    out = []
    for root, _, files in os.walk(COQ):
        for f in files:
            if f.endswith(".v"):
                out.append(os.path.join(root, f))
    return sorted(out)


FORBIDDEN = re.compile(
    r"\b(Admitted|admit|Axiom|Axioms|Parameter|Parameters|Conjecture|Conjectures|Hypothesis|Hypotheses|Variable|Variables)\b"
    r"|Unset\s+Guard|bypass_check|type-in-type|impredicative-set|Admit\s+Obligations|Unset\s+Universe\s+Checking|Unset\s+Positivity")


def strip_coq_comments(txt):
    out = []
    depth = 0
    i = 0
    while i < len(txt):
        if txt.startswith("(*", i):
            depth += 1
            i += 2
        elif txt.startswith("*)", i) and depth > 0:
            depth -= 1
            i += 2
        else:
            if depth == 0:
                out.append(txt[i])
            elif txt[i] == "\n":
                out.append("\n")
            i += 1
    return "".join(out)


def forbidden_scan():
    """Axiom-like declarations, admits and disabled checks anywhere in the
    development.  Variable/Hypothesis are allowed only inside a Section."""
    hits = []
    for path in coq_sources():
        txt = strip_coq_comments(open(path).read())
        depth = 0
        for ln, line in enumerate(txt.split("\n"), 1):
            if re.match(r"\s*Section\b", line):
                depth += 1
            if re.match(r"\s*End\b", line) and depth > 0:
                depth -= 1
            for m in FORBIDDEN.finditer(line):
                w = m.group(0)
                if w in ("Variable", "Variables", "Hypothesis", "Hypotheses") and depth > 0:
                    continue
                hits.append("%s:%d: %s" % (os.path.relpath(path, VERIF), ln, w))
    return hits


def ensure_makefile():
    mk = os.path.join(COQ, "Makefile")
    cp = os.path.join(COQ, "_CoqProject")
    if (not os.path.exists(mk)) or os.path.getmtime(mk) < os.path.getmtime(cp):
        rc, out = sh("coq_makefile -f _CoqProject -o Makefile", cwd=COQ, timeout=60)
        if rc != 0:
            raise RuntimeError("coq_makefile failed: " + out)


def coq_make(targets, timeout=900):
    """full .vo build of the given targets (paths relative to coq/, .vo).  Returns (ok, log)."""
    with Lock("coq"):
        ensure_makefile()
        cmd = ["timeout", str(timeout), "make", "-j%d" % NCPU, "-k"] + list(targets)
        rc, out = sh(cmd, cwd=COQ, timeout=timeout + 30)
    return rc == 0, out


def coqc_file(path, timeout=300):
    """compile a scratch .v file (outside the project) against the project; returns (rc, stdout, stderr)"""
    return sh2(["timeout", str(timeout), "coqc", "-noglob", "-Q", COQ, "PMH", path],
               cwd=os.path.dirname(path), timeout=timeout + 30)


def print_assumptions(pid, module, theorems, timeout=300):
    """returns {theorem: [axiom names]} using Print Assumptions in a scratch file"""
    d = os.path.join(BUILD, "assum")
    os.makedirs(d, exist_ok=True)
    path = os.path.join(d, "Assum_%s.v" % pid)
    lines = ["From PMH Require Import %s." % module]
    for t in theorems:
        lines.append("Print Assumptions %s." % t)
    open(path, "w").write("\n".join(lines) + "\n")
    with Lock("coq"):
        rc, out, err = coqc_file(path, timeout)
    if rc != 0:
        return None, out + err
    # split on the headers each command prints
    chunks = re.split(r"^(Closed under the global context|Axioms:)\s*$", out, flags=re.M)
    res = {}
    idx = 0
    i = 1
    while i < len(chunks):
        head = chunks[i]
        body = chunks[i + 1] if i + 1 < len(chunks) else ""
        if idx >= len(theorems):
            break
        if head.startswith("Closed"):
            res[theorems[idx]] = []
        else:
            names = re.findall(r"^([A-Za-z_][\w.']*)\s*:", body, flags=re.M)
            res[theorems[idx]] = names
        idx += 1
        i += 2
    if len(res) != len(theorems):
        return None, "could not parse Print Assumptions output:\n" + out
    return res, out


# axioms of the Coq standard library that the real-number / Flocq / Coquelicot
# theorems may rest on (named in DESIGN.md section 9)
STDLIB_AXIOMS = {
    "ClassicalDedekindReals.sig_forall_dec",
    "ClassicalDedekindReals.sig_not_dec",
    "FunctionalExtensionality.functional_extensionality_dep",
    "functional_extensionality_dep",
    "sig_forall_dec", "sig_not_dec",
    "Classical_Prop.classic", "classic",
    "ClassicalEpsilon.constructive_indefinite_description", "constructive_indefinite_description",
    "ProofIrrelevance.proof_irrelevance", "proof_irrelevance",
    "Eqdep.Eq_rect_eq.eq_rect_eq", "eq_rect_eq", "JMeq.JMeq_eq", "JMeq_eq",
    "PropExtensionality.propositional_extensionality", "propositional_extensionality",
}


# --------------------------------------------------------------------------
# parsing Coq values printed by Eval vm_compute
# --------------------------------------------------------------------------

def parse_coq_value(txt):
    """parse '= value : type' output of one Eval into nested python lists / ints / bools / None / str"""
    m = re.search(r"=\s*(.*)\n\s*:\s", txt, flags=re.S)
    body = m.group(1) if m else txt
    toks = re.findall(r"\[|\]|\(|\)|;|,|-?\d+|%[A-Za-z_]+|[A-Za-z_][\w']*|\"[^\"]*\"", body)
    toks = [t for t in toks if not t.startswith("%")]
    pos = [0]

    def peek():
        return toks[pos[0]] if pos[0] < len(toks) else None

    def nxt():
        t = peek()
        pos[0] += 1
        return t

    def atom():
        t = nxt()
        if t == "[":
            items = []
            if peek() == "]":
                nxt()
                return items
            while True:
                items.append(expr())
                t2 = nxt()
                if t2 == "]":
                    return items
                if t2 != ";":
                    raise ValueError("bad list near %r" % t2)
        if t == "(":
            first = expr()
            items = [first]
            while peek() == ",":
                nxt()
                items.append(expr())
            if nxt() != ")":
                raise ValueError("bad tuple")
            return items[0] if len(items) == 1 else tuple(items)
        if re.match(r"-?\d+$", t):
            return int(t)
        if t == "true":
            return True
        if t == "false":
            return False
        if t == "None":
            return None
        if t.startswith('"'):
            return t[1:-1]
        return ("ctor", t)

    def expr():
        a = atom()
        # constructor application: Ctor arg arg ...
        if isinstance(a, tuple) and len(a) == 2 and a[0] == "ctor":
            args = []
            while peek() not in (None, "]", ")", ";", ","):
                args.append(atom())
            if a[1] == "Some" and len(args) == 1:
                return {"Some": args[0]}
            return {"ctor": a[1], "args": args} if args else a[1]
        return a

    v = expr()
    return v


def run_coq_cases(name, header, evals, timeout=600):
    """write build/cases/<name>.v with `header` and one `Eval vm_compute in e.` per element of
    evals; returns list of parsed values (or raises RuntimeError with coqc's message)."""
    d = os.path.join(BUILD, "cases")
    os.makedirs(d, exist_ok=True)
    path = os.path.join(d, name + ".v")
    parts = [header, "Set Printing Width 1000000.", "Set Printing Depth 10000000."]
    for e in evals:
        parts.append("Eval vm_compute in (%s)." % e)
    open(path, "w").write("\n".join(parts) + "\n")
    rc, out, err = coqc_file(path, timeout)
    if rc != 0:
        raise RuntimeError("coqc failed on %s (rc=%d):\n%s\n%s" % (path, rc, out[-3000:], err[-3000:]))
    chunks = re.split(r"^\s*=\s", "\n" + out, flags=re.M)[1:]
    if len(chunks) != len(evals):
        raise RuntimeError("expected %d results from coqc, got %d\n%s" % (len(evals), len(chunks), out[:2000]))
    return [parse_coq_value("= " + c) for c in chunks]


def run_coq_cases_parallel(jobs, timeout=600):
    """jobs: list of (name, header, evals); runs up to NCPU coqc in parallel; returns list of results
    (each a list of values or an Exception)"""
    from concurrent.futures import ThreadPoolExecutor
    def one(j):
        try:
            return run_coq_cases(j[0], j[1], j[2], timeout)
        except Exception as ex:  # noqa
            return ex
    with ThreadPoolExecutor(max_workers=NCPU) as ex:
        return list(ex.map(one, jobs))


def zlist(xs):
    return "[" + "; ".join(str(int(x)) for x in xs) + "]%Z"


# --------------------------------------------------------------------------
# Rust harness
# --------------------------------------------------------------------------

def harness_build(debug=False, timeout=1500):
    """build the harness against /repo's working tree with the hooks on.  (ok, log)"""
    with Lock("cargo"):
        lock_src = os.path.join(REPO, "Cargo.lock")
        lock_dst = os.path.join(HARNESS, "Cargo.lock")
        if not os.path.exists(lock_dst) and os.path.exists(lock_src):
            open(lock_dst, "w").write(open(lock_src).read())
        cmd = ["cargo", "build", "--offline"] + ([] if debug else ["--release"])
        rc, out = sh(cmd, cwd=HARNESS, timeout=timeout,
                     env={"RUSTFLAGS": "--cfg " + GUARD, "CARGO_TERM_COLOR": "never"})
    return rc == 0, out


def harness(args, timeout=600, debug=False, stdin=None, trace=False):
    """run the harness; returns (rc, parsed-json-or-None, raw stdout, stderr).  trace: the crate's log lines are
    formatted (a logger at Trace level), so that code inside their arguments runs"""
    binp = HARNESS_BIN_DEBUG if debug else HARNESS_BIN
    e = dict(os.environ)
    e["RUST_BACKTRACE"] = "0"
    if trace:
        e["VERIF_TRACE"] = "1"
    try:
        p = subprocess.run([binp] + [str(a) for a in args], stdout=subprocess.PIPE, stderr=subprocess.PIPE,
                           timeout=timeout, universal_newlines=True, errors="replace", env=e, input=stdin)
        rc, out, err = p.returncode, p.stdout, p.stderr
    except subprocess.TimeoutExpired as ex:
        out = ex.stdout or ""
        if isinstance(out, bytes):
            out = out.decode("utf-8", "replace")
        return 124, None, out, "[timeout]"
    js = None
    try:
        js = json.loads(out) if out.strip() else None
    except ValueError:
        for line in reversed(out.split("\n")):
            if line.startswith("{"):
                try:
                    js = json.loads(line)
                    break
                except ValueError:
                    pass
    if rc == 3 and isinstance(js, dict) and "hang" in js:
        # the harness watchdog: a call into the crate did not return
        HANGS.append({"args": [str(a) for a in args], "hang": js["hang"], "limit_ms": js.get("limit_ms")})
        return rc, None, out, "[hang] " + json.dumps(js["hang"])[:600]
    return rc, js, out, err


HANGS = []


# --------------------------------------------------------------------------
# findings, replays, evidence
# --------------------------------------------------------------------------

def load_known_findings():
    """known_findings.txt: lines 'finding: property=Cxx key=<key> <text>' and
    'fixed: property=Cxx <commit> <text>'.  Only 'finding:' lines suppress, and only the
    violation class whose key they name."""
    res = []
    p = os.path.join(VERIF, "known_findings.txt")
    if os.path.exists(p):
        for line in open(p):
            line = line.strip()
            m = re.match(r"finding:\s+property=(C\d+)\s+key=(\S+)\s+(.*)$", line)
            if m:
                res.append({"property": m.group(1), "key": m.group(2), "text": m.group(3)})
    return res


def write_replay(pid, obj):
    os.makedirs(os.path.join(VERIF, "replays"), exist_ok=True)
    blob = json.dumps(obj, sort_keys=True, indent=1)
    h = hashlib.sha1(blob.encode()).hexdigest()[:12]
    path = os.path.join(VERIF, "replays", "%s-%s.json" % (pid, h))
    open(path, "w").write(blob + "\n")
    return path


def write_evidence(pid, ev):
    os.makedirs(os.path.join(VERIF, "evidence"), exist_ok=True)
    path = os.path.join(VERIF, "evidence", pid + ".json")
    tmp = path + ".tmp"
    open(tmp, "w").write(json.dumps(ev, indent=1, sort_keys=True) + "\n")
    os.replace(tmp, path)
    return path


def seed_from_env():
    try:
        return int(os.environ.get("VERIF_SEED", "20260930"))
    except ValueError:
        return 20260930


def repo_head():
    rc, out = sh("git -C %s rev-parse --short HEAD" % REPO, timeout=20)
    rc2, out2 = sh("git -C %s status --porcelain" % REPO, timeout=20)
    return out.strip() + ("+dirty" if out2.strip() else "")


# --------------------------------------------------------------------------
# extracted runner (high-volume correspondence)
# --------------------------------------------------------------------------
EXTRACT_DIR = os.path.join(BUILD, "extract")
MODELRUN = os.path.join(EXTRACT_DIR, "modelrun")


def build_modelrun(timeout=600):
    """(re)extract the models and compile the OCaml runner when any .vo it depends on is newer.
    Requires coq/Model/Dispatch.vo to be built (a COQ_TARGET of the properties that use the runner)."""
    os.makedirs(EXTRACT_DIR, exist_ok=True)
    with Lock("extract"):
        newest = 0
        for root, _, files in os.walk(COQ):
            for f in files:
                if f.endswith(".vo"):
                    newest = max(newest, os.path.getmtime(os.path.join(root, f)))
        newest = max(newest, os.path.getmtime(os.path.join(VERIF, "ocaml", "driver.ml")),
                     os.path.getmtime(os.path.join(COQ, "Extract", "Extract.v")))
        if os.path.exists(MODELRUN) and os.path.getmtime(MODELRUN) >= newest:
            return True, "cached"
        rc, out = sh(["timeout", str(timeout), "coqc", "-noglob", "-Q", COQ, "PMH", os.path.join(COQ, "Extract", "Extract.v")],
                     cwd=EXTRACT_DIR, timeout=timeout + 30)
        if rc != 0:
            return False, out
        for junk in ("Extract.vo", "Extract.vok", "Extract.vos", ".Extract.aux"):
            jp = os.path.join(COQ, "Extract", junk)
            if os.path.exists(jp):
                os.remove(jp)
        open(os.path.join(EXTRACT_DIR, "driver.ml"), "w").write(open(os.path.join(VERIF, "ocaml", "driver.ml")).read())
        rc, out = sh("ocamlfind ocamlopt -O2 -w -a modelcore.mli modelcore.ml driver.ml -o modelrun.tmp && mv modelrun.tmp modelrun",
                     cwd=EXTRACT_DIR, timeout=timeout)
        if rc != 0:
            return False, out
    return True, "built"


def modelrun(lines, timeout=1200, nproc=NCPU):
    """lines: list of lists of ints (first = property code). returns list of lists of ints (same order)."""
    from concurrent.futures import ThreadPoolExecutor
    if not lines:
        return []
    chunks = [lines[i::nproc] for i in range(nproc)]

    def one(chunk):
        if not chunk:
            return []
        txt = "\n".join(" ".join(str(int(x)) for x in l) for l in chunk) + "\n"
        # the extracted code recurses along its input lists: lift the soft stack limit
        p = subprocess.run(["bash", "-c", "ulimit -s unlimited 2>/dev/null || ulimit -s $(ulimit -Hs) 2>/dev/null; exec '%s'" % MODELRUN], input=txt, stdout=subprocess.PIPE, stderr=subprocess.PIPE,
                           timeout=timeout, universal_newlines=True)
        if p.returncode != 0:
            raise RuntimeError("modelrun failed: rc=%d %s" % (p.returncode, p.stderr[-500:]))
        # one line per case; a case whose answer is the empty list prints an empty line (keep it: only the
        # terminating newline of the output is dropped)
        outl = p.stdout.split("\n")
        if outl and outl[-1] == "":
            outl = outl[:-1]
        if len(outl) != len(chunk):
            raise RuntimeError("modelrun returned %d lines for %d cases" % (len(outl), len(chunk)))
        return [[int(t) for t in l.split()] for l in outl]

    with ThreadPoolExecutor(max_workers=nproc) as ex:
        parts = list(ex.map(one, chunks))
    res = [None] * len(lines)
    for ci, part in enumerate(parts):
        for j, r in enumerate(part):
            res[ci + j * nproc] = r
    return res


# axioms declared by the Coq standard library that loaded libraries (Reals, Flocq, Coquelicot) rely on
COQCHK_STDLIB_AXIOMS = [
    "Coq.Logic.FunctionalExtensionality.functional_extensionality_dep",
    "Coq.Reals.ClassicalDedekindReals.sig_not_dec",
    "Coq.Reals.ClassicalDedekindReals.sig_forall_dec",
    "Coq.Logic.Classical_Prop.classic",
    "Coq.Logic.ProofIrrelevance.proof_irrelevance",
    "Coq.Logic.Eqdep.Eq_rect_eq.eq_rect_eq",
    "Coq.Logic.PropExtensionality.propositional_extensionality",
    "Coq.Logic.Epsilon.epsilon_statement",
    "Coq.Logic.ClassicalEpsilon.constructive_indefinite_description",
    "Coq.Logic.IndefiniteDescription.constructive_indefinite_description",
]


def coqchk(module, timeout=2400):
    """coqchk -o on PMH.<module>; returns (ok, axioms, raw)"""
    with Lock("coq"):
        rc, raw = sh(["coqchk", "-silent", "-o", "-Q", ".", "PMH", "PMH." + module], cwd=COQ, timeout=timeout)
    if rc != 0 or "CONTEXT SUMMARY" not in raw:
        return False, [], raw
    tail = raw.split("CONTEXT SUMMARY", 1)[1]
    ok = all(("* %s: <none>" % k) in tail for k in (
        "Constants/Inductives relying on type-in-type", "Constants/Inductives relying on unsafe (co)fixpoints",
        "Inductives whose positivity is assumed"))
    axioms = []
    m = re.search(r"\* Axioms:(.*?)\n\s*\n", tail, flags=re.S)
    if m and "<none>" not in m.group(1):
        axioms = [a.strip() for a in m.group(1).split("\n") if a.strip()]
    return ok, axioms, raw


# --------------------------------------------------------------------------
# source fingerprints: adaptive depth, never an alarm
# --------------------------------------------------------------------------

def source_fingerprints():
    from rustexpr import strip_comments
    out = {}
    root = os.path.join(REPO, "src")
    for dp, _, fs in os.walk(root):
        for f in fs:
            if f.endswith(".rs"):
                path = os.path.join(dp, f)
                txt = strip_comments(open(path, errors="replace").read())
                txt = re.sub(r"\s+", " ", txt)
                out[os.path.relpath(path, REPO)] = hashlib.sha256(txt.encode()).hexdigest()
    return out


def _literals_of(txt):
    """integer magnitudes written in a source text: decimal / hex literals, `1 << k`, `2.pow(k)`"""
    vals = set()
    for m in re.finditer(r"(?<![\w.])(0x[0-9a-fA-F_]+|\d[\d_]*)(?:_?(?:u|i)(?:8|16|32|64|128|size))?(?![\w.])", txt):
        t = m.group(1).replace("_", "")
        try:
            vals.add(int(t, 16) if t.startswith("0x") else int(t))
        except ValueError:
            pass
    for m in re.finditer(r"\b1(?:_?(?:u|i)(?:8|16|32|64|128|size))?\s*<<\s*(\d+)", txt):
        vals.add(1 << int(m.group(1)))
    for m in re.finditer(r"\b2(?:_?(?:u|i)(?:8|16|32|64|128|size))?\s*\.pow\(\s*(\d+)\s*\)", txt):
        vals.add(2 ** int(m.group(1)))
    # a shift by a literal amount scales by that power of two (`m >> 11`: thresholds at multiples of 2048)
    for m in re.finditer(r"(?:>>|<<)=?\s*(\d+)(?![\w.])", txt):
        if 3 <= int(m.group(1)) <= 27:
            vals.add(1 << int(m.group(1)))
    # a narrow integer type used as a type (`: u16`, `as u8`, `<u16>`) wraps at its width
    for m in re.finditer(r"(?<![\w.])(u|i)(8|16)(?![\w.])", txt):
        vals.add(1 << (int(m.group(2)) - (1 if m.group(1) == "i" else 0)))
    return vals


def source_literals():
    from rustexpr import strip_comments
    out = {}
    for dp, _, fs in os.walk(os.path.join(REPO, "src")):
        for f in fs:
            if f.endswith(".rs"):
                path = os.path.join(dp, f)
                txt = strip_comments(open(path, errors="replace").read()).split("#[cfg(test)]\nmod tests")[0]
                out[os.path.relpath(path, REPO)] = sorted(v for v in _literals_of(txt) if 3 <= v <= (1 << 27))
    return out


def new_literals(files):
    """integer magnitudes (3 .. 2^27) that appear in the given changed source files but not in their fingerprinted
    version: thresholds a change may have introduced; the generators add sizes around them"""
    p = os.path.join(VERIF, "fingerprints.json")
    if not os.path.exists(p):
        return []
    ref = json.load(open(p)).get("literals", {})
    now = source_literals()
    out = set()
    for f in files:
        out |= set(now.get(f, [])) - set(ref.get(f, []))
    return sorted(out)[:10]


def changed_sources():
    """source files whose text (comments and whitespace aside) differs from the recorded fingerprint"""
    p = os.path.join(VERIF, "fingerprints.json")
    if not os.path.exists(p):
        return []
    ref = json.load(open(p))["files"]
    now = source_fingerprints()
    return sorted(f for f in set(ref) | set(now) if ref.get(f) != now.get(f))


def property_files(pid):
    """the source files a property is anchored in, closed under `use crate::...` imports (a sketcher built on the lazy
    shuffle or the max tracker depends on those files too)"""
    files = []
    for line in open(os.path.join(VERIF, "properties.jsonl")):
        rec = json.loads(line)
        if rec["id"] == pid:
            files = list(rec.get("anchors", {}).get("files", []))
    seen = set(files)
    todo = list(files)
    while todo:
        f = todo.pop()
        path = os.path.join(REPO, f)
        if not os.path.exists(path):
            continue
        txt = open(path, errors="replace").read()
        for m in re.finditer(r"\buse\s+crate::((?:\w+::)*)(\w+|\{[^}]*\}|\*)", txt):
            mods = [x for x in m.group(1).split("::") if x]
            cands = []
            if mods:
                cands.append("src/" + "/".join(mods) + ".rs")
                cands.append("src/" + "/".join(mods[:1]) + ".rs")
                tail = m.group(2)
                if re.match(r"^\w+$", tail):
                    cands.append("src/" + "/".join(mods + [tail]) + ".rs")
            else:
                tail = m.group(2)
                if re.match(r"^\w+$", tail):
                    cands.append("src/" + tail + ".rs")
            for c in cands:
                if c not in seen and os.path.exists(os.path.join(REPO, c)):
                    seen.add(c)
                    todo.append(c)
    return sorted(seen)
