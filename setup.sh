#!/bin/sh
# Build the whole framework offline from files on disk: regenerate the translated
# Coq files from /repo, build every .vo (full build, no -vos), build the harness.
set -e
cd "$(dirname "$0")"
export CARGO_NET_OFFLINE=true
mkdir -p build evidence replays
python3 tools/translate_all.py
( cd coq && coq_makefile -f _CoqProject -o Makefile >/dev/null && timeout 3000 make -j16 )
[ -f harness/Cargo.lock ] || cp /repo/Cargo.lock harness/Cargo.lock
( cd harness && RUSTFLAGS="--cfg probminhash_verif" cargo build --release --offline )
python3 -c "import vlib,sys; ok,log=vlib.build_modelrun(); print('modelrun',ok); sys.exit(0 if ok else 1)"
echo setup-ok
