#!/usr/bin/env python3
"""Real-valued reading of Rust float expressions: the expression grammar of rustexpr.Parser emitted as a Coq term over
R.  Casts between numeric types are the identity (the callers state the ranges in which that is exact), `ln_1p(x)` is
ln (1 + x), `exp_m1(x)` is exp x - 1.  Anything outside the subset raises Untranslatable (fail closed)."""
import os
import re
import sys

sys.path.insert(0, os.path.dirname(__file__))
from rustexpr import Untranslatable, tokenize, Parser


def parse(src):
    p = Parser(tokenize(src))
    e = p.expr()
    if not p.at_end():
        raise Untranslatable("trailing tokens in %r" % src[:80])
    return e


def literal(e):
    txt = e[1] if e[0] == 'float' else str(e[1])
    txt = re.sub(r"_?(f32|f64|u8|u16|u32|u64|usize|i32|i64)$", "", str(txt)).replace("_", "")
    if txt.endswith("."):
        txt = txt[:-1]
    if re.match(r"^\d+$", txt):
        return txt
    m = re.match(r"^(\d*)\.(\d+)$", txt)
    if m:
        num = (m.group(1) + m.group(2)).lstrip("0") or "0"
        return "(%s / %d)" % (num, 10 ** len(m.group(2)))
    raise Untranslatable("literal %s" % (e[1],))


def emit(e, env):
    """env: identifier or field name -> Coq term (string)"""
    k = e[0]
    if k == 'var':
        if e[1] not in env:
            raise Untranslatable("unknown identifier %s" % e[1])
        return env[e[1]]
    if k == 'field' and e[1] == ('var', 'self'):
        if e[2] not in env:
            raise Untranslatable("unknown field self.%s" % e[2])
        return env[e[2]]
    if k in ('float', 'int'):
        return literal(e)
    if k == 'as':
        if e[2] not in ('f64', 'f32', 'usize', 'u64', 'u32', 'i64', 'i32'):
            raise Untranslatable("cast to %s" % e[2])
        return emit(e[1], env)
    if k == 'un' and e[1] == '-':
        return "(- %s)" % emit(e[2], env)
    if k == 'bin' and e[1] in ('+', '-', '*', '/'):
        return "(%s %s %s)" % (emit(e[2], env), e[1], emit(e[3], env))
    if k == 'call':
        a = emit(e[2], env)
        args = [emit(x, env) for x in e[3]]
        name = e[1]
        if not args:
            if name == 'exp':
                return "(exp %s)" % a
            if name == 'ln':
                return "(ln %s)" % a
            if name == 'sqrt':
                return "(sqrt %s)" % a
            if name == 'ln_1p':
                return "(ln (1 + %s))" % a
            if name == 'exp_m1':
                return "(exp %s - 1)" % a
            if name == 'abs':
                return "(Rabs %s)" % a
            if name == 'recip':
                return "(/ %s)" % a
        if len(args) == 1:
            if name == 'max':
                return "(Rmax %s %s)" % (a, args[0])
            if name == 'min':
                return "(Rmin %s %s)" % (a, args[0])
            if name == 'powi' and re.match(r"^\d+$", args[0]):
                return "(%s ^ %s)" % (a, args[0])
    raise Untranslatable("expression outside the accepted subset: %r" % (e,))


def split_statements(body):
    """top-level `;`-separated statements of a block body (string without the outer braces); the last element is the
    tail expression ('' when the body ends with `;`)"""
    out, depth, cur = [], 0, []
    for ch in body:
        if ch in "([{":
            depth += 1
        elif ch in ")]}":
            depth -= 1
        if ch == ";" and depth == 0:
            out.append("".join(cur).strip())
            cur = []
        else:
            cur.append(ch)
    out.append("".join(cur).strip())
    return out


IGNORED = re.compile(r"^(assert!|assert_eq!|debug_assert!|log::\w+!|trace!|debug!|info!|warn!)\s*\(")
LET = re.compile(r"^let\s+(?:mut\s+)?(\w+)\s*(?::\s*[\w:<>]+\s*)?=\s*(.*)$", re.S)


def inline_lets(body, env, opaque=None):
    """walk the `let` statements of a straight-line body, binding each name to the Coq reading of its right-hand side
    (names in `opaque` are bound to the given term whatever their right-hand side is).  Returns (env, tail) where tail is
    the source text of the tail expression.  Any other statement raises Untranslatable."""
    env = dict(env)
    opaque = opaque or {}
    stmts = split_statements(body)
    for st in stmts[:-1]:
        if not st or IGNORED.match(st):
            continue
        m = LET.match(st)
        if not m:
            raise Untranslatable("statement outside the accepted subset: %s" % st[:80])
        name, rhs = m.group(1), m.group(2)
        if name in opaque:
            env[name] = opaque[name]
        else:
            env[name] = emit(parse(rhs), env)
    return env, stmts[-1]
