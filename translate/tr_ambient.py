#!/usr/bin/env python3
"""Regenerate coq/Gen/Ambient.v: every read of ambient (non-input) state in the non-test code
of the crate, as (file, function, kind) triples.  Kinds:
  threadrng-construct   ThreadRng::default() / rand::rng() / thread_rng() is created
  threadrng-draw        a value is drawn from it in that function (next_u64, random, sample, ...)
  randomstate-map       a std HashMap/HashSet with the default RandomState is created
  map-iteration         iteration over a HashMap (order depends on RandomState)
  clock                 SystemTime / Instant
  global-state          any static item (mut or not), OnceLock / LazyLock / atomics, thread_local! / lazy_static!
  environment           std::env, thread identity, worker count, process id
  address               pointer formatting or pointer-to-integer casts
The proofs compare this list with the one the models declare."""
import os
import re
import sys

sys.path.insert(0, os.path.dirname(__file__))
from rustexpr import Untranslatable, strip_comments

FILES = ["lib.rs", "densminhash.rs", "exp01.rs", "fyshuffle.rs", "invhash.rs", "jaccard.rs", "maxvaluetrack.rs",
         "nohasher.rs", "setsketcher.rs", "superminhasher.rs", "superminhasher2.rs", "weightedset.rs",
         "probminhasher/mod.rs", "probminhasher/probminhash2.rs", "probminhasher/probminhash3.rs",
         "probminhasher/probminhash3sha.rs", "probminhasher/probordminhash2.rs", "probminhasher/sig.rs"]


def functions(src):
    """yield (name, body) for every fn, plus ('<module>', text outside functions)"""
    out = []
    outside = []
    pos = 0
    for m in re.finditer(r"\bfn\s+([A-Za-z_]\w*)", src):
        if m.start() < pos:
            continue
        try:
            i = src.index("{", m.end())
        except ValueError:
            break
        semi = src.find(";", m.end())
        if semi != -1 and semi < i:      # a declaration without body (trait method)
            continue
        depth = 0
        j = i
        while j < len(src):
            if src[j] == '{':
                depth += 1
            elif src[j] == '}':
                depth -= 1
                if depth == 0:
                    break
            j += 1
        outside.append(src[pos:m.start()])
        out.append((m.group(1), src[i:j + 1]))
        pos = j + 1
    outside.append(src[pos:])
    out.append(("<module>", "\n".join(outside)))
    return out


def kinds(body, rngvars):
    ks = set()
    if re.search(r"ThreadRng::default\(\)|\brand::rng\(\)|\bthread_rng\(\)|(?<![\w:])rng\(\)", body):
        ks.add("threadrng-construct")
    # a draw: from a freshly created thread rng, or from a field / variable that holds one
    for v in rngvars:
        if re.search(r"\b%s\s*\.\s*(next_u64|next_u32|random|random_range|sample|fill_bytes|fill)\b" % re.escape(v), body):
            ks.add("threadrng-draw")
    if re.search(r"(ThreadRng::default\(\)|rand::rng\(\)|thread_rng\(\))\s*\.\s*(next_u64|next_u32|random|sample)", body):
        ks.add("threadrng-draw")
    if re.search(r"\bHash(Map|Set)\s*(::\s*<[^>]*>)?\s*::\s*(new|default|with_capacity)\s*\(", body):
        ks.add("randomstate-map")
    if re.search(r"\bSystemTime\b|\bInstant\b", body):
        ks.add("clock")
    # any process-wide or thread-wide state: static items (mut or not: OnceLock, atomics, mutexes live in plain statics),
    # lazily initialised cells, thread locals
    if re.search(r"\bstatic\s+(?:mut\s+)?[A-Za-z_]\w*\s*:|thread_local!|lazy_static!|\b(?:OnceLock|OnceCell|LazyLock|LazyCell|Lazy)\b|\bAtomic(?:Bool|Usize|Isize|U8|U16|U32|U64|I8|I16|I32|I64|Ptr)\b", body):
        ks.add("global-state")
    # environment and thread identity
    if re.search(r"\bstd::env::|\benv::var\b|\bthread::current\(\)|\bcurrent_num_threads\(\)|\bprocess::id\(\)", body):
        ks.add("environment")
    if re.search(r"\{:p\}|as\s+\*const\s+\w+\s+as\s+usize|as_ptr\(\)\s+as\s+usize", body):
        ks.add("address")
    return ks


def generate(repo):
    rows = []
    for f in FILES:
        path = os.path.join(repo, "src", f)
        if not os.path.exists(path):
            raise Untranslatable("source file %s is missing" % f)
        src = strip_comments(open(path).read()).split("#[cfg(test)]\nmod tests")[0]
        # names that hold a ThreadRng: struct fields and locals of that type / initialised from it
        rngvars = set(re.findall(r"\b(\w+)\s*:\s*ThreadRng\b", src))
        rngvars |= set(re.findall(r"\blet\s+(?:mut\s+)?(\w+)\s*=\s*(?:ThreadRng::default\(\)|rand::rng\(\)|thread_rng\(\))", src))
        rngvars |= set("self." + v for v in list(rngvars))
        for name, body in functions(src):
            for k in sorted(kinds(body, rngvars)):
                rows.append((f, name, k))
    # files in src that are not audited would be a hole
    for root, _, files in os.walk(os.path.join(repo, "src")):
        for fn in files:
            rel = os.path.relpath(os.path.join(root, fn), os.path.join(repo, "src"))
            if fn.endswith(".rs") and rel not in FILES and rel != "verif_hooks.rs":
                raise Untranslatable("source file src/%s is not in the audited list" % rel)
    lines = ["(* GENERATED by translate/tr_ambient.py -- do not edit *)",
             "From Coq Require Import List String.", "Import ListNotations.", "Open Scope string_scope.", "",
             "Definition ambient_reads : list (string * string * string) :=", "  ["]
    lines.append(";\n".join('   ("%s", "%s", "%s")' % r for r in rows))
    lines.append("  ].")
    return "\n".join(lines) + "\n"


if __name__ == "__main__":
    try:
        print(generate(sys.argv[1] if len(sys.argv) > 1 else "/repo"))
    except Untranslatable as ex:
        print("UNTRANSLATABLE:", ex)
        sys.exit(2)
