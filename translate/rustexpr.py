"""A tiny tokenizer / expression parser for the closed subsets of Rust that the
translators accept.  It fails closed: anything outside the grammar raises
Untranslatable, which the driver turns into a broken obligation."""
import re


class Untranslatable(Exception):
    pass


TOKEN_RE = re.compile(r"""
    (?P<ws>\s+|//[^\n]*)
  | (?P<float>\d[\d_]*\.\d*(?:[eE][+-]?\d+)?(?:_?f(?:32|64))?|\d[\d_]*[eE][+-]?\d+|\d[\d_]*_?f(?:32|64))
  | (?P<int>0x[0-9a-fA-F_]+(?:_?[ui](?:8|16|32|64|128|size))?|\d[\d_]*(?:_?[ui](?:8|16|32|64|128|size))?)
  | (?P<id>[A-Za-z_][A-Za-z0-9_]*)
  | (?P<op><<=|>>=|\^=|\+=|-=|\*=|/=|\|=|&=|<<|>>|<=|>=|==|!=|&&|\|\||::|->|=>|\.\.=|\.\.|[-+*/%^!&|=<>.,;:(){}\[\]#?])
""", re.X)


def tokenize(src):
    pos = 0
    out = []
    while pos < len(src):
        m = TOKEN_RE.match(src, pos)
        if not m:
            raise Untranslatable("cannot tokenize at: %r" % src[pos:pos + 30])
        pos = m.end()
        kind = m.lastgroup
        if kind == 'ws':
            continue
        out.append((kind, m.group(kind)))
    return out


def strip_comments(src):
    src = re.sub(r"/\*.*?\*/", " ", src, flags=re.S)
    src = re.sub(r"//[^\n]*", "", src)
    return src


def find_fn_body(src, name):
    """Return (signature, body) source text of `fn name`.  Brace matching on
    comment-stripped text (no string literals with braces in the accepted
    subset; a mismatch fails closed)."""
    m = re.search(r"\bfn\s+" + re.escape(name) + r"\b", src)
    if not m:
        raise Untranslatable("function %s not found" % name)
    i = src.index("{", m.end())
    sig = src[m.start():i]
    depth = 0
    j = i
    while j < len(src):
        if src[j] == '{':
            depth += 1
        elif src[j] == '}':
            depth -= 1
            if depth == 0:
                return sig, src[i + 1:j]
        j += 1
    raise Untranslatable("unbalanced braces in %s" % name)


def int_literal(tok):
    t = re.sub(r"_?[ui](8|16|32|64|128|size)$", "", tok).replace("_", "")
    return int(t, 0)


class Parser:
    """Rust operator precedence (high to low):
       method call / field, unary ! -, as, * / %, + -, << >>, &, ^, |, comparisons."""

    def __init__(self, toks):
        self.toks = toks
        self.i = 0

    def peek(self, k=0):
        if self.i + k < len(self.toks):
            return self.toks[self.i + k]
        return (None, None)

    def next(self):
        t = self.peek()
        self.i += 1
        return t

    def expect(self, val):
        t = self.next()
        if t[1] != val:
            raise Untranslatable("expected %r got %r" % (val, t[1]))

    def at_end(self):
        return self.i >= len(self.toks)

    def expr(self):
        return self.cmp()

    def cmp(self):
        l = self.bor()
        while self.peek()[1] in ('<', '<=', '>', '>=', '==', '!='):
            op = self.next()[1]
            r = self.bor()
            l = ('bin', op, l, r)
        return l

    def bor(self):
        l = self.bxor()
        while self.peek()[1] == '|':
            self.next()
            l = ('bin', '|', l, self.bxor())
        return l

    def bxor(self):
        l = self.band()
        while self.peek()[1] == '^':
            self.next()
            l = ('bin', '^', l, self.band())
        return l

    def band(self):
        l = self.shift()
        while self.peek()[1] == '&':
            self.next()
            l = ('bin', '&', l, self.shift())
        return l

    def shift(self):
        l = self.add()
        while self.peek()[1] in ('<<', '>>'):
            op = self.next()[1]
            l = ('bin', op, l, self.add())
        return l

    def add(self):
        l = self.mul()
        while self.peek()[1] in ('+', '-'):
            op = self.next()[1]
            l = ('bin', op, l, self.mul())
        return l

    def mul(self):
        l = self.cast()
        while self.peek()[1] in ('*', '/', '%'):
            op = self.next()[1]
            l = ('bin', op, l, self.cast())
        return l

    def cast(self):
        l = self.unary()
        while self.peek() == ('id', 'as'):
            self.next()
            ty = self.next()
            if ty[0] != 'id':
                raise Untranslatable("bad cast type")
            l = ('as', l, ty[1])
        return l

    def unary(self):
        if self.peek()[1] == '!':
            self.next()
            return ('un', '!', self.unary())
        if self.peek()[1] == '-':
            self.next()
            return ('un', '-', self.unary())
        return self.postfix()

    def postfix(self):
        e = self.atom()
        while True:
            if self.peek()[1] == '.':
                if self.peek(1)[0] == 'id':
                    self.next()
                    name = self.next()[1]
                    if self.peek()[1] == '(':
                        self.next()
                        args = []
                        while self.peek()[1] != ')':
                            args.append(self.expr())
                            if self.peek()[1] == ',':
                                self.next()
                        self.expect(')')
                        e = ('call', name, e, args)
                    else:
                        e = ('field', e, name)
                else:
                    raise Untranslatable("bad postfix")
            else:
                return e

    def atom(self):
        k, v = self.next()
        if k == 'int':
            return ('int', int_literal(v))
        if k == 'float':
            return ('float', v)
        if k == 'id':
            # path a::b::c
            name = v
            while self.peek()[1] == '::':
                self.next()
                k2, v2 = self.next()
                if k2 != 'id':
                    raise Untranslatable("bad path")
                name += '::' + v2
            if self.peek()[1] == '(':
                self.next()
                args = []
                while self.peek()[1] != ')':
                    args.append(self.expr())
                    if self.peek()[1] == ',':
                        self.next()
                self.expect(')')
                return ('fcall', name, args)
            return ('var', name)
        if v == '(':
            e = self.expr()
            self.expect(')')
            return e
        raise Untranslatable("unexpected token %r" % (v,))


def local_binders(body):
    """names bound by `let [mut] NAME` / `for NAME in` / closure `|NAME|`, in order of first appearance"""
    import re as _re
    out = []
    for m in _re.finditer(r"\blet\s+(?:mut\s+)?([A-Za-z_]\w*)\b|\bfor\s+([A-Za-z_]\w*)\s+in\b|\|\s*([A-Za-z_]\w*)\s*\|", body):
        name = m.group(1) or m.group(2) or m.group(3)
        if name not in out and name != "_":
            out.append(name)
    return out


def canon_locals(body, reference):
    """rename the locals of a function body back to the reference names when it binds the same number of locals in
    the same order (a pure renaming of locals is then invisible to the template matchers); otherwise unchanged"""
    import re as _re
    found = local_binders(body)
    if len(found) != len(reference) or found == list(reference):
        return body
    tmp = {n: "\x00%d\x00" % i for i, n in enumerate(found)}
    for n, t in tmp.items():
        body = _re.sub(r"(?<![\w.])%s(?!\w)" % _re.escape(n), t, body)
    for i, r in enumerate(reference):
        body = body.replace("\x00%d\x00" % i, r)
    return body
