#!/usr/bin/env python3
"""Regenerate coq/Gen/Fields.v: for every sketcher struct that offers reinit / reset (and for
ProbOrdMinHash2's self-clearing hash_set): its fields, the fields its methods mutate, and the
fields its reset function re-establishes.  A field added to a struct, or dropped from a reset,
changes these lists and breaks the obligations of C13."""
import os
import re
import sys

sys.path.insert(0, os.path.dirname(__file__))
from rustexpr import Untranslatable, strip_comments

# (struct, file, reset function, functions that are constructors / resets / verification hooks)
STRUCTS = [
    ("SuperMinHash", "superminhasher.rs", "reinit"),
    ("SuperMinHash2", "superminhasher2.rs", "reinit"),
    ("SetSketcher", "setsketcher.rs", "reinit"),
    ("OptDensMinHash", "densminhash.rs", "reinit"),
    ("RevOptDensMinHash", "densminhash.rs", "reinit"),
    ("ProbMinHash2", "probminhasher/probminhash2.rs", "reset"),
    ("MaxValueTracker", "maxvaluetrack.rs", "reset"),
    ("FYshuffle", "fyshuffle.rs", "reset"),
    ("OrdMinHashStore", "probminhasher/probordminhash2.rs", "reset"),
    ("ProbOrdMinHash2", "probminhasher/probordminhash2.rs", "hash_set"),
]
EXEMPT_FUNCS = {"new", "default", "verif_state", "verif_registers", "verif_selected", "verif_seed", "verif_wyhash_seed"}
MUT_METHODS = r"swap|fill|push|truncate|clear|insert|get_mut|update|update_with_maxtracker|next|reset|sort_unstable|reinit|change_wyhash_seed|create_signature|merge|next_u64|iter_mut|fill_with|resize|extend|extend_from_slice|copy_from_slice|clone_from|as_mut_slice|drain|retain|entry|remove|pop|sort|sort_by_key|chunks_mut|chunks_exact_mut|par_iter_mut"


def balanced(src, i):
    depth = 0
    j = i
    while j < len(src):
        if src[j] == '{':
            depth += 1
        elif src[j] == '}':
            depth -= 1
            if depth == 0:
                return j
        j += 1
    raise Untranslatable("unbalanced braces")


def struct_fields(src, name):
    m = re.search(r"\bstruct\s+" + name + r"\b[^{;]*\{", src)
    if not m:
        raise Untranslatable("struct %s not found" % name)
    j = balanced(src, m.end() - 1)
    body = src[m.end():j]
    fields = re.findall(r"(?:pub(?:\([^)]*\))?\s+)?([a-z_]\w*)\s*:", re.sub(r"#\[[^\]]*\]", "", body))
    return fields


def impl_functions(src, name):
    """functions of all inherent impl blocks of the struct: {fn: body}"""
    out = {}
    for m in re.finditer(r"\bimpl\b[^{;]*?\b" + name + r"\s*(?:<[^{]*?>)?\s*(?:where[^{]*)?\{", src):
        head = src[m.start():m.end()]
        if re.search(r"\bfor\s+" + name + r"\b", head):
            continue   # trait impl (Default etc.) handled like constructors: skip
        j = balanced(src, m.end() - 1)
        body = src[m.end():j]
        for f in re.finditer(r"\bfn\s+([A-Za-z_]\w*)", body):
            try:
                i = body.index("{", f.end())
            except ValueError:
                continue
            k = balanced(body, i)
            out.setdefault(f.group(1), "")
            out[f.group(1)] += body[i:k + 1]
    return out


def drop_conditionals(body):
    """the text of a function body without the blocks of `if` / `else` / `match`: what is executed unconditionally
    (loops are kept).  A field re-established only inside a conditional does not count as reset."""
    out = []
    i = 0
    n = len(body)
    while i < n:
        m = re.compile(r"\b(if|match)\b").search(body, i)
        if not m:
            out.append(body[i:])
            break
        out.append(body[i:m.start()])
        j = body.find("{", m.end())
        if j < 0:
            break
        k = balanced(body, j)
        i = k + 1
        # else / else if chains
        while True:
            m2 = re.compile(r"\s*else\b").match(body, i)
            if not m2:
                break
            j = body.find("{", m2.end())
            if j < 0:
                i = n
                break
            k = balanced(body, j)
            i = k + 1
    return "".join(out)


def mutated(body, fields):
    res = set()
    for f in fields:
        idx = r"(\[(?:[^\[\]]|\[[^\]]*\])*\])?"
        pat = (r"self\s*\.\s*%s\s*%s\s*(=(?!=)|\+=|-=|\*=|\^=|\|=|&=)" % (f, idx),
               r"self\s*\.\s*%s\s*%s\s*\.\s*(%s)\s*\(" % (f, idx, MUT_METHODS),
               r"&mut\s+self\s*\.\s*%s\b" % f)
        if any(re.search(p, body) for p in pat):
            res.add(f)
    return res


def generate(repo):
    rows = []
    for name, file, resetfn in STRUCTS:
        src = strip_comments(open(os.path.join(repo, "src", file)).read()).split("#[cfg(test)]\nmod tests")[0]
        fields = struct_fields(src, name)
        fns = impl_functions(src, name)
        if resetfn not in fns:
            raise Untranslatable("%s::%s not found" % (name, resetfn))
        rbody = fns[resetfn]
        if resetfn == "hash_set":
            # only the clearing prelude counts: everything before the loop over the data
            cut = rbody.find("for (")
            if cut < 0:
                raise Untranslatable("hash_set: loop over the data not found")
            rbody = rbody[:cut]
        reset_fields = mutated(drop_conditionals(rbody), fields)
        mut = set()
        for fn, body in fns.items():
            if fn in EXEMPT_FUNCS or fn == resetfn and resetfn != "hash_set":
                continue
            mut |= mutated(body, fields)
        rows.append((name, fields, sorted(mut), sorted(reset_fields)))
    def sl(xs):
        return "[" + "; ".join('"%s"' % x for x in xs) + "]"
    out = ["(* GENERATED by translate/tr_fields.py -- do not edit *)",
           "From Coq Require Import List String.", "Import ListNotations.", "Open Scope string_scope.", "",
           "(* struct, fields, fields mutated by its methods, fields re-established by its reset *)",
           "Definition struct_fields : list (string * list string * list string * list string) :=", "  ["]
    out.append(";\n".join('   ("%s", %s,\n      %s,\n      %s)' % (n, sl(f), sl(m), sl(r)) for n, f, m, r in rows))
    out.append("  ].")
    return "\n".join(out) + "\n"


if __name__ == "__main__":
    try:
        print(generate(sys.argv[1] if len(sys.argv) > 1 else "/repo"))
    except Untranslatable as ex:
        print("UNTRANSLATABLE:", ex)
        sys.exit(2)
