#!/usr/bin/env python3
"""Regenerate coq/Gen/EstimatorsGen.v: the eight counting Jaccard estimators of
jaccard.rs, superminhasher.rs and superminhasher2.rs as shape records.

Each function body must match one of three closed templates (after removing
comments, trace!/log statements and whitespace); the record keeps which argument
is used at each place of the template, so swapping, dropping or offsetting any of
them is visible either as a different record (caught by the proofs) or as a body
outside the templates (Untranslatable -> broken obligation)."""
import os
import re
import sys

sys.path.insert(0, os.path.dirname(__file__))
from rustexpr import Untranslatable, strip_comments

IDENT = r"(?:self\.)?[A-Za-z_]\w*"


def fn_bodies(src, name):
    """all (signature, body) pairs of `fn name` in order of appearance"""
    res = []
    for m in re.finditer(r"\bfn\s+" + re.escape(name) + r"\b", src):
        i = src.index("{", m.end())
        depth = 0
        j = i
        while j < len(src):
            if src[j] == '{':
                depth += 1
            elif src[j] == '}':
                depth -= 1
                if depth == 0:
                    break
            j += 1
        if depth != 0:
            raise Untranslatable("unbalanced braces in %s" % name)
        res.append((src[m.start():i], src[i + 1:j]))
    return res


def normalise(body):
    body = re.sub(r"(?:log::)?(?:trace|debug|info)!\s*\((?:[^()]|\([^()]*\))*\)\s*;", "", body)
    body = re.sub(r"#\[allow\([^\]]*\)\]", "", body)
    return re.sub(r"\s+", "", body)


T_PANIC = re.compile(
    r"^letsig_size=(?P<c1>ID)\.len\(\);assert_eq!\(sig_size,(?P<c2>ID)\.len\(\)\);"
    r"letmut(?P<cnt>\w+)=0;for(?P<i>\w+)in0\.\.(?P<loop>ID)\.len\(\)\{"
    r"if(?P<l>ID)\[(?P=i)\]==(?P<r>ID)\[(?P=i)\]\{(?P=cnt)\+=1;\}\}"
    r"(?:(?P=cnt)asf64/(?P<d1>ID)\.len\(\)asf64|letjp=(?P=cnt)asf64/(?P<d2>ID)\.len\(\)asf64;Ok\(jp\))$"
    .replace("ID", IDENT))

T_ERR = re.compile(
    r"^if(?P<c1>ID)\.len\(\)!=(?P<c2>ID)\.len\(\)\{returnErr\((?:anyhow!\(\"[^\"]*\"\)|\(\))\);\}"
    r"letmut(?P<cnt>\w+):usize=0;for(?P<i>\w+)in0\.\.(?P<loop>ID)\.len\(\)\{"
    r"if(?P<l>ID)\[(?P=i)\]==(?P<r>ID)\[(?P=i)\]\{(?P=cnt)\+=1;\}\}"
    r"(?:return)?Ok\((?:(?P=cnt)as(?P<t1>f64|f32)/(?P<d1>ID)\.len\(\)as(?P=t1)"
    r"|F::from\((?P=cnt)\)\.unwrap\(\)/F::from\((?P<d2>ID)\.len\(\)\)\.unwrap\(\))\);?$"
    .replace("ID", IDENT))

T_ALIAS = re.compile(r"^(?:return)?(?P<target>\w+)::<F>\((?P<a>ID),(?P<b>ID)\);?$".replace("ID", IDENT))


def params_of(sig):
    """names of the two sketch arguments in order (self.hsketch counts as the first for methods)"""
    i = sig.index("(")
    depth = 0
    j = i
    while j < len(sig):
        if sig[j] == "(":
            depth += 1
        elif sig[j] == ")":
            depth -= 1
            if depth == 0:
                break
        j += 1
    if depth != 0:
        raise Untranslatable("no parameter list")
    ps = [p.strip() for p in sig[i + 1:j].split(",") if p.strip()]
    names = []
    for p in ps:
        if p == "&self":
            names.append("self.hsketch")
        else:
            names.append(p.split(":")[0].strip())
    if len(names) != 2:
        raise Untranslatable("expected two sketch arguments, got %r" % names)
    return names


def arg(name, names):
    if name == names[0]:
        return "ArgA"
    if name == names[1]:
        return "ArgB"
    raise Untranslatable("identifier %s is not one of the two sketches %r" % (name, names))


def shape(sig, body):
    names = params_of(sig)
    nb = normalise(body)
    m = T_PANIC.match(nb)
    if m:
        d = m.group("d1") or m.group("d2")
        return ("rec", "OnMismatchPanic", arg(m.group("c1"), names), arg(m.group("c2"), names),
                arg(m.group("loop"), names), arg(m.group("l"), names), arg(m.group("r"), names),
                arg(d, names), "ResF64")
    m = T_ERR.match(nb)
    if m:
        d = m.group("d1") or m.group("d2")
        res = {"f64": "ResF64", "f32": "ResF32", None: "ResGeneric"}[m.group("t1")]
        return ("rec", "OnMismatchErr", arg(m.group("c1"), names), arg(m.group("c2"), names),
                arg(m.group("loop"), names), arg(m.group("l"), names), arg(m.group("r"), names),
                arg(d, names), res)
    m = T_ALIAS.match(nb)
    if m:
        return ("alias", m.group("target"), arg(m.group("a"), names), arg(m.group("b"), names))
    raise Untranslatable("body outside the estimator templates: %s" % nb[:160])


# (coq name, file, function name, occurrence)
ESTIMATORS = [
    ("jaccard_compute_probminhash_jaccard", "src/jaccard.rs", "compute_probminhash_jaccard", 0),
    ("jaccard_get_jaccard_index_estimate", "src/jaccard.rs", "get_jaccard_index_estimate", 0),
    ("smh_method_get_jaccard_index_estimate", "src/superminhasher.rs", "get_jaccard_index_estimate", 0),
    ("smh_compute_superminhash_jaccard", "src/superminhasher.rs", "compute_superminhash_jaccard", 0),
    ("smh_get_jaccard_index_estimate", "src/superminhasher.rs", "get_jaccard_index_estimate", 1),
    ("smh2_method_get_jaccard_index_estimate", "src/superminhasher2.rs", "get_jaccard_index_estimate", 0),
    ("smh2_compute_superminhash_jaccard", "src/superminhasher2.rs", "compute_superminhash_jaccard", 0),
    ("smh2_get_jaccard_index_estimate", "src/superminhasher2.rs", "get_jaccard_index_estimate", 1),
]


def generate(repo, only=None, listname="generated_estimators"):
    """only: restrict to the estimators of these source files (a per-property group)"""
    ESTS = [e for e in ESTIMATORS if only is None or e[1] in only or e[0] in only]
    out = ["(* GENERATED by translate/tr_estimators.py -- do not edit *)",
           "From Coq Require Import List String.", "From PMH Require Import Model.Estimators.",
           "Import ListNotations.", "Open Scope string_scope.", ""]
    cache = {}
    recs = {}
    for coqname, path, fn, occ in ESTS:
        if path not in cache:
            src = strip_comments(open(os.path.join(repo, path)).read())
            cache[path] = src.split("#[cfg(test)]\nmod tests")[0]
        bodies = fn_bodies(cache[path], fn)
        if len(bodies) <= occ:
            raise Untranslatable("%s: occurrence %d of fn %s not found" % (path, occ, fn))
        recs[coqname] = (path, fn, shape(*bodies[occ]))
    for coqname, path, fn, occ in ESTS:
        sh = recs[coqname][2]
        if sh[0] == "alias":
            # resolve inside the same file
            target = None
            for c2, p2, f2, o2 in ESTS:
                if p2 == path and f2 == sh[1] and recs[c2][2][0] == "rec":
                    target = c2
            if target is None:
                raise Untranslatable("alias target %s not found" % sh[1])
            out.append("Definition est_%s : estimator := est_alias est_%s %s %s." % (coqname, target, sh[2], sh[3]))
        else:
            _, pol, c1, c2, loop, l, r, d, res = sh
            out.append("Definition est_%s : estimator :=\n  {| e_policy := %s; e_chk_l := %s; e_chk_r := %s; "
                       "e_loop := %s; e_lhs := %s; e_rhs := %s; e_div := %s; e_res := %s |}."
                       % (coqname, pol, c1, c2, loop, l, r, d, res))
    # aliases must be emitted after their targets: reorder so records come first
    defs = [l for l in out if l.startswith("Definition") and "est_alias" not in l]
    als = [l for l in out if l.startswith("Definition") and "est_alias" in l]
    head = [l for l in out if not l.startswith("Definition")]
    out = head + defs + als
    out.append("")
    out.append("Definition %s : list (string * estimator) :=\n  [" % listname +
               ";\n   ".join('("%s", est_%s)' % (c, c) for c, _, _, _ in ESTS) + "].")
    return "\n".join(out) + "\n"


def write_if_changed(path, txt):
    old = open(path).read() if os.path.exists(path) else None
    if old != txt:
        os.makedirs(os.path.dirname(path), exist_ok=True)
        open(path, "w").write(txt)


if __name__ == "__main__":
    repo = sys.argv[1] if len(sys.argv) > 1 else "/repo"
    try:
        print(generate(repo))
    except Untranslatable as e:
        print("UNTRANSLATABLE: %s" % e)
        sys.exit(2)
