//! C07 / C06: implementation-level clauses about the Jaccard bounds and the cardinality estimator.
use crate::util::*;
use fnv::FnvHasher;
use probminhash::setsketcher::*;
use serde_json::{json, Value};
use std::hash::BuildHasherDefault;
use std::panic::{catch_unwind, AssertUnwindSafe};

fn pb(b: f64, x: f64) -> f64 {
    -(1. - x * (b - 1.) / b).ln() / (b - 1.).ln_1p()
}

pub fn bounds(args: &[String]) {
    let seed = arg_u64(args, "--seed", 1);
    let n = arg_u64(args, "--n", 10000);
    std::panic::set_hook(Box::new(|_| {}));
    let mut rng = SplitMix64::new(seed ^ 0xC07);
    let mut found: Vec<Value> = Vec::new();
    let mut keys: Vec<String> = Vec::new();
    let mut add = |key: &str, text: String, input: Value| {
        if !keys.contains(&key.to_string()) { keys.push(key.to_string()); found.push(json!({"key": key, "text": text, "input": input})); }
    };
    let mut tried = 0u64;
    let mut max_excess = 0.0f64;
    // the recorded witness first, then a sweep
    let mut pairs: Vec<(f64, f64)> = vec![(1.001, 0.9999999), (1.1, 0.9999999), (1.00001, 0.999983)];
    for _ in 0..n {
        crate::util::tick_idx(0, serde_json::Value::Null);
        let b = match rng.below(4) { 0 => 1.001, 1 => 2.0, 2 => 1. + (10f64).powf(-rng.unit() * 6.), _ => 1. + rng.unit() };
        let jac = match rng.below(5) { 0 => 1.0 - (10f64).powf(-rng.unit() * 12.), 1 => (10f64).powf(-rng.unit() * 12.), 2 => 0.0, 3 => 1.0, _ => rng.unit() };
        pairs.push((b, jac));
    }
    for (b, jac) in pairs {
        tried += 1;
        let p = SetSketchParams::new(b, 4096, 20., 65534);
        match catch_unwind(AssertUnwindSafe(|| p.get_jaccard_bounds(jac))) {
            Err(_) => add("bounds-panic", format!("get_jaccard_bounds({:e}) aborts for b = {}", jac, b), json!({"b": b, "jac": jac})),
            Ok((lo, hi)) => {
                if !(lo <= hi + 1e-9) || lo.is_nan() || hi.is_nan() {
                    add("bounds-order", format!("get_jaccard_bounds({}) for b = {} returns lower {} above upper {}", jac, b, lo, hi), json!({"b": b, "jac": jac}));
                }
            }
        }
    }
    // containment of the true Jaccard index for the collision probability of (u, v, J)
    for _ in 0..n {
        crate::util::tick_idx(0, serde_json::Value::Null);
        let b = match rng.below(3) { 0 => 1.001, 1 => 2.0, _ => 1. + rng.unit() };
        let u = match rng.below(3) { 0 => 0.5, 1 => (10f64).powf(-rng.unit() * 6.), _ => rng.unit().max(1e-9) };
        let v = 1. - u;
        if v <= 0. { continue; }
        let jmax = (u / v).min(v / u);
        let j = jmax * match rng.below(3) { 0 => 0.0, 1 => 1.0, _ => rng.unit() };
        let p = 1. - pb(b, u - v * j) - pb(b, v - u * j);
        tried += 1;
        let prm = SetSketchParams::new(b, 4096, 20., 65534);
        match catch_unwind(AssertUnwindSafe(|| prm.get_jaccard_bounds(p.min(1.0).max(0.0)))) {
            Err(_) => add("bounds-panic", format!("get_jaccard_bounds aborts for the collision probability {} of u={}, J={}, b={}", p, u, j, b), json!({"b": b, "u": u, "J": j})),
            Ok((lo, hi)) => {
                let ex = (lo - j).max(j - hi);
                if ex > max_excess { max_excess = ex; }
                if ex > 1e-4 {
                    add("bounds-contain", format!("bounds [{}, {}] for b={}, u={} miss the true Jaccard index {} by {:e}", lo, hi, b, u, j, ex), json!({"b": b, "u": u, "J": j, "p": p}));
                }
            }
        }
    }
    // the fraction of equal registers between two sketches must not depend on what the sketchers saw before a reinit
    for round in 0..(n / 500).max(4) {
        crate::util::tick_idx(round, serde_json::Value::Null);
        let m = [16u64, 100, 1001][rng.below(3) as usize];
        let (b, a, q) = [(1.001f64, 20f64, 65534u64), (1.5, 20., 100), (2.0, 20., 62)][rng.below(3) as usize];
        let params = SetSketchParams::new(b, m, a, q);
        let base = rng.next_u64() >> 8;
        let big = 20000u64;
        let (na, nb, both) = (300u64, 300u64, 150u64);
        let mk = |recycle: bool, lo: u64, hi: u64| {
            let mut s = SetSketcher::<u16, u64, FnvHasher>::new(params, BuildHasherDefault::<FnvHasher>::default());
            if recycle {
                for i in 0..big { s.sketch(&(base + 1_000_000 + i)).unwrap(); }
                s.reinit();
            }
            for i in lo..hi { s.sketch(&(base + i)).unwrap(); }
            s.get_signature().clone()
        };
        let (fa, fb) = (mk(false, 0, na), mk(false, na - both, na - both + nb));
        let (ra, rb) = (mk(true, 0, na), mk(true, na - both, na - both + nb));
        let frac = |x: &Vec<u16>, y: &Vec<u16>| probminhash::jaccard::get_jaccard_index_estimate(x, y).unwrap_or(-1.0);
        tried += 1;
        if frac(&fa, &fb).to_bits() != frac(&ra, &rb).to_bits() {
            add("collisions-after-reinit", format!("fraction of equal registers {} between two recycled sketchers (20000 items, reinit) vs {} between new ones, same sets of 300 items with 150 common (m={}, b={})",
                frac(&ra, &rb), frac(&fa, &fb), m, b), json!({"m": m, "b": b, "a": a, "q": q, "base": base, "sets": [[0, na], [na - both, na - both + nb]], "before_reinit": [1_000_000, big]}));
        }
        // identical sketches collide everywhere
        if frac(&fa, &fa) != 1.0 {
            add("collisions-identical", format!("fraction of equal registers of a sketch with itself is {} (m={})", frac(&fa, &fa), m), json!({"m": m, "b": b, "base": base, "set": [0, na]}));
        }
    }
    // tiny sketches: two different single items almost never give equal registers (probability about b^-k summed over
    // the register law, far below 1/2 for every parameter tuple used here); 50 pairs, at least half colliding is reported
    for (m, b) in [(1u64, 1.001f64), (2, 1.001), (1, 2.0), (3, 1.2)] {
        let params = SetSketchParams::new(b, m, 20., if b > 1.5 { 62 } else { 65534 });
        let mut coll = 0u64;
        let mut total = 0u64;
        let base = rng.next_u64() >> 8;
        for t in 0..50u64 {
            crate::util::tick_idx(t, serde_json::Value::Null);
            let mut s1 = SetSketcher::<u16, u64, FnvHasher>::new(params, BuildHasherDefault::<FnvHasher>::default());
            let mut s2 = SetSketcher::<u16, u64, FnvHasher>::new(params, BuildHasherDefault::<FnvHasher>::default());
            s1.sketch(&(base + 2 * t)).unwrap();
            s2.sketch(&(base + 2 * t + 1)).unwrap();
            for k in 0..m as usize {
                total += 1;
                if s1.get_signature()[k] == s2.get_signature()[k] { coll += 1; }
            }
        }
        tried += 1;
        if b < 1.5 && 2 * coll >= total {
            add("collisions-disjoint-singletons", format!("two different single items give equal registers at {} of {} positions (m={}, b={}): the registers do not depend on the item", coll, total, m, b),
                json!({"m": m, "b": b, "a": 20, "items": [base, base + 1], "pairs": 50}));
        }
    }
    crate::util::wd_pause();
    println!("{}", json!({"tried": tried, "found": found, "max_excess": max_excess}));
}

pub fn card(args: &[String]) {
    let seed = arg_u64(args, "--seed", 1);
    let n = arg_u64(args, "--n", 60);
    std::panic::set_hook(Box::new(|_| {}));
    let mut rng = SplitMix64::new(seed ^ 0xC06);
    let mut found: Vec<Value> = Vec::new();
    let mut keys: Vec<String> = Vec::new();
    let mut add = |key: &str, text: String, input: Value| {
        if !keys.contains(&key.to_string()) { keys.push(key.to_string()); found.push(json!({"key": key, "text": text, "input": input})); }
    };
    let mut tried = 0u64;
    let mut obs: Vec<Value> = Vec::new();
    for round in 0..n {
        crate::util::tick_idx(round as u64, serde_json::Value::Null);
        let m = [16u64, 64, 256, 1024][rng.below(4) as usize];
        // the last two bases need registers beyond 16 bits
        let (b, a, q) = [(1.001f64, 20f64, 65534u64), (1.2, 20., 400), (2.0, 20., 62), (1.0001, 20., 1048574), (1.00001, 20., 4194304)][rng.below(5) as usize];
        let params = SetSketchParams::new(b, m, a, q);
        let mut s = SetSketcher::<u32, u64, FnvHasher>::new(params, BuildHasherDefault::<FnvHasher>::default());
        let mle = MleJaccard::from(params);
        let card = [1u64, 10, 1000, 20000][rng.below(4) as usize] * rng.range(1, 9);
        let base = rng.next_u64() >> 8;
        let mut prev = 0.0f64;
        tried += 1;
        let step = (card / 50).max(1);
        for i in 0..card {
            s.sketch(&(base + i)).unwrap();
            if i % 3 == 0 { s.sketch(&(base + i / 2)).unwrap(); } // repeated items
            if i % step == 0 || i + 1 == card {
                let (c, rsd) = s.get_cardinal_stats();
                if !(c >= prev) {
                    add("card-decrease", format!("the cardinality estimate went from {} to {} when an item was added (m={}, b={})", prev, c, m, b), json!({"m": m, "b": b, "base": base, "i": i}));
                }
                prev = c;
                let cp = mle.get_cardinal_estimate(s.get_signature());
                if (cp - c).abs() > 1e-9 * c.abs() {
                    add("card-parallel", format!("parallel estimator {} differs from the sketcher's estimate {} (m={}, b={})", cp, c, m, b), json!({"m": m, "b": b, "base": base, "i": i}));
                }
                if i + 1 == card && round < 40 {
                    obs.push(json!({"m": m, "b": b, "n": card, "estimate": c, "rel_err": (c - card as f64) / card as f64, "advertised_rsd": rsd}));
                }
            }
        }
        // a recycled sketcher (reinit after the stream above) must estimate a second, smaller set exactly like a new one
        {
            let n2 = (card / 40).max(1);
            let mut recycled = SetSketcher::<u32, u64, FnvHasher>::new(params, BuildHasherDefault::<FnvHasher>::default());
            for i in 0..card { recycled.sketch(&(base + i)).unwrap(); }
            recycled.reinit();
            let mut fresh = SetSketcher::<u32, u64, FnvHasher>::new(params, BuildHasherDefault::<FnvHasher>::default());
            for i in 0..n2 { recycled.sketch(&(base + 7 * card + i)).unwrap(); fresh.sketch(&(base + 7 * card + i)).unwrap(); }
            let (c1, c2) = (recycled.get_cardinal_stats().0, fresh.get_cardinal_stats().0);
            if c1.to_bits() != c2.to_bits() {
                add("card-after-reinit", format!("after {} items and reinit, the estimate of a {}-item set is {} on the recycled sketcher and {} on a new one (m={}, b={})", card, n2, c1, c2, m, b),
                    json!({"m": m, "b": b, "a": a, "q": q, "first": {"base": base, "n": card}, "second": {"base": base + 7 * card, "n": n2}}));
            }
        }
        // an accumulator that only ever receives merges: the estimate never decreases, whatever the order of the pieces
        {
            let mut acc = SetSketcher::<u32, u64, FnvHasher>::new(params, BuildHasherDefault::<FnvHasher>::default());
            let sizes = [card, (card / 3).max(1), (card / 10).max(1), 1];
            let mut before = 0.0f64;
            let mut off = 0u64;
            for (pi, sz) in sizes.iter().enumerate() {
                let mut piece = SetSketcher::<u32, u64, FnvHasher>::new(params, BuildHasherDefault::<FnvHasher>::default());
                for i in 0..*sz { piece.sketch(&(base + 3 * card + off + i)).unwrap(); }
                off += *sz;
                acc.merge(&piece).unwrap();
                let now = acc.get_cardinal_stats().0;
                if !(now >= before) {
                    add("card-decrease-merge", format!("an accumulator that only receives merges: the estimate went from {} to {} when piece {} ({} items) was merged in (m={}, b={})", before, now, pi, sz, m, b),
                        json!({"m": m, "b": b, "a": a, "q": q, "pieces": sizes, "base": base + 3 * card}));
                }
                before = now;
            }
        }
        // merging never decreases the estimate
        let mut o = SetSketcher::<u32, u64, FnvHasher>::new(params, BuildHasherDefault::<FnvHasher>::default());
        for i in 0..(card / 2 + 1) { o.sketch(&(base + card + i)).unwrap(); }
        let before = s.get_cardinal_stats().0;
        s.merge(&o).unwrap();
        let after = s.get_cardinal_stats().0;
        if !(after >= before) {
            add("card-decrease-merge", format!("the cardinality estimate went from {} to {} by a merge (m={}, b={})", before, after, m, b), json!({"m": m, "b": b, "base": base}));
        }
    }
    crate::util::wd_pause();
    for (m, n) in [(4096u64, 300_000u64), (1024, 100_000)] {
        crate::util::tick_idx(0, json!({"m": m, "n": n}));
        let params = SetSketchParams::new(1.001, m, 20., 65534);
        let mut s = SetSketcher::<u16, u64, FnvHasher>::new(params, BuildHasherDefault::<FnvHasher>::default());
        let base = rng.next_u64() >> 8;
        for i in 0..n { s.sketch(&(base + i)).unwrap(); }
        let (c, rsd) = s.get_cardinal_stats();
        tried += 1;
        if !((c - n as f64).abs() <= 6.0 * rsd * n as f64) {
            add("card-accuracy", format!("SetSketch estimate {} for {} distinct items (m={}, b=1.001): off by {:.1} advertised standard deviations", c, n, m, (c - n as f64) / (rsd * n as f64)),
                json!({"m": m, "b": 1.001, "a": 20, "q": 65534, "items": format!("{}..{}", base, base + n)}));
        }
    }
    println!("{}", json!({"tried": tried, "found": found, "observations": obs}));
}


/// search aid for C06 (only after an obligation broke): mean relative error of the estimate for small cardinalities
/// against the property's allowance (twice the square of the advertised relative standard deviation) plus 6 standard errors
pub fn card_mc(args: &[String]) {
    let seed = arg_u64(args, "--seed", 1);
    let trials = arg_u64(args, "--trials", 400);
    let mut rng = SplitMix64::new(seed ^ 0xC06AA);
    let mut found: Vec<Value> = Vec::new();
    for m in [256u64, 4096] {
        for n in [1u64, 2, 5, 20, 200] {
            let params = SetSketchParams::new(1.001, m, 20., 65534);
            let mut sum = 0.0f64;
            let mut rsd = 0.0f64;
            for t in 0..trials {
                crate::util::tick_idx(t, json!({"m": m, "n": n}));
                let mut s = SetSketcher::<u16, u64, FnvHasher>::new(params, BuildHasherDefault::<FnvHasher>::default());
                for _ in 0..n { s.sketch(&(rng.next_u64() >> 4)).unwrap(); }
                let (c, r) = s.get_cardinal_stats();
                sum += (c - n as f64) / n as f64;
                rsd = r;
            }
            let mean = sum / trials as f64;
            let allowed = 2. * rsd * rsd + 6. * rsd / (trials as f64).sqrt();
            if mean.abs() > allowed {
                found.push(json!({"m": m, "n": n, "b": 1.001, "mean_rel_err": mean, "allowed": allowed, "advertised_rsd": rsd, "trials": trials, "seed": seed}));
            }
        }
    }
    // other bases and register widths: b = 1.05 and b = 2 (u16), and a base very close to 1 with u32 registers
    macro_rules! bias_of {
        ($I:ty, $b:expr, $q:expr, $m:expr, $n:expr, $tr:expr) => {{
            let params = SetSketchParams::new($b, $m, 20., $q);
            let mut sum = 0.0f64;
            let mut rsd = 0.0f64;
            for t in 0..$tr {
                crate::util::tick_idx(t, json!({"m": $m, "n": $n, "b": $b}));
                let mut s = SetSketcher::<$I, u64, FnvHasher>::new(params, BuildHasherDefault::<FnvHasher>::default());
                for _ in 0..$n { s.sketch(&(rng.next_u64() >> 4)).unwrap(); }
                let (c, r) = s.get_cardinal_stats();
                sum += (c - $n as f64) / $n as f64;
                rsd = r;
            }
            let mean = sum / $tr as f64;
            let allowed = 2. * rsd * rsd + 6. * rsd / ($tr as f64).sqrt();
            if mean.abs() > allowed {
                found.push(json!({"m": $m, "n": $n, "b": $b, "q": $q, "registers": stringify!($I), "mean_rel_err": mean, "allowed": allowed, "advertised_rsd": rsd, "trials": $tr, "seed": seed}));
            }
        }};
    }
    for n in [3u64, 100, 3000] {
        bias_of!(u16, 1.05f64, 65534u64, 1024u64, n, trials);
        bias_of!(u16, 2.0f64, 60u64, 1024u64, n, trials);
    }
    for n in [300u64, 30000] {
        bias_of!(u32, 1.00001f64, 4194304u64, 4096u64, n, trials.min(150));
    }
    crate::util::wd_pause();
    println!("{}", json!({"found": found}));
}

/// search aid for C07 (only after an obligation broke): the average fraction of equal registers of two sets against
/// the exact collision probability of the SetSketch model (registers floor(1 - log_b X) of exponential minima with
/// rates a|A\\B|, a|B\\A|, a|A n B|, clipped to [0, q+1]); |z| > 6 only
fn coll_model(b: f64, a: f64, q: u64, na: f64, nb: f64, nc: f64) -> f64 {
    let top = q + 1;
    let lnb = b.ln();
    let s = |ta: f64, tb: f64| -> f64 { (-a * (na * ta + nb * tb + nc * ta.max(tb))).exp() };
    let mut p = s(1., 1.);
    for k in 1..=top {
        let hi = (-(k as f64 - 1.) * lnb).exp();
        let lo = if k == top { 0. } else { (-(k as f64) * lnb).exp() };
        p += s(lo, lo) - s(hi, lo) - s(lo, hi) + s(hi, hi);
    }
    p
}
pub fn coll_mc(args: &[String]) {
    let seed = arg_u64(args, "--seed", 1);
    let scale = arg_u64(args, "--trials", 400) as usize;
    let mut rng = SplitMix64::new(seed ^ 0xC07BB);
    let mut rows: Vec<Value> = Vec::new();
    let a = 20.0f64;
    for (b, q, m, na, nb, nc, tr) in [(2.0f64, 60u64, 64u64, 3usize, 3usize, 0usize, 10 * scale), (2.0, 60, 64, 5, 5, 5, 10 * scale),
                                      (1.001, 65534, 256, 10, 10, 10, 3 * scale), (2.0, 60, 64, 50, 50, 0, 3 * scale),
                                      (2.0, 60, 64, 500, 500, 500, scale), (2.0, 60, 256, 2000, 2000, 0, scale / 2),
                                      (1.5, 100, 64, 1000, 3000, 1000, scale / 2), (1.2, 250, 32, 2000, 2000, 2000, scale / 2)] {
        let params = SetSketchParams::new(b, m, a, q);
        let mut sa = SetSketcher::<u32, u64, FnvHasher>::new(params, BuildHasherDefault::<FnvHasher>::default());
        let mut sb = SetSketcher::<u32, u64, FnvHasher>::new(params, BuildHasherDefault::<FnvHasher>::default());
        let (mut sum, mut sum2) = (0f64, 0f64);
        for t in 0..tr {
            crate::util::tick_idx(t as u64, json!({"b": b, "m": m, "na": na, "nb": nb, "nc": nc}));
            sa.reinit();
            sb.reinit();
            for _ in 0..na { sa.sketch(&rng.next_u64()).unwrap(); }
            for _ in 0..nb { sb.sketch(&rng.next_u64()).unwrap(); }
            for _ in 0..nc { let x = rng.next_u64(); sa.sketch(&x).unwrap(); sb.sketch(&x).unwrap(); }
            let eq = sa.get_signature().iter().zip(sb.get_signature().iter()).filter(|(x, y)| x == y).count();
            let f = eq as f64 / m as f64;
            sum += f;
            sum2 += f * f;
        }
        let t = tr as f64;
        let mean = sum / t;
        let var = (sum2 / t - mean * mean).max(0.) * t / (t - 1.);
        let se = (var / t).sqrt().max(1e-12);
        let p = coll_model(b, a, q, na as f64, nb as f64, nc as f64);
        rows.push(json!({"b": b, "q": q, "m": m, "a_only": na, "b_only": nb, "both": nc, "trials": tr, "mean": mean, "p": p, "z": (mean - p) / se, "seed": seed}));
    }
    crate::util::wd_pause();
    println!("{}", json!({"rows": rows}));
}
