//! C07 / C06: implementation-level clauses about the Jaccard bounds and the cardinality estimator.
use crate::util::*;
use fnv::FnvHasher;
use probminhash::setsketcher::*;
use serde_json::{json, Value};
use std::hash::BuildHasherDefault;
use std::panic::{catch_unwind, AssertUnwindSafe};

fn pb(b: f64, x: f64) -> f64 {
    -(1. - x * (b - 1.) / b).ln() / (b - 1.).ln_1p()
}

pub fn bounds(args: &[String]) {
    let seed = arg_u64(args, "--seed", 1);
    let n = arg_u64(args, "--n", 10000);
    std::panic::set_hook(Box::new(|_| {}));
    let mut rng = SplitMix64::new(seed ^ 0xC07);
    let mut found: Vec<Value> = Vec::new();
    let mut keys: Vec<String> = Vec::new();
    let mut add = |key: &str, text: String, input: Value| {
        if !keys.contains(&key.to_string()) { keys.push(key.to_string()); found.push(json!({"key": key, "text": text, "input": input})); }
    };
    let mut tried = 0u64;
    let mut max_excess = 0.0f64;
    // the recorded witness first, then a sweep
    let mut pairs: Vec<(f64, f64)> = vec![(1.001, 0.9999999), (1.1, 0.9999999), (1.00001, 0.999983)];
    for _ in 0..n {
        let b = match rng.below(4) { 0 => 1.001, 1 => 2.0, 2 => 1. + (10f64).powf(-rng.unit() * 6.), _ => 1. + rng.unit() };
        let jac = match rng.below(5) { 0 => 1.0 - (10f64).powf(-rng.unit() * 12.), 1 => (10f64).powf(-rng.unit() * 12.), 2 => 0.0, 3 => 1.0, _ => rng.unit() };
        pairs.push((b, jac));
    }
    for (b, jac) in pairs {
        tried += 1;
        let p = SetSketchParams::new(b, 4096, 20., 65534);
        match catch_unwind(AssertUnwindSafe(|| p.get_jaccard_bounds(jac))) {
            Err(_) => add("bounds-panic", format!("get_jaccard_bounds({:e}) aborts for b = {}", jac, b), json!({"b": b, "jac": jac})),
            Ok((lo, hi)) => {
                if !(lo <= hi + 1e-9) || lo.is_nan() || hi.is_nan() {
                    add("bounds-order", format!("get_jaccard_bounds({}) for b = {} returns lower {} above upper {}", jac, b, lo, hi), json!({"b": b, "jac": jac}));
                }
            }
        }
    }
    // containment of the true Jaccard index for the collision probability of (u, v, J)
    for _ in 0..n {
        let b = match rng.below(3) { 0 => 1.001, 1 => 2.0, _ => 1. + rng.unit() };
        let u = match rng.below(3) { 0 => 0.5, 1 => (10f64).powf(-rng.unit() * 6.), _ => rng.unit().max(1e-9) };
        let v = 1. - u;
        if v <= 0. { continue; }
        let jmax = (u / v).min(v / u);
        let j = jmax * match rng.below(3) { 0 => 0.0, 1 => 1.0, _ => rng.unit() };
        let p = 1. - pb(b, u - v * j) - pb(b, v - u * j);
        tried += 1;
        let prm = SetSketchParams::new(b, 4096, 20., 65534);
        match catch_unwind(AssertUnwindSafe(|| prm.get_jaccard_bounds(p.min(1.0).max(0.0)))) {
            Err(_) => add("bounds-panic", format!("get_jaccard_bounds aborts for the collision probability {} of u={}, J={}, b={}", p, u, j, b), json!({"b": b, "u": u, "J": j})),
            Ok((lo, hi)) => {
                let ex = (lo - j).max(j - hi);
                if ex > max_excess { max_excess = ex; }
                if ex > 1e-4 {
                    add("bounds-contain", format!("bounds [{}, {}] for b={}, u={} miss the true Jaccard index {} by {:e}", lo, hi, b, u, j, ex), json!({"b": b, "u": u, "J": j, "p": p}));
                }
            }
        }
    }
    println!("{}", json!({"tried": tried, "found": found, "max_excess": max_excess}));
}

pub fn card(args: &[String]) {
    let seed = arg_u64(args, "--seed", 1);
    let n = arg_u64(args, "--n", 60);
    std::panic::set_hook(Box::new(|_| {}));
    let mut rng = SplitMix64::new(seed ^ 0xC06);
    let mut found: Vec<Value> = Vec::new();
    let mut keys: Vec<String> = Vec::new();
    let mut add = |key: &str, text: String, input: Value| {
        if !keys.contains(&key.to_string()) { keys.push(key.to_string()); found.push(json!({"key": key, "text": text, "input": input})); }
    };
    let mut tried = 0u64;
    let mut obs: Vec<Value> = Vec::new();
    for round in 0..n {
        let m = [16u64, 64, 256, 1024][rng.below(4) as usize];
        let (b, a, q) = [(1.001f64, 20f64, 65534u64), (1.2, 20., 400), (2.0, 20., 62)][rng.below(3) as usize];
        let params = SetSketchParams::new(b, m, a, q);
        let mut s = SetSketcher::<u32, u64, FnvHasher>::new(params, BuildHasherDefault::<FnvHasher>::default());
        let mle = MleJaccard::from(params);
        let card = [1u64, 10, 1000, 20000][rng.below(4) as usize] * rng.range(1, 9);
        let base = rng.next_u64() >> 8;
        let mut prev = 0.0f64;
        tried += 1;
        let step = (card / 50).max(1);
        for i in 0..card {
            s.sketch(&(base + i)).unwrap();
            if i % 3 == 0 { s.sketch(&(base + i / 2)).unwrap(); } // repeated items
            if i % step == 0 || i + 1 == card {
                let (c, rsd) = s.get_cardinal_stats();
                if !(c >= prev) {
                    add("card-decrease", format!("the cardinality estimate went from {} to {} when an item was added (m={}, b={})", prev, c, m, b), json!({"m": m, "b": b, "base": base, "i": i}));
                }
                prev = c;
                let cp = mle.get_cardinal_estimate(s.get_signature());
                if (cp - c).abs() > 1e-9 * c.abs() {
                    add("card-parallel", format!("parallel estimator {} differs from the sketcher's estimate {} (m={}, b={})", cp, c, m, b), json!({"m": m, "b": b, "base": base, "i": i}));
                }
                if i + 1 == card && round < 40 {
                    obs.push(json!({"m": m, "b": b, "n": card, "estimate": c, "rel_err": (c - card as f64) / card as f64, "advertised_rsd": rsd}));
                }
            }
        }
        // merging never decreases the estimate
        let mut o = SetSketcher::<u32, u64, FnvHasher>::new(params, BuildHasherDefault::<FnvHasher>::default());
        for i in 0..(card / 2 + 1) { o.sketch(&(base + card + i)).unwrap(); }
        let before = s.get_cardinal_stats().0;
        s.merge(&o).unwrap();
        let after = s.get_cardinal_stats().0;
        if !(after >= before) {
            add("card-decrease-merge", format!("the cardinality estimate went from {} to {} by a merge (m={}, b={})", before, after, m, b), json!({"m": m, "b": b, "base": base}));
        }
    }
    println!("{}", json!({"tried": tried, "found": found, "observations": obs}));
}
