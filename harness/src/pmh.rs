//! C02 / C01 / C13: ProbMinHash 2, 3, 3a, 3aSha on generated weighted sets; every item's
//! draw script is produced by re-seeding the same generator and calling the crate's samplers.
use crate::util::*;
use fnv::FnvHasher;
use indexmap::IndexMap;
use probminhash::exp01::ExpRestricted01;
use probminhash::fyshuffle::FYshuffle;
use probminhash::probminhasher::sig::Sig;
use probminhash::probminhasher::*;
use probminhash::weightedset::WeightedSet;
use rand::distr::{Distribution, Uniform};
use rand::prelude::*;
use rand_distr::Exp1;
use rand_xoshiro::Xoshiro256PlusPlus;
use serde_json::{json, Value};
use sha2::{Digest, Sha512_256};
use std::collections::HashMap;
use std::hash::{BuildHasher, BuildHasherDefault, Hasher};
use std::panic::{catch_unwind, AssertUnwindSafe};

/// a hasher that maps ids to one of four seeds: distinct items share their whole point stream
#[derive(Default)]
pub struct CollideHasher(u64);
impl Hasher for CollideHasher {
    fn write(&mut self, bytes: &[u8]) {
        let mut v = 0u64;
        for (i, b) in bytes.iter().enumerate().take(8) {
            v |= (*b as u64) << (8 * i);
        }
        self.0 = v % 4;
    }
    fn finish(&self) -> u64 {
        self.0
    }
}

pub const INIT: u64 = u64::MAX; // placeholder object in every signature

fn seed_of(id: u64, hasher: &str) -> [u8; 32] {
    // only used for the Sha variant
    let _ = hasher;
    let mut h = Sha512_256::new();
    h.update(&id.get_sig());
    let d = h.finalize();
    let mut s = [0u8; 32];
    s.copy_from_slice(&d.as_slice()[..32]);
    s
}

fn rng_for(id: u64, hasher: &str) -> Xoshiro256PlusPlus {
    match hasher {
        "fnv" => Xoshiro256PlusPlus::seed_from_u64(BuildHasherDefault::<FnvHasher>::default().hash_one(&id)),
        "collide" => Xoshiro256PlusPlus::seed_from_u64(BuildHasherDefault::<CollideHasher>::default().hash_one(&id)),
        _ => Xoshiro256PlusPlus::from_seed(seed_of(id, hasher)),
    }
}

/// points (h, k, lbn) of an item for variants 3 / 3a / 3aSha
pub fn script3(id: u64, w: f64, m: usize, hasher: &str, n: usize) -> Vec<(u64, usize, u64)> {
    let lambda = ((m as f64) / ((m - 1) as f64)).ln();
    let exp01 = ExpRestricted01::new(lambda);
    let unif0m = Uniform::<usize>::new(0, m).unwrap();
    let winv = 1. / w;
    let mut rng = rng_for(id, hasher);
    let mut pts = Vec::with_capacity(n);
    let mut h = winv * exp01.sample(&mut rng);
    for i in 1..=n {
        let k = unif0m.sample(&mut rng);
        let lbn = winv * i as f64;
        pts.push((h.to_bits(), k, lbn.to_bits()));
        h = lbn;
        h += winv * exp01.sample(&mut rng);
    }
    pts
}

/// points (h, k) of an item for variant 2 (exactly m points)
pub fn script2(id: u64, w: f64, m: usize, hasher: &str) -> Vec<(u64, usize)> {
    let winv: f64 = 1. / w;
    let mut rng = rng_for(id, hasher);
    let mut fy = FYshuffle::new(m);
    fy.reset();
    let betas: Vec<f64> = (0..m).map(|x| (m as f64) / (m - x - 1) as f64).collect();
    let x: f64 = Exp1.sample(&mut rng);
    let mut h: f64 = winv * x;
    let mut pts = Vec::with_capacity(m);
    for i in 0..m {
        let k = fy.next(&mut rng);
        pts.push((h.to_bits(), k));
        if i + 1 < m {
            let x: f64 = Exp1.sample(&mut rng);
            h += winv * betas[i] * x;
        }
    }
    pts
}

struct WSet {
    items: Vec<(u64, f64)>,
    pos: usize,
}
impl Iterator for WSet {
    type Item = u64;
    fn next(&mut self) -> Option<u64> {
        if self.pos < self.items.len() {
            self.pos += 1;
            Some(self.items[self.pos - 1].0)
        } else {
            None
        }
    }
}
impl WeightedSet for WSet {
    type Object = u64;
    fn get_weight(&self, obj: &u64) -> f64 {
        // last inserted weight of that id (ids may repeat only with the same weight)
        self.items.iter().find(|(i, _)| i == obj).unwrap().1
    }
}

/// one call on the sketcher: entry point and the items in the order the implementation visits them
#[derive(Clone)]
pub struct Call {
    pub entry: String,
    pub items: Vec<(u64, f64)>,
}

fn gen_weight(rng: &mut SplitMix64, mode: u64) -> f64 {
    match mode {
        0 => 1.0,
        1 => rng.range(1, 5) as f64,
        2 => (10f64).powf(rng.unit() * 600. - 300.),
        3 => (2f64).powi(rng.below(2000) as i32 - 1000),
        _ => rng.unit() * 10. + 1e-3,
    }
}

pub struct Case {
    pub variant: String,
    pub hasher: String,
    pub m: usize,
    pub calls: Vec<Call>,
}

pub fn gen_case(rng: &mut SplitMix64) -> Case {
    let variant = ["3", "3", "3a", "3a", "3asha", "2", "2"][rng.below(7) as usize].to_string();
    let hasher = if variant == "3asha" { "sha".to_string() } else if rng.coin(0.2) { "collide".into() } else { "fnv".into() };
    let m = if rng.coin(0.6) { rng.range(2, 12) } else { rng.range(2, 48) } as usize;
    let nitems = if rng.coin(0.2) { rng.range(1, 3) } else { rng.range(1, 60) } as usize;
    let wmode = rng.below(5);
    let id_space = if rng.coin(0.3) { 16 } else { 1u64 << 40 };
    let mut items: Vec<(u64, f64)> = Vec::new();
    let mut seen: HashMap<u64, f64> = HashMap::new();
    for _ in 0..nitems {
        let id = rng.below(id_space);
        if let Some(w) = seen.get(&id) {
            items.push((id, *w)); // an already inserted pair again
        } else {
            let w = gen_weight(rng, wmode);
            seen.insert(id, w);
            items.push((id, w));
        }
    }
    // split into calls
    let mut calls = Vec::new();
    let mut pos = 0;
    while pos < items.len() {
        let len = if rng.coin(0.4) { items.len() - pos } else { rng.range(1, (items.len() - pos) as u64) as usize };
        let chunk: Vec<(u64, f64)> = items[pos..pos + len].to_vec();
        pos += len;
        let entries: &[&str] = match variant.as_str() {
            "3" => &["item", "wset", "idxmap", "hashmap"],
            "2" => &["item", "wset", "hashmap"],
            _ => &["idxmap", "hashmap"],
        };
        let entry = entries[rng.below(entries.len() as u64) as usize].to_string();
        calls.push(Call { entry, items: chunk });
    }
    Case { variant, hasher, m, calls }
}

/// dedup keeping first occurrence (maps hold a key once)
fn dedup(items: &[(u64, f64)]) -> Vec<(u64, f64)> {
    let mut out: Vec<(u64, f64)> = Vec::new();
    for it in items {
        if !out.iter().any(|(i, _)| *i == it.0) {
            out.push(*it);
        }
    }
    out
}

macro_rules! run3_generic {
    ($H:ty, $case:expr, $visited:expr) => {{
        let mut s = ProbMinHash3::<u64, $H>::new($case.m, INIT);
        for c in &$case.calls {
            match c.entry.as_str() {
                "item" => {
                    for (id, w) in &c.items {
                        s.hash_item(*id, w);
                    }
                    $visited.push(c.items.clone());
                }
                "wset" => {
                    let mut ws = WSet { items: c.items.clone(), pos: 0 };
                    s.hash_wset(&mut ws);
                    $visited.push(c.items.clone());
                }
                "idxmap" => {
                    let mut im: IndexMap<u64, f64> = IndexMap::new();
                    for (id, w) in dedup(&c.items) {
                        im.insert(id, w);
                    }
                    s.hash_weigthed_idxmap(&im);
                    $visited.push(im.iter().map(|(k, v)| (*k, *v)).collect());
                }
                _ => {
                    let mut hm: HashMap<u64, f64> = HashMap::new();
                    for (id, w) in dedup(&c.items) {
                        hm.insert(id, w);
                    }
                    s.hash_weigthed_hashmap(&hm);
                    $visited.push(hm.iter().map(|(k, v)| (*k, *v)).collect());
                }
            }
        }
        (s.verif_registers(), s.get_signature().clone())
    }};
}

macro_rules! run3a_generic {
    ($H:ty, $case:expr, $visited:expr) => {{
        let mut s = ProbMinHash3a::<u64, $H>::new($case.m, INIT);
        for c in &$case.calls {
            if c.entry == "idxmap" {
                let mut im: IndexMap<u64, f64> = IndexMap::new();
                for (id, w) in dedup(&c.items) {
                    im.insert(id, w);
                }
                s.hash_weigthed_idxmap(&im);
                $visited.push(im.iter().map(|(k, v)| (*k, *v)).collect());
            } else {
                let mut hm: HashMap<u64, f64> = HashMap::new();
                for (id, w) in dedup(&c.items) {
                    hm.insert(id, w);
                }
                s.hash_weigthed_hashmap(&hm);
                $visited.push(hm.iter().map(|(k, v)| (*k, *v)).collect());
            }
        }
        (s.verif_registers(), s.get_signature().clone())
    }};
}

macro_rules! run2_generic {
    ($H:ty, $case:expr, $visited:expr) => {{
        let mut s = ProbMinHash2::<u64, $H>::new($case.m, INIT);
        for c in &$case.calls {
            match c.entry.as_str() {
                "item" => {
                    for (id, w) in &c.items {
                        s.hash_item(*id, *w);
                    }
                    $visited.push(c.items.clone());
                }
                "wset" => {
                    let mut ws = WSet { items: c.items.clone(), pos: 0 };
                    s.hash_wset(&mut ws);
                    $visited.push(c.items.clone());
                }
                _ => {
                    let mut hm: HashMap<u64, f64> = HashMap::new();
                    for (id, w) in dedup(&c.items) {
                        hm.insert(id, w);
                    }
                    s.hash_weigthed_hashmap::<std::collections::hash_map::RandomState>(&hm);
                    $visited.push(hm.iter().map(|(k, v)| (*k, *v)).collect());
                }
            }
        }
        (s.verif_registers(), s.get_signature().clone())
    }};
}

/// runs the implementation; returns (outcome, registers, signature, items as visited per call)
pub fn run_impl(case: &Case) -> (String, Vec<f64>, Vec<u64>, Vec<Vec<(u64, f64)>>) {
    let mut visited: Vec<Vec<(u64, f64)>> = Vec::new();
    let r = catch_unwind(AssertUnwindSafe(|| match (case.variant.as_str(), case.hasher.as_str()) {
        ("3", "fnv") => run3_generic!(FnvHasher, case, visited),
        ("3", _) => run3_generic!(CollideHasher, case, visited),
        ("3a", "fnv") => run3a_generic!(FnvHasher, case, visited),
        ("3a", _) => run3a_generic!(CollideHasher, case, visited),
        ("2", "fnv") => run2_generic!(FnvHasher, case, visited),
        ("2", _) => run2_generic!(CollideHasher, case, visited),
        _ => {
            let mut s = ProbMinHash3aSha::<u64>::new(case.m, INIT);
            for c in &case.calls {
                if c.entry == "idxmap" {
                    let mut im: IndexMap<u64, f64> = IndexMap::new();
                    for (id, w) in dedup(&c.items) {
                        im.insert(id, w);
                    }
                    s.hash_weigthed_idxmap(&im);
                    visited.push(im.iter().map(|(k, v)| (*k, *v)).collect());
                } else {
                    let mut hm: HashMap<u64, f64> = HashMap::new();
                    for (id, w) in dedup(&c.items) {
                        hm.insert(id, w);
                    }
                    s.hash_weigthed_hashmap(&hm);
                    visited.push(hm.iter().map(|(k, v)| (*k, *v)).collect());
                }
            }
            (s.verif_registers(), s.get_signature().clone())
        }
    }));
    match r {
        Ok((regs, sig)) => ("ok".into(), regs, sig, visited),
        Err(_) => ("panic".into(), vec![], vec![], visited),
    }
}

/// script-length oracle: a naive min-register simulation tells how many points of each item the
/// sketch can possibly look at (the loop stops once the lower bound reaches the current maximum).
/// It only sizes the prefix that is sent; a too short prefix shows up as `Exhausted`, never as a
/// silent difference.
struct Naive {
    regs: Vec<f64>,
}
impl Naive {
    fn needed3(&mut self, id: u64, w: f64, m: usize, hasher: &str) -> usize {
        let mut n = 32usize;
        loop {
            let pts = script3(id, w, m, hasher, n);
            let mut regs = self.regs.clone();
            let mut used = None;
            for (i, (h, k, lbn)) in pts.iter().enumerate() {
                let hv = f64::from_bits(*h);
                let mx = regs.iter().cloned().fold(f64::MIN, f64::max);
                if !(hv < mx) {
                    used = Some(i + 1);
                    break;
                }
                if hv < regs[*k] {
                    regs[*k] = hv;
                }
                let mx2 = regs.iter().cloned().fold(f64::MIN, f64::max);
                if f64::from_bits(*lbn) >= mx2 {
                    used = Some(i + 1);
                    break;
                }
            }
            if let Some(u) = used {
                self.regs = regs;
                return u;
            }
            if n > 1 << 20 {
                return n;
            }
            n *= 4;
        }
    }
}

pub fn case_json(case: &Case, scale: usize) -> Value {
    let (outcome, regs, sig, visited) = run_impl(case);
    let mut calls = Vec::new();
    let mut naive = Naive { regs: vec![f64::MAX; case.m] };
    for (ci, items) in visited.iter().enumerate() {
        let mut its = Vec::new();
        // sequential estimate per item; the two-pass variant interleaves the items of a batch, so
        // every item of the batch may be asked for as many points as the hungriest one
        let needs: Vec<usize> = items.iter().map(|(id, w)| {
            if case.variant == "2" { 0 } else if *w > 0. && w.is_finite() { naive.needed3(*id, *w, case.m, &case.hasher) } else { 8 }
        }).collect();
        let batch_max = needs.iter().cloned().max().unwrap_or(0);
        for ((id, w), need) in items.iter().zip(needs.iter()) {
            let sc: Value = if case.variant == "2" {
                json!(script2(*id, *w, case.m, &case.hasher).iter().map(|(h, k)| json!([h, k])).collect::<Vec<_>>())
            } else {
                let n = if case.variant == "3" { (*need + 4) * scale } else { (batch_max + 8) * scale };
                json!(script3(*id, *w, case.m, &case.hasher, n).iter()
                    .map(|(h, k, l)| json!([h, k, l])).collect::<Vec<_>>())
            };
            its.push(json!({"id": id, "w": w.to_bits(), "script": sc}));
        }
        calls.push(json!({"entry": case.calls[ci].entry, "items": its}));
    }
    json!({"variant": case.variant, "hasher": case.hasher, "m": case.m, "calls": calls, "outcome": outcome,
           "regs": regs.iter().map(|x| x.to_bits()).collect::<Vec<_>>(), "sig": sig,
           "maxv": f64::MAX.to_bits(), "init": INIT})
}

fn case_rng(seed: u64, i: u64) -> SplitMix64 {
    let mut r = SplitMix64::new(seed ^ 0xC02 ^ i.wrapping_mul(0x9E3779B97F4A7C15));
    r.next_u64();
    r
}

pub fn cases(args: &[String]) {
    let seed = arg_u64(args, "--seed", 1);
    let n = arg_u64(args, "--n", 50);
    let scale = arg_u64(args, "--scale", 1) as usize;
    let only: Option<Vec<u64>> = arg_str(args, "--only").map(|s| s.split(',').filter(|x| !x.is_empty()).map(|x| x.parse().unwrap()).collect());
    std::panic::set_hook(Box::new(|_| {}));
    let mut out = Vec::new();
    let ids: Vec<u64> = match only {
        Some(v) => v,
        None => (0..n).collect(),
    };
    for i in ids {
        let mut rng = case_rng(seed, i);
        let case = gen_case(&mut rng);
        let mut v = case_json(&case, scale);
        v["index"] = json!(i);
        out.push(v);
    }
    crate::util::wd_pause();
    println!("{}", json!({ "cases": out }));
}

// ---------------------------------------------------------------------------------------------
// implementation-level checks of C02 itself (search for a concrete failing input)
// ---------------------------------------------------------------------------------------------

fn sig3(m: usize, items: &[(u64, f64)]) -> (Vec<u64>, Vec<f64>) {
    let mut s = ProbMinHash3::<u64, FnvHasher>::new(m, INIT);
    for (id, w) in items {
        s.hash_item(*id, w);
    }
    (s.get_signature().clone(), s.verif_registers())
}
fn sig3a(m: usize, batches: &[Vec<(u64, f64)>]) -> (Vec<u64>, Vec<f64>) {
    let mut s = ProbMinHash3a::<u64, FnvHasher>::new(m, INIT);
    for b in batches {
        let mut im: IndexMap<u64, f64> = IndexMap::new();
        for (id, w) in b {
            im.insert(*id, *w);
        }
        s.hash_weigthed_idxmap(&im);
    }
    (s.get_signature().clone(), s.verif_registers())
}
fn sig3asha(m: usize, batches: &[Vec<(u64, f64)>]) -> (Vec<u64>, Vec<f64>) {
    let mut s = ProbMinHash3aSha::<u64>::new(m, INIT);
    for b in batches {
        let mut hm: HashMap<u64, f64> = HashMap::new();
        for (id, w) in b {
            hm.insert(*id, *w);
        }
        s.hash_weigthed_hashmap(&hm);
    }
    (s.get_signature().clone(), s.verif_registers())
}
fn sig2(m: usize, items: &[(u64, f64)]) -> (Vec<u64>, Vec<f64>) {
    let mut s = ProbMinHash2::<u64, FnvHasher>::new(m, INIT);
    for (id, w) in items {
        s.hash_item(*id, *w);
    }
    (s.get_signature().clone(), s.verif_registers())
}

fn shuffle<T: Clone>(rng: &mut SplitMix64, v: &[T]) -> Vec<T> {
    let mut o = v.to_vec();
    for i in (1..o.len()).rev() {
        let j = rng.below(i as u64 + 1) as usize;
        o.swap(i, j);
    }
    o
}
fn split<T: Clone>(rng: &mut SplitMix64, v: &[T]) -> Vec<Vec<T>> {
    let mut out = Vec::new();
    let mut pos = 0;
    while pos < v.len() {
        let len = rng.range(1, (v.len() - pos) as u64) as usize;
        out.push(v[pos..pos + len].to_vec());
        pos += len;
    }
    out
}

fn bits(v: &[f64]) -> Vec<u64> {
    v.iter().map(|x| x.to_bits()).collect()
}

fn items_json(items: &[(u64, f64)]) -> Value {
    json!(items.iter().map(|(i, w)| json!([i, w.to_bits(), w])).collect::<Vec<_>>())
}

/// overflow class of D10: some item's race values reach +inf before m slots can be filled
fn overflow_possible(m: usize, items: &[(u64, f64)]) -> bool {
    let need = 4.0 * m as f64 * ((m as f64).ln() + 5.0);
    items.iter().any(|(_, w)| !((1. / w) * need).is_finite())
}

/// runs every clause of C02 on one weighted set; returns (key, description, replay input)
pub fn check_set(rng: &mut SplitMix64, m: usize, items: &[(u64, f64)]) -> Vec<(String, String, Value)> {
    let mut bad = Vec::new();
    let base = items.to_vec();
    let perm = shuffle(rng, &base);
    let batches = split(rng, &perm);
    let (s3, r3) = sig3(m, &base);
    let (s3p, r3p) = sig3(m, &perm);
    let (s3a, r3a) = sig3a(m, &batches);
    let (s3a1, _) = sig3a(m, &[base.clone()]);
    let (s2, r2) = sig2(m, &base);
    let (s2p, r2p) = sig2(m, &perm);
    let (ssha, _) = sig3asha(m, &[base.clone()]);
    let (sshap, _) = sig3asha(m, &batches);
    let inp = |extra: Value| json!({"m": m, "items": items_json(items), "perm": items_json(&perm),
        "batches": batches.iter().map(|b| items_json(b)).collect::<Vec<_>>(), "extra": extra});
    if s3 != s3p || bits(&r3) != bits(&r3p) {
        bad.push(("order-3".into(), format!("ProbMinHash3 signature depends on insertion order ({} items, m={})", items.len(), m), inp(json!({"a": s3, "b": s3p}))));
    }
    if s2 != s2p || bits(&r2) != bits(&r2p) {
        bad.push(("order-2".into(), format!("ProbMinHash2 signature depends on insertion order ({} items, m={})", items.len(), m), inp(json!({"a": s2, "b": s2p}))));
    }
    if s3a != s3a1 {
        bad.push(("batch-3a".into(), format!("ProbMinHash3a signature depends on order / batch split ({} items, m={})", items.len(), m), inp(json!({"a": s3a1, "b": s3a}))));
    }
    if ssha != sshap {
        bad.push(("batch-3asha".into(), format!("ProbMinHash3aSha signature depends on order / batch split ({} items, m={})", items.len(), m), inp(json!({"a": ssha, "b": sshap}))));
    }
    if s3 != s3a || bits(&r3) != bits(&r3a) {
        bad.push(("3-vs-3a".into(), format!("ProbMinHash3 and ProbMinHash3a differ ({} items, m={})", items.len(), m), inp(json!({"a": s3, "b": s3a}))));
    }
    // reset: a used ProbMinHash2 behaves like a new one afterwards (C13)
    {
        let mut s = ProbMinHash2::<u64, FnvHasher>::new(m, INIT);
        for (id, w) in perm.iter().take(perm.len() / 2 + 1) {
            s.hash_item(*id ^ 0x5555, *w);
        }
        s.reset();
        for (id, w) in &base {
            s.hash_item(*id, *w);
        }
        if *s.get_signature() != s2 || bits(&s.verif_registers()) != bits(&r2) {
            bad.push(("reset-2".into(), format!("ProbMinHash2 after reset differs from a new sketcher on the same input (m={}, {} items)", m, items.len()), inp(json!({}))));
        }
    }
    // ProbMinHash2 through its container entry points, in one batch and in several: same signature as item-wise
    {
        let run_hm = |bs: &[Vec<(u64, f64)>], then_items: &[(u64, f64)]| {
            let mut s = ProbMinHash2::<u64, FnvHasher>::new(m, INIT);
            for b in bs {
                let mut hm: HashMap<u64, f64> = HashMap::new();
                for (id, w) in b { hm.insert(*id, *w); }
                s.hash_weigthed_hashmap::<std::collections::hash_map::RandomState>(&hm);
            }
            for (id, w) in then_items { s.hash_item(*id, *w); }
            (s.get_signature().clone(), s.verif_registers())
        };
        let one = run_hm(&[base.clone()], &[]);
        let several = run_hm(&batches, &[]);
        let mixed = run_hm(&batches[..1], &perm);
        if one.0 != s2 {
            bad.push(("entry-2".into(), format!("ProbMinHash2::hash_weigthed_hashmap (one batch) differs from item-wise hash_item ({} items, m={})", items.len(), m), inp(json!({"a": s2, "b": one.0}))));
        }
        if several.0 != s2 {
            bad.push(("batch-2".into(), format!("ProbMinHash2::hash_weigthed_hashmap in {} batches differs from item-wise hash_item ({} items, m={})", batches.len(), items.len(), m), inp(json!({"a": s2, "b": several.0}))));
        }
        if mixed.0 != s2 {
            bad.push(("batch-2".into(), format!("ProbMinHash2: one HashMap batch followed by hash_item of every pair differs from item-wise hash_item ({} items, m={})", items.len(), m), inp(json!({"a": s2, "b": mixed.0}))));
        }
    }
    // all weights multiplied by a power of two (exact in binary floating point: every race value scales by the same
    // factor, every comparison is preserved): the four signatures must not change.  Only when nothing over- or underflows.
    if items.iter().all(|(_, w)| *w > 1e-100 && *w < 1e100) {
        for k in [-70i32, -57, 40] {
            let f = (2.0f64).powi(k);
            let scaled: Vec<(u64, f64)> = base.iter().map(|(id, w)| (*id, *w * f)).collect();
            for (name, same) in [("ProbMinHash3", sig3(m, &scaled).0 == s3), ("ProbMinHash3a", sig3a(m, &[scaled.clone()]).0 == s3a1),
                                 ("ProbMinHash2", sig2(m, &scaled).0 == s2), ("ProbMinHash3aSha", sig3asha(m, &[scaled.clone()]).0 == ssha)] {
                if !same {
                    bad.push(("scale".into(), format!("{}: multiplying every weight by 2^{} changes the signature ({} items, m={})", name, k, items.len(), m), inp(json!({"scale_log2": k}))));
                }
            }
        }
    }
    // an already inserted pair again
    let mut dup = base.clone();
    dup.push(base[rng.below(base.len() as u64) as usize]);
    dup.push(base[0]);
    if sig3(m, &dup).0 != s3 || sig2(m, &dup).0 != s2 {
        bad.push(("dup".into(), format!("inserting an already inserted pair again changes the signature (m={})", m), inp(json!({"dup": items_json(&dup)}))));
    }
    let mut b2 = batches.clone();
    b2.push(vec![base[0]]);
    if sig3a(m, &b2).0 != s3a {
        bad.push(("dup".into(), format!("ProbMinHash3a: an already inserted pair in a later batch changes the signature (m={})", m), inp(json!({}))));
    }
    // scaling by a power of two, away from overflow and underflow
    let wmin = items.iter().map(|x| x.1).fold(f64::MAX, f64::min);
    let wmax = items.iter().map(|x| x.1).fold(0.0, f64::max);
    if wmin > 1e-150 && wmax < 1e150 {
        let e = rng.below(80) as i32 - 40;
        let sc: Vec<(u64, f64)> = items.iter().map(|(i, w)| (*i, w * (2f64).powi(e))).collect();
        if sig3(m, &sc).0 != s3 || sig2(m, &sc).0 != s2 || sig3a(m, &[sc.clone()]).0 != s3a {
            bad.push(("scale".into(), format!("multiplying all weights by 2^{} changes the signature (m={})", e, m), inp(json!({"exp": e}))));
        }
    }
    // every position holds an item of the set
    let ids: Vec<u64> = items.iter().map(|x| x.0).collect();
    for (name, s) in [("3", &s3), ("3a", &s3a), ("2", &s2), ("3asha", &ssha)] {
        if let Some(k) = s.iter().position(|x| !ids.contains(x)) {
            let key = if s[k] == INIT && overflow_possible(m, items) { "placeholder-after-overflow" } else { "foreign-or-placeholder" };
            bad.push((key.into(), format!("ProbMinHash{}: position {} of a non-empty set's signature holds {} which is not an item of the set (m={}, {} items, min weight {:e})",
                name, k, if s[k] == INIT { "the placeholder".to_string() } else { s[k].to_string() }, m, items.len(), wmin), inp(json!({"variant": name, "sig": s}))));
            break;
        }
    }
    // union of two sets that agree on common items
    if items.len() >= 2 {
        let cut = rng.range(1, items.len() as u64 - 1) as usize;
        let ov = rng.below(cut as u64 + 1) as usize;
        let a: Vec<(u64, f64)> = base[..cut].to_vec();
        let b: Vec<(u64, f64)> = base[cut - ov..].to_vec();
        for (name, su, sa, sb) in [
            ("3", s3.clone(), sig3(m, &a).0, sig3(m, &b).0),
            ("2", s2.clone(), sig2(m, &a).0, sig2(m, &b).0),
            ("3a", s3a1.clone(), sig3a(m, &[a.clone()]).0, sig3a(m, &[b.clone()]).0),
        ] {
            if let Some(k) = (0..m).find(|k| su[*k] != sa[*k] && su[*k] != sb[*k]) {
                bad.push(("union".into(), format!("ProbMinHash{}: position {} of the union's signature equals neither set's ({} / {} / {})", name, k, su[k], sa[k], sb[k]),
                    inp(json!({"variant": name, "a": items_json(&a), "b": items_json(&b)}))));
            }
        }
    }
    bad
}

pub fn props(args: &[String]) {
    let seed = arg_u64(args, "--seed", 1);
    let n = arg_u64(args, "--n", 200);
    std::panic::set_hook(Box::new(|_| {}));
    let mut rng = SplitMix64::new(seed ^ 0x5EA7C02);
    let mut found: Vec<Value> = Vec::new();
    let mut keys: Vec<String> = Vec::new();
    let mut tried = 0u64;
    // the recorded witness of the overflow finding always runs first
    let mut sets: Vec<(usize, Vec<(u64, f64)>)> = vec![(16, vec![(7u64, 2.3e-308f64)])];
    for _ in 0..n {
        crate::util::tick_idx(0, serde_json::Value::Null);
        let m = if rng.coin(0.6) { rng.range(2, 12) } else { rng.range(2, 64) } as usize;
        let nitems = if rng.coin(0.2) { rng.range(1, 3) } else { rng.range(1, 80) } as usize;
        let wmode = rng.below(5);
        let mut items: Vec<(u64, f64)> = Vec::new();
        while items.len() < nitems {
            let id = rng.next_u64() >> 8;
            if !items.iter().any(|(i, _)| *i == id) {
                items.push((id, gen_weight(&mut rng, wmode)));
            }
        }
        sets.push((m, items));
    }
    // sizes suggested by the driver (new literals of a changed source file): signature lengths around them, and a
    // set dominated by one heavy item (which then has to fill almost every position itself)
    // large signature lengths that are not powers of two (rare paths of the slot sampling show only there)
    for (mbig, nb) in [(100_003usize, 3usize), (30_011, 5)] {
        let items: Vec<(u64, f64)> = (0..nb).map(|_| (rng.next_u64() >> 8, 1.0 + rng.unit())).collect();
        sets.push((mbig, items));
    }
    let xs = crate::util::extra_sizes();
    for t in 0..(if xs.is_empty() { 0 } else { 10 }) {
        if let Some(v) = crate::util::near_size(&mut rng, &xs, 300_000) {
            let m = (v as usize).max(2);
            let nitems = [2usize, 30, 100][t % 3];
            let mut items: Vec<(u64, f64)> = (0..nitems).map(|_| (rng.next_u64() >> 8, 1.0)).collect();
            if t % 2 == 0 { items[0].1 = 1e6; }
            sets.push((m, items));
        }
    }
    for (m, items) in sets {
        tried += 1;
        let r = catch_unwind(AssertUnwindSafe(|| check_set(&mut rng, m, &items)));
        match r {
            Ok(bad) => {
                for (k, d, inp) in bad {
                    if !keys.contains(&k) {
                        keys.push(k.clone());
                        found.push(json!({"key": k, "text": d, "input": inp}));
                    }
                }
            }
            Err(_) => {
                if !keys.contains(&"panic".to_string()) {
                    keys.push("panic".into());
                    found.push(json!({"key": "panic", "text": format!("a ProbMinHash sketcher panicked (m={}, {} items)", m, items.len()),
                        "input": {"m": m, "items": items_json(&items)}}));
                }
            }
        }
    }
    // special item hashes through the identity hasher (0, 1, all-ones, 2^63, mixing constants and their byte-swapped twins:
    // nohasher::NoHashHasher reads the bytes in big-endian order): the same weighted set in two orders, three variants
    {
        use probminhash::nohasher::NoHashHasher as IdH;
        let mut specials: Vec<u64> = Vec::new();
        for v in [0u64, 1, u64::MAX - 1, 1 << 63, 0x9E3779B97F4A7C15, 0xBF58476D1CE4E5B9, 0x7FFFFFFFFFFFFFFF] {
            for w in [v, v.swap_bytes()] { if !specials.contains(&w) { specials.push(w); } }
        }
        for m in [2usize, 5, 16] {
            for a in 0..specials.len() {
                for b in 0..specials.len() {
                    if a == b { continue; }
                    tried += 1;
                    let fwd: Vec<(u64, f64)> = vec![(specials[a], 1.0), (specials[b], 2.0), (12345, 0.5), (99, 3.0)];
                    let mut bwd = fwd.clone();
                    bwd.reverse();
                    crate::util::tick_idx(0, json!({"m": m, "items": items_json(&fwd), "hasher": "nohasher::NoHashHasher"}));
                    let r = catch_unwind(AssertUnwindSafe(|| {
                        let run2 = |it: &[(u64, f64)]| { let mut s = ProbMinHash2::<u64, IdH>::new(m, INIT); for (id, w) in it { s.hash_item(*id, *w); } s.get_signature().clone() };
                        let run3 = |it: &[(u64, f64)]| { let mut s = ProbMinHash3::<u64, IdH>::new(m, INIT); for (id, w) in it { s.hash_item(*id, w); } s.get_signature().clone() };
                        let run3a = |it: &[(u64, f64)]| { let mut s = ProbMinHash3a::<u64, IdH>::new(m, INIT); let mut im: IndexMap<u64, f64> = IndexMap::new(); for (id, w) in it { im.insert(*id, *w); } s.hash_weigthed_idxmap(&im); s.get_signature().clone() };
                        (run2(&fwd) != run2(&bwd), run3(&fwd) != run3(&bwd), run3a(&fwd) != run3a(&bwd), run3(&fwd) != run3a(&fwd),
                         run2(&fwd).contains(&INIT) || run3(&fwd).contains(&INIT))
                    }));
                    let inp = json!({"m": m, "items": items_json(&fwd), "hasher": "nohasher::NoHashHasher"});
                    let mut rep = |k: &str, d: String| { if !keys.contains(&k.to_string()) { keys.push(k.to_string()); found.push(json!({"key": k, "text": d, "input": inp.clone()})); } };
                    match r {
                        Err(_) => rep("panic-nohash", format!("a ProbMinHash sketcher with NoHashHasher panicked on the ids {:?} (m={})", fwd.iter().map(|x| x.0).collect::<Vec<_>>(), m)),
                        Ok((o2, o3, o3a, d33a, ph)) => {
                            let ids: Vec<u64> = fwd.iter().map(|x| x.0).collect();
                            if o2 { rep("order-2-nohash", format!("ProbMinHash2<u64, NoHashHasher> m={}: the weighted set with ids {:?} gives different signatures in the two orders", m, ids)); }
                            if o3 { rep("order-3-nohash", format!("ProbMinHash3<u64, NoHashHasher> m={}: the weighted set with ids {:?} gives different signatures in the two orders", m, ids)); }
                            if o3a { rep("order-3a-nohash", format!("ProbMinHash3a<u64, NoHashHasher> m={}: the weighted set with ids {:?} gives different signatures in the two orders", m, ids)); }
                            if d33a { rep("3-vs-3a-nohash", format!("ProbMinHash3 and ProbMinHash3a differ with NoHashHasher on the ids {:?} (m={})", ids, m)); }
                            if ph { rep("placeholder-nohash", format!("a placeholder stays in the signature of the ids {:?} with NoHashHasher (m={}, weights 0.5 .. 3)", ids, m)); }
                        }
                    }
                }
            }
        }
    }
    crate::util::wd_pause();
    println!("{}", json!({"tried": tried, "found": found}));
}

pub fn props_replay(args: &[String]) {
    let spec: Value = serde_json::from_str(&arg_str(args, "--case").expect("--case")).expect("json");
    std::panic::set_hook(Box::new(|_| {}));
    let m = spec["m"].as_u64().unwrap() as usize;
    let items: Vec<(u64, f64)> = spec["items"].as_array().unwrap().iter()
        .map(|x| (x[0].as_u64().unwrap(), f64::from_bits(x[1].as_u64().unwrap()))).collect();
    if spec["hasher"].as_str() == Some("nohasher::NoHashHasher") {
        use probminhash::nohasher::NoHashHasher as IdH;
        let mut bwd = items.clone();
        bwd.reverse();
        let run2 = |it: &[(u64, f64)]| { let mut s = ProbMinHash2::<u64, IdH>::new(m, INIT); for (id, w) in it { s.hash_item(*id, *w); } s.get_signature().clone() };
        let run3 = |it: &[(u64, f64)]| { let mut s = ProbMinHash3::<u64, IdH>::new(m, INIT); for (id, w) in it { s.hash_item(*id, w); } s.get_signature().clone() };
        crate::util::wd_pause();
        println!("{}", json!({"hasher": "nohasher::NoHashHasher", "sig2_forward": run2(&items), "sig2_reversed": run2(&bwd),
            "sig3_forward": run3(&items), "sig3_reversed": run3(&bwd)}));
        return;
    }
    let mut rng = SplitMix64::new(arg_u64(args, "--seed", 1));
    let bad = check_set(&mut rng, m, &items);
    crate::util::wd_pause();
    println!("{}", json!({"violations": bad.iter().map(|(k, d, _)| json!({"key": k, "text": d})).collect::<Vec<_>>(),
        "sig3": sig3(m, &items).0, "sig3a": sig3a(m, &[items.clone()]).0, "sig2": sig2(m, &items).0}));
}

// ---------------------------------------------------------------------------------------------
// search aid for C01 (only after an obligation broke): Monte-Carlo estimate of the match
// fraction against the exact probability Jaccard index, |z| > 6 only
// ---------------------------------------------------------------------------------------------
fn jp_exact(wa: &[f64], wb: &[f64]) -> f64 {
    let mut jp = 0.;
    for i in 0..wa.len() {
        if wa[i] > 0. && wb[i] > 0. {
            let mut den = 0.;
            for j in 0..wa.len() {
                den += (wa[j] / wa[i]).max(wb[j] / wb[i]);
            }
            jp += 1. / den;
        }
    }
    jp
}

pub fn mc(args: &[String]) {
    let seed = arg_u64(args, "--seed", 1);
    let trials = arg_u64(args, "--trials", 1500) as usize;
    std::panic::set_hook(Box::new(|_| {}));
    let mut rng = SplitMix64::new(seed ^ 0x3C01);
    let mut found: Vec<Value> = Vec::new();
    let families: Vec<(&str, Vec<f64>, Vec<f64>)> = vec![
        ("equal-overlap", (0..40).map(|i| if i < 30 { 1. } else { 0. }).collect(), (0..40).map(|i| if i >= 10 { 1. } else { 0. }).collect()),
        ("unequal", (0..40).map(|i| if i < 30 { (i + 1) as f64 } else { 0. }).collect(), (0..40).map(|i| if i >= 10 { ((i * i) as f64).max(1.) } else { 0. }).collect()),
        ("wild", (0..20).map(|i| (10f64).powi(i - 10)).collect(), (0..20).map(|i| (10f64).powi(10 - i)).collect()),
        ("small", vec![1., 2.], vec![2., 1.]),
    ];
    for (name, wa, wb) in &families {
        let jp = jp_exact(wa, wb);
        for variant in ["3", "3a", "2", "3asha"] {
            for m in [4usize, 64] {
                let mut sum = 0.0f64;
                for _ in 0..trials {
                    crate::util::tick_idx(0, serde_json::Value::Null);
                    let ids: Vec<u64> = (0..wa.len()).map(|_| rng.next_u64() >> 4).collect();
                    let a: Vec<(u64, f64)> = ids.iter().zip(wa.iter()).filter(|(_, w)| **w > 0.).map(|(i, w)| (*i, *w)).collect();
                    let b: Vec<(u64, f64)> = ids.iter().zip(wb.iter()).filter(|(_, w)| **w > 0.).map(|(i, w)| (*i, *w)).collect();
                    let (sa, sb) = match variant {
                        "3" => (sig3(m, &a).0, sig3(m, &b).0),
                        "3a" => (sig3a(m, &[a.clone()]).0, sig3a(m, &[b.clone()]).0),
                        "2" => (sig2(m, &a).0, sig2(m, &b).0),
                        _ => (sig3asha(m, &[a.clone()]).0, sig3asha(m, &[b.clone()]).0),
                    };
                    sum += sa.iter().zip(sb.iter()).filter(|(x, y)| x == y).count() as f64 / m as f64;
                }
                let mean = sum / trials as f64;
                let sigma = (jp * (1. - jp) / (m as f64 * trials as f64)).sqrt().max(1e-12);
                let z = (mean - jp) / sigma;
                if z.abs() > 6. {
                    found.push(json!({"family": name, "variant": variant, "m": m, "jp": jp, "mean_match_fraction": mean, "z": z, "trials": trials, "seed": seed}));
                }
            }
        }
    }
    // very short signatures (m = 2, 3), few items of unequal weight, many trials: where a wrong rate of the truncated
    // exponential or a wrong increment table shows (the effect vanishes like 1/m^2)
    let tiny: Vec<(&str, Vec<f64>, Vec<f64>)> = vec![
        ("tiny-m-unequal", vec![3., 1., 0.], vec![3., 0., 1.]),
        ("tiny-m-shares", vec![1., 3.], vec![1., 3.]),
    ];
    for (name, wa, wb) in &tiny {
        let jp = jp_exact(wa, wb);
        for variant in ["3", "3a", "2"] {
            for m in [2usize, 3] {
                let big = trials * 100;
                let mut sum = 0.0f64;
                let mut first_is_light = 0u64;
                for _ in 0..big {
                    crate::util::tick_idx(0, serde_json::Value::Null);
                    let ids: Vec<u64> = (0..wa.len()).map(|_| rng.next_u64() >> 4).collect();
                    let a: Vec<(u64, f64)> = ids.iter().zip(wa.iter()).filter(|(_, w)| **w > 0.).map(|(i, w)| (*i, *w)).collect();
                    let b: Vec<(u64, f64)> = ids.iter().zip(wb.iter()).filter(|(_, w)| **w > 0.).map(|(i, w)| (*i, *w)).collect();
                    let (sa, sb) = match variant {
                        "3" => (sig3(m, &a).0, sig3(m, &b).0),
                        "3a" => (sig3a(m, &[a.clone()]).0, sig3a(m, &[b.clone()]).0),
                        _ => (sig2(m, &a).0, sig2(m, &b).0),
                    };
                    sum += sa.iter().zip(sb.iter()).filter(|(x, y)| x == y).count() as f64 / m as f64;
                    first_is_light += sa.iter().filter(|x| **x == a[0].0).count() as u64;
                }
                let (mean, expect) = if *name == "tiny-m-shares" {
                    // single set: share of positions held by the first item = w_0 / sum(w)
                    (first_is_light as f64 / (big * m) as f64, wa[0] / wa.iter().sum::<f64>())
                } else { (sum / big as f64, jp) };
                let sigma = (expect * (1. - expect) / (m as f64 * big as f64)).sqrt().max(1e-12);
                let z = (mean - expect) / sigma;
                if z.abs() > 6. {
                    found.push(json!({"family": name, "variant": variant, "m": m, "jp": expect, "mean_match_fraction": mean, "z": z, "trials": big, "seed": seed,
                                      "weights_a": wa, "weights_b": wb}));
                }
            }
        }
    }
    crate::util::wd_pause();
    println!("{}", json!({"found": found}));
}
