//! deterministic helpers: one SplitMix64 state feeds every random choice.

pub struct SplitMix64(pub u64);

impl SplitMix64 {
    pub fn new(seed: u64) -> Self {
        SplitMix64(seed)
    }
    pub fn next_u64(&mut self) -> u64 {
        self.0 = self.0.wrapping_add(0x9E3779B97F4A7C15);
        let mut z = self.0;
        z = (z ^ (z >> 30)).wrapping_mul(0xBF58476D1CE4E5B9);
        z = (z ^ (z >> 27)).wrapping_mul(0x94D049BB133111EB);
        z ^ (z >> 31)
    }
    /// uniform in [0, n) (n >= 1); modulo bias is irrelevant here
    pub fn below(&mut self, n: u64) -> u64 {
        self.next_u64() % n
    }
    pub fn range(&mut self, lo: u64, hi_incl: u64) -> u64 {
        lo + self.below(hi_incl - lo + 1)
    }
    pub fn unit(&mut self) -> f64 {
        (self.next_u64() >> 11) as f64 / (1u64 << 53) as f64
    }
    pub fn coin(&mut self, p: f64) -> bool {
        self.unit() < p
    }
}

pub fn arg_u64(args: &[String], name: &str, default: u64) -> u64 {
    for i in 0..args.len() {
        if args[i] == name && i + 1 < args.len() {
            return args[i + 1].parse().expect("bad integer argument");
        }
    }
    default
}

pub fn arg_str(args: &[String], name: &str) -> Option<String> {
    for i in 0..args.len() {
        if args[i] == name && i + 1 < args.len() {
            return Some(args[i + 1].clone());
        }
    }
    None
}
