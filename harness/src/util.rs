//! deterministic helpers: one SplitMix64 state feeds every random choice.

pub struct SplitMix64(pub u64);

impl SplitMix64 {
    pub fn new(seed: u64) -> Self {
        SplitMix64(seed)
    }
    pub fn next_u64(&mut self) -> u64 {
        self.0 = self.0.wrapping_add(0x9E3779B97F4A7C15);
        let mut z = self.0;
        z = (z ^ (z >> 30)).wrapping_mul(0xBF58476D1CE4E5B9);
        z = (z ^ (z >> 27)).wrapping_mul(0x94D049BB133111EB);
        z ^ (z >> 31)
    }
    /// uniform in [0, n) (n >= 1); modulo bias is irrelevant here
    pub fn below(&mut self, n: u64) -> u64 {
        self.next_u64() % n
    }
    pub fn range(&mut self, lo: u64, hi_incl: u64) -> u64 {
        lo + self.below(hi_incl - lo + 1)
    }
    pub fn unit(&mut self) -> f64 {
        (self.next_u64() >> 11) as f64 / (1u64 << 53) as f64
    }
    pub fn coin(&mut self, p: f64) -> bool {
        self.unit() < p
    }
}

pub fn arg_u64(args: &[String], name: &str, default: u64) -> u64 {
    for i in 0..args.len() {
        if args[i] == name && i + 1 < args.len() {
            return args[i + 1].parse().expect("bad integer argument");
        }
    }
    default
}

pub fn arg_str(args: &[String], name: &str) -> Option<String> {
    for i in 0..args.len() {
        if args[i] == name && i + 1 < args.len() {
            return Some(args[i + 1].clone());
        }
    }
    None
}

// ------------------------------------------------------------------------------------------
// hang watchdog: every case loop calls `tick` with a description of the case it is about to
// run; if no tick arrives for VERIF_HANG_MS (default 60 s, cases take milliseconds) the
// watchdog prints {"hang": <description>} as the last line and exits with code 3, so that a
// loop that never terminates in the crate is reported with the input that triggers it.
// ------------------------------------------------------------------------------------------
use std::sync::atomic::{AtomicU64, Ordering};
use std::sync::Mutex;
static WD_LAST: AtomicU64 = AtomicU64::new(0);
static WD_DESC: Mutex<String> = Mutex::new(String::new());

fn now_ms() -> u64 {
    std::time::SystemTime::now().duration_since(std::time::UNIX_EPOCH).map(|d| d.as_millis() as u64).unwrap_or(0)
}

pub fn watchdog_start() {
    let limit: u64 = std::env::var("VERIF_HANG_MS").ok().and_then(|s| s.parse().ok()).unwrap_or(60_000);
    WD_LAST.store(now_ms(), Ordering::SeqCst);
    std::thread::spawn(move || loop {
        std::thread::sleep(std::time::Duration::from_millis(200));
        let last = WD_LAST.load(Ordering::SeqCst);
        if last != 0 && now_ms().saturating_sub(last) > limit {
            let d = WD_DESC.lock().map(|g| g.clone()).unwrap_or_default();
            let v: serde_json::Value = serde_json::from_str(&d).unwrap_or(serde_json::Value::String(d));
            println!("\n{}", serde_json::json!({"hang": v, "limit_ms": limit}));
            std::process::exit(3);
        }
    });
}

/// the case loop is over (building and printing the output can take long for large runs): stop watching
pub fn wd_pause() {
    WD_LAST.store(0, Ordering::SeqCst);
}

/// heartbeat: `desc` is only built when called, keep it cheap (it is stored, not printed)
pub fn tick<F: FnOnce() -> String>(desc: F) {
    if let Ok(mut g) = WD_DESC.lock() {
        *g = desc();
    }
    WD_LAST.store(now_ms(), Ordering::SeqCst);
}

static WD_CMD: Mutex<String> = Mutex::new(String::new());
pub fn set_cmd(c: String) {
    if let Ok(mut g) = WD_CMD.lock() {
        *g = c;
    }
}
/// heartbeat naming the command line and the index of the case about to run (every random choice
/// derives from --seed, so this replays), plus whatever concrete input the caller has at hand
pub fn tick_idx(i: u64, extra: serde_json::Value) {
    let cmd = WD_CMD.lock().map(|g| g.clone()).unwrap_or_default();
    tick(|| serde_json::json!({"cmd": cmd, "case_index": i, "input": extra}).to_string());
}

/// sizes suggested by the driver (integer magnitudes that are new in a changed source file: possible thresholds);
/// generators use values around them for sketch sizes, stream lengths and vector lengths in a few extra cases
pub fn extra_sizes() -> Vec<u64> {
    std::env::var("VERIF_SIZES").ok().map(|s| s.split(',').filter_map(|x| x.trim().parse::<u64>().ok()).filter(|x| *x >= 2).collect()).unwrap_or_default()
}
/// every value next to a suggested size that does not exceed `cap`, largest first, at most `n` of them
pub fn near_sizes_all(xs: &[u64], cap: u64, n: usize) -> Vec<u64> {
    let mut v: Vec<u64> = Vec::new();
    for s in xs {
        for c in [s.saturating_sub(1), *s, s + 1, 2 * s + 1, s + s / 2 + 3, 4 * s + 1, 8 * s + 3] {
            if c >= 2 && c <= cap && !v.contains(&c) { v.push(c); }
        }
    }
    v.sort_unstable_by(|a, b| b.cmp(a));
    v.truncate(n);
    v
}
/// a value next to one of the suggested sizes: s-1, s, s+1, 2s+1, s + s/2 + 3, 4s+1, 8s+3
pub fn near_size(rng: &mut SplitMix64, xs: &[u64], cap: u64) -> Option<u64> {
    if xs.is_empty() { return None; }
    let s = xs[rng.below(xs.len() as u64) as usize];
    let v = match rng.below(8) { 0 => s.saturating_sub(1), 1 => s, 2 => s + 1, 3 => 2 * s + 1, 4 => s + s / 2 + 3, 5 => 4 * s + 1, 6 => 8 * s + 3, _ => s };
    Some(v.clamp(1, cap))
}

/// two distinct u64 items whose FnvHasher hashes agree on the bits selected by `mask` (deterministic birthday search)
pub fn fnv_colliding_pair(mask: u64, limit: u64) -> Option<(u64, u64)> {
    use std::hash::{BuildHasher, BuildHasherDefault};
    let bh = BuildHasherDefault::<fnv::FnvHasher>::default();
    let mut seen: std::collections::HashMap<u64, u64> = std::collections::HashMap::new();
    for x in 0..limit {
        let h = bh.hash_one(&x) & mask;
        if let Some(y) = seen.get(&h) { return Some((*y, x)); }
        seen.insert(h, x);
    }
    None
}
