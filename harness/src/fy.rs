//! C17: drive the public FYshuffle with a scripted generator.
use crate::util::*;
use probminhash::fyshuffle::FYshuffle;
use rand::RngCore;
use serde_json::{json, Value};
use std::panic::{catch_unwind, AssertUnwindSafe};

/// a generator that replays a fixed list of 64-bit outputs
pub struct ScriptRng {
    pub vals: Vec<u64>,
    pub pos: usize,
}
impl RngCore for ScriptRng {
    fn next_u32(&mut self) -> u32 {
        self.next_u64() as u32
    }
    fn next_u64(&mut self) -> u64 {
        let v = self.vals[self.pos % self.vals.len()];
        self.pos += 1;
        v
    }
    fn fill_bytes(&mut self, dst: &mut [u8]) {
        for chunk in dst.chunks_mut(8) {
            let b = self.next_u64().to_le_bytes();
            chunk.copy_from_slice(&b[..chunk.len()]);
        }
    }
}

#[derive(Clone, Debug)]
pub enum Op {
    Next(u64),
    Reset,
}

pub fn run(m: usize, ops: &[Op]) -> (String, Vec<i64>, Vec<usize>) {
    let mut outs = Vec::new();
    let mut fin = Vec::new();
    let r = catch_unwind(AssertUnwindSafe(|| {
        let mut fy = FYshuffle::new(m);
        for o in ops {
            match o {
                Op::Next(u) => {
                    let mut rng = ScriptRng { vals: vec![*u], pos: 0 };
                    outs.push(fy.next(&mut rng) as i64);
                }
                Op::Reset => {
                    fy.reset();
                    outs.push(-1);
                }
            }
        }
        fin = fy.get_values().clone();
    }));
    (if r.is_ok() { "ok".into() } else { "panic".into() }, outs, fin)
}

fn boundary_u(rng: &mut SplitMix64, n: u64) -> u64 {
    // raw outputs whose 52-bit fraction sits on / next to a cell boundary j/n
    let j = rng.below(n + 1);
    let k = (((j as u128) << 52) / (n as u128)) as u64;
    let d = rng.below(5) as i64 - 2;
    let k2 = (k as i64 + d).clamp(0, (1i64 << 52) - 1) as u64;
    (k2 << 12) | (rng.next_u64() & 0xFFF)
}

pub fn gen_u(rng: &mut SplitMix64, n: u64) -> u64 {
    match rng.below(10) {
        0 => 0,
        1 => u64::MAX,
        2 => u64::MAX - rng.below(1 << 13),
        3 | 4 | 5 => boundary_u(rng, n.max(1)),
        _ => rng.next_u64(),
    }
}

pub fn gen_case(rng: &mut SplitMix64) -> (usize, Vec<Op>) {
    let m = if rng.coin(0.3) { rng.range(1, 6) } else { rng.range(1, 70) } as usize;
    let nops = if rng.coin(0.15) { rng.below(4) } else { rng.range(1, 3 * m as u64 + 5) } as usize;
    let mut ops = Vec::new();
    let mut cur = m; // lastidx as the code keeps it
    for _ in 0..nops {
        if rng.coin(0.06) {
            ops.push(Op::Reset);
            cur = 0;
        } else {
            if cur >= m {
                cur = 0;
            }
            ops.push(Op::Next(gen_u(rng, (m - cur) as u64)));
            cur += 1;
        }
    }
    (m, ops)
}

pub fn ops_json(ops: &[Op]) -> Value {
    Value::Array(ops.iter().map(|o| match o {
        Op::Next(u) => json!([0, u]),
        Op::Reset => json!([1]),
    }).collect())
}

pub fn cases(args: &[String]) {
    let seed = arg_u64(args, "--seed", 1);
    let n = arg_u64(args, "--n", 100);
    let mut rng = SplitMix64::new(seed ^ 0xC17);
    std::panic::set_hook(Box::new(|_| {}));
    let mut out = Vec::new();
    for _ in 0..n {
        crate::util::tick_idx(0, serde_json::Value::Null);
        let (m, ops) = gen_case(&mut rng);
        let (outcome, outs, fin) = run(m, &ops);
        out.push(json!({"m": m, "ops": ops_json(&ops), "outcome": outcome, "outs": outs, "final": fin}));
    }
    crate::util::wd_pause();
    println!("{}", json!({ "cases": out }));
}

/// (u, n) -> trunc(fl(xsi * n)) exactly as FYshuffle::next computes it, for n up to 2^53
pub fn pick_cases(args: &[String]) {
    let seed = arg_u64(args, "--seed", 1);
    let n = arg_u64(args, "--n", 1000);
    let mut rng = SplitMix64::new(seed ^ 0xF1C);
    let mut out = Vec::new();
    for i in 0..n {
        crate::util::tick_idx(i as u64, serde_json::Value::Null);
        let bits = rng.range(1, 53);
        let nn: u64 = match i % 4 {
            0 => rng.range(1, 100),
            1 => (1u64 << bits).saturating_sub(rng.below(3)).max(1),
            2 => rng.range(1, 1u64 << bits),
            _ => (1u64 << 53) - rng.below(1000),
        };
        let u = gen_u(&mut rng, nn);
        let xsi = (u >> 12) as f64 * (1.0 / (1u64 << 52) as f64);
        let idx = (xsi * nn as f64) as usize;
        out.push(json!([u, nn, idx as u64]));
    }
    crate::util::wd_pause();
    println!("{}", json!({ "cases": out }));
}

/// the property itself on the implementation
pub fn property_fails(m: usize, pre: &[Op], us: &[u64]) -> Option<String> {
    // (1) after a reset m draws are a permutation of 0..m-1
    let mut ops: Vec<Op> = pre.to_vec();
    ops.push(Op::Reset);
    for u in us.iter().take(m) {
        ops.push(Op::Next(*u));
    }
    let (oc, outs, _) = run(m, &ops);
    if oc != "ok" {
        return Some("panic".into());
    }
    let block: Vec<i64> = outs[pre.len() + 1..].to_vec();
    let mut sorted = block.clone();
    sorted.sort();
    if sorted != (0..m as i64).collect::<Vec<_>>() {
        return Some(format!("after reset the {} draws {:?} are not a permutation of 0..{}", m, block, m));
    }
    // (2) reset forgets: same draws from a fresh shuffle
    let mut ops2: Vec<Op> = Vec::new();
    for u in us.iter().take(m) {
        ops2.push(Op::Next(*u));
    }
    let (_, outs2, _) = run(m, &ops2);
    if outs2 != block {
        return Some(format!("draws after reset {:?} differ from those of a new shuffle {:?}", block, outs2));
    }
    // (3) a second block without reset is again a permutation
    let mut ops3 = ops.clone();
    for u in us.iter().skip(m).take(m) {
        ops3.push(Op::Next(*u));
    }
    let (oc3, outs3, _) = run(m, &ops3);
    if oc3 != "ok" {
        return Some("panic".into());
    }
    if us.len() >= 2 * m {
        let mut b2: Vec<i64> = outs3[pre.len() + 1 + m..].to_vec();
        b2.sort();
        if b2 != (0..m as i64).collect::<Vec<_>>() {
            return Some(format!("second block of {} draws is not a permutation", m));
        }
    }
    None
}

pub fn search(args: &[String]) {
    let seed = arg_u64(args, "--seed", 1);
    let n = arg_u64(args, "--n", 20000);
    let mut rng = SplitMix64::new(seed ^ 0x5EA7C17);
    std::panic::set_hook(Box::new(|_| {}));
    let mut found = Vec::new();
    let mut tried = 0;
    for _ in 0..n {
        crate::util::tick_idx(0, serde_json::Value::Null);
        let (m, pre) = gen_case(&mut rng);
        let mut us = Vec::new();
        for t in 0..2 * m {
            us.push(gen_u(&mut rng, (m - t % m) as u64));
        }
        tried += 1;
        if let Some(why) = property_fails(m, &pre, &us) {
            found.push(json!({"m": m, "pre": ops_json(&pre), "us": us, "why": why}));
            if found.len() >= 2 {
                break;
            }
        }
    }
    // sizes suggested by the driver (new literals of a changed source): a history of a few or of m + 3 draws, reset, 2m draws
    let xs = crate::util::extra_sizes();
    let mut sizes: Vec<u64> = Vec::new();
    for s in &xs { for v in [s.saturating_sub(1), *s, s + 1, 2 * s + 1, s + s / 2 + 3, 4 * s + 1, 8 * s + 3, 16 * s + 5] { if v >= 1 && v <= 300_000 && !sizes.contains(&v) { sizes.push(v); } } }
    for m64 in sizes.iter().take(40) {
        let m = *m64 as usize;
        for hist in [1usize, 3, m / 300 + 2, 40, m + 3] {
            crate::util::tick_idx(0, json!({"m": m, "history": hist}));
            let mut pre: Vec<Op> = Vec::new();
            let mut cur = m;
            for _ in 0..hist { if cur >= m { cur = 0; } pre.push(Op::Next(gen_u(&mut rng, (m - cur) as u64))); cur += 1; }
            let us: Vec<u64> = (0..2 * m).map(|t| gen_u(&mut rng, (m - t % m) as u64)).collect();
            tried += 1;
            if found.len() < 2 {
                if let Some(why) = property_fails(m, &pre, &us) {
                    let short: String = why.chars().take(300).collect();
                    found.push(json!({"m": m, "pre": format!("{} draws before the reset", hist), "us": us.iter().take(8).collect::<Vec<_>>(), "why": short}));
                }
            }
        }
    }
    crate::util::wd_pause();
    println!("{}", json!({"tried": tried, "found": found}));
}

pub fn replay(args: &[String]) {
    let spec: Value = serde_json::from_str(&arg_str(args, "--case").expect("--case")).expect("json");
    let m = spec["m"].as_u64().unwrap() as usize;
    let parse = |v: &Value| -> Vec<Op> {
        v.as_array().unwrap().iter().map(|o| {
            let a = o.as_array().unwrap();
            if a[0].as_u64().unwrap() == 0 { Op::Next(a[1].as_u64().unwrap()) } else { Op::Reset }
        }).collect()
    };
    std::panic::set_hook(Box::new(|_| {}));
    if spec.get("us").is_some() {
        let pre = parse(&spec["pre"]);
        let us: Vec<u64> = spec["us"].as_array().unwrap().iter().map(|x| x.as_u64().unwrap()).collect();
        println!("{}", json!({"property_fails": property_fails(m, &pre, &us)}));
    } else {
        let ops = parse(&spec["ops"]);
        let (oc, outs, fin) = run(m, &ops);
        println!("{}", json!({"outcome": oc, "outs": outs, "final": fin}));
    }
}

/// search aid: a large shuffle (m = 2^24).  The first draw after a reset is floor(xsi * m) with xsi the 52-bit fraction of
/// the generator output; a sampler with fewer fraction bits cannot reach every position (so not every order is possible)
pub fn large(args: &[String]) {
    let seed = arg_u64(args, "--seed", 1);
    let m: usize = 1 << 24;
    let mut rng = SplitMix64::new(seed ^ 0xF1A);
    let mut fy = FYshuffle::new(m);
    let mut rows: Vec<Value> = Vec::new();
    let mut wrong = 0u64;
    let mut odd = 0u64;
    let n = 64u64;
    for t in 0..n {
        crate::util::tick_idx(t, json!({"m": m}));
        let u = rng.next_u64();
        fy.reset();
        let mut srng = ScriptRng { vals: vec![u], pos: 0 };
        let d = fy.next(&mut srng) as u64;
        let expect = u >> 40; // (u >> 12) * 2^-52 * 2^24, exact
        if d != expect { wrong += 1; if rows.len() < 3 { rows.push(json!({"u": u, "draw": d, "floor_xsi_m": expect})); } }
        if d % 2 == 1 { odd += 1; }
    }
    crate::util::wd_pause();
    println!("{}", json!({"m": m, "tried": n, "wrong": wrong, "odd_draws": odd, "examples": rows}));
}
