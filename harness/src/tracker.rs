//! C15: drive the crate-private MaxValueTracker (through the guarded wrapper)
//! with generated update / reset / probe sequences; print every node.
use crate::util::*;
use probminhash::verif_hooks::VerifTracker;
use serde_json::{json, Value};
use std::panic::{catch_unwind, AssertUnwindSafe};

#[derive(Clone, Debug)]
pub enum Op {
    Update(usize, i128),
    Reset,
    Probe(i128),
}

fn f64_of_key(k: i128) -> f64 {
    f64::from_bits(k as u64)
}
fn key_of_f64(x: f64) -> i128 {
    x.to_bits() as i128
}

/// run one case on the implementation. returns (outcome, nodes, obs)
fn run_u32(m: usize, ops: &[Op]) -> (String, Vec<i128>, Vec<i128>) {
    let mut obs = Vec::new();
    let mut nodes = Vec::new();
    let r = catch_unwind(AssertUnwindSafe(|| {
        let mut t = VerifTracker::<u32>::new(m);
        for o in ops {
            match o {
                Op::Update(k, v) => {
                    t.update(*k, *v as u32);
                    obs.push(t.get_max_value() as i128);
                }
                Op::Reset => {
                    t.reset();
                    obs.push(t.get_max_value() as i128);
                }
                Op::Probe(v) => obs.push(if t.is_update_possible(*v as u32) { 1 } else { 0 }),
            }
        }
        nodes = t.nodes().iter().map(|x| *x as i128).collect();
    }));
    (if r.is_ok() { "ok".into() } else { "panic".into() }, nodes, obs)
}

fn run_i32(m: usize, ops: &[Op]) -> (String, Vec<i128>, Vec<i128>) {
    let mut obs = Vec::new();
    let mut nodes = Vec::new();
    let r = catch_unwind(AssertUnwindSafe(|| {
        let mut t = VerifTracker::<i32>::new(m);
        for o in ops {
            match o {
                Op::Update(k, v) => {
                    t.update(*k, *v as i32);
                    obs.push(t.get_max_value() as i128);
                }
                Op::Reset => {
                    t.reset();
                    obs.push(t.get_max_value() as i128);
                }
                Op::Probe(v) => obs.push(if t.is_update_possible(*v as i32) { 1 } else { 0 }),
            }
        }
        nodes = t.nodes().iter().map(|x| *x as i128).collect();
    }));
    (if r.is_ok() { "ok".into() } else { "panic".into() }, nodes, obs)
}

fn run_f64(m: usize, ops: &[Op]) -> (String, Vec<i128>, Vec<i128>) {
    let mut obs = Vec::new();
    let mut nodes = Vec::new();
    let r = catch_unwind(AssertUnwindSafe(|| {
        let mut t = VerifTracker::<f64>::new(m);
        for o in ops {
            match o {
                Op::Update(k, v) => {
                    t.update(*k, f64_of_key(*v));
                    obs.push(key_of_f64(t.get_max_value()));
                }
                Op::Reset => {
                    t.reset();
                    obs.push(key_of_f64(t.get_max_value()));
                }
                Op::Probe(v) => obs.push(if t.is_update_possible(f64_of_key(*v)) { 1 } else { 0 }),
            }
        }
        nodes = t.nodes().iter().map(|x| key_of_f64(*x)).collect();
    }));
    (if r.is_ok() { "ok".into() } else { "panic".into() }, nodes, obs)
}

pub fn run_ty(ty: &str, m: usize, ops: &[Op]) -> (String, Vec<i128>, Vec<i128>) {
    match ty {
        "u32" => run_u32(m, ops),
        "i32" => run_i32(m, ops),
        _ => run_f64(m, ops),
    }
}

pub fn maxv(ty: &str) -> i128 {
    match ty {
        "u32" => u32::MAX as i128,
        "i32" => i32::MAX as i128,
        _ => key_of_f64(f64::MAX),
    }
}

fn gen_value(rng: &mut SplitMix64, ty: &str, mode: u64, alphabet: &[i128]) -> i128 {
    if mode == 0 {
        return alphabet[rng.below(alphabet.len() as u64) as usize];
    }
    match ty {
        "u32" => {
            if mode == 1 { rng.below(50) as i128 } else { (rng.next_u64() as u32) as i128 }
        }
        "i32" => {
            if mode == 1 { rng.below(50) as i128 - 25 } else { (rng.next_u64() as u32 as i32) as i128 }
        }
        _ => {
            // non-negative finite doubles (race values), sometimes +inf / MAX / 0
            let c = rng.below(40);
            let x = if c == 0 { f64::INFINITY } else if c == 1 { f64::MAX } else if c == 2 { 0.0 }
                else if mode == 1 { (rng.below(64) as f64) * 0.25 }
                else { rng.unit() * (10f64).powi(rng.below(12) as i32 - 6) };
            key_of_f64(x)
        }
    }
}

pub fn ops_json(ops: &[Op]) -> Value {
    Value::Array(ops.iter().map(|o| match o {
        Op::Update(k, v) => json!([0, k, v.to_string()]),
        Op::Reset => json!([1]),
        Op::Probe(v) => json!([2, v.to_string()]),
    }).collect())
}

pub fn gen_case(rng: &mut SplitMix64, malformed: bool) -> (String, usize, Vec<Op>) {
    let ty = ["u32", "i32", "f64"][rng.below(3) as usize].to_string();
    let special = [1usize, 2, 3, 4, 5, 6, 7, 8, 9, 15, 16, 17, 31, 32, 33, 40];
    let m = if rng.coin(0.5) { special[rng.below(special.len() as u64) as usize] } else { rng.range(1, 40) as usize };
    let mode = rng.below(3);
    let alphabet: Vec<i128> = (0..4).map(|_| gen_value(rng, &ty, 2, &[])).collect();
    let nops = if rng.coin(0.1) { rng.below(4) } else { rng.range(1, 200) } as usize;
    let mut ops = Vec::with_capacity(nops);
    let mut recent: Vec<i128> = vec![maxv(&ty)];
    if rng.coin(0.6) {
        // offer something to every slot first (random order) so that the maximum is informative
        let mut order: Vec<usize> = (0..m).collect();
        for i in (1..m).rev() {
            let j = rng.below(i as u64 + 1) as usize;
            order.swap(i, j);
        }
        for k in order {
            let v = gen_value(rng, &ty, mode, &alphabet);
            recent.push(v);
            ops.push(Op::Update(k, v));
        }
    }
    for _ in 0..nops {
        let c = rng.below(100);
        if c < 84 {
            let k = if malformed && rng.coin(0.05) { m + rng.below(3) as usize } else { rng.below(m as u64) as usize };
            let v = gen_value(rng, &ty, mode, &alphabet);
            recent.push(v);
            ops.push(Op::Update(k, v));
        } else if c < 88 {
            ops.push(Op::Reset);
        } else {
            // probe around values that were offered (boundary of "possible")
            let base = recent[rng.below(recent.len() as u64) as usize];
            let d = rng.below(3) as i128 - 1;
            let lo = if ty == "i32" { i32::MIN as i128 } else { 0 };
            let p = (base + d).max(lo).min(maxv(&ty));
            ops.push(Op::Probe(p));
        }
    }
    (ty, m, ops)
}

pub fn cases(args: &[String]) {
    let seed = arg_u64(args, "--seed", 1);
    let n = arg_u64(args, "--n", 100);
    let mut rng = SplitMix64::new(seed ^ 0xC15);
    std::panic::set_hook(Box::new(|_| {}));
    let mut out = Vec::new();
    for i in 0..n {
        crate::util::tick_idx(i as u64, serde_json::Value::Null);
        let malformed = i % 25 == 24;
        let (ty, m, mut ops) = gen_case(&mut rng, malformed);
        let (outcome, nodes, obs) = run_ty(&ty, m, &ops);
        if outcome == "panic" {
            // keep the operations up to and including the one that failed
            ops.truncate(obs.len() + 1);
        }
        out.push(json!({"ty": ty, "m": m, "maxv": maxv(&ty).to_string(), "ops": ops_json(&ops),
                        "outcome": outcome, "malformed": malformed,
                        "nodes": nodes.iter().map(|x| x.to_string()).collect::<Vec<_>>(),
                        "obs": obs.iter().map(|x| x.to_string()).collect::<Vec<_>>()}));
    }
    crate::util::wd_pause();
    println!("{}", json!({ "cases": out }));
}

/// implementation-level search: naive min/max oracle on the same sequences
pub fn search(args: &[String]) {
    let seed = arg_u64(args, "--seed", 1);
    let n = arg_u64(args, "--n", 20000);
    let mut rng = SplitMix64::new(seed ^ 0x5EA7C15);
    std::panic::set_hook(Box::new(|_| {}));
    let mut found = Vec::new();
    let mut tried = 0u64;
    for _ in 0..n {
        crate::util::tick_idx(0, serde_json::Value::Null);
        let (ty, m, mut ops) = gen_case(&mut rng, false);
        // a NaN offer is below nothing: it must change nothing (the oracle compares with the float order)
        if ty == "f64" && rng.coin(0.3) {
            for _ in 0..1 + rng.below(4) {
                let at = rng.below(ops.len() as u64 + 1) as usize;
                ops.insert(at, Op::Update(rng.below(m as u64) as usize, key_of_f64(f64::NAN)));
            }
        }
        tried += 1;
        if let Some(why) = oracle_disagrees(&ty, m, &ops) {
            // shrink by deleting operations
            let mut cur = ops.clone();
            let mut changed = true;
            while changed {
                changed = false;
                let mut i = 0;
                while i < cur.len() {
                    let mut t = cur.clone();
                    t.remove(i);
                    if oracle_disagrees(&ty, m, &t).is_some() {
                        cur = t;
                        changed = true;
                    } else {
                        i += 1;
                    }
                }
            }
            let why2 = oracle_disagrees(&ty, m, &cur).unwrap_or(why);
            found.push(json!({"ty": ty, "m": m, "ops": ops_json(&cur), "why": why2}));
            if found.len() >= 2 {
                break;
            }
        }
    }
    crate::util::wd_pause();
    println!("{}", json!({"tried": tried, "found": found}));
}

fn less(ty: &str, a: i128, b: i128) -> bool {
    if ty == "f64" { f64_of_key(a) < f64_of_key(b) } else { a < b }
}

/// the property itself, against a naive array of per-slot minima
pub fn oracle_disagrees(ty: &str, m: usize, ops: &[Op]) -> Option<String> {
    let (outcome, nodes, obs) = run_ty(ty, m, ops);
    if outcome != "ok" {
        return Some("tracker panicked on a valid sequence".into());
    }
    let mx = maxv(ty);
    let mut leaves = vec![mx; m];
    let mut oi = 0;
    let curmax = |l: &Vec<i128>| {
        let mut best = l[0];
        for x in l.iter() {
            if less(ty, best, *x) { best = *x; }
        }
        best
    };
    for o in ops {
        match o {
            Op::Update(k, v) => {
                if less(ty, *v, leaves[*k]) { leaves[*k] = *v; }
                if obs[oi] != curmax(&leaves) { return Some(format!("maximum after op {} is {} but the largest slot minimum is {}", oi, obs[oi], curmax(&leaves))); }
            }
            Op::Reset => {
                leaves = vec![mx; m];
                if obs[oi] != mx { return Some(format!("maximum after reset (op {}) is {}", oi, obs[oi])); }
            }
            Op::Probe(v) => {
                let want = if less(ty, *v, curmax(&leaves)) { 1 } else { 0 };
                if obs[oi] != want { return Some(format!("is_update_possible({}) = {} at op {} with maximum {}", v, obs[oi], oi, curmax(&leaves))); }
            }
        }
        oi += 1;
    }
    for k in 0..m {
        if nodes[k] != leaves[k] { return Some(format!("slot {} holds {} but the smallest offered value is {}", k, nodes[k], leaves[k])); }
    }
    None
}

pub fn replay(args: &[String]) {
    let spec: Value = serde_json::from_str(&arg_str(args, "--case").expect("--case JSON")).expect("json");
    let ty = spec["ty"].as_str().unwrap().to_string();
    let m = spec["m"].as_u64().unwrap() as usize;
    let ops: Vec<Op> = spec["ops"].as_array().unwrap().iter().map(|o| {
        let a = o.as_array().unwrap();
        match a[0].as_u64().unwrap() {
            0 => Op::Update(a[1].as_u64().unwrap() as usize, a[2].as_str().unwrap().parse().unwrap()),
            1 => Op::Reset,
            _ => Op::Probe(a[1].as_str().unwrap().parse().unwrap()),
        }
    }).collect();
    std::panic::set_hook(Box::new(|_| {}));
    let (outcome, nodes, obs) = run_ty(&ty, m, &ops);
    crate::util::wd_pause();
    println!("{}", json!({"outcome": outcome, "nodes": nodes.iter().map(|x| x.to_string()).collect::<Vec<_>>(),
        "obs": obs.iter().map(|x| x.to_string()).collect::<Vec<_>>(), "oracle": oracle_disagrees(&ty, m, &ops)}));
}
