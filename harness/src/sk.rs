//! C04 / C05 / C09 / C13 / C03: histories on SetSketcher, SuperMinHash, SuperMinHash2 and the two
//! densified sketchers.  Each case is emitted as the flat integer "wire" the extracted model reads,
//! ending with the implementation's observed state.
use crate::util::*;
use fnv::FnvHasher;
use probminhash::densminhash::{OptDensMinHash, RevOptDensMinHash};
use probminhash::fyshuffle::FYshuffle;
use probminhash::setsketcher::{SetSketchParams, SetSketcher};
use probminhash::superminhasher::{NoHashHasher, SuperMinHash};
use probminhash::superminhasher2::SuperMinHash2;
use rand::distr::{Distribution, Uniform};
use rand::prelude::*;
use rand_chacha::ChaCha12Rng;
use rand_distr::Exp1;
use rand_xoshiro::Xoshiro256PlusPlus;
use serde_json::{json, Value};
use std::hash::{BuildHasher, BuildHasherDefault, Hasher};
use std::panic::{catch_unwind, AssertUnwindSafe};

pub type W = Vec<i128>;

fn fnv(x: u64) -> u64 {
    BuildHasherDefault::<FnvHasher>::default().hash_one(&x)
}

/// hasher for tie forcing: only the low 3 bits of the item survive
#[derive(Default)]
pub struct Low3Hasher(u64);
impl Hasher for Low3Hasher {
    fn write(&mut self, bytes: &[u8]) {
        let mut v = 0u64;
        for (i, b) in bytes.iter().enumerate().take(8) {
            v |= (*b as u64) << (8 * i);
        }
        self.0 = v & 7;
    }
    fn finish(&self) -> u64 {
        self.0
    }
}
fn low3(x: u64) -> u64 {
    BuildHasherDefault::<Low3Hasher>::default().hash_one(&x)
}

/// identity hasher: the u64 item is the generator seed
#[derive(Default)]
pub struct IdHasher(u64);
impl Hasher for IdHasher {
    fn write(&mut self, bytes: &[u8]) {
        let mut v = 0u64;
        for (i, b) in bytes.iter().enumerate().take(8) {
            v |= (*b as u64) << (8 * i);
        }
        self.0 = v;
    }
    fn finish(&self) -> u64 {
        self.0
    }
}
fn idh(x: u64) -> u64 {
    x
}

/// seeds whose f32 SuperMinHash stream contains a draw r + j that rounds up to j + 1
/// (integer part differs from the round number); found by scanning, cached for the process
pub fn roundup_seeds() -> &'static Vec<u64> {
    use std::sync::OnceLock;
    static TABLE: OnceLock<Vec<u64>> = OnceLock::new();
    TABLE.get_or_init(|| {
        let mut out = Vec::new();
        let unit = Uniform::<f32>::new(0f32, 1f32).unwrap();
        let m = 64usize;
        let mut seed = 0u64;
        while out.len() < 24 && seed < 3_000_000 {
            let mut rng = Xoshiro256PlusPlus::seed_from_u64(seed);
            for j in 0..m {
                let r: f32 = unit.sample(&mut rng);
                let _k = Uniform::<usize>::new(j, m).unwrap().sample(&mut rng);
                let rpj = r + (j as f32);
                if rpj as usize != j {
                    out.push(seed);
                    break;
                }
            }
            seed += 1;
        }
        out
    })
}

fn push_list(w: &mut W, items: &[i128]) {
    w.push(items.len() as i128);
    w.extend_from_slice(items);
}

// ------------------------------------------------------------------------------------------
// SetSketch
// ------------------------------------------------------------------------------------------

pub fn ss_script(hash: u64, m: u64, a: f64, b: f64, q: u64) -> Vec<(i128, i128, i128)> {
    let lnb = (b - 1.).ln_1p();
    let mut rng = Xoshiro256PlusPlus::seed_from_u64(hash);
    let mut fy = FYshuffle::new(m as usize);
    fy.reset();
    let iq1: i64 = q as i64 + 1;
    let inva: f64 = 1. / a;
    let mut x_pred: f64 = 0.;
    let mut out = Vec::new();
    for j in 0..m {
        let x_j = x_pred + (inva / (m - j) as f64) * rng.sample::<f64, Exp1>(Exp1);
        x_pred = x_j;
        let lb_xj = x_j.ln() / lnb;
        let a_j = (-lb_xj).floor() as i64;
        let z: i64 = iq1.min((1. - lb_xj).floor() as i64);
        let k = 0.max(z) as u64;
        let i = fy.next(&mut rng);
        out.push((a_j as i128, k as i128, i as i128));
    }
    out
}

#[derive(Clone)]
enum SsOp {
    Sketch(Vec<u64>),
    Reinit,
    Merge { m: u64, q: u64, b: f64, a: f64, items: Vec<u64> },
}

fn ss_case<I>(rng: &mut SplitMix64, imax: u64) -> Value
where
    I: num::Integer + num::ToPrimitive + num::FromPrimitive + num::Bounded + Copy + Clone + std::fmt::Debug,
{
    let m = [1u64, 2, 3, 4, 8, 16, 33][rng.below(7) as usize];
    let (b, a, q): (f64, f64, u64) = match rng.below(5) {
        0 => (1.001, 20., 65534),
        1 => (2.0, 20., 30),
        2 => (1.2, 16., 100),
        3 => (1.0001, 20., 200000), // registers beyond u16::MAX: clipping
        _ => (1.5, 4., 6),          // small q: clamping at q+1
    };
    let params = SetSketchParams::new(b, m, a, q);
    let nops = rng.range(1, 10);
    let mut ops = Vec::new();
    let space = if rng.coin(0.5) { 40 } else { 1u64 << 32 };
    for _ in 0..nops {
        let c = rng.below(10);
        if c < 6 {
            let n = if rng.coin(0.3) { rng.range(1, 3) } else { rng.range(1, 6 * m + 4) };
            ops.push(SsOp::Sketch((0..n).map(|_| rng.below(space)).collect()));
        } else if c < 7 {
            ops.push(SsOp::Reinit);
        } else {
            // merge with another sketcher; sometimes with a parameter changed by 0, 1 or 2 ulps / units
            let (mut m2, mut q2, mut b2, mut a2) = (m, q, b, a);
            match rng.below(12) {
                0 => m2 = m + 1,
                1 => q2 = q + 1,
                2 => b2 = f64::from_bits(b.to_bits() + 1),
                3 => b2 = f64::from_bits(b.to_bits() - 1),
                4 => b2 = f64::from_bits(b.to_bits() + 2),
                5 => a2 = f64::from_bits(a.to_bits() + 1),
                6 => a2 = f64::from_bits(a.to_bits() - 1),
                7 => a2 = f64::from_bits(a.to_bits() - 2),
                _ => {}
            }
            let n = rng.range(0, 4 * m + 2);
            ops.push(SsOp::Merge { m: m2, q: q2, b: b2, a: a2, items: (0..n).map(|_| rng.below(space)).collect() });
        }
    }
    let mut w: W = vec![5, m as i128, q as i128, imax as i128, b.to_bits() as i128, a.to_bits() as i128, ops.len() as i128];
    let mut s = SetSketcher::<I, u64, FnvHasher>::new(params, BuildHasherDefault::<FnvHasher>::default());
    let mut merges: Vec<i128> = Vec::new();
    let mut monotone_ok = true;
    let mut prev_card = 0.0f64;
    for op in &ops {
        match op {
            SsOp::Sketch(items) => {
                if items.len() == 1 {
                    s.sketch(&items[0]).unwrap();
                } else {
                    s.sketch_slice(items).unwrap();
                }
                for it in items {
                    w.push(0);
                    let sc = ss_script(fnv(*it), m, a, b, q);
                    w.push(sc.len() as i128);
                    for (x, y, z) in sc {
                        w.extend_from_slice(&[x, y, z]);
                    }
                }
                // ops count must match: one wire op per item; fixed below
            }
            SsOp::Reinit => {
                s.reinit();
                prev_card = 0.0;
                w.push(1);
            }
            SsOp::Merge { m: m2, q: q2, b: b2, a: a2, items } => {
                let p2 = SetSketchParams::new(*b2, *m2, *a2, *q2);
                let mut o = SetSketcher::<I, u64, FnvHasher>::new(p2, BuildHasherDefault::<FnvHasher>::default());
                // the sketcher merged in is built either by streaming its items or - same registers, by the merge
                // theorems - as an accumulator that only ever saw merges of partial sketchers (tree reduction)
                if items.len() >= 2 && rng.coin(0.5) {
                    let cut = 1 + rng.below(items.len() as u64 - 1) as usize;
                    let stream_first = rng.coin(0.3);
                    for (ci, chunk) in [&items[..cut], &items[cut..]].iter().enumerate() {
                        if ci == 0 && stream_first {
                            for it in chunk.iter() {
                                o.sketch(it).unwrap();
                            }
                            continue;
                        }
                        let mut part = SetSketcher::<I, u64, FnvHasher>::new(p2, BuildHasherDefault::<FnvHasher>::default());
                        for it in chunk.iter() {
                            part.sketch(it).unwrap();
                        }
                        o.merge(&part).unwrap();
                    }
                } else {
                    for it in items {
                        o.sketch(it).unwrap();
                    }
                }
                let r = s.merge(&o);
                merges.push(if r.is_ok() { 1 } else { 0 });
                w.push(2);
                w.extend_from_slice(&[*m2 as i128, *q2 as i128, imax as i128, b2.to_bits() as i128, a2.to_bits() as i128]);
                w.push(items.len() as i128);
                for it in items {
                    let sc = ss_script(fnv(*it), *m2, *a2, *b2, *q2);
                    w.push(sc.len() as i128);
                    for (x, y, z) in sc {
                        w.extend_from_slice(&[x, y, z]);
                    }
                }
            }
        }
        let (card, _) = s.get_cardinal_stats();
        if card < prev_card {
            monotone_ok = false;
        }
        prev_card = card;
    }
    // fix the op count (sketch ops were expanded per item)
    let nwire_ops: i128 = ops.iter().map(|o| match o { SsOp::Sketch(v) => v.len() as i128, _ => 1 }).sum();
    w[6] = nwire_ops;
    let (lower, nbmin) = s.verif_state();
    let kv: Vec<i128> = s.get_signature().iter().map(|x| x.to_u64().unwrap() as i128).collect();
    push_list(&mut w, &kv);
    w.push(lower as i128);
    w.push(nbmin as i128);
    w.push(s.get_nb_overflow() as i128);
    push_list(&mut w, &merges);
    json!({"wire": w.iter().map(|x| x.to_string()).collect::<Vec<_>>(),
           "meta": {"kind": "setsketch", "m": m, "b": b, "a": a, "q": q, "imax": imax, "nops": ops.len(),
                    "low_sketch": s.get_low_sketch(), "lower": lower, "min_register": kv.iter().min(),
                    "merges": merges, "card_monotone": monotone_ok, "overflow": s.get_nb_overflow()}})
}

// ------------------------------------------------------------------------------------------
// SuperMinHash (float)
// ------------------------------------------------------------------------------------------

macro_rules! smh_script {
    ($F:ty, $hash:expr, $m:expr, $key:expr) => {{
        let mut rng = Xoshiro256PlusPlus::seed_from_u64($hash);
        let unit = Uniform::<$F>::new(0 as $F, 1 as $F).unwrap();
        let mut out: Vec<(i128, i128, i128)> = Vec::new();
        for j in 0..$m {
            let r: $F = unit.sample(&mut rng);
            let k = Uniform::<usize>::new(j, $m).unwrap().sample(&mut rng);
            let rpj = r + (j as $F);
            out.push(($key(rpj), (rpj as usize) as i128, k as i128));
        }
        out
    }};
}

macro_rules! smh_case {
    ($F:ty, $H:ty, $hashfn:expr, $rng:expr, $key:expr, $fname:expr, $hist:expr, $special:expr) => {{
        let rng: &mut SplitMix64 = $rng;
        let special: bool = $special;
        let m = if special { 64 } else if rng.coin(0.5) { rng.range(1, 8) } else { rng.range(1, 64) } as usize;
        let nops = rng.range(1, 8);
        let space = if rng.coin(0.5) { 30 } else { 1u64 << 40 };
        let large: $F = u32::MAX as $F;
        let mut w: W = vec![6, m as i128, $key(large), (large as usize) as i128, $hist, 0];
        let mut s = SuperMinHash::<$F, u64, $H>::new(m, BuildHasherDefault::<$H>::default());
        let mut nwire = 0i128;
        let r = catch_unwind(AssertUnwindSafe(|| {
            for _ in 0..nops {
                if rng.coin(0.15) {
                    s.reinit();
                    w.push(1);
                    nwire += 1;
                } else {
                    let n = if rng.coin(0.3) { rng.range(1, 3) } else { rng.range(1, 3 * m as u64 + 3) };
                    let items: Vec<u64> = (0..n).map(|_| {
                        if special && rng.coin(0.5) { let t = roundup_seeds(); t[rng.below(t.len() as u64) as usize] } else { rng.below(space) }
                    }).collect();
                    for it in &items {
                        w.push(0);
                        let sc = smh_script!($F, $hashfn(*it), m, $key);
                        w.push(sc.len() as i128);
                        for (x, y, z) in sc {
                            w.extend_from_slice(&[x, y, z]);
                        }
                        nwire += 1;
                    }
                    if items.len() == 1 { s.sketch(&items[0]).unwrap(); } else { s.sketch_slice(&items).unwrap(); }
                }
            }
        }));
        w[5] = nwire;
        let (b, upper, rank) = s.verif_state();
        w.push(if r.is_ok() { 0 } else { 1 });
        let hk: Vec<i128> = s.get_hsketch().iter().map(|x| $key(*x)).collect();
        push_list(&mut w, &hk);
        push_list(&mut w, &b.iter().map(|x| *x as i128).collect::<Vec<_>>());
        w.push(upper as i128);
        w.push(rank as i128);
        json!({"wire": w.iter().map(|x| x.to_string()).collect::<Vec<_>>(),
               "meta": {"kind": "superminhash", "float": $fname, "m": m, "nops": nops, "outcome": if r.is_ok() {"ok"} else {"panic"}}})
    }};
}

fn key64(x: f64) -> i128 {
    x.to_bits() as i128
}
fn key32(x: f32) -> i128 {
    x.to_bits() as i128
}

// ------------------------------------------------------------------------------------------
// SuperMinHash2
// ------------------------------------------------------------------------------------------

fn smh2_script(hash: u64, m: usize) -> Vec<(i128, i128)> {
    let mut rng = Xoshiro256PlusPlus::seed_from_u64(hash);
    let distr = Uniform::new(0u64, usize::MAX as u64).unwrap();
    let mut fy = FYshuffle::new(m);
    fy.reset();
    let mut out = Vec::new();
    for _ in 0..m {
        let r = distr.sample(&mut rng) as usize;
        let k = fy.next(&mut rng);
        out.push((r as i128, k as i128));
    }
    out
}

macro_rules! smh2_case {
    ($H:ty, $hashfn:expr, $rng:expr) => {{
        let rng: &mut SplitMix64 = $rng;
        let m = if rng.coin(0.5) { rng.range(1, 8) } else { rng.range(1, 64) } as usize;
        let nops = rng.range(1, 8);
        let space = if rng.coin(0.5) { 30 } else { 1u64 << 40 };
        let mut w: W = vec![7, m as i128, 0];
        let mut s = SuperMinHash2::<u64, u64, $H>::new(m, BuildHasherDefault::<$H>::default());
        let mut nwire = 0i128;
        let r = catch_unwind(AssertUnwindSafe(|| {
            for _ in 0..nops {
                if rng.coin(0.15) {
                    s.reinit();
                    w.push(1);
                    nwire += 1;
                } else {
                    let n = if rng.coin(0.3) { rng.range(1, 3) } else { rng.range(1, 3 * m as u64 + 3) };
                    let items: Vec<u64> = (0..n).map(|_| rng.below(space)).collect();
                    for it in &items {
                        let h = $hashfn(*it);
                        w.push(0);
                        w.push(h as i128);
                        let sc = smh2_script(h, m);
                        w.push(sc.len() as i128);
                        for (x, y) in sc {
                            w.extend_from_slice(&[x, y]);
                        }
                        nwire += 1;
                    }
                    if items.len() == 1 { s.sketch(&items[0]).unwrap(); } else { s.sketch_slice(&items).unwrap(); }
                }
            }
        }));
        w[2] = nwire;
        let (l, v, b, upper) = s.verif_state();
        w.push(if r.is_ok() { 0 } else { 1 });
        push_list(&mut w, &s.get_hsketch().iter().map(|x| *x as i128).collect::<Vec<_>>());
        push_list(&mut w, &v.iter().map(|x| *x as i128).collect::<Vec<_>>());
        push_list(&mut w, &l.iter().map(|x| *x as i128).collect::<Vec<_>>());
        push_list(&mut w, &b.iter().map(|x| *x as i128).collect::<Vec<_>>());
        w.push(upper as i128);
        json!({"wire": w.iter().map(|x| x.to_string()).collect::<Vec<_>>(),
               "meta": {"kind": "superminhash2", "m": m, "nops": nops, "outcome": if r.is_ok() {"ok"} else {"panic"}}})
    }};
}

// ------------------------------------------------------------------------------------------
// densified one permutation hashing
// ------------------------------------------------------------------------------------------

fn opt_targets(m: usize, t: usize) -> Vec<Vec<i128>> {
    let inrange = Uniform::<usize>::new(0, m).unwrap();
    (0..m).map(|k| {
        let mut rng2 = ChaCha12Rng::seed_from_u64(k as u64 + 123743);
        (0..t).map(|_| inrange.sample(&mut rng2) as i128).collect()
    }).collect()
}
fn rev_targets(m: usize, passes: usize) -> Vec<Vec<i128>> {
    let unif_m = Uniform::<usize>::new(0, m).unwrap();
    (1..=passes).map(|pass| {
        (0..m).map(|k| {
            let mut rng2 = ChaCha12Rng::seed_from_u64((k as u64 + 1) * m as u64 + pass as u64 + 253713);
            unif_m.sample(&mut rng2) as i128
        }).collect()
    }).collect()
}

/// run `f` on another thread; None when it does not return within the time limit (a hang)
fn with_timeout<T: Send + 'static>(ms: u64, f: impl FnOnce() -> T + Send + 'static) -> Option<std::thread::Result<T>> {
    let (tx, rx) = std::sync::mpsc::channel();
    std::thread::spawn(move || {
        let r = catch_unwind(AssertUnwindSafe(f));
        let _ = tx.send(r);
    });
    rx.recv_timeout(std::time::Duration::from_millis(ms)).ok()
}

macro_rules! dens_case {
    ($S:ident, $variant:expr, $F:ty, $H:ty, $hashfn:expr, $rng:expr, $key:expr, $scale:expr, $tie:expr, $report:expr) => {{
        let rng: &mut SplitMix64 = $rng;
        let m = if rng.coin(0.5) { rng.range(1, 8) } else { rng.range(1, 64) } as usize;
        let nops = rng.range(1, 8);
        let space = if rng.coin(0.5) { 30 } else { 1u64 << 40 };
        let large: $F = u32::MAX as $F;
        let mut w: W = vec![8, $variant, m as i128, $key(large), $tie, $report];
        // targets
        if $variant == 0 {
            let t = opt_targets(m, (8 + 4 * m) * $scale);
            w.push(t.len() as i128);
            for l in &t { push_list(&mut w, l); }
        } else {
            let t = rev_targets(m, (8 + 4 * m) * $scale);
            w.push(t.len() as i128);
            for l in &t { push_list(&mut w, l); }
        }
        let opspos = w.len();
        w.push(0);
        let mut nwire = 0i128;
        let mut s = $S::<$F, u64, $H>::new(m, BuildHasherDefault::<$H>::default());
        let unit = Uniform::<$F>::new(0 as $F, 1 as $F).unwrap();
        let unif = Uniform::<usize>::new(0, m).unwrap();
        let mut outcome = 0i128; // 0 ok, 1 panic, 2 hang
        let mut oplog: Vec<String> = Vec::new();
        let sname = stringify!($S);
        let fname = stringify!($F);
        let hname = stringify!($H);
        let mut emit_item = |w: &mut W, it: u64| {
            let h = $hashfn(it);
            let mut g = Xoshiro256PlusPlus::seed_from_u64(h);
            let r: $F = unit.sample(&mut g);
            let k: usize = unif.sample(&mut g);
            w.extend_from_slice(&[$key(r), k as i128, h as i128]);
        };
        for _ in 0..nops {
            if outcome != 0 { break; }
            let c = rng.below(10);
            let nothing = s.verif_state().2.iter().all(|b| !*b);
            let c = if nothing && c >= 5 && !rng.coin(0.08) { 0 } else { c };
            if c < 4 {
                let it = rng.below(space);
                w.push(0);
                emit_item(&mut w, it);
                oplog.push(format!("sketch({})", it));
                s.sketch(&it);
                nwire += 1;
            } else if c < 5 {
                oplog.push("reinit".into());
                s.reinit();
                w.push(1);
                nwire += 1;
            } else if c < 7 {
                w.push(2);
                nwire += 1;
                oplog.push("end_sketch".into());
                crate::util::tick(|| json!({"sketcher": sname, "float": fname, "hasher": hname, "m": m, "ops": oplog}).to_string());
                if nothing && m > 0 {
                    // may never return: run it on a copy-free separate thread with a time limit
                    let mut s2 = $S::<$F, u64, $H>::new(m, BuildHasherDefault::<$H>::default());
                    match with_timeout(1500, move || { s2.end_sketch(); }) {
                        None => outcome = 2,
                        Some(Err(_)) => outcome = 1,
                        Some(Ok(())) => { s.end_sketch(); }
                    }
                } else {
                    if catch_unwind(AssertUnwindSafe(|| s.end_sketch())).is_err() { outcome = 1; }
                }
            } else {
                let n = if rng.coin(0.2) { 0 } else { rng.range(1, 3 * m as u64 + 2) };
                let items: Vec<u64> = (0..n).map(|_| rng.below(space)).collect();
                oplog.push(format!("sketch_slice({:?})", items));
                crate::util::tick(|| json!({"sketcher": sname, "float": fname, "hasher": hname, "m": m, "ops": oplog}).to_string());
                w.push(3);
                w.push(items.len() as i128);
                for it in &items { emit_item(&mut w, *it); }
                nwire += 1;
                if nothing && items.is_empty() {
                    let mut s2 = $S::<$F, u64, $H>::new(m, BuildHasherDefault::<$H>::default());
                    match with_timeout(1500, move || { s2.sketch_slice(&[]).is_ok() }) {
                        None => outcome = 2,
                        Some(Err(_)) => outcome = 1,
                        Some(Ok(true)) => { let _ = s.sketch_slice(&items); }
                        Some(Ok(false)) => outcome = 3,
                    }
                } else {
                    match catch_unwind(AssertUnwindSafe(|| s.sketch_slice(&items))) {
                        Err(_) => outcome = 1,
                        Ok(Err(_)) => outcome = 3,
                        Ok(Ok(())) => {}
                    }
                }
            }
        }
        w[opspos] = nwire;
        let (h, v, init, empty) = s.verif_state();
        w.push(outcome);
        push_list(&mut w, &h.iter().map(|x| $key(*x)).collect::<Vec<_>>());
        push_list(&mut w, &v.iter().map(|x| *x as i128).collect::<Vec<_>>());
        push_list(&mut w, &init.iter().map(|x| if *x { 1 } else { 0 }).collect::<Vec<_>>());
        w.push(empty as i128);
        // views (only readable when finished)
        let mut views_ok = true;
        if outcome == 0 && empty == 0 {
            let u64v = s.get_hsketch_u64();
            let u32v = s.get_hsketch_u32();
            for (a, b) in u64v.iter().zip(u32v.iter()) {
                let x = murmur3::murmur3_32(&mut std::io::Cursor::new(a.to_ne_bytes()), 127).unwrap();
                if x != *b { views_ok = false; }
            }
            if u64v != v { views_ok = false; }
        }
        json!({"wire": w.iter().map(|x| x.to_string()).collect::<Vec<_>>(),
               "meta": {"kind": "dens", "variant": $variant, "m": m, "nops": nops, "outcome": outcome, "views_ok": views_ok, "empty": empty}})
    }};
}

pub fn cases(args: &[String]) {
    let seed = arg_u64(args, "--seed", 1);
    let n = arg_u64(args, "--n", 50);
    let kind = arg_str(args, "--kind").unwrap_or("all".into());
    let scale = arg_u64(args, "--scale", 1) as usize;
    let hist = arg_u64(args, "--hist-by-floor", 0) as i128;
    let tie = arg_u64(args, "--tie-on-hash", 0) as i128;
    let report = arg_u64(args, "--report-empty", 0) as i128;
    let only: Option<Vec<u64>> = arg_str(args, "--only").map(|s| s.split(',').filter(|x| !x.is_empty()).map(|x| x.parse().unwrap()).collect());
    std::panic::set_hook(Box::new(|_| {}));
    let ids: Vec<u64> = match only { Some(v) => v, None => (0..n).collect() };
    let mut out = Vec::new();
    for i in ids {
        let mut rng = SplitMix64::new(seed ^ 0x5C04 ^ i.wrapping_mul(0x9E3779B97F4A7C15));
        rng.next_u64();
        let sel = match kind.as_str() {
            "setsketch" => 0,
            "superminhash" => 1,
            "superminhash2" => 2,
            "dens" => 3,
            _ => i % 4,
        };
        let mut v = match sel {
            0 => if rng.coin(0.7) { ss_case::<u16>(&mut rng, u16::MAX as u64) } else { ss_case::<u32>(&mut rng, u32::MAX as u64) },
            1 => match rng.below(5) {
                0 => smh_case!(f64, FnvHasher, fnv, &mut rng, key64, "f64", hist, false),
                1 => smh_case!(f32, FnvHasher, fnv, &mut rng, key32, "f32", hist, false),
                2 => smh_case!(f32, Low3Hasher, low3, &mut rng, key32, "f32-ties", hist, false),
                3 => smh_case!(f32, IdHasher, idh, &mut rng, key32, "f32-roundup", hist, true),
                _ => smh_case!(f64, Low3Hasher, low3, &mut rng, key64, "f64-ties", hist, false),
            },
            2 => if rng.coin(0.75) { smh2_case!(FnvHasher, fnv, &mut rng) } else { smh2_case!(Low3Hasher, low3, &mut rng) },
            _ => match rng.below(6) {
                0 => dens_case!(OptDensMinHash, 0, f64, FnvHasher, fnv, &mut rng, key64, scale, tie, report),
                1 => dens_case!(OptDensMinHash, 0, f32, FnvHasher, fnv, &mut rng, key32, scale, tie, report),
                2 => dens_case!(OptDensMinHash, 0, f32, Low3Hasher, low3, &mut rng, key32, scale, tie, report),
                3 => dens_case!(RevOptDensMinHash, 1, f64, FnvHasher, fnv, &mut rng, key64, scale, tie, report),
                4 => dens_case!(RevOptDensMinHash, 1, f32, FnvHasher, fnv, &mut rng, key32, scale, tie, report),
                _ => dens_case!(RevOptDensMinHash, 1, f32, Low3Hasher, low3, &mut rng, key32, scale, tie, report),
            },
        };
        v["index"] = json!(i);
        out.push(v);
    }
    crate::util::wd_pause();
    println!("{}", json!({ "cases": out }));
}

// ---------------------------------------------------------------------------------------------
// implementation-level checks of C04 / C05 / C09 / C13 themselves (search for a failing input)
// ---------------------------------------------------------------------------------------------

fn shuffle_u64(rng: &mut SplitMix64, v: &[u64]) -> Vec<u64> {
    let mut o = v.to_vec();
    for i in (1..o.len()).rev() {
        let j = rng.below(i as u64 + 1) as usize;
        o.swap(i, j);
    }
    o
}
/// a stream with the same distinct items: shuffled, some repeated
fn rearranged(rng: &mut SplitMix64, v: &[u64]) -> Vec<u64> {
    let mut o = shuffle_u64(rng, v);
    let extra = rng.below(v.len() as u64 + 1);
    for _ in 0..extra {
        o.push(v[rng.below(v.len() as u64) as usize]);
    }
    shuffle_u64(rng, &o)
}
fn chunks(rng: &mut SplitMix64, v: &[u64]) -> Vec<Vec<u64>> {
    let mut out = Vec::new();
    let mut pos = 0;
    while pos < v.len() {
        let len = rng.range(1, (v.len() - pos) as u64) as usize;
        out.push(v[pos..pos + len].to_vec());
        pos += len;
    }
    out
}

macro_rules! smh_sketch_of {
    ($F:ty, $H:ty, $m:expr, $chunks:expr) => {{
        let mut s = SuperMinHash::<$F, u64, $H>::new($m, BuildHasherDefault::<$H>::default());
        for c in $chunks.iter() {
            if c.len() == 1 { s.sketch(&c[0]).unwrap(); } else { s.sketch_slice(c).unwrap(); }
        }
        s.get_hsketch().iter().map(|x| x.to_bits() as u64).collect::<Vec<u64>>()
    }};
}
macro_rules! smh2_sketch_of {
    ($H:ty, $m:expr, $chunks:expr) => {{
        let mut s = SuperMinHash2::<u64, u64, $H>::new($m, BuildHasherDefault::<$H>::default());
        for c in $chunks.iter() {
            if c.len() == 1 { s.sketch(&c[0]).unwrap(); } else { s.sketch_slice(c).unwrap(); }
        }
        s.get_hsketch().clone()
    }};
}
macro_rules! ss_sketch_of {
    ($I:ty, $params:expr, $chunks:expr) => {{
        let mut s = SetSketcher::<$I, u64, FnvHasher>::new($params, BuildHasherDefault::<FnvHasher>::default());
        for c in $chunks.iter() {
            if c.len() == 1 { s.sketch(&c[0]).unwrap(); } else { s.sketch_slice(c).unwrap(); }
        }
        s
    }};
}
macro_rules! dens_views {
    ($S:ident, $F:ty, $H:ty, $m:expr, $items:expr, $slice:expr) => {{
        let mut s = $S::<$F, u64, $H>::new($m, BuildHasherDefault::<$H>::default());
        if $slice {
            s.sketch_slice($items).unwrap();
        } else {
            for it in $items.iter() { s.sketch(it); }
            s.end_sketch();
            s.end_sketch(); // idempotent
        }
        (s.get_hsketch().iter().map(|x| x.to_bits() as u64).collect::<Vec<u64>>(), s.get_hsketch_u64(), s.get_hsketch_u32())
    }};
}

fn vj(v: &[u64]) -> Value {
    json!(v)
}

pub fn props(args: &[String]) {
    let seed = arg_u64(args, "--seed", 1);
    let n = arg_u64(args, "--n", 200);
    std::panic::set_hook(Box::new(|_| {}));
    let mut rng = SplitMix64::new(seed ^ 0x5EA7C04);
    let mut found: Vec<Value> = Vec::new();
    let mut keys: Vec<String> = Vec::new();
    let mut add = |key: &str, text: String, input: Value| {
        if !keys.contains(&key.to_string()) {
            keys.push(key.to_string());
            found.push(json!({"key": key, "text": text, "input": input}));
        }
    };
    let mut tried = 0u64;
    // corpus: minimised failures found earlier run first
    {

        let w = [12219713845869936640u64, 10, 64];
        let a = smh_sketch_of!(f32, NoHashHasher, 4, vec![vec![w[0]], vec![w[1]], vec![w[2]]]);
        let b = smh_sketch_of!(f32, NoHashHasher, 4, vec![vec![w[1]], vec![w[0]], vec![w[2]]]);
        if a != b {
            add("smh-f32-order", "SuperMinHash<f32,u64,NoHashHasher> m=4: items [12219713845869936640, 10, 64] and [10, 12219713845869936640, 64] give different sketches (r + j rounds up to j + 1)".into(),
                json!({"m": 4, "items": vj(&w), "hasher": "superminhasher::NoHashHasher", "a": a, "b": b}));
        }
        let t = [2885118511284224000u64, 2741566273161789440];
        let (_, u1, _) = dens_views!(OptDensMinHash, f32, NoHashHasher, 1, &vec![t[0], t[1]], false);
        let (_, u2, _) = dens_views!(OptDensMinHash, f32, NoHashHasher, 1, &vec![t[1], t[0]], false);
        if u1 != u2 {
            add("optdens-order", "OptDensMinHash<f32,u64,NoHashHasher> m=1: items {2885118511284224000, 2741566273161789440} give a different u64 view in the two orders (exact tie of the 23-bit values)".into(),
                json!({"m": 1, "items": vj(&t), "hasher": "superminhasher::NoHashHasher", "a": u1, "b": u2}));
        }
        tried += 2;
    }
    // special hash values (0, 1, all-ones, 2^63, the golden-ratio and SplitMix constants) through the identity hasher:
    // order independence of every unweighted sketcher on small sets built from them
    {
        // NoHashHasher reads the item's bytes in big-endian order: both the value and its byte-swapped twin are streamed
        let mut specials: Vec<u64> = Vec::new();
        for v in [0u64, 1, u64::MAX, 1 << 63, 0x9E3779B97F4A7C15, 0xBF58476D1CE4E5B9, 0x94D049BB133111EB, 0x7FFFFFFFFFFFFFFF] {
            for w in [v, v.swap_bytes()] { if !specials.contains(&w) { specials.push(w); } }
        }
        for m in [1usize, 4, 16, 64] {
            for a in 0..specials.len() {
                for b in 0..specials.len() {
                    if a == b { continue; }
                    tried += 1;
                    let fwd = vec![specials[a], specials[b], 12345, 99];
                    let bwd = vec![99u64, 12345, specials[b], specials[a]];
                    crate::util::tick_idx(0, json!({"m": m, "items": vj(&fwd), "hasher": "NoHashHasher"}));
                    let r = catch_unwind(AssertUnwindSafe(|| {
                        let s1 = smh_sketch_of!(f64, NoHashHasher, m, vec![fwd.clone()]);
                        let s2 = smh_sketch_of!(f64, NoHashHasher, m, bwd.iter().map(|x| vec![*x]).collect::<Vec<_>>());
                        let t1 = smh2_sketch_of!(NoHashHasher, m, vec![fwd.clone()]);
                        let t2 = smh2_sketch_of!(NoHashHasher, m, bwd.iter().map(|x| vec![*x]).collect::<Vec<_>>());
                        let p = SetSketchParams::new(1.001, m as u64, 20., 65534);
                        let mut k1 = SetSketcher::<u16, u64, NoHashHasher>::new(p, BuildHasherDefault::<NoHashHasher>::default());
                        let mut k2 = SetSketcher::<u16, u64, NoHashHasher>::new(p, BuildHasherDefault::<NoHashHasher>::default());
                        for x in &fwd { k1.sketch(x).unwrap(); }
                        for x in &bwd { k2.sketch(x).unwrap(); }
                        let d1 = dens_views!(OptDensMinHash, f64, NoHashHasher, m, &fwd, false);
                        let d2 = dens_views!(OptDensMinHash, f64, NoHashHasher, m, &bwd, true);
                        let e1 = dens_views!(RevOptDensMinHash, f64, NoHashHasher, m, &fwd, false);
                        let e2 = dens_views!(RevOptDensMinHash, f64, NoHashHasher, m, &bwd, true);
                        (s1 != s2, t1 != t2, k1.get_signature() != k2.get_signature(), d1 != d2, e1 != e2,
                         d1.0.iter().chain(e1.0.iter()).any(|b| !(f64::from_bits(*b) < 1.0)))
                    }));
                    let inp = json!({"m": m, "items": vj(&fwd), "reversed": vj(&bwd), "hasher": "superminhasher::NoHashHasher"});
                    match r {
                        Err(_) => add("special-hash-panic", format!("a sketcher panics on the items {:?} through NoHashHasher (m={})", fwd, m), inp),
                        Ok((a1, a2, a3, a4, a5, a6)) => {
                            if a1 { add("smh-f64-order", format!("SuperMinHash<f64,u64,NoHashHasher> m={}: the set {:?} gives different sketches in the two orders", m, fwd), inp.clone()); }
                            if a2 { add("smh2-order", format!("SuperMinHash2<NoHashHasher> m={}: the set {:?} gives different sketches in the two orders", m, fwd), inp.clone()); }
                            if a3 { add("ss-order", format!("SetSketcher<u16,u64,NoHashHasher> m={}: the set {:?} gives different registers in the two orders", m, fwd), inp.clone()); }
                            if a4 { add("optdens-order", format!("OptDensMinHash<f64,u64,NoHashHasher> m={}: the set {:?} gives different views in the two orders", m, fwd), inp.clone()); }
                            if a5 { add("revdens-order", format!("RevOptDensMinHash<f64,u64,NoHashHasher> m={}: the set {:?} gives different views in the two orders", m, fwd), inp.clone()); }
                            if a6 { add("dens-marker-hash", format!("a densified sketcher leaves a position unfilled on the items {:?} through NoHashHasher (m={})", fwd, m), inp.clone()); }
                        }
                    }
                }
            }
        }
    }
    // an item whose hash equals the empty-bin marker u64::MAX, first in its bin, then replaced by another item of the bin
    macro_rules! marker_corpus { ($S:ident, $name:expr) => {
    for m in [1usize, 2, 16] {
        tried += 1;
        crate::util::tick_idx(0, json!({"m": m, "items": "u64::MAX then 0..200 (NoHashHasher)"}));
        for x in 0..200u64 {
            let stream = vec![u64::MAX, x];
            let r = catch_unwind(AssertUnwindSafe(|| dens_views!($S, f64, NoHashHasher, m, &stream, false)));
            let r2 = catch_unwind(AssertUnwindSafe(|| dens_views!($S, f64, NoHashHasher, m, &vec![x, u64::MAX], false)));
            match (r, r2) {
                (Ok((f1, u1, _)), Ok((f2, u2, _))) => {
                    if f1.iter().any(|b| !(f64::from_bits(*b) < 1.0)) || (f1, u1) != (f2, u2) {
                        add("dens-marker-hash", format!("{}<f64,u64,NoHashHasher> m={}: the stream [u64::MAX, {}] leaves a position unfilled or depends on order", $name, m, x), json!({"m": m, "items": vj(&stream), "hasher": "superminhasher::NoHashHasher"}));
                        break;
                    }
                }
                _ => { add("dens-marker-hash", format!("{}<f64,u64,NoHashHasher> m={}: sketching [u64::MAX, {}] and end_sketch panics", $name, m, x), json!({"m": m, "items": vj(&stream), "hasher": "superminhasher::NoHashHasher"})); break; }
            }
        }
    }
    } }
    // f32 instantiation: only 2^23 distinct draws, so two items of one bin can draw the same value, or neighbouring ones;
    // pairs found through size-1 sketches, then the two-item set in both orders at sizes 1 and 64
    macro_rules! f32_ties { ($S:ident, $name:expr) => {{
        let nitems = 60_000u64;
        let mut seen: std::collections::HashMap<u64, u64> = std::collections::HashMap::new();
        let mut pairs: Vec<(u64, u64, &str)> = Vec::new();
        let mut draws: Vec<(u64, u64)> = Vec::new();
        for x in 0..nitems {
            if x % 4096 == 0 { crate::util::tick_idx(0, json!({"f32_ties_scan": x})); }
            let (f, _, _) = dens_views!($S, f32, FnvHasher, 1usize, &vec![x], false);
            draws.push((f[0], x));
            if let Some(y) = seen.get(&f[0]) { if pairs.len() < 40 { pairs.push((*y, x, "the same f32 draw")); } } else { seen.insert(f[0], x); }
        }
        draws.sort_unstable();
        let mut near = 0;
        // non-negative floats sort like their bit patterns; the sampler's grid step is 2^-23
        for w in draws.windows(2) {
            let (lo, hi) = (f32::from_bits(w[0].0 as u32), f32::from_bits(w[1].0 as u32));
            if hi > lo && hi - lo <= 1.2e-7 && near < 120 { pairs.push((w[0].1, w[1].1, "f32 draws one grid step apart")); near += 1; }
        }
        for (x, y, what) in pairs {
            for m in [1usize, 64] {
                tried += 1;
                let r = catch_unwind(AssertUnwindSafe(|| {
                    let a = dens_views!($S, f32, FnvHasher, m, &vec![x, y], false);
                    let same = a == dens_views!($S, f32, FnvHasher, m, &vec![y, x], false) && a == dens_views!($S, f32, FnvHasher, m, &vec![x, y], true)
                        && a == dens_views!($S, f32, FnvHasher, m, &vec![y, x], true);
                    (same, true)
                }));
                match r {
                    Ok((a, b)) => if a != b {
                        add("dens-f32-order", format!("{}<f32,u64,FnvHasher> m={}: the items {} and {} ({}) give different sketches in the two orders or through sketch_slice", $name, m, x, y, what),
                            json!({"m": m, "items": [x, y], "float": "f32", "hasher": "FnvHasher"}));
                    },
                    Err(_) => add("dens-f32-order", format!("{}<f32,u64,FnvHasher> m={}: sketching the items {} and {} panics", $name, m, x, y), json!({"m": m, "items": [x, y], "float": "f32"})),
                }
            }
        }
    }} }
    f32_ties!(OptDensMinHash, "OptDensMinHash");
    f32_ties!(RevOptDensMinHash, "RevOptDensMinHash");
    marker_corpus!(OptDensMinHash, "OptDensMinHash");
    marker_corpus!(RevOptDensMinHash, "RevOptDensMinHash");
    for round in 0..n {
        crate::util::tick_idx(round as u64, serde_json::Value::Null);
        let mut m = if rng.coin(0.5) { rng.range(1, 8) } else { rng.range(1, 256) } as usize;
        let mut nitems = if rng.coin(0.3) { rng.range(1, 4) } else { rng.range(1, 200) } as usize;
        // sizes suggested by the driver (new literals of a changed source file): sketch sizes / stream lengths around them
        let xs = crate::util::extra_sizes();
        if !xs.is_empty() && round < 14 {
            if round % 2 == 0 { if let Some(v) = crate::util::near_size(&mut rng, &xs, 70_000) { m = v as usize; nitems = [1usize, 3, 12][round as usize % 3]; } }
            else if let Some(v) = crate::util::near_size(&mut rng, &xs, 200_000) { nitems = v as usize; m = [8usize, 64, 300][round as usize % 3]; }
        }
        let special = round % 5 == 0;
        let mut items: Vec<u64> = Vec::new();
        while items.len() < nitems {
            let x = if special && rng.coin(0.3) { let t = roundup_seeds(); t[rng.below(t.len() as u64) as usize] } else { rng.next_u64() >> rng.below(40) };
            if !items.contains(&x) { items.push(x); }
        }
        crate::util::tick_idx(round as u64, json!({"m": m, "items": vj(&items), "note": "one of SuperMinHash / SuperMinHash2 / SetSketch / OptDensMinHash / RevOptDensMinHash did not return on these items (sketch size m), streamed in this order, shuffled with repetitions, or in chunks"}));
        let re = rearranged(&mut rng, &items);
        let c1 = vec![items.clone()];
        let c2 = chunks(&mut rng, &re);
        tried += 1;
        let inp = json!({"m": m, "items": vj(&items), "rearranged": vj(&re), "chunks": c2.iter().map(|c| vj(c)).collect::<Vec<_>>()});
        // densification probes about m^2 / (populated bins) bins: large sketch sizes only with enough items
        let md = if m > 3000 && items.len() * 40 < m { 1 + m % 2999 } else { m };
        let r = catch_unwind(AssertUnwindSafe(|| {
            let mut v: Vec<(String, String)> = Vec::new();
            let mut reinit_inputs: Vec<Value> = Vec::new();
            // SuperMinHash f32 (identity hasher: rounding-up seeds reach the sketcher), f64 fnv
            let a = smh_sketch_of!(f32, IdHasher, m, c1);
            let b = smh_sketch_of!(f32, IdHasher, m, c2);
            if a != b { v.push(("smh-f32-order".into(), format!("SuperMinHash<f32> sketch depends on order / repetition / chunking (m={}, {} items)", m, items.len()))); }
            let a = smh_sketch_of!(f64, FnvHasher, m, c1);
            let b = smh_sketch_of!(f64, FnvHasher, m, c2);
            if a != b { v.push(("smh-f64-order".into(), format!("SuperMinHash<f64> sketch depends on order / repetition / chunking (m={}, {} items)", m, items.len()))); }
            // union = position-wise minimum of single-item sketches (C05)
            if items.len() <= 40 {
                let mut mn = vec![u64::MAX; m];
                for it in &items {
                    let s1 = smh_sketch_of!(f64, FnvHasher, m, vec![vec![*it]]);
                    for k in 0..m { if f64::from_bits(s1[k]) < f64::from_bits(mn[k]) || mn[k] == u64::MAX { mn[k] = s1[k]; } }
                }
                if mn != a { v.push(("smh-union-min".into(), format!("SuperMinHash<f64> sketch of a set differs from the position-wise minimum of its single-item sketches (m={}, {} items)", m, items.len()))); }
            }
            // SuperMinHash2
            let a2 = smh2_sketch_of!(FnvHasher, m, c1);
            let b2 = smh2_sketch_of!(FnvHasher, m, c2);
            if a2 != b2 { v.push(("smh2-order".into(), format!("SuperMinHash2 sketch depends on order / repetition / chunking (m={}, {} items)", m, items.len()))); }
            let hashes: Vec<u64> = items.iter().map(|x| fnv(*x)).collect();
            if a2.iter().any(|h| !hashes.contains(h)) { v.push(("smh2-foreign".into(), format!("SuperMinHash2 holds a value that is not the hash of a streamed item (m={})", m))); }
            // SetSketch: set semantics, merge = union, lowest register
            let params = if round % 2 == 0 { SetSketchParams::new(1.001, m as u64, 20., 65534) } else { SetSketchParams::new(2.0, m as u64, 20., 30) };
            let sa = ss_sketch_of!(u16, params, c1);
            let sb = ss_sketch_of!(u16, params, c2);
            if sa.get_signature() != sb.get_signature() { v.push(("ss-order".into(), format!("SetSketch depends on order / repetition / chunking (m={}, {} items)", m, items.len()))); }
            let cut = rng.below(items.len() as u64 + 1) as usize;
            let ov = rng.below(cut as u64 + 1) as usize;
            let pa: Vec<u64> = items[..cut].to_vec();
            let pb: Vec<u64> = items[cut - ov..].to_vec();
            let mut ma = ss_sketch_of!(u16, params, if pa.is_empty() { vec![] } else { vec![pa.clone()] });
            let mb = ss_sketch_of!(u16, params, if pb.is_empty() { vec![] } else { vec![pb.clone()] });
            let mut mb2 = ss_sketch_of!(u16, params, if pb.is_empty() { vec![] } else { vec![pb.clone()] });
            let before = ma.get_cardinal_stats().0;
            if ma.merge(&mb).is_err() { v.push(("ss-merge-refused".into(), "merge between sketchers with identical parameters is refused".into())); }
            if ma.get_signature() != sa.get_signature() { v.push(("ss-merge-union".into(), format!("merging SetSketch(A) and SetSketch(B) differs from SetSketch(A u B) (m={}, |A|={}, |B|={})", m, pa.len(), pb.len()))); }
            if ma.get_cardinal_stats().0 < before { v.push(("ss-card-decrease".into(), "the cardinality estimate decreased after a merge".into())); }
            let _ = mb2.merge(&ss_sketch_of!(u16, params, if pa.is_empty() { vec![] } else { vec![pa.clone()] }));
            if mb2.get_signature() != ma.get_signature() { v.push(("ss-merge-comm".into(), "SetSketch merge is not commutative".into())); }
            let snap = ma.get_signature().clone();
            let _ = ma.merge(&mb);
            if *ma.get_signature() != snap { v.push(("ss-merge-idem".into(), "SetSketch merge is not idempotent".into())); }
            // tree reduction through an accumulator that only ever saw merges, then further streaming:
            // acc = new; acc.merge(A); acc.merge(B); root = sketch(C); root.merge(acc); root.sketch(D)  ==  sketch(A u B u C u D)
            {
                let q1 = items.len() / 4;
                let (ia, ib, ic, id) = (&items[..q1], &items[q1..2 * q1], &items[2 * q1..3 * q1], &items[3 * q1..]);
                let sk = |xs: &[u64]| ss_sketch_of!(u16, params, if xs.is_empty() { vec![] } else { vec![xs.to_vec()] });
                let mut acc = sk(&[]);
                let _ = acc.merge(&sk(ia));
                let _ = acc.merge(&sk(ib));
                let mut root = sk(ic);
                let _ = root.merge(&acc);
                for it in id { let _ = root.sketch(it); }
                if root.get_signature() != sa.get_signature() {
                    v.push(("ss-merge-tree".into(), format!("SetSketch: merging an accumulator built only by merges, then streaming, differs from the sketch of the union (m={}, {} items)", m, items.len())));
                }
                // associativity: (A u B) u C  vs  A u (B u C)
                let mut l1 = sk(ia); let _ = l1.merge(&sk(ib)); let _ = l1.merge(&sk(ic));
                let mut r1 = sk(ib); let _ = r1.merge(&sk(ic)); let mut r2 = sk(ia); let _ = r2.merge(&r1);
                if l1.get_signature() != r2.get_signature() { v.push(("ss-merge-assoc".into(), format!("SetSketch merge is not associative (m={})", m))); }
            }
            let minreg = *ma.get_signature().iter().min().unwrap() as i64;
            if ma.get_low_sketch() > minreg { v.push(("ss-low".into(), format!("get_low_sketch {} exceeds the smallest register {}", ma.get_low_sketch(), minreg))); }
            // refused merge leaves the receiver unchanged
            let other = SetSketcher::<u16, u64, FnvHasher>::new(SetSketchParams::new(params.get_b(), m as u64 + 1, params.get_a(), params.get_q()), BuildHasherDefault::<FnvHasher>::default());
            let pre = (ma.get_signature().clone(), ma.get_low_sketch(), ma.get_nb_overflow());
            let r = ma.merge(&other);
            if r.is_ok() || (ma.get_signature().clone(), ma.get_low_sketch(), ma.get_nb_overflow()) != pre { v.push(("ss-merge-mismatch".into(), "merge with a different m is accepted or changes the receiver".into())); }
            // reinit / reset: whatever the sketcher saw before, the next sketch is that of a new sketcher (C13).
            // histories: a previous stream of 1, 2, 3 or many items; a merge-only history (SetSketch); finished and
            // unfinished densification; the next stream smaller or larger than the previous one
            {
                let kprev = [1usize, 1, 2, 3, items.len()][rng.below(5) as usize].min(items.len());
                let prev: Vec<u64> = items[..kprev].to_vec();
                let knext = if rng.coin(0.5) { 1 + rng.below(3) as usize } else { 1 + rng.below(items.len() as u64) as usize }.min(items.len());
                let next: Vec<u64> = items[items.len() - knext..].to_vec();
                let hist = json!({"m": m, "before_reinit": vj(&prev), "after_reinit": vj(&next)});
                // SuperMinHash f64 / f32
                let mut s = SuperMinHash::<f64, u64, FnvHasher>::new(m, BuildHasherDefault::<FnvHasher>::default());
                for it in &prev { s.sketch(it).unwrap(); }
                s.reinit();
                for it in &next { s.sketch(it).unwrap(); }
                let got: Vec<u64> = s.get_hsketch().iter().map(|x| x.to_bits() as u64).collect();
                if got != smh_sketch_of!(f64, FnvHasher, m, vec![next.clone()]) && next.len() > 1 || (next.len() == 1 && got != smh_sketch_of!(f64, FnvHasher, m, vec![vec![next[0]]])) {
                    v.push(("reinit-smh".into(), format!("SuperMinHash<f64>: after {} item(s) and reinit, the sketch of {} item(s) differs from that of a new sketcher (m={})", prev.len(), next.len(), m)));
                    reinit_inputs.push(hist.clone());
                }
                let mut s2 = SuperMinHash2::<u64, u64, FnvHasher>::new(m, BuildHasherDefault::<FnvHasher>::default());
                for it in &prev { s2.sketch(it).unwrap(); }
                s2.reinit();
                for it in &next { s2.sketch(it).unwrap(); }
                let mut f2 = SuperMinHash2::<u64, u64, FnvHasher>::new(m, BuildHasherDefault::<FnvHasher>::default());
                for it in &next { f2.sketch(it).unwrap(); }
                if s2.get_hsketch() != f2.get_hsketch() {
                    v.push(("reinit-smh2".into(), format!("SuperMinHash2: after {} item(s) and reinit, the sketch of {} item(s) differs from that of a new sketcher (m={})", prev.len(), next.len(), m)));
                    reinit_inputs.push(hist.clone());
                }
                // SetSketch: streamed history and merge-only history
                let params = SetSketchParams::new(1.001, m as u64, 20., 65534);
                for merge_only in [false, true] {
                    let mut ss = SetSketcher::<u16, u64, FnvHasher>::new(params, BuildHasherDefault::<FnvHasher>::default());
                    if merge_only {
                        let part = ss_sketch_of!(u16, params, vec![items.clone()]);
                        ss.merge(&part).unwrap();
                    } else {
                        for it in &items { ss.sketch(it).unwrap(); }
                    }
                    ss.reinit();
                    for it in &next { ss.sketch(it).unwrap(); }
                    let fresh = ss_sketch_of!(u16, params, vec![next.clone()]);
                    let fresh1 = if next.len() == 1 { let mut f = SetSketcher::<u16, u64, FnvHasher>::new(params, BuildHasherDefault::<FnvHasher>::default()); f.sketch(&next[0]).unwrap(); f } else { fresh };
                    if ss.get_signature() != fresh1.get_signature() || ss.get_low_sketch() != fresh1.get_low_sketch() {
                        v.push(("reinit-ss".into(), format!("SetSketch: after a history of {} ({} items) and reinit, the sketch of {} item(s) differs from that of a new sketcher (m={})",
                            if merge_only { "merges only" } else { "streaming" }, items.len(), next.len(), m)));
                        reinit_inputs.push(json!({"m": m, "b": 1.001, "a": 20, "q": 65534, "history": if merge_only { "new; merge(sketch of before_reinit); reinit" } else { "new; sketch each of before_reinit; reinit" },
                                                  "before_reinit": vj(&items), "after_reinit": vj(&next)}));
                    }
                }
                // densified sketchers: previous sketch finished or not
                macro_rules! dens_reinit {
                    ($S:ident, $key:expr) => {{
                        for finished in [true, false] {
                            let mut d = $S::<f64, u64, FnvHasher>::new(md, BuildHasherDefault::<FnvHasher>::default());
                            for it in &prev { d.sketch(it); }
                            if finished { let _ = d.end_sketch(); }
                            d.reinit();
                            let r = catch_unwind(AssertUnwindSafe(|| { for it in &next { d.sketch(it); } let _ = d.end_sketch(); (d.get_hsketch().iter().map(|x| x.to_bits() as u64).collect::<Vec<u64>>(), d.get_hsketch_u64()) }));
                            let (ff, fu, _) = dens_views!($S, f64, FnvHasher, md, &next, false);
                            match r {
                                Err(_) => { v.push(($key.into(), format!("{}: after {} item(s){} and reinit, sketching {} item(s) and end_sketch panics (m={})", stringify!($S), prev.len(), if finished { ", end_sketch" } else { "" }, next.len(), m))); reinit_inputs.push(hist.clone()); }
                                Ok((gf, gu)) => if gf != ff || gu != fu {
                                    v.push(($key.into(), format!("{}: after {} item(s){} and reinit, the sketch of {} item(s) differs from that of a new sketcher (m={})", stringify!($S), prev.len(), if finished { ", end_sketch" } else { "" }, next.len(), m)));
                                    reinit_inputs.push(hist.clone());
                                }
                            }
                        }
                    }};
                }
                dens_reinit!(OptDensMinHash, "reinit-optdens");
                dens_reinit!(RevOptDensMinHash, "reinit-revdens");
                // a finished densified sketch may be streamed further and finished again (C09)
                macro_rules! dens_resume {
                    ($S:ident) => {{
                        let mut d = $S::<f64, u64, FnvHasher>::new(md, BuildHasherDefault::<FnvHasher>::default());
                        let r = catch_unwind(AssertUnwindSafe(|| {
                            for it in &prev { d.sketch(it); }
                            let _ = d.end_sketch();
                            for it in &items { d.sketch(it); }
                            let _ = d.end_sketch();
                            d.get_hsketch_u64()
                        }));
                        match r {
                            Err(_) => { v.push(("dens-resume".into(), format!("{}: sketch {} item(s), end_sketch, sketch {} more, end_sketch: panics although items were streamed (m={})", stringify!($S), prev.len(), items.len(), m))); reinit_inputs.push(json!({"m": m, "first": vj(&prev), "then": vj(&items)})); }
                            Ok(u) => if u.iter().any(|h| !items.iter().any(|x| fnv(*x) == *h)) {
                                v.push(("dens-resume".into(), format!("{}: after end_sketch, further items and end_sketch, a position holds a hash that was never streamed (m={})", stringify!($S), m))); reinit_inputs.push(json!({"m": m, "first": vj(&prev), "then": vj(&items)}));
                            }
                        }
                    }};
                }
                dens_resume!(OptDensMinHash);
                dens_resume!(RevOptDensMinHash);
            }
            // parameters that differ slightly (relative 1e-7 .. 1e-12 on b or a) are different parameters: refused, receiver unchanged
            {
                let rel = [1e-7f64, 1e-9, 1e-12][rng.below(3) as usize];
                let (pb, pa) = if rng.coin(0.5) { (params.get_b() * (1. + rel), params.get_a()) } else { (params.get_b(), params.get_a() * (1. + rel)) };
                if pb <= 2.0 {
                    let near = SetSketchParams::new(pb, m as u64, pa, params.get_q());
                    let mut other = SetSketcher::<u16, u64, FnvHasher>::new(near, BuildHasherDefault::<FnvHasher>::default());
                    for it in items.iter().take(20) { other.sketch(&(it ^ 0xABCDEF)).unwrap(); }
                    let mut recv = ss_sketch_of!(u16, params, vec![items.clone()]);
                    let pre = (recv.get_signature().clone(), recv.get_low_sketch(), recv.get_nb_overflow());
                    let r = recv.merge(&other);
                    if r.is_ok() || (recv.get_signature().clone(), recv.get_low_sketch(), recv.get_nb_overflow()) != pre {
                        v.push(("ss-merge-mismatch".into(), format!("merge with parameters b={:e} a={:e} into b={:e} a={:e} (relative difference {:e}) is accepted or changes the receiver (m={})", pb, pa, params.get_b(), params.get_a(), rel, m)));
                    }
                }
            }
            // from the same earlier history (items streamed, sketch finished or not), sketch_slice(b) = sketch each of b, end_sketch (C09)
            {
                let cut = rng.below(items.len() as u64 + 1) as usize;
                let finish_first = rng.coin(0.6);
                macro_rules! slice_vs_itemwise {
                    ($S:ident) => {{
                        let r = catch_unwind(AssertUnwindSafe(|| {
                            let mut d1 = $S::<f64, u64, FnvHasher>::new(md, BuildHasherDefault::<FnvHasher>::default());
                            let mut d2 = $S::<f64, u64, FnvHasher>::new(md, BuildHasherDefault::<FnvHasher>::default());
                            for it in &items[..cut] { d1.sketch(it); d2.sketch(it); }
                            if finish_first && cut > 0 { let _ = d1.end_sketch(); let _ = d2.end_sketch(); }
                            let _ = d1.sketch_slice(&items[cut..]);
                            for it in &items[cut..] { d2.sketch(it); }
                            let _ = d2.end_sketch();
                            (d1.get_hsketch_u64(), d2.get_hsketch_u64(), d1.get_hsketch().iter().map(|x| x.to_bits() as u64).collect::<Vec<u64>>(), d2.get_hsketch().iter().map(|x| x.to_bits() as u64).collect::<Vec<u64>>())
                        }));
                        let inp2 = json!({"m": m, "history": {"sketch": vj(&items[..cut]), "then_end_sketch": finish_first && cut > 0}, "slice": vj(&items[cut..])});
                        if cut < items.len() {
                            match r {
                                Err(_) => { v.push(("dens-slice-vs-itemwise".into(), format!("{}: after {} item(s){}, sketch_slice of {} items or the same items one by one and end_sketch panics (m={})", stringify!($S), cut, if finish_first && cut > 0 { " and end_sketch" } else { "" }, items.len() - cut, m))); reinit_inputs.push(inp2); }
                                Ok((u1, u2, f1, f2)) => if u1 != u2 || f1 != f2 {
                                    v.push(("dens-slice-vs-itemwise".into(), format!("{}: after {} item(s){}, sketch_slice of {} items differs from the same items streamed one by one and end_sketch (m={})", stringify!($S), cut, if finish_first && cut > 0 { " and end_sketch" } else { "" }, items.len() - cut, m)));
                                    reinit_inputs.push(inp2);
                                }
                            }
                        }
                    }};
                }
                slice_vs_itemwise!(OptDensMinHash);
                slice_vs_itemwise!(RevOptDensMinHash);
            }
            // densified sketchers: item-wise + end_sketch (twice) = one slice; order free; views
            let (f1, u1, w1) = dens_views!(OptDensMinHash, f32, IdHasher, md, &items, true);
            let (f2, u2, w2) = dens_views!(OptDensMinHash, f32, IdHasher, md, &re, false);
            if (f1.clone(), u1.clone(), w1.clone()) != (f2, u2, w2) { v.push(("optdens-order".into(), format!("OptDensMinHash<f32> views depend on order / repetition / item-wise vs slice (m={}, {} items)", m, items.len()))); }
            let (g1, x1, y1) = dens_views!(RevOptDensMinHash, f64, FnvHasher, md, &items, true);
            let (g2, x2, y2) = dens_views!(RevOptDensMinHash, f64, FnvHasher, md, &re, false);
            if (g1.clone(), x1.clone(), y1.clone()) != (g2, x2, y2) { v.push(("revdens-order".into(), format!("RevOptDensMinHash<f64> views depend on order / repetition / item-wise vs slice (m={}, {} items)", m, items.len()))); }
            for (u, f, w, name, hs) in [(&u1, &f1, &w1, "OptDensMinHash", items.clone()), (&x1, &g1, &y1, "RevOptDensMinHash", hashes.clone())] {
                if u.iter().any(|h| !hs.contains(h)) { v.push(("dens-foreign".into(), format!("{}: a position of the u64 view is not the hash of a streamed item (m={})", name, m))); }
                for p in 0..md.min(400) { for q in 0..md.min(400) { if u[p] == u[q] && (f[p] != f[q] || w[p] != w[q]) {
                    v.push(("dens-views".into(), format!("{}: positions {} and {} agree in the u64 view but not in the float / u32 view", name, p, q))); } } }
                for p in 0..md {
                    let x = murmur3::murmur3_32(&mut std::io::Cursor::new(u[p].to_ne_bytes()), 127).unwrap();
                    if x != w[p] { v.push(("dens-u32".into(), format!("{}: the u32 view is not murmur3_32(seed 127) of the u64 view at position {}", name, p))); }
                }
            }
            (v, reinit_inputs)
        }));
        match r {
            Ok((v, extra)) => {
                let mut ei = 0;
                for (k, t) in v {
                    if k.starts_with("reinit-") || k == "dens-resume" || k == "dens-slice-vs-itemwise" {
                        add(&k, t, extra.get(ei).cloned().unwrap_or(inp.clone()));
                        ei += 1;
                    } else {
                        add(&k, t, inp.clone());
                    }
                }
            }
            Err(_) => add("panic", format!("a sketcher panicked (m={}, {} items)", m, items.len()), inp.clone()),
        }
    }
    // densification of a sketch where nothing was streamed must return (error or panic), not hang
    for (name, f) in [("OptDensMinHash::end_sketch", 0), ("RevOptDensMinHash::sketch_slice(&[])", 1)] {
        let r = with_timeout(3000, move || {
            if f == 0 {
                let mut s = OptDensMinHash::<f64, u64, FnvHasher>::new(4, BuildHasherDefault::<FnvHasher>::default());
                s.end_sketch();
            } else {
                let mut s = RevOptDensMinHash::<f64, u64, FnvHasher>::new(4, BuildHasherDefault::<FnvHasher>::default());
                let _ = s.sketch_slice(&[]);
            }
        });
        if r.is_none() {
            add("dens-empty-hang", format!("{} on a sketcher where nothing was streamed does not return", name), json!({"m": 4, "call": name}));
        }
    }
    crate::util::wd_pause();
    println!("{}", json!({"tried": tried, "found": found}));
}

// ---------------------------------------------------------------------------------------------
// search aid for C03 / C08 (only after an obligation broke): mean match fraction vs Jaccard index
// ---------------------------------------------------------------------------------------------
pub fn mc(args: &[String]) {
    let seed = arg_u64(args, "--seed", 1);
    let trials = arg_u64(args, "--trials", 1500) as usize;
    std::panic::set_hook(Box::new(|_| {}));
    let mut rng = SplitMix64::new(seed ^ 0x3C03);
    let mut found: Vec<Value> = Vec::new();
    // (|A \ B|, |A n B|, |B \ A|)
    let families = [("overlap", 30usize, 20usize, 25usize), ("nested", 0, 10, 90), ("tiny", 1, 1, 1), ("disjoint-ish", 40, 1, 40)];
    for (name, a_only, both, b_only) in families {
        let j = both as f64 / (a_only + both + b_only) as f64;
        for m in [4usize, 64, 512] {
            let mut sums = [0.0f64; 4];
            for _ in 0..trials {
                let ids: Vec<u64> = (0..(a_only + both + b_only)).map(|_| rng.next_u64() >> 4).collect();
                let a: Vec<u64> = ids[..a_only + both].to_vec();
                let b: Vec<u64> = ids[a_only..].to_vec();
                crate::util::tick_idx(0, json!({"m": m, "a": vj(&a), "b": vj(&b)}));
                let sa = smh_sketch_of!(f64, FnvHasher, m, vec![a.clone()]);
                let sb = smh_sketch_of!(f64, FnvHasher, m, vec![b.clone()]);
                sums[0] += sa.iter().zip(sb.iter()).filter(|(x, y)| x == y).count() as f64 / m as f64;
                let ta = smh2_sketch_of!(FnvHasher, m, vec![a.clone()]);
                let tb = smh2_sketch_of!(FnvHasher, m, vec![b.clone()]);
                sums[1] += ta.iter().zip(tb.iter()).filter(|(x, y)| x == y).count() as f64 / m as f64;
                let (_, ua, _) = dens_views!(OptDensMinHash, f64, FnvHasher, m, &a, true);
                let (_, ub, _) = dens_views!(OptDensMinHash, f64, FnvHasher, m, &b, true);
                sums[2] += ua.iter().zip(ub.iter()).filter(|(x, y)| x == y).count() as f64 / m as f64;
                let (_, va, _) = dens_views!(RevOptDensMinHash, f64, FnvHasher, m, &a, true);
                let (_, vb, _) = dens_views!(RevOptDensMinHash, f64, FnvHasher, m, &b, true);
                sums[3] += va.iter().zip(vb.iter()).filter(|(x, y)| x == y).count() as f64 / m as f64;
            }
            for (i, nm) in ["SuperMinHash<f64>", "SuperMinHash2", "OptDensMinHash", "RevOptDensMinHash"].iter().enumerate() {
                let mean = sums[i] / trials as f64;
                // plain MinHash variance as scale for the first two; one trial's variance bounded by j(1-j) for the densified ones
                let var = if i < 2 { j * (1. - j) / m as f64 } else { j * (1. - j) };
                let z = (mean - j) / (var / trials as f64).sqrt().max(1e-12);
                if z.abs() > 6. {
                    found.push(json!({"sketcher": nm, "family": name, "m": m, "j": j, "mean": mean, "z": z, "trials": trials, "seed": seed}));
                }
            }
        }
    }
    // single-item sketches of SuperMinHash: the position that carries integer part 0 is uniform over the m positions and
    // independent of the fractional part stored there; fractional parts are uniform
    for m in [16usize, 64, 500] {
        let n = 40 * trials;
        let mut cells = vec![0u64; m];
        let (mut sx, mut sy, mut sxy, mut sxx, mut syy, mut sfrac, mut hit) = (0f64, 0f64, 0f64, 0f64, 0f64, 0f64, 0u64);
        for t in 0..n {
            let x = rng.next_u64() >> 4;
            crate::util::tick_idx(t as u64, json!({"m": m, "item": x.to_string()}));
            let mut s = SuperMinHash::<f64, u64, FnvHasher>::new(m, BuildHasherDefault::<FnvHasher>::default());
            s.sketch(&x).unwrap();
            let h = s.get_hsketch();
            if let Some(pos) = h.iter().position(|v| *v < 1.0) {
                let frac = h[pos];
                cells[pos] += 1;
                let px = (pos as f64 + 0.5) / m as f64;
                sx += px; sy += frac; sxy += px * frac; sxx += px * px; syy += frac * frac;
                if pos == (frac * m as f64) as usize { hit += 1; }
            }
            sfrac += h.iter().map(|v| v - v.floor()).sum::<f64>() / m as f64;
        }
        let nf = n as f64;
        let chi2: f64 = cells.iter().map(|c| { let e = nf / m as f64; (*c as f64 - e) * (*c as f64 - e) / e }).sum();
        let z_chi = (chi2 - (m as f64 - 1.)) / (2. * (m as f64 - 1.)).sqrt();
        let cov = sxy / nf - (sx / nf) * (sy / nf);
        let corr = cov / (((sxx / nf - (sx / nf).powi(2)) * (syy / nf - (sy / nf).powi(2))).sqrt().max(1e-300));
        let z_corr = corr * nf.sqrt();
        let p0 = 1.0 / m as f64;
        let z_hit = (hit as f64 - nf * p0) / (nf * p0 * (1. - p0)).sqrt();
        let z_frac = (sfrac / nf - 0.5) / (1. / (12. * m as f64 * nf)).sqrt();
        for (what, z) in [("position of integer part 0 is not uniform (chi-square)", z_chi), ("position of integer part 0 is correlated with its fractional part", z_corr),
                          ("position of integer part 0 equals floor(m * fractional part) too often", z_hit), ("mean fractional part differs from 1/2", z_frac)] {
            if z.abs() > 7. {
                found.push(json!({"sketcher": "SuperMinHash<f64> single item", "family": what, "m": m, "j": 0.0, "mean": z, "z": z, "trials": n, "seed": seed}));
            }
        }
    }
    crate::util::wd_pause();
    println!("{}", json!({"found": found}));
}
