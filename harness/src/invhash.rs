//! C19: test vectors and search for the invertible hashes.
use crate::util::*;
use probminhash::invhash::*;
use serde_json::json;

fn structured64() -> Vec<u64> {
    let mut v: Vec<u64> = vec![0, 1, 2, 3, u64::MAX, u64::MAX - 1, 1 << 63, (1 << 63) - 1,
        0x5555555555555555, 0xAAAAAAAAAAAAAAAA, 0x0123456789ABCDEF, 0xFEDCBA9876543210,
        0x00000000FFFFFFFF, 0xFFFFFFFF00000000];
    for i in 0..64 {
        v.push(1u64 << i);
        v.push(!(1u64 << i));
        v.push((1u64 << i).wrapping_sub(1));
        v.push((1u64 << i).wrapping_add(1));
        if i + 1 < 64 {
            v.push(3u64 << i);
        }
    }
    // carries across each shifted add / the shift distances used by the code
    for s in [2u32, 3, 4, 6, 8, 10, 11, 14, 15, 16, 21, 24, 28, 31] {
        for t in 0..64u32 {
            if s + t < 64 {
                v.push((1u64 << s) | (1u64 << (s + t)));
                v.push(((1u64 << s) - 1) << t);
            }
        }
    }
    v
}

pub fn vectors(args: &[String]) {
    let seed = arg_u64(args, "--seed", 1);
    let n = arg_u64(args, "--n", 1000);
    let mut rng = SplitMix64::new(seed ^ 0xC19);
    let mut xs = structured64();
    for _ in 0..n {
        xs.push(rng.next_u64());
    }
    let cases: Vec<_> = xs
        .iter()
        .map(|&x| {
            let y = x as u32;
            json!([x, int64_hash(x), int64_hash_inverse(x), y, int32_hash(y), int32_hash_inverse(y)])
        })
        .collect();
    crate::util::wd_pause();
    println!("{}", json!({ "cases": cases }));
}

/// implementation-level search: a value on which one of the four identities fails
pub fn search(args: &[String]) {
    let seed = arg_u64(args, "--seed", 1);
    let n = arg_u64(args, "--n", 10_000_000);
    let mut rng = SplitMix64::new(seed ^ 0x5EA7C4);
    let mut found: Vec<serde_json::Value> = Vec::new();
    let mut tried = 0u64;
    std::panic::set_hook(Box::new(|_| {}));
    let check = |x: u64, found: &mut Vec<serde_json::Value>| {
        if found.len() >= 4 {
            return;
        }
        use std::panic::{catch_unwind, AssertUnwindSafe};
        let r1 = catch_unwind(AssertUnwindSafe(|| int64_hash_inverse(int64_hash(x))));
        match r1 { Ok(v) => if v != x { found.push(json!({"width":64, "identity":"inverse(hash(x))=x", "x": x, "got": v})); },
                   Err(_) => found.push(json!({"width":64, "identity":"inverse(hash(x))=x", "x": x, "got": -1, "panic": true})) }
        let r2 = catch_unwind(AssertUnwindSafe(|| int64_hash(int64_hash_inverse(x))));
        match r2 { Ok(v) => if v != x { found.push(json!({"width":64, "identity":"hash(inverse(x))=x", "x": x, "got": v})); },
                   Err(_) => found.push(json!({"width":64, "identity":"hash(inverse(x))=x", "x": x, "got": -1, "panic": true})) }
        let y = x as u32;
        let r3 = catch_unwind(AssertUnwindSafe(|| int32_hash_inverse(int32_hash(y))));
        match r3 { Ok(v) => if v != y { found.push(json!({"width":32, "identity":"inverse(hash(x))=x", "x": y, "got": v})); },
                   Err(_) => found.push(json!({"width":32, "identity":"inverse(hash(x))=x", "x": y, "got": -1, "panic": true})) }
        let r4 = catch_unwind(AssertUnwindSafe(|| int32_hash(int32_hash_inverse(y))));
        match r4 { Ok(v) => if v != y { found.push(json!({"width":32, "identity":"hash(inverse(x))=x", "x": y, "got": v})); },
                   Err(_) => found.push(json!({"width":32, "identity":"hash(inverse(x))=x", "x": y, "got": -1, "panic": true})) }
    };
    // structured values, and their images under the four functions (where an intermediate value is 0 or all-ones)
    let mut st = structured64();
    {
        use std::panic::{catch_unwind, AssertUnwindSafe};
        let base = st.clone();
        for x in base {
            for f in 0..4 {
                if let Ok(v) = catch_unwind(AssertUnwindSafe(|| match f { 0 => int64_hash(x), 1 => int64_hash_inverse(x), 2 => int32_hash(x as u32) as u64, _ => int32_hash_inverse(x as u32) as u64 })) {
                    st.push(v);
                }
            }
        }
    }
    for x in st {
        check(x, &mut found);
        tried += 1;
    }
    for _ in 0..n {
        check(rng.next_u64(), &mut found);
        tried += 1;
        if found.len() >= 4 {
            break;
        }
    }
    crate::util::wd_pause();
    println!("{}", json!({ "tried": tried, "found": found }));
}

pub fn replay(args: &[String]) {
    let x = arg_u64(args, "--x", 0);
    let y = x as u32;
    println!(
        "{}",
        json!({"x": x, "h64": int64_hash(x), "hi64": int64_hash_inverse(x),
               "rt64": int64_hash_inverse(int64_hash(x)), "tr64": int64_hash(int64_hash_inverse(x)),
               "x32": y, "h32": int32_hash(y), "hi32": int32_hash_inverse(y),
               "rt32": int32_hash_inverse(int32_hash(y)), "tr32": int32_hash(int32_hash_inverse(y))})
    );
}
