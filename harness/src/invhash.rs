//! C19: test vectors and search for the invertible hashes.
use crate::util::*;
use probminhash::invhash::*;
use serde_json::json;

fn structured64() -> Vec<u64> {
    let mut v: Vec<u64> = vec![0, 1, 2, 3, u64::MAX, u64::MAX - 1, 1 << 63, (1 << 63) - 1,
        0x5555555555555555, 0xAAAAAAAAAAAAAAAA, 0x0123456789ABCDEF, 0xFEDCBA9876543210,
        0x00000000FFFFFFFF, 0xFFFFFFFF00000000];
    for i in 0..64 {
        v.push(1u64 << i);
        v.push(!(1u64 << i));
        v.push((1u64 << i).wrapping_sub(1));
        v.push((1u64 << i).wrapping_add(1));
        if i + 1 < 64 {
            v.push(3u64 << i);
        }
    }
    // carries across each shifted add / the shift distances used by the code
    for s in [2u32, 3, 4, 6, 8, 10, 11, 14, 15, 16, 21, 24, 28, 31] {
        for t in 0..64u32 {
            if s + t < 64 {
                v.push((1u64 << s) | (1u64 << (s + t)));
                v.push(((1u64 << s) - 1) << t);
            }
        }
    }
    v
}

pub fn vectors(args: &[String]) {
    let seed = arg_u64(args, "--seed", 1);
    let n = arg_u64(args, "--n", 1000);
    let mut rng = SplitMix64::new(seed ^ 0xC19);
    let mut xs = structured64();
    for _ in 0..n {
        xs.push(rng.next_u64());
    }
    let cases: Vec<_> = xs
        .iter()
        .map(|&x| {
            let y = x as u32;
            json!([x, int64_hash(x), int64_hash_inverse(x), y, int32_hash(y), int32_hash_inverse(y)])
        })
        .collect();
    println!("{}", json!({ "cases": cases }));
}

/// implementation-level search: a value on which one of the four identities fails
pub fn search(args: &[String]) {
    let seed = arg_u64(args, "--seed", 1);
    let n = arg_u64(args, "--n", 10_000_000);
    let mut rng = SplitMix64::new(seed ^ 0x5EA7C4);
    let mut found: Vec<serde_json::Value> = Vec::new();
    let mut tried = 0u64;
    let mut check = |x: u64, found: &mut Vec<serde_json::Value>| {
        if found.len() >= 4 {
            return;
        }
        if int64_hash_inverse(int64_hash(x)) != x {
            found.push(json!({"width":64, "identity":"inverse(hash(x))=x", "x": x, "got": int64_hash_inverse(int64_hash(x))}));
        }
        if int64_hash(int64_hash_inverse(x)) != x {
            found.push(json!({"width":64, "identity":"hash(inverse(x))=x", "x": x, "got": int64_hash(int64_hash_inverse(x))}));
        }
        let y = x as u32;
        if int32_hash_inverse(int32_hash(y)) != y {
            found.push(json!({"width":32, "identity":"inverse(hash(x))=x", "x": y, "got": int32_hash_inverse(int32_hash(y))}));
        }
        if int32_hash(int32_hash_inverse(y)) != y {
            found.push(json!({"width":32, "identity":"hash(inverse(x))=x", "x": y, "got": int32_hash(int32_hash_inverse(y))}));
        }
    };
    for x in structured64() {
        check(x, &mut found);
        tried += 1;
    }
    for _ in 0..n {
        check(rng.next_u64(), &mut found);
        tried += 1;
        if found.len() >= 4 {
            break;
        }
    }
    println!("{}", json!({ "tried": tried, "found": found }));
}

pub fn replay(args: &[String]) {
    let x = arg_u64(args, "--x", 0);
    let y = x as u32;
    println!(
        "{}",
        json!({"x": x, "h64": int64_hash(x), "hi64": int64_hash_inverse(x),
               "rt64": int64_hash_inverse(int64_hash(x)), "tr64": int64_hash(int64_hash_inverse(x)),
               "x32": y, "h32": int32_hash(y), "hi32": int32_hash_inverse(y),
               "rt32": int32_hash_inverse(int32_hash(y)), "tr32": int32_hash(int32_hash_inverse(y))})
    );
}
