//! C20: SetSketchParams dump / reload; every prefix of the dumped file; a stream of edited files.
use crate::util::*;
use probminhash::setsketcher::SetSketchParams;
use serde_json::{json, Value};
use std::panic::{catch_unwind, AssertUnwindSafe};
use std::path::Path;

fn gen_f64(rng: &mut SplitMix64, lo: f64, hi: f64) -> f64 {
    match rng.below(6) {
        0 => [1.001f64, 1.0001, 1.2, 1.5, 2.0, 20.0, 16.0][rng.below(7) as usize].clamp(lo, hi),
        1 => ((lo + rng.unit() * (hi - lo)) * 1000.).round() / 1000.,          // few digits
        2 => f64::from_bits((lo + rng.unit() * (hi - lo)).to_bits() | 1),         // long expansions
        3 => lo + (hi - lo) * (rng.below(1 << 20) as f64) / (1u64 << 20) as f64,
        _ => lo + rng.unit() * (hi - lo),
    }
}

/// outcome of reload: (class, params) class 0 = Ok, 1 = Err, 2 = panic
fn reload(dir: &Path) -> (i64, Option<(u64, u64, u64, u64)>) {
    let r = catch_unwind(AssertUnwindSafe(|| SetSketchParams::reload_json(dir)));
    match r {
        Err(_) => (2, None),
        Ok(Err(_)) => (1, None),
        Ok(Ok(p)) => (0, Some((p.get_b().to_bits(), p.get_m(), p.get_a().to_bits(), p.get_q()))),
    }
}

fn sig_digits(tok: &str) -> usize {
    let mant = tok.split(|c| c == 'e' || c == 'E').next().unwrap();
    let d: String = mant.chars().filter(|c| c.is_ascii_digit()).collect();
    d.trim_start_matches('0').trim_end_matches('0').len().max(1)
}

fn ulps(a: u64, b: u64) -> u64 {
    if a > b { a - b } else { b - a }
}

fn edits(rng: &mut SplitMix64, text: &str, b: &str, m: u64, a: &str, q: u64) -> Vec<String> {
    let mut v = vec![
        format!("  {{ \"b\" : {} ,\n \"m\":{},\t\"a\":{},\"q\":{} }}  \n", b, m, a, q),
        format!("{{\"q\":{},\"a\":{},\"m\":{},\"b\":{}}}", q, a, m, b),
        format!("{{\"b\":{},\"m\":{},\"a\":{},\"q\":{},\"extra\":17}}", b, m, a, q),
        format!("{{\"b\":{},\"zz\":\"text\",\"m\":{},\"a\":{},\"ok\":true,\"q\":{}}}", b, m, a, q),
        format!("{{\"b\":{},\"m\":{},\"a\":{},\"q\":{},\"q\":{}}}", b, m, a, q, q),
        format!("{{\"b\":{},\"m\":{},\"a\":{}}}", b, m, a),
        format!("{{\"b\":{},\"m\":{},\"a\":{},\"q\":{}}}x", b, m, a, q),
        format!("{{\"b\":{},\"m\":{},\"a\":{},\"q\":{}}}}}", b, m, a, q),
        format!("{{\"b\":{},\"m\":-{},\"a\":{},\"q\":{}}}", b, m, a, q),
        format!("{{\"b\":{},\"m\":{}.0,\"a\":{},\"q\":{}}}", b, m, a, q),
        format!("{{\"b\":{},\"m\":{},\"a\":{},\"q\":18446744073709551616}}", b, m, a),
        format!("{{\"b\":{},\"m\":0{},\"a\":{},\"q\":{}}}", b, m, a, q),
        format!("{{\"b\":\"{}\",\"m\":{},\"a\":{},\"q\":{}}}", b, m, a, q),
        format!("{{\"b\":{},\"m\":{},\"a\":{},\"q\":{},}}", b, m, a, q),
        format!("{{\"b\":7,\"m\":{},\"a\":3e2,\"q\":{}}}", m, q),
        "".to_string(),
        "{}".to_string(),
        "null".to_string(),
    ];
    // random single-character deletions
    for _ in 0..6 {
        let i = rng.below(text.len() as u64) as usize;
        let mut t = text.to_string();
        t.remove(i);
        v.push(t);
    }
    v
}

pub fn cases(args: &[String]) {
    let seed = arg_u64(args, "--seed", 1);
    let n = arg_u64(args, "--n", 50);
    let dir = arg_str(args, "--dir").expect("--dir");
    std::panic::set_hook(Box::new(|_| {}));
    let dirp = Path::new(&dir);
    std::fs::create_dir_all(dirp).unwrap();
    let file = dirp.join("parameters.json");
    let mut rng = SplitMix64::new(seed ^ 0xC20);
    let mut out: Vec<Value> = Vec::new();
    for _ in 0..n {
        crate::util::tick_idx(0, serde_json::Value::Null);
        let b = gen_f64(&mut rng, 1.0000001, 2.0);
        let a = gen_f64(&mut rng, 0.5, 64.0);
        let m = match rng.below(4) { 0 => rng.below(10), 1 => u64::MAX - rng.below(3), 2 => rng.next_u64(), _ => rng.range(1, 1 << 20) };
        let q = match rng.below(4) { 0 => rng.below(10), 1 => u64::MAX - rng.below(3), 2 => rng.next_u64(), _ => rng.range(1, 1 << 17) };
        let p = SetSketchParams::new(b, m, a, q);
        let _ = std::fs::remove_file(&file);
        let missing = reload(dirp).0;
        // a directory whose name is not valid UTF-8 (legal on Linux): missing file, then dump and reload
        let (missing_odd, roundtrip_odd) = {
            use std::os::unix::ffi::OsStrExt;
            let odd = dirp.join(std::ffi::OsStr::from_bytes(b"donn\xe9es \xff"));
            let _ = std::fs::create_dir_all(&odd);
            let _ = std::fs::remove_file(odd.join("parameters.json"));
            let mo = reload(&odd).0;
            let d = catch_unwind(AssertUnwindSafe(|| p.dump_json(&odd).is_ok()));
            let r = reload(&odd);
            // 0: dumped and reloaded with the same m and q; 1: an error was reported; 2: reload panicked; 3: dump panicked
            let same = matches!(r.1, Some((_, rm, _, rq)) if rm == m && rq == q);
            (mo, match d { Err(_) => 3, Ok(_) => if r.0 == 2 { 2 } else if same { 0 } else { 1 } })
        };
        let dumped = p.dump_json(dirp).is_ok();
        let text = std::fs::read_to_string(&file).unwrap_or_default();
        let bytes: Vec<u8> = text.as_bytes().to_vec();
        // tokens as written
        let v: Value = serde_json::from_str(&text).unwrap_or(Value::Null);
        let find_tok = |key: &str| -> String {
            let pat = format!("\"{}\":", key);
            match text.find(&pat) {
                Some(i) => { let rest = &text[i + pat.len()..]; let e = rest.find(|c| c == ',' || c == '}').unwrap_or(rest.len()); rest[..e].to_string() }
                None => String::new(),
            }
        };
        let btok = find_tok("b");
        let atok = find_tok("a");
        let full = reload(dirp);
        let mut roundtrip = json!({"class": full.0});
        if let Some((b2, m2, a2, q2)) = full.1 {
            roundtrip = json!({"class": 0, "m_same": m2 == m, "q_same": q2 == q, "b_ulps": ulps(b2, b.to_bits()), "a_ulps": ulps(a2, a.to_bits()),
                               "b_digits": sig_digits(&btok), "a_digits": sig_digits(&atok)});
        }
        // every prefix as the crash point
        let mut prefixes: Vec<i64> = Vec::new();
        for cut in 0..bytes.len() {
            std::fs::write(&file, &bytes[..cut]).unwrap();
            let (c, pp) = reload(dirp);
            prefixes.push(if c == 0 { if pp == Some((b.to_bits(), m, a.to_bits(), q)) { 0 } else { 3 } } else { c });
        }
        // edited files
        let mut ed: Vec<Value> = Vec::new();
        for t in edits(&mut rng, &text, &btok, m, &atok, q) {
            std::fs::write(&file, t.as_bytes()).unwrap();
            let (c, pp) = reload(dirp);
            ed.push(json!({"bytes": t.as_bytes(), "class": c, "m": pp.map(|x| x.1), "q": pp.map(|x| x.3)}));
        }
        let _ = v;
        // a dump over an existing, longer file in the same directory: the reload must return what was dumped last
        let longp = SetSketchParams::new(1.2345678901234567, u64::MAX, 19.876543210987654, u64::MAX - 1);
        let _ = longp.dump_json(dirp);
        let redumped = p.dump_json(dirp).is_ok();
        let (oc, opp) = reload(dirp);
        let overwrite = json!({"dumped": redumped, "class": oc, "same": opp == Some((b.to_bits(), m, a.to_bits(), q)) || (oc == 0 && opp.map(|x| (x.1, x.3)) == Some((m, q))),
                               "file": std::fs::read_to_string(&file).unwrap_or_default()});
        // ... and over an existing file that holds almost the same parameters (b and a 1 to 3 ulps away)
        let ulp = 1 + rng.below(3);
        let nearp = SetSketchParams::new(f64::from_bits(b.to_bits() + ulp), m, f64::from_bits(a.to_bits() - ulp), q);
        let _ = std::fs::remove_file(&file);
        let _ = nearp.dump_json(dirp);
        let redumped2 = p.dump_json(dirp).is_ok();
        let (oc2, opp2) = reload(dirp);
        let near_overwrite = json!({"dumped": redumped2, "class": oc2, "ulps_before": ulp,
            "b_ulps": opp2.map(|x| ulps(x.0, b.to_bits())), "a_ulps": opp2.map(|x| ulps(x.2, a.to_bits())),
            "b_digits": sig_digits(&btok), "a_digits": sig_digits(&atok), "mq_same": opp2.map(|x| (x.1, x.3)) == Some((m, q))});
        out.push(json!({"b": b.to_bits(), "m": m, "a": a.to_bits(), "q": q, "dumped": dumped, "bytes": bytes, "overwrite": overwrite, "near_overwrite": near_overwrite,
                        "btok": btok.as_bytes(), "atok": atok.as_bytes(), "missing": missing, "missing_odd": missing_odd, "roundtrip_odd": roundtrip_odd, "roundtrip": roundtrip,
                        "prefixes": prefixes, "edits": ed}));
    }
    let _ = std::fs::remove_file(&file);
    crate::util::wd_pause();
    println!("{}", json!({ "cases": out }));
}
