//! C14 (MLE part): outcome class and range of MleJaccard::get_mle on sketch pairs.
use crate::util::*;
use fnv::FnvHasher;
use probminhash::setsketcher::*;
use serde_json::{json, Value};
use std::hash::BuildHasherDefault;
use std::panic::{catch_unwind, AssertUnwindSafe};

fn sketch_u16(params: SetSketchParams, lo: u64, hi: u64) -> Vec<u16> {
    let mut s = SetSketcher::<u16, u64, FnvHasher>::new(params, BuildHasherDefault::<FnvHasher>::default());
    for i in lo..hi {
        s.sketch(&i).unwrap();
    }
    s.get_signature().clone()
}
fn sketch_u32(params: SetSketchParams, lo: u64, hi: u64) -> Vec<u32> {
    let mut s = SetSketcher::<u32, u64, FnvHasher>::new(params, BuildHasherDefault::<FnvHasher>::default());
    for i in lo..hi {
        s.sketch(&i).unwrap();
    }
    s.get_signature().clone()
}

/// (family, lo1, hi1, lo2, hi2)
fn families(rng: &mut SplitMix64, big: u64) -> Vec<(String, u64, u64, u64, u64)> {
    let n = rng.range(50, 3000);
    let k = rng.range(1, 40);
    vec![
        ("identical".into(), 0, n, 0, n),
        ("disjoint".into(), 0, n, n, 2 * n),
        ("nested".into(), 0, n, 0, n * k),
        ("nested-rev".into(), 0, n * k, 0, n),
        ("overlap".into(), 0, n, n / 2, n + n / 2),
        ("tiny-vs-big".into(), 0, 1, 0, big),
        ("one-two".into(), 0, 1, 0, 2),
        ("shifted".into(), 0, n, n / 10, n + n / 10),
        // disjoint sets of unrelated sizes (no register equal: the closed forms sit at 0 up to rounding)
        ("disjoint-unequal".into(), 0, rng.range(50, 4000), 1_000_000, 1_000_000 + rng.range(50, 40000)),
        ("disjoint-unequal".into(), 0, rng.range(1000, 40000), 1_000_000, 1_000_000 + rng.range(10, 4000)),
        ("disjoint-unequal".into(), 0, rng.range(1, 30), 1_000_000, 1_000_000 + rng.range(1, 30000)),
    ]
}

pub fn run_one(b: f64, m: u64, a: f64, q: u64, ty: &str, lo1: u64, hi1: u64, lo2: u64, hi2: u64) -> Value {
    let params = SetSketchParams::new(b, m, a, q);
    let mle = MleJaccard::from(params);
    let mut info = json!({});
    let r = catch_unwind(AssertUnwindSafe(|| {
        if ty == "u16" {
            let s1 = sketch_u16(params, lo1, hi1);
            let s2 = sketch_u16(params, lo2, hi2);
            let c1 = mle.get_cardinal_estimate(&s1);
            let c2 = mle.get_cardinal_estimate(&s2);
            let deq = s1.iter().zip(s2.iter()).filter(|(x, y)| x == y).count();
            info = json!({"card1": c1, "card2": c2, "dequal": deq});
            mle.get_mle(&s1, &s2)
        } else {
            let s1 = sketch_u32(params, lo1, hi1);
            let s2 = sketch_u32(params, lo2, hi2);
            let c1 = mle.get_cardinal_estimate(&s1);
            let c2 = mle.get_cardinal_estimate(&s2);
            let deq = s1.iter().zip(s2.iter()).filter(|(x, y)| x == y).count();
            info = json!({"card1": c1, "card2": c2, "dequal": deq});
            mle.get_mle(&s1, &s2)
        }
    }));
    let (oc, val) = match r {
        Err(_) => ("panic", None),
        Ok(None) => ("none", None),
        Ok(Some(j)) => ("ok", Some(j)),
    };
    json!({"b": b, "m": m, "a": a, "q": q, "ty": ty, "set1": [lo1, hi1], "set2": [lo2, hi2],
           "outcome": oc, "value": val, "info": info})
}

pub fn cases(args: &[String]) {
    let seed = arg_u64(args, "--seed", 1);
    let rounds = arg_u64(args, "--n", 2);
    let big = arg_u64(args, "--big", 100000);
    let mut rng = SplitMix64::new(seed ^ 0x31E);
    std::panic::set_hook(Box::new(|_| {}));
    let mut out = Vec::new();
    for r in 0..rounds {
        crate::util::tick_idx(r as u64, serde_json::Value::Null);
        for (b, a, q, ty) in [(1.001f64, 20.0f64, 65534u64, "u16"), (1.2, 20.0, 400, "u16"), (2.0, 20.0, 62, "u32")] {
            let m = [16u64, 64, 256][(r % 3) as usize];
            for (fam, lo1, hi1, lo2, hi2) in families(&mut rng, big) {
                let mut v = run_one(b, m, a, q, ty, lo1, hi1, lo2, hi2);
                v["family"] = json!(fam);
                out.push(v);
            }
        }
    }
    crate::util::wd_pause();
    println!("{}", json!({ "cases": out }));
}

pub fn replay(args: &[String]) {
    let spec: Value = serde_json::from_str(&arg_str(args, "--case").expect("--case")).expect("json");
    std::panic::set_hook(Box::new(|_| {}));
    let s1 = spec["set1"].as_array().unwrap();
    let s2 = spec["set2"].as_array().unwrap();
    let v = run_one(spec["b"].as_f64().unwrap(), spec["m"].as_u64().unwrap(), spec["a"].as_f64().unwrap(),
        spec["q"].as_u64().unwrap(), spec["ty"].as_str().unwrap(),
        s1[0].as_u64().unwrap(), s1[1].as_u64().unwrap(), s2[0].as_u64().unwrap(), s2[1].as_u64().unwrap());
    println!("{}", v);
}
