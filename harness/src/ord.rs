//! C11 / C10 / C13 / C12: ProbOrdMinHash2::hash_set on generated sequences.
use crate::util::*;
use fnv::FnvHasher;
use probminhash::fyshuffle::FYshuffle;
use probminhash::probminhasher::probordminhash2::ProbOrdMinHash2;
use rand::prelude::*;
use rand_distr::Exp1;
use rand_xoshiro::Xoshiro256PlusPlus;
use serde_json::{json, Value};
use std::collections::HashMap;
use std::hash::{BuildHasher, BuildHasherDefault, Hasher};
use std::panic::{catch_unwind, AssertUnwindSafe};
use wyhash::WyHash;

fn fnv(x: u64) -> u64 {
    BuildHasherDefault::<FnvHasher>::default().hash_one(&x)
}

pub fn pair_script(id_hash: u64, count: u64, seed: u64, m: usize) -> Vec<(i128, i128)> {
    let mut seed_256 = [0u8; 32];
    seed_256[0..8].copy_from_slice(&id_hash.to_ne_bytes());
    seed_256[8..16].copy_from_slice(&count.to_ne_bytes());
    seed_256[16..24].copy_from_slice(&seed.to_ne_bytes());
    // the three words are mixed before seeding (fix D11)
    let mut mixer = WyHash::with_seed(0x9e3779b97f4a7c15);
    mixer.write(&seed_256[0..24]);
    let mut rng = Xoshiro256PlusPlus::seed_from_u64(mixer.finish());
    let mut g = vec![0f64; m.saturating_sub(1)];
    for i in 1..m {
        g[i - 1] = m as f64 / (m - i) as f64;
    }
    let mut fy = FYshuffle::new(m);
    fy.reset();
    let mut x: f64 = Exp1.sample(&mut rng);
    let mut out = Vec::new();
    for t in 0..m {
        let k = fy.next(&mut rng);
        out.push((x.to_bits() as i128, k as i128));
        if t + 1 < m {
            let y: f64 = Exp1.sample(&mut rng);
            x += y * g[t];
        }
    }
    out
}

pub fn gen_seq(rng: &mut SplitMix64, l: usize) -> Vec<u64> {
    let n = rng.range(l as u64, 40) as usize;
    let alphabet = [2u64, 4, 20, 1 << 30][rng.below(4) as usize];
    (0..n).map(|_| rng.below(alphabet)).collect()
}

pub fn cases(args: &[String]) {
    let seed = arg_u64(args, "--seed", 1);
    let n = arg_u64(args, "--n", 100);
    let brk = arg_u64(args, "--break-on-reject", 0) as i128;
    std::panic::set_hook(Box::new(|_| {}));
    let mut out = Vec::new();
    for i in 0..n {
        crate::util::tick_idx(i as u64, serde_json::Value::Null);
        let mut rng = SplitMix64::new(seed ^ 0xC11 ^ i.wrapping_mul(0x9E3779B97F4A7C15));
        rng.next_u64();
        let m = if rng.coin(0.5) { rng.range(1, 8) } else { rng.range(1, 32) } as usize;
        let l = if rng.coin(0.4) { 1 } else { rng.range(1, 6) } as usize;
        let mut s = ProbOrdMinHash2::<FnvHasher>::new(m as u32, l);
        // earlier hash_set calls on the same instance must not matter
        let nprev = rng.below(3);
        for _ in 0..nprev {
            let d = gen_seq(&mut rng, l);
            let _ = s.hash_set(&d);
        }
        let data = gen_seq(&mut rng, l);
        let r = catch_unwind(AssertUnwindSafe(|| s.hash_set(&data)));
        let sseed = s.verif_seed();
        let mut w: Vec<i128> = vec![9, m as i128, l as i128, f64::MAX.to_bits() as i128, brk, data.len() as i128];
        let mut counter: HashMap<u64, u64> = HashMap::new();
        for v in &data {
            let h = fnv(*v);
            let c = counter.entry(h).or_insert(0);
            *c += 1;
            let sc = pair_script(h, *c, sseed, m);
            w.push(sc.len() as i128);
            for (x, k) in sc {
                w.push(x);
                w.push(k);
            }
        }
        let (idx, vals) = s.verif_selected();
        w.push(if r.is_ok() { 0 } else { 1 });
        w.push(m as i128);
        for k in 0..m {
            w.push(l as i128);
            for j in 0..l {
                w.push(idx[k * l + j] as i128);
            }
        }
        w.push(m as i128);
        for k in 0..m {
            w.push(l as i128);
            for j in 0..l {
                w.push(vals[k * l + j].to_bits() as i128);
            }
        }
        // signature = combined hash of the selected elements in sequence order
        let mut sig_ok = true;
        if let Ok(sig) = &r {
            for k in 0..m {
                let mut h = WyHash::with_seed(s.verif_wyhash_seed());
                // the specification: the l selected elements are read in sequence order, whatever order the store keeps them in
                let mut sel: Vec<usize> = (0..l).map(|j| idx[k * l + j] as usize).collect();
                sel.sort();
                for di in sel {
                    if di < data.len() {
                        h.write_u64(fnv(data[di]));
                    } else {
                        sig_ok = false;
                    }
                }
                if h.finish() != sig[k] {
                    sig_ok = false;
                }
            }
        }
        out.push(json!({"wire": w.iter().map(|x| x.to_string()).collect::<Vec<_>>(), "index": i,
            "meta": {"kind": "ordminhash", "m": m, "l": l, "len": data.len(), "nprev": nprev, "data": data,
                     "outcome": if r.is_ok() {"ok"} else {"panic"}, "sig_ok": sig_ok}}));
    }
    crate::util::wd_pause();
    println!("{}", json!({ "cases": out }));
}

/// implementation-level clauses: l = 1 permutation invariance, history freedom, two instances
pub fn props(args: &[String]) {
    let seed = arg_u64(args, "--seed", 1);
    let n = arg_u64(args, "--n", 200);
    std::panic::set_hook(Box::new(|_| {}));
    let mut rng = SplitMix64::new(seed ^ 0x5EA7C11);
    let mut found: Vec<Value> = Vec::new();
    let mut keys: Vec<String> = Vec::new();
    let mut add = |key: &str, text: String, input: Value| {
        if !keys.contains(&key.to_string()) {
            keys.push(key.to_string());
            found.push(json!({"key": key, "text": text, "input": input}));
        }
    };
    // two distinct elements whose hashes agree on the low 32 bits, the high 32 bits or the low 16 bits (a table keyed by a
    // truncated hash would merge them): the sequence in both relative orders, l = 1 (order independent by C11)
    for (what, mask) in [("low 32 bits", 0xFFFF_FFFFu64), ("high 32 bits", 0xFFFF_FFFF_0000_0000), ("low 16 bits", 0xFFFF)] {
        if let Some((x, y)) = crate::util::fnv_colliding_pair(mask, 600_000) {
            crate::util::tick_idx(0, json!({"colliding_pair": [x, y], "mask": what}));
            let fwd: Vec<u64> = vec![x, y, 7, 8, 9, 10, 11, 12];
            let bwd: Vec<u64> = vec![y, x, 7, 8, 9, 10, 11, 12];
            for m in [16u32, 256] {
                let r = catch_unwind(AssertUnwindSafe(|| {
                    let mut s = ProbOrdMinHash2::<FnvHasher>::new(m, 1);
                    let mut t = ProbOrdMinHash2::<FnvHasher>::new(m, 1);
                    (s.hash_set(&fwd), t.hash_set(&bwd))
                }));
                if let Ok((a, b)) = r {
                    if a != b {
                        let ne = a.iter().zip(b.iter()).filter(|(p, q)| p != q).count();
                        add("ord-l1-perm", format!("l=1, m={}: swapping the elements {} and {} (FnvHasher hashes equal on their {}) changes {} of {} positions", m, x, y, what, ne, m),
                            json!({"m": m, "l": 1, "a": fwd, "b": bwd}));
                    }
                }
            }
        }
    }
    // corpus: the minimised failure of the original early exit
    {
        let fwd: Vec<u64> = (0..20).collect();
        let rev: Vec<u64> = (0..20).rev().collect();
        let mut s = ProbOrdMinHash2::<FnvHasher>::new(8, 1);
        let a = s.hash_set(&fwd);
        let b = s.hash_set(&rev);
        if a != b {
            let eq = a.iter().zip(b.iter()).filter(|(x, y)| x == y).count();
            add("ord-l1-perm", format!("l=1, m=8: the sequence 0..20 and its reverse give different signatures ({} of 8 positions equal)", eq),
                json!({"m": 8, "l": 1, "a": fwd, "b": rev}));
        }
    }
    let mut tried = 1u64;
    for _ in 0..n {
        crate::util::tick_idx(0, serde_json::Value::Null);
        let m = if rng.coin(0.5) { rng.range(1, 8) } else { rng.range(1, 32) } as usize;
        let l = 1usize;
        let data = gen_seq(&mut rng, l);
        let mut perm = data.clone();
        for i in (1..perm.len()).rev() {
            let j = rng.below(i as u64 + 1) as usize;
            perm.swap(i, j);
        }
        tried += 1;
        let r = catch_unwind(AssertUnwindSafe(|| {
            let mut s = ProbOrdMinHash2::<FnvHasher>::new(m as u32, l);
            let a = s.hash_set(&data);
            let b = s.hash_set(&perm);
            let a2 = s.hash_set(&data);
            let mut t = ProbOrdMinHash2::<FnvHasher>::new(m as u32, l);
            let c = t.hash_set(&data);
            (a, b, a2, c)
        }));
        match r {
            Err(_) => add("ord-panic", format!("hash_set panicked (m={}, l={}, len={})", m, l, data.len()), json!({"m": m, "l": l, "a": data})),
            Ok((a, b, a2, c)) => {
                if a != b {
                    add("ord-l1-perm", format!("l=1: a permutation of the sequence changes the signature (m={}, len={})", m, data.len()), json!({"m": m, "l": l, "a": data, "b": perm}));
                }
                if a != a2 {
                    add("ord-history", format!("hash_set depends on earlier calls on the same instance (m={}, len={})", m, data.len()), json!({"m": m, "l": l, "a": data, "between": perm}));
                }
                if a != c {
                    add("ord-two-instances", format!("two ProbOrdMinHash2 instances with the same parameters give different signatures for the same input (m={}, l={})", m, l), json!({"m": m, "l": l, "a": data}));
                }
            }
        }
    }
    // any l: the (element, occurrence) pairs selected per position, with their values, do not depend on
    // the order of the sequence (read through the guarded accessor)
    let labels = |seq: &[u64]| -> Vec<(u64, u64)> {
        let mut cnt: std::collections::HashMap<u64, u64> = std::collections::HashMap::new();
        seq.iter().map(|e| { let c = cnt.entry(*e).or_insert(0); let r = (*e, *c); *c += 1; r }).collect()
    };
    for _ in 0..n {
        crate::util::tick_idx(0, serde_json::Value::Null);
        let m = if rng.coin(0.5) { rng.range(1, 8) } else { rng.range(1, 32) } as usize;
        let l = rng.range(1, 6) as usize;
        let data = gen_seq(&mut rng, l);
        let mut perm = data.clone();
        for i in (1..perm.len()).rev() {
            let j = rng.below(i as u64 + 1) as usize;
            perm.swap(i, j);
        }
        tried += 1;
        let r = catch_unwind(AssertUnwindSafe(|| {
            let mut out = Vec::new();
            for seq in [&data, &perm] {
                let mut s = ProbOrdMinHash2::<FnvHasher>::new(m as u32, l);
                let _ = s.hash_set(seq);
                let (idx, vals) = s.verif_selected();
                let lab = labels(seq);
                // create_signature sorts the indices of a slot in place (sequence order), so indices and
                // values are no longer aligned entry by entry: compare the two sets separately
                let mut per_slot: Vec<(Vec<(u64, u64)>, Vec<u64>)> = Vec::new();
                for k in 0..m {
                    let mut labs: Vec<(u64, u64)> = (0..l).map(|j| {
                        let i = idx[k * l + j] as usize;
                        if i < lab.len() { lab[i] } else { (u64::MAX, u64::MAX) }
                    }).collect();
                    labs.sort();
                    let mut vs: Vec<u64> = (0..l).map(|j| vals[k * l + j].to_bits()).collect();
                    vs.sort();
                    per_slot.push((labs, vs));
                }
                out.push(per_slot);
            }
            out
        }));
        match r {
            Err(_) => add("ord-panic", format!("hash_set panicked (m={}, l={}, len={})", m, l, data.len()), json!({"m": m, "l": l, "a": data})),
            Ok(out) => {
                if out[0] != out[1] {
                    let k = (0..m).find(|k| out[0][*k] != out[1][*k]).unwrap();
                    add("ord-select-perm", format!("a permutation of the sequence changes the (element, occurrence) pairs selected at position {} (m={}, l={}, len={})", k, m, l, data.len()),
                        json!({"m": m, "l": l, "a": data, "b": perm}));
                }
            }
        }
    }
    crate::util::wd_pause();
    // sizes suggested by the driver (new literals of a changed source file): a first call on about that many distinct
    // elements, then a short sequence sharing elements with it - must equal a new sketcher's signature (self-clearing);
    // and sketch sizes around them: permutation invariance for l = 1
    let xs = crate::util::extra_sizes();
    {
        let mut ns: Vec<u64> = Vec::new();
        for s in &xs { for v in [s.saturating_sub(1), *s, s + 1] { if v >= 2 && v <= 300_000 && !ns.contains(&v) { ns.push(v); } } }
        ns.sort_unstable_by(|a, b| b.cmp(a));
        for n_calls in ns.iter().take(9) {
            tried += 1;
            crate::util::tick_idx(0, json!({"calls_on_one_instance": n_calls}));
            let first: Vec<u64> = vec![11, 22];
            let other: Vec<u64> = vec![22, 33];
            let r = catch_unwind(AssertUnwindSafe(|| {
                let mut s = ProbOrdMinHash2::<FnvHasher>::new(8, 1);
                let _ = s.hash_set(&first);
                for _ in 1..*n_calls { let _ = s.hash_set(&other); }
                let again = s.hash_set(&first);
                let mut f = ProbOrdMinHash2::<FnvHasher>::new(8, 1);
                (again, f.hash_set(&first))
            }));
            if let Ok((a, c)) = r {
                if a != c {
                    add("ord-history", format!("hash_set depends on earlier calls on the same instance: [11, 22], then {} calls on [22, 33], then [11, 22] again differs from a new sketcher (m=8, l=1)", n_calls - 1),
                        json!({"m": 8, "l": 1, "calls": [[11, 22], format!("{} x [22, 33]", n_calls - 1), [11, 22]]}));
                }
            }
        }
    }
    for t in 0..(if xs.is_empty() { 0 } else { 6 }) {
        if let Some(v) = crate::util::near_size(&mut rng, &xs, 400_000) {
            tried += 1;
            crate::util::tick_idx(t, json!({"first_call_distinct_elements": v}));
            let long: Vec<u64> = (0..v).collect();
            let short: Vec<u64> = (0..40u64).map(|i| (i * 7919) % v.max(1)).collect();
            let r = catch_unwind(AssertUnwindSafe(|| {
                let mut s = ProbOrdMinHash2::<FnvHasher>::new(16, 2);
                let _ = s.hash_set(&long);
                let a = s.hash_set(&short);
                let a2 = s.hash_set(&short);
                let mut f = ProbOrdMinHash2::<FnvHasher>::new(16, 2);
                (a, a2, f.hash_set(&short))
            }));
            match r {
                Err(_) => add("ord-panic", format!("hash_set panicked after a call on {} distinct elements", v), json!({"m": 16, "l": 2, "first_call": format!("0..{}", v), "a": short})),
                Ok((a, a2, c)) => if a != c || a2 != c {
                    add("ord-history", format!("hash_set depends on earlier calls on the same instance: after a call on the {} distinct elements 0..{} a 40-element sequence gets a signature different from a new sketcher's (m=16, l=2)", v, v),
                        json!({"m": 16, "l": 2, "first_call": format!("0..{}", v), "a": short}));
                }
            }
        }
        if let Some(v) = crate::util::near_size(&mut rng, &xs, 40_000) {
            tried += 1;
            let m = v.max(1) as u32;
            let data: Vec<u64> = (0..400u64).map(|i| i * 104729 + 17).collect();
            let mut perm = data.clone();
            perm.reverse();
            crate::util::tick_idx(t, json!({"m": m, "l": 1}));
            let r = catch_unwind(AssertUnwindSafe(|| { let mut s = ProbOrdMinHash2::<FnvHasher>::new(m, 1); (s.hash_set(&data), s.hash_set(&perm)) }));
            match r {
                Err(_) => add("ord-panic", format!("hash_set panicked (m={}, l=1, 60 elements)", m), json!({"m": m, "l": 1, "a": data})),
                Ok((a, b)) => if a != b {
                    add("ord-l1-perm", format!("l=1: the reversed sequence changes the signature (m={}, 400 distinct elements)", m), json!({"m": m, "l": 1, "a": data, "b": perm}));
                }
            }
        }
    }
    // long sequences on large sketches (sizes near the new literals): most items stop after very few draws;
    // the same sequence again, and reversed, on the same instance against a new sketcher
    let mut big_sizes: Vec<u64> = crate::util::near_sizes_all(&xs, 6_000, 6);
    if n >= 2000 { for v in [8193u64, 65536] { if !big_sizes.contains(&v) { big_sizes.push(v); } } }
    for (t, v) in big_sizes.into_iter().enumerate() {
        {
            let m = v.max(2) as u32;
            let n = if v > 6_000 { 120_000u64 } else { 40_000u64 };
            tried += 1;
            crate::util::tick_idx(t as u64, json!({"m": m, "l": 1, "distinct_elements": n}));
            let data: Vec<u64> = (0..n).map(|i| i * 2654435761 + 5).collect();
            let mut rev = data.clone();
            rev.reverse();
            let r = catch_unwind(AssertUnwindSafe(|| {
                let mut s = ProbOrdMinHash2::<FnvHasher>::new(m, 1);
                let a = s.hash_set(&data);
                let a2 = s.hash_set(&data);
                let a3 = s.hash_set(&rev);
                let mut f = ProbOrdMinHash2::<FnvHasher>::new(m, 1);
                let c = f.hash_set(&rev);
                let mut g = ProbOrdMinHash2::<FnvHasher>::new(m, 1);
                let d = g.hash_set(&data[..(n as usize / 2)]);
                // a slot whose winner lies in the first half must report the same winner for the prefix alone
                let frozen = a.iter().zip(d.iter()).filter(|(x, y)| x != y).count();
                (a == a2, a == a3, a3 == c, frozen)
            }));
            let inp = json!({"m": m, "l": 1, "a": format!("(0..{}).map(|i| i * 2654435761 + 5)", n)});
            match r {
                Err(_) => add("ord-panic", format!("hash_set panicked (m={}, l=1, {} distinct elements)", m, n), inp),
                Ok((e1, e2, e3, changed)) => {
                    if !e1 { add("ord-history", format!("hash_set of the same {} distinct elements twice on one instance gives two signatures (m={}, l=1)", n, m), inp.clone()); }
                    if !e2 || !e3 { add("ord-l1-perm", format!("l=1: the reversed sequence changes the signature (m={}, {} distinct elements)", m, n), inp.clone()); }
                    // for a uniform ranking a slot's winner lies in the second half with probability 1/2
                    let z = (changed as f64 - m as f64 / 2.0) / (m as f64 / 4.0).sqrt();
                    if std::env::var("VERIF_SHOW_Z").is_ok() { eprintln!("late-winners m={} z={:.2}", m, z); }
                    if m >= 64 && z.abs() > 7.0 {
                        add("ord-late-winners", format!("m={}, l=1: {} of {} slots are won by the second half of {} distinct elements (expected half, z = {:.1})", m, changed, m, n, z), inp.clone());
                    }
                }
            }
        }
    }
    println!("{}", json!({"tried": tried, "found": found}));
}

/// search aid for C10 (only after an obligation broke): collision frequency for l = 1 against the
/// Jaccard index of the element multisets (the l = 1 case of the order-min-hash similarity)
pub fn mc(args: &[String]) {
    let seed = arg_u64(args, "--seed", 1);
    let trials = arg_u64(args, "--trials", 1500) as usize;
    std::panic::set_hook(Box::new(|_| {}));
    let mut rng = SplitMix64::new(seed ^ 0x3C10);
    let mut found: Vec<Value> = Vec::new();
    for (name, a_only, both, b_only) in [("overlap", 10usize, 10usize, 10usize), ("nested", 0, 5, 20), ("tiny", 1, 1, 1)] {
        let j = both as f64 / (a_only + both + b_only) as f64;
        for m in [4usize, 32] {
            let mut sum = 0.0f64;
            for _ in 0..trials {
                crate::util::tick_idx(0, serde_json::Value::Null);
                let ids: Vec<u64> = (0..(a_only + both + b_only)).map(|_| rng.next_u64() >> 4).collect();
                let a: Vec<u64> = ids[..a_only + both].to_vec();
                let b: Vec<u64> = ids[a_only..].to_vec();
                let mut s = ProbOrdMinHash2::<FnvHasher>::new(m as u32, 1);
                let sa = s.hash_set(&a);
                let sb = s.hash_set(&b);
                sum += sa.iter().zip(sb.iter()).filter(|(x, y)| x == y).count() as f64 / m as f64;
            }
            let mean = sum / trials as f64;
            let z = (mean - j) / (j * (1. - j) / (m as f64 * trials as f64)).sqrt().max(1e-12);
            if z.abs() > 6. {
                found.push(json!({"family": name, "m": m, "l": 1, "j": j, "mean": mean, "z": z, "trials": trials, "seed": seed}));
            }
        }
    }
    crate::util::wd_pause();
    println!("{}", json!({"found": found}));
}

/// debugging / replay aid: prints, per position, the selected (value bits, element, occurrence) of two sequences
/// replay of an implementation-level finding of ord-props: {"m", "l", "a": [..] | "(0..N).map(|i| i * K + C)", "b": [..]?}
/// prints the signatures of a (twice on one instance), of b or reversed a, and of a new sketcher
pub fn replay(args: &[String]) {
    let spec: Value = serde_json::from_str(&arg_str(args, "--case").expect("--case")).expect("json");
    let m = spec["m"].as_u64().unwrap_or(8) as u32;
    let l = spec["l"].as_u64().unwrap_or(1) as usize;
    let seq = |v: &Value| -> Option<Vec<u64>> {
        if let Some(a) = v.as_array() { return Some(a.iter().filter_map(|x| x.as_u64()).collect()); }
        let s = v.as_str()?;
        // "(0..N).map(|i| i * K + C)"
        let nums: Vec<u64> = s.split(|c: char| !c.is_ascii_digit()).filter(|t| !t.is_empty()).filter_map(|t| t.parse().ok()).collect();
        if nums.len() >= 4 { Some((0..nums[1]).map(|i| i.wrapping_mul(nums[2]).wrapping_add(nums[3])).collect()) } else { None }
    };
    let a = match seq(&spec["a"]) { Some(a) => a, None => { println!("{}", json!({"replay": "input has no sequence `a`", "input": spec})); return; } };
    let b = seq(&spec["b"]).unwrap_or_else(|| { let mut r = a.clone(); r.reverse(); r });
    let mut s = ProbOrdMinHash2::<FnvHasher>::new(m, l);
    let s1 = s.hash_set(&a);
    let s2 = s.hash_set(&a);
    let s3 = s.hash_set(&b);
    let mut f = ProbOrdMinHash2::<FnvHasher>::new(m, l);
    let s4 = f.hash_set(&b);
    let ne = |x: &Vec<u64>, y: &Vec<u64>| x.iter().zip(y.iter()).filter(|(p, q)| p != q).count();
    crate::util::wd_pause();
    println!("{}", json!({"m": m, "l": l, "len_a": a.len(), "len_b": b.len(), "positions_differing": {
        "a_twice_on_one_instance": ne(&s1, &s2), "a_vs_b_on_one_instance": ne(&s1, &s3), "b_reused_vs_b_on_new_sketcher": ne(&s3, &s4)},
        "note": "for l = 1 and b a permutation of a, all three counts must be 0"}));
}

pub fn show(args: &[String]) {
    let m = arg_u64(args, "--m", 8) as usize;
    let l = arg_u64(args, "--l", 1) as usize;
    let parse = |name: &str| -> Vec<u64> {
        let i = args.iter().position(|a| a == name).unwrap();
        args[i + 1].split(',').map(|x| x.trim().parse().unwrap()).collect()
    };
    let a = parse("--a");
    let b = parse("--b");
    for seq in [&a, &b] {
        let mut cnt: std::collections::HashMap<u64, u64> = std::collections::HashMap::new();
        let lab: Vec<(u64, u64)> = seq.iter().map(|e| { let c = cnt.entry(*e).or_insert(0); let r = (*e, *c); *c += 1; r }).collect();
        let mut s = ProbOrdMinHash2::<FnvHasher>::new(m as u32, l);
        let _ = s.hash_set(seq);
        let (idx, vals) = s.verif_selected();
        for k in 0..m {
            let v: Vec<(f64, u64, u64, usize)> = (0..l).map(|j| { let i = idx[k * l + j] as usize; let (e, c) = if i < lab.len() { lab[i] } else { (u64::MAX, u64::MAX) }; (vals[k * l + j], e, c, i) }).collect();
            println!("slot {} {:?}", k, v);
        }
        println!("--");
    }
}


/// exact order-min-hash collision probability of two short sequences: share of the rankings of the union of
/// their (element, occurrence) pairs under which the l lowest-ranked pairs of each, in sequence order, spell the same
pub fn omh_exact(a: &[u64], b: &[u64], l: usize) -> f64 {
    fn labels(seq: &[u64]) -> Vec<(u64, u64)> {
        let mut cnt: std::collections::HashMap<u64, u64> = std::collections::HashMap::new();
        seq.iter().map(|e| { let c = cnt.entry(*e).or_insert(0); let r = (*e, *c); *c += 1; r }).collect()
    }
    let la = labels(a);
    let lb = labels(b);
    let mut all: Vec<(u64, u64)> = la.iter().chain(lb.iter()).cloned().collect();
    all.sort();
    all.dedup();
    let n = all.len();
    assert!(n <= 9);
    let pos = |x: &(u64, u64)| all.iter().position(|y| y == x).unwrap();
    let ia: Vec<usize> = la.iter().map(pos).collect();
    let ib: Vec<usize> = lb.iter().map(pos).collect();
    // rank[i] = rank of pair i; enumerate all permutations (Heap's algorithm)
    let mut rank: Vec<usize> = (0..n).collect();
    let mut c = vec![0usize; n];
    let mut hits = 0u64;
    let mut total = 0u64;
    let spell = |idx: &Vec<usize>, seq: &[u64], rank: &Vec<usize>| -> Vec<u64> {
        let mut order: Vec<usize> = (0..idx.len()).collect();
        order.sort_by_key(|p| rank[idx[*p]]);
        let mut chosen: Vec<usize> = order[..l].to_vec();
        chosen.sort();
        chosen.iter().map(|p| seq[*p]).collect()
    };
    let mut visit = |rank: &Vec<usize>| {
        total += 1;
        if spell(&ia, a, rank) == spell(&ib, b, rank) { hits += 1; }
    };
    visit(&rank);
    let mut i = 0;
    while i < n {
        if c[i] < i {
            if i % 2 == 0 { rank.swap(0, i); } else { rank.swap(c[i], i); }
            visit(&rank);
            c[i] += 1;
            i = 0;
        } else {
            c[i] = 0;
            i += 1;
        }
    }
    hits as f64 / total as f64
}

/// Monte-Carlo over fresh element labels for sequences WITH repeated elements, against the exact probability
pub fn mc_rep(args: &[String]) {
    let seed = arg_u64(args, "--seed", 1);
    let trials = arg_u64(args, "--trials", 2000) as usize;
    let mut rng = SplitMix64::new(seed ^ 0x3C10AA);
    let mut rows: Vec<Value> = Vec::new();
    let shapes: Vec<(&str, Vec<u64>, Vec<u64>, usize)> = vec![
        ("a4b-vs-ac", vec![0, 0, 0, 0, 1], vec![0, 2], 1),
        ("aab-vs-abb", vec![0, 0, 1], vec![0, 1, 1], 2),
        ("aaab-vs-abab", vec![0, 0, 0, 1], vec![0, 1, 0, 1], 2),
        ("distinct", vec![0, 1, 2, 3], vec![1, 2, 3, 4], 2),
    ];
    for (name, pa, pb, l) in shapes {
        let p = omh_exact(&pa, &pb, l);
        for m in [8usize, 64] {
            let mut sum = 0.0f64;
            for _ in 0..trials {
                crate::util::tick_idx(0, serde_json::Value::Null);
                let ids: Vec<u64> = (0..5).map(|_| rng.next_u64() >> 4).collect();
                let a: Vec<u64> = pa.iter().map(|i| ids[*i as usize]).collect();
                let b: Vec<u64> = pb.iter().map(|i| ids[*i as usize]).collect();
                let mut s = ProbOrdMinHash2::<FnvHasher>::new(m as u32, l);
                let sa = s.hash_set(&a);
                let sb = s.hash_set(&b);
                sum += sa.iter().zip(sb.iter()).filter(|(x, y)| x == y).count() as f64 / m as f64;
            }
            let mean = sum / trials as f64;
            let z = (mean - p) / (p * (1. - p) / (m as f64 * trials as f64)).sqrt().max(1e-12);
            rows.push(json!({"family": name, "m": m, "l": l, "p": p, "mean": mean, "z": z, "trials": trials}));
        }
    }
    crate::util::wd_pause();
    println!("{}", json!({"rows": rows}));
}
