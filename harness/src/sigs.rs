//! C18: byte identities (trait Sig) of every implementing type.
use crate::util::*;
use probminhash::probminhasher::sig::Sig;
use serde_json::{json, Value};

fn lens(rng: &mut SplitMix64) -> usize {
    let xs = crate::util::extra_sizes();
    if !xs.is_empty() && rng.coin(0.3) {
        if let Some(v) = crate::util::near_size(rng, &xs, 400_000) { return v as usize; }
    }
    match rng.below(6) { 0 => 0, 1 => 1, 2 => rng.range(2, 9) as usize, 3 => rng.range(10, 300) as usize, 4 => 100_000, _ => rng.range(1, 40) as usize }
}

pub fn cases(args: &[String]) {
    let seed = arg_u64(args, "--seed", 1);
    let n = arg_u64(args, "--n", 100);
    let mut rng = SplitMix64::new(seed ^ 0xC18);
    let mut out: Vec<Value> = Vec::new();
    let special: [u64; 8] = [0, 1, 0x7f, 0x80, 0xff, 0x100, u64::MAX, u64::MAX / 2 + 1];
    for i in 0..n {
        crate::util::tick_idx(i as u64, serde_json::Value::Null);
        let x = if i < 8 { special[i as usize] } else { rng.next_u64() >> rng.below(64) };
        out.push(json!({"ty": "u8", "values": [x as u8], "bytes": (x as u8).get_sig()}));
        out.push(json!({"ty": "u16", "values": [x as u16], "bytes": (x as u16).get_sig()}));
        out.push(json!({"ty": "u32", "values": [x as u32], "bytes": (x as u32).get_sig()}));
        out.push(json!({"ty": "u64", "values": [x], "bytes": x.get_sig()}));
        out.push(json!({"ty": "i16", "values": [x as i16], "bytes": (x as i16).get_sig()}));
        out.push(json!({"ty": "i32", "values": [x as i32], "bytes": (x as i32).get_sig()}));
        if i % 4 == 0 {
            let l = lens(&mut rng);
            let v8: Vec<u8> = (0..l).map(|_| rng.next_u64() as u8).collect();
            let v16: Vec<u16> = (0..l).map(|_| rng.next_u64() as u16).collect();
            let v32: Vec<u32> = (0..l).map(|_| rng.next_u64() as u32).collect();
            // twice each: the second call is where a freed buffer would show
            let (a8, b8) = (v8.get_sig(), v8.get_sig());
            let (a16, b16) = (v16.get_sig(), v16.get_sig());
            let (a32, b32) = (v32.get_sig(), v32.get_sig());
            out.push(json!({"ty": "Vec<u8>", "values": v8, "bytes": a8, "again_same": a8 == b8}));
            out.push(json!({"ty": "Vec<u16>", "values": v16, "bytes": a16, "again_same": a16 == b16}));
            out.push(json!({"ty": "Vec<u32>", "values": v32, "bytes": a32, "again_same": a32 == b32}));
            // the same values in vectors with spare capacity (grown by push, or shortened): equal values, equal bytes
            if l < 1000 {
                let mut w16: Vec<u16> = Vec::with_capacity(l + 1 + (rng.below(40) as usize));
                for x in &v16 { w16.push(*x); }
                let mut w32: Vec<u32> = v32.clone();
                w32.extend_from_slice(&[7, 8, 9, 10, 11]);
                w32.truncate(l);
                let mut w8: Vec<u8> = Vec::with_capacity(l + 17);
                w8.extend_from_slice(&v8);
                out.push(json!({"ty": "Vec<u8>", "values": w8, "bytes": w8.get_sig(), "spare_capacity": w8.capacity() - w8.len()}));
                out.push(json!({"ty": "Vec<u16>", "values": w16, "bytes": w16.get_sig(), "spare_capacity": w16.capacity() - w16.len()}));
                out.push(json!({"ty": "Vec<u32>", "values": w32, "bytes": w32.get_sig(), "spare_capacity": w32.capacity() - w32.len()}));
            }
            let s: String = (0..(l % 50)).map(|_| ['a', 'é', 'z', '0', '€', ' ', '漢'][rng.below(7) as usize]).collect();
            out.push(json!({"ty": "String", "values": s.as_bytes(), "bytes": s.get_sig()}));
        }
    }
    // the Sha variant hashes the whole byte identity: two long keys that differ only in their last element are different
    // objects, so with equal weights each of them wins some of the 128 positions (one key winning all has probability 2^-127)
    let mut long_keys: Vec<Value> = Vec::new();
    {
        use indexmap::IndexMap;
        use probminhash::probminhasher::ProbMinHash3aSha;
        let mut ls: Vec<usize> = vec![1000, 70_000];
        let xs = crate::util::extra_sizes();
        for s in xs.iter().take(4) { for v in [*s + 1, s + s / 2 + 3, 3 * s + 7] { if v <= 2_000_000 { ls.push(v as usize); } } }
        for l in ls {
            crate::util::tick_idx(l as u64, json!({"long_key_bytes": l}));
            let k1: Vec<u8> = (0..l).map(|i| (i * 7 + 3) as u8).collect();
            let mut k2 = k1.clone();
            k2[l - 1] ^= 0x55;
            let mut s = ProbMinHash3aSha::<Vec<u8>>::new(128, Vec::new());
            let mut im: IndexMap<Vec<u8>, f64> = IndexMap::new();
            im.insert(k1.clone(), 1.0);
            im.insert(k2.clone(), 1.0);
            s.hash_weigthed_idxmap(&im);
            let w1 = s.get_signature().iter().filter(|k| **k == k1).count();
            let w2 = s.get_signature().iter().filter(|k| **k == k2).count();
            long_keys.push(json!({"bytes": l, "wins": [w1, w2]}));
        }
    }
    crate::util::wd_pause();
    println!("{}", json!({ "cases": out, "sha_long_keys": long_keys }));
}

/// memory behaviour: many calls, results dropped; a double free aborts the process
pub fn stress(args: &[String]) {
    let rounds = arg_u64(args, "--n", 2000);
    let mut rng = SplitMix64::new(7);
    let mut total = 0usize;
    for r in 0..rounds {
        crate::util::tick_idx(r as u64, serde_json::Value::Null);
        let l = if r % 50 == 0 { 100_000 } else { (rng.below(2000)) as usize };
        let v16: Vec<u16> = (0..l).map(|i| i as u16).collect();
        let v32: Vec<u32> = (0..l).map(|i| i as u32).collect();
        let v8: Vec<u8> = (0..l).map(|i| i as u8).collect();
        total += v16.get_sig().len() + v32.get_sig().len() + v8.get_sig().len();
        total += v16.get_sig().len();
        let s = "x".repeat(l % 100);
        total += s.get_sig().len() + (r as u32).get_sig().len();
    }
    crate::util::wd_pause();
    println!("{}", json!({"ok": true, "bytes": total}));
}
