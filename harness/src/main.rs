//! Correspondence harness: runs the real crate (hooks on) on generated inputs
//! and prints JSON that the ./check driver turns into Coq case files.
mod est;
mod exp01h;
mod fy;
mod invhash;
mod jsonp;
mod mle;
mod ord;
mod pmh;
mod purity;
mod setf;
mod sigs;
mod sk;
mod tracker;
mod util;

/// accepts every record and formats it (so that the arguments of the crate's log lines are evaluated), prints nothing
struct NullLogger;
impl log::Log for NullLogger {
    fn enabled(&self, _: &log::Metadata) -> bool {
        true
    }
    fn log(&self, record: &log::Record) {
        let _ = format!("{}", record.args());
    }
    fn flush(&self) {}
}

fn main() {
    let args: Vec<String> = std::env::args().collect();
    if args.len() < 2 {
        eprintln!("usage: pmh-harness <subcommand> [--seed S] [--n N] ...");
        std::process::exit(2);
    }
    let rest = &args[2..];
    util::set_cmd(args[1..].join(" "));
    util::watchdog_start();
    if std::env::var("VERIF_TRACE").is_ok() {
        static NULL_LOGGER: NullLogger = NullLogger;
        let _ = log::set_logger(&NULL_LOGGER);
        log::set_max_level(log::LevelFilter::Trace);
    }
    match args[1].as_str() {
        "invhash-vectors" => invhash::vectors(rest),
        "invhash-search" => invhash::search(rest),
        "invhash-replay" => invhash::replay(rest),
        "est-cases" => est::cases(rest),
        "pmh-cases" => pmh::cases(rest),
        "sk-cases" => sk::cases(rest),
        "bounds-props" => setf::bounds(rest),
        "card-props" => setf::card(rest),
        "card-mc" => setf::card_mc(rest),
"coll-mc" => setf::coll_mc(rest),
        "exp01-cases" => exp01h::cases(rest),
        "exp01-law" => exp01h::law(rest),
        "sig-cases" => sigs::cases(rest),
        "sig-stress" => sigs::stress(rest),
        "json-cases" => jsonp::cases(rest),
        "purity" => purity::run(rest),
        "ord-cases" => ord::cases(rest),
        "ord-props" => ord::props(rest),
        "ord-show" => ord::show(rest),
"ord-replay" => ord::replay(rest),
        "ord-mc-rep" => ord::mc_rep(rest),
        "ord-mc" => ord::mc(rest),
        "sk-props" => sk::props(rest),
        "sk-mc" => sk::mc(rest),
        "pmh-props" => pmh::props(rest),
        "pmh-mc" => pmh::mc(rest),
        "pmh-props-replay" => pmh::props_replay(rest),
        "mle-cases" => mle::cases(rest),
        "mle-replay" => mle::replay(rest),
        "fy-cases" => fy::cases(rest),
        "fy-pick-cases" => fy::pick_cases(rest),
        "fy-search" => fy::search(rest),
        "fy-replay" => fy::replay(rest),
        "fy-large" => fy::large(rest),
        "tracker-cases" => tracker::cases(rest),
        "tracker-search" => tracker::search(rest),
        "tracker-replay" => tracker::replay(rest),
        other => {
            eprintln!("unknown subcommand {}", other);
            std::process::exit(2);
        }
    }
}
