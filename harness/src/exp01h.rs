//! C16: ExpRestricted01::sample driven by a scripted generator.
use crate::fy::ScriptRng;
use crate::util::*;
use probminhash::exp01::ExpRestricted01;
use rand::distr::Distribution;
use serde_json::{json, Value};

fn unit_of(u: u64) -> f64 {
    (u >> 12) as f64 * (1.0 / (1u64 << 52) as f64)
}
fn raw_of_unit(x: f64) -> u64 {
    // a raw output whose 52-bit fraction is (the truncation of) x
    (((x.clamp(0.0, 1.0 - 1e-16)) * (1u64 << 52) as f64) as u64) << 12
}

/// the scripted outputs first, then an endless pseudo-random stream
struct ScriptThenRandom {
    vals: Vec<u64>,
    pos: usize,
    tail: SplitMix64,
}
impl rand::RngCore for ScriptThenRandom {
    fn next_u32(&mut self) -> u32 {
        self.next_u64() as u32
    }
    fn next_u64(&mut self) -> u64 {
        let v = if self.pos < self.vals.len() { self.vals[self.pos] } else { self.tail.next_u64() };
        self.pos += 1;
        v
    }
    fn fill_bytes(&mut self, dst: &mut [u8]) {
        for chunk in dst.chunks_mut(8) {
            let b = self.next_u64().to_le_bytes();
            chunk.copy_from_slice(&b[..chunk.len()]);
        }
    }
}

fn consts(e: &ExpRestricted01) -> (f64, f64, f64, f64) {
    // the fields are private; the struct derives Debug
    let s = format!("{:?}", e);
    let get = |name: &str| -> f64 {
        let pat = format!("{}: ", name);
        let i = s.find(&pat).unwrap() + pat.len();
        let rest = &s[i..];
        let j = rest.find(|c| c == ',' || c == ' ' || c == '}').unwrap();
        rest[..j].parse().unwrap()
    };
    (get("lambda"), get("c1"), get("c2"), get("c3"))
}

pub fn cases(args: &[String]) {
    let seed = arg_u64(args, "--seed", 1);
    let n = arg_u64(args, "--n", 200);
    let mut rng = SplitMix64::new(seed ^ 0xC16);
    let lambdas = [1e-9, 1e-6, 1e-3, 0.015748, 0.1, 0.5, std::f64::consts::LN_2, 1.0, 2.0, 5.0, 10.0, 20.0, 30.0, (64f64 / 63.).ln(), 38.0, 50.0];
    let mut out: Vec<Value> = Vec::new();
    for li in 0..lambdas.len() {
        let lambda = lambdas[li];
        let e = ExpRestricted01::new(lambda);
        let (_, c1, c2, c3) = consts(&e);
        for _ in 0..n {
            crate::util::tick_idx(0, serde_json::Value::Null);
            // a script of unit draws aimed at the different branches; it is extended (same prefix) until the
            // sampler stops inside it, so that the model never sees a truncated script
            let mut us: Vec<f64> = Vec::new();
            let first = if rng.coin(0.3) { rng.unit() / c1 } else { (1.0 / c1) + rng.unit() * (1.0 - 1.0 / c1) };
            us.push(first);
            let (raws, units, r, used) = loop {
                for _ in 0..12 {
                    let x = match rng.below(5) { 0 => rng.unit() * c2, 1 => c2 + rng.unit() * (1. - c2), 2 => 1.0 - rng.unit() * 1e-3, 3 => 0.5 + rng.unit() * 0.5, _ => rng.unit() };
                    let y = match rng.below(4) { 0 => rng.unit() * 1e-3, 1 => 1.0 - rng.unit() * 1e-3, _ => rng.unit() };
                    us.push(x);
                    us.push(y);
                }
                let raws: Vec<u64> = us.iter().map(|x| raw_of_unit(*x)).collect();
                let units: Vec<f64> = raws.iter().map(|r| unit_of(*r)).collect();
                let mut srng = ScriptRng { vals: raws.clone(), pos: 0 };
                let r = e.sample(&mut srng);
                if srng.pos <= raws.len() || us.len() > 4000 {
                    break (raws, units, r, srng.pos);
                }
            };
            let _ = &raws;
            // oracle of the third test, by walking the loop on the same draws
            let mut b3s: Vec<bool> = Vec::new();
            if !(c1 * units[0] < 1.) {
                let mut i = 1;
                while i + 1 < units.len() {
                    let mut x = units[i];
                    if x < c2 { break; }
                    let mut y = 0.5 * units[i + 1];
                    if y > 1. - x { x = 1. - x; y = 1. - y; }
                    i += 2;
                    if x <= c3 * (1. - y) { break; }
                    if c1 * y <= (1. - x) { break; }
                    let b = y * c1 * lambda <= (lambda * (1. - x)).exp_m1();
                    b3s.push(b);
                    if b { break; }
                }
            }
            out.push(json!({"lambda": lambda, "c": [c1, c2, c3], "draws": units, "b3s": b3s, "result": r, "used": used}));
        }
    }
    // range clause on extreme generator outputs: every sample lies in [0,1), whatever the draws (all-ones, all-zeros,
    // values next to every constant); after the two scripted outputs the generator continues pseudo-randomly, so the
    // rejection loop ends as it does in use
    let mut range_bad: Vec<Value> = Vec::new();
    let mut range_tried = 0u64;
    for lambda in [1e-9, 1e-3, 0.5, std::f64::consts::LN_2, 1.0, 5.0, 13.9, 14.0, 15.0, 30.0, 60.0] {
        let e = ExpRestricted01::new(lambda);
        let (_, c1, c2, c3) = consts(&e);
        let top = u64::MAX;
        let specials: Vec<u64> = vec![top, top - (1 << 12), top >> 1, 0, 1 << 12, raw_of_unit(1. / c1), raw_of_unit(c2), raw_of_unit(c3),
                                      raw_of_unit(1. - 1e-9), raw_of_unit(1e-9)];
        for a in &specials {
            for b in &specials {
                // the script: a, b, then a tail that is accepted quickly by a correct sampler
                let tail_seed = rng.next_u64();
                let mut srng = ScriptThenRandom { vals: vec![*a, *b], pos: 0, tail: SplitMix64::new(tail_seed) };
                crate::util::tick(|| json!({"lambda": lambda, "raw_draws": [a, b], "then_splitmix64_seed": tail_seed}).to_string());
                let r = e.sample(&mut srng);
                range_tried += 1;
                if !(r >= 0.0 && r < 1.0) && range_bad.len() < 3 {
                    range_bad.push(json!({"lambda": lambda, "raw_draws": [a, b], "then_splitmix64_seed": tail_seed, "draws_used": srng.pos, "first_units": [unit_of(*a), unit_of(*b)], "result": r}));
                }
            }
        }
    }
    crate::util::wd_pause();
    println!("{}", json!({ "cases": out, "range_tried": range_tried, "range_bad": range_bad }));
}

/// search aid (only run after an obligation broke): empirical distribution function against
/// (1 - e^{-lambda t}) / (1 - e^{-lambda}); reports |z| > 6 only
pub fn law(args: &[String]) {
    use rand::SeedableRng;
    use rand_xoshiro::Xoshiro256PlusPlus;
    let seed = arg_u64(args, "--seed", 1);
    let n = arg_u64(args, "--n", 2_000_000) as usize;
    let mut found: Vec<Value> = Vec::new();
    for lambda in [1e-6f64, 0.015748, 0.5, std::f64::consts::LN_2, 1.0, 2.0, 5.0, 10.0, 30.0, 45.0] {
        let e = ExpRestricted01::new(lambda);
        let mut rng = Xoshiro256PlusPlus::seed_from_u64(seed ^ lambda.to_bits());
        let ts = [0.05, 0.1, 0.25, 0.5, 0.75, 0.9];
        let mut cnt = [0usize; 6];
        let mut outside = 0usize;
        for _ in 0..n {
            crate::util::tick_idx(0, serde_json::Value::Null);
            let x = e.sample(&mut rng);
            if !(0.0..1.0).contains(&x) { outside += 1; }
            for (i, t) in ts.iter().enumerate() { if x <= *t { cnt[i] += 1; } }
        }
        for (i, t) in ts.iter().enumerate() {
            let p = (-(-lambda * t).exp_m1()) / (-(-lambda).exp_m1());
            let z = (cnt[i] as f64 - n as f64 * p) / (n as f64 * p * (1. - p)).sqrt();
            if z.abs() > 6.0 {
                found.push(json!({"lambda": lambda, "t": t, "expected": p, "observed": cnt[i] as f64 / n as f64, "z": z, "n": n, "seed": seed}));
                break;
            }
        }
        if outside > 0 { found.push(json!({"lambda": lambda, "outside_unit_interval": outside})); }
    }
    crate::util::wd_pause();
    println!("{}", json!({"found": found}));
}
