//! C12: every sketcher, several parameterisations: two instances in one thread, eight threads,
//! and (by running this subcommand twice) two processes must give bit-identical sketches.
use crate::util::*;
use fnv::FnvHasher;
use indexmap::IndexMap;
use probminhash::densminhash::{OptDensMinHash, RevOptDensMinHash};
use probminhash::probminhasher::probordminhash2::ProbOrdMinHash2;
use probminhash::probminhasher::*;
use probminhash::setsketcher::{SetSketchParams, SetSketcher};
use probminhash::superminhasher::SuperMinHash;
use probminhash::superminhasher2::SuperMinHash2;
use serde_json::{json, Value};
use std::collections::HashMap;
use std::hash::BuildHasherDefault;

fn fnv_bytes(b: &[u8]) -> u64 {
    use std::hash::Hasher;
    let mut h = FnvHasher::default();
    h.write(b);
    h.finish()
}

fn input(seed: u64, n: usize) -> Vec<(u64, f64)> {
    let mut rng = SplitMix64::new(seed ^ 0xC12);
    let mut v: Vec<(u64, f64)> = Vec::new();
    while v.len() < n {
        let id = rng.next_u64() >> 16;
        if !v.iter().any(|(i, _)| *i == id) {
            v.push((id, 0.01 + rng.unit() * 100.));
        }
    }
    v
}

/// all sketches of one configuration index, as u64 words
pub fn sketch(cfg: usize, seed: u64) -> Vec<u64> {
    let m = [8usize, 64, 5][cfg % 3];
    let data = input(seed.wrapping_add(cfg as u64), 40 + 13 * (cfg % 4));
    let ids: Vec<u64> = data.iter().map(|x| x.0).collect();
    let bh = BuildHasherDefault::<FnvHasher>::default;
    match cfg / 3 {
        0 => {
            let mut s = ProbMinHash3::<u64, FnvHasher>::new(m.max(2), u64::MAX);
            let mut hm: HashMap<u64, f64> = HashMap::new();
            for (i, w) in &data { hm.insert(*i, *w); }
            s.hash_weigthed_hashmap(&hm);
            s.get_signature().clone()
        }
        1 => {
            let mut s = ProbMinHash3a::<u64, FnvHasher>::new(m.max(2), u64::MAX);
            let mut im: IndexMap<u64, f64> = IndexMap::new();
            for (i, w) in &data { im.insert(*i, *w); }
            s.hash_weigthed_idxmap(&im);
            s.get_signature().clone()
        }
        2 => {
            let mut s = ProbMinHash3aSha::<u64>::new(m.max(2), u64::MAX);
            let mut hm: HashMap<u64, f64> = HashMap::new();
            for (i, w) in &data { hm.insert(*i, *w); }
            s.hash_weigthed_hashmap(&hm);
            s.get_signature().clone()
        }
        3 => {
            let mut s = ProbMinHash2::<u64, FnvHasher>::new(m, u64::MAX);
            for (i, w) in &data { s.hash_item(*i, *w); }
            s.get_signature().clone()
        }
        4 => {
            let mut s = ProbOrdMinHash2::<FnvHasher>::new(m as u32, 1 + cfg % 3);
            s.hash_set(&ids)
        }
        5 => {
            let mut s = SuperMinHash::<f64, u64, FnvHasher>::new(m, bh());
            s.sketch_slice(&ids).unwrap();
            s.get_hsketch().iter().map(|x| x.to_bits()).collect()
        }
        6 => {
            let mut s = SuperMinHash::<f32, u64, FnvHasher>::new(m, bh());
            s.sketch_slice(&ids).unwrap();
            s.get_hsketch().iter().map(|x| x.to_bits() as u64).collect()
        }
        7 => {
            let mut s = SuperMinHash2::<u64, u64, FnvHasher>::new(m, bh());
            s.sketch_slice(&ids).unwrap();
            s.get_hsketch().clone()
        }
        8 => {
            let mut s = SetSketcher::<u16, u64, FnvHasher>::new(SetSketchParams::new(1.001, m as u64, 20., 65534), bh());
            s.sketch_slice(&ids).unwrap();
            s.get_signature().iter().map(|x| *x as u64).collect()
        }
        9 => {
            let mut s = SetSketcher::<u32, u64, FnvHasher>::new(SetSketchParams::new(2.0, m as u64, 20., 62), bh());
            s.sketch_slice(&ids).unwrap();
            s.get_signature().iter().map(|x| *x as u64).collect()
        }
        12 => {
            // 3a through a std HashMap built by this instance (its RandomState differs per map and per process)
            let mut s = ProbMinHash3a::<u64, FnvHasher>::new(m.max(2), u64::MAX);
            let mut hm: HashMap<u64, f64> = HashMap::new();
            for (i, w) in &data { hm.insert(*i, *w); }
            s.hash_weigthed_hashmap(&hm);
            s.get_signature().clone()
        }
        13 => {
            let mut s = ProbMinHash2::<u64, FnvHasher>::new(m, u64::MAX);
            let mut hm: HashMap<u64, f64> = HashMap::new();
            for (i, w) in &data { hm.insert(*i, *w); }
            s.hash_weigthed_hashmap::<std::collections::hash_map::RandomState>(&hm);
            s.get_signature().clone()
        }
        14 => {
            // Sha variant on heap objects: every instance allocates its own copies of the keys
            let keys: Vec<Vec<u32>> = data.iter().map(|(i, _)| vec![*i as u32, (*i >> 32) as u32, 7]).collect();
            let mut s = ProbMinHash3aSha::<Vec<u32>>::new(m.max(2), Vec::new());
            let mut im: IndexMap<Vec<u32>, f64> = IndexMap::new();
            for (k, (_, w)) in keys.iter().zip(data.iter()) { im.insert(k.clone(), *w); }
            s.hash_weigthed_idxmap(&im);
            s.get_signature().iter().map(|k| if k.len() == 3 { ((k[1] as u64) << 32) | k[0] as u64 } else { u64::MAX }).collect()
        }
        15 => {
            let keys: Vec<Vec<u16>> = data.iter().map(|(i, _)| vec![*i as u16, (*i >> 16) as u16, (*i >> 32) as u16]).collect();
            let mut s = ProbMinHash3aSha::<Vec<u16>>::new(m.max(2), Vec::new());
            let mut hm: HashMap<Vec<u16>, f64> = HashMap::new();
            for (k, (_, w)) in keys.iter().zip(data.iter()) { hm.insert(k.clone(), *w); }
            s.hash_weigthed_hashmap(&hm);
            s.get_signature().iter().map(|k| if k.len() == 3 { ((k[2] as u64) << 32) | ((k[1] as u64) << 16) | k[0] as u64 } else { u64::MAX }).collect()
        }
        16 => {
            let mut s = ProbMinHash3aSha::<String>::new(m.max(2), String::new());
            let mut im: IndexMap<String, f64> = IndexMap::new();
            for (i, w) in &data { im.insert(format!("k\u{e9}y-{}", i), *w); }
            s.hash_weigthed_idxmap(&im);
            s.get_signature().iter().map(|k| fnv_bytes(k.as_bytes())).collect()
        }
        17 => {
            let mut s = ProbMinHash3::<u64, FnvHasher>::new(m.max(2), u64::MAX);
            let mut im: IndexMap<u64, f64> = IndexMap::new();
            for (i, w) in &data { im.insert(*i, *w); }
            s.hash_weigthed_idxmap(&im);
            s.get_signature().clone()
        }
        18 => {
            // registers above 65535 (b close to 1, large q): a u32 sketcher must not inherit anything from a u16 one
            let mut s = SetSketcher::<u32, u64, FnvHasher>::new(SetSketchParams::new(1.0001, (m * 4) as u64, 20., (1 << 20) - 2), bh());
            s.sketch_slice(&ids).unwrap();
            s.get_signature().iter().map(|x| *x as u64).collect()
        }
        19 | 20 | 21 => {
            // large sketch sizes (beyond 4096, or around the sizes suggested by the driver), after the small ones above
            let xs = extra_sizes();
            let mut r2 = SplitMix64::new(seed ^ (cfg as u64) << 7);
            let big = near_size(&mut r2, &xs, 200_000).map(|v| v as usize + 2).unwrap_or([5000usize, 8192, 4099][cfg % 3]);
            match cfg / 3 {
                19 => {
                    let mut s = SetSketcher::<u16, u64, FnvHasher>::new(SetSketchParams::new(1.001, big as u64, 20., 65534), bh());
                    s.sketch_slice(&ids).unwrap();
                    s.get_signature().iter().map(|x| *x as u64).collect()
                }
                20 => {
                    let mut s = SuperMinHash2::<u64, u64, FnvHasher>::new(big, bh());
                    s.sketch_slice(&ids).unwrap();
                    s.get_hsketch().clone()
                }
                _ => {
                    let mut s = ProbMinHash2::<u64, FnvHasher>::new(big, u64::MAX);
                    for (i, w) in &data { s.hash_item(*i, *w); }
                    s.get_signature().clone()
                }
            }
        }
        10 => {
            let mut s = OptDensMinHash::<f64, u64, FnvHasher>::new(m * 8, bh());
            s.sketch_slice(&ids).unwrap();
            let mut v = s.get_hsketch_u64();
            v.extend(s.get_hsketch_u32().iter().map(|x| *x as u64));
            v
        }
        11 | _ => {
            let mut s = RevOptDensMinHash::<f32, u64, FnvHasher>::new(m * 8, bh());
            s.sketch_slice(&ids).unwrap();
            let mut v = s.get_hsketch_u64();
            v.extend(s.get_hsketch().iter().map(|x| x.to_bits() as u64));
            v
        }
    }
}

pub const NCFG: usize = 66;
pub const NAMES: [&str; 22] = ["ProbMinHash3", "ProbMinHash3a", "ProbMinHash3aSha", "ProbMinHash2", "ProbOrdMinHash2",
    "SuperMinHash<f64>", "SuperMinHash<f32>", "SuperMinHash2", "SetSketcher<u16>", "SetSketcher<u32>", "OptDensMinHash", "RevOptDensMinHash",
    "ProbMinHash3a (std HashMap)", "ProbMinHash2 (std HashMap)", "ProbMinHash3aSha<Vec<u32>>", "ProbMinHash3aSha<Vec<u16>>",
    "ProbMinHash3aSha<String>", "ProbMinHash3 (IndexMap)", "SetSketcher<u32> (registers above 65535)",
    "SetSketcher<u16> (large m)", "SuperMinHash2 (large m)", "ProbMinHash2 (large m)"];

pub fn run(args: &[String]) {
    let seed = arg_u64(args, "--seed", 1);
    std::panic::set_hook(Box::new(|_| {}));
    let mut out: Vec<Value> = Vec::new();
    let mut diffs: Vec<Value> = Vec::new();
    // a second process runs the configurations in the opposite order: sketches are pure, so the order cannot matter
    let rev = arg_str(args, "--order").map(|s| s == "rev").unwrap_or(false);
    // (in the reversed run the u32 sketcher with registers above 65535 comes before every other SetSketcher)
    let order: Vec<usize> = if rev { (54..57).chain((0..NCFG).rev().filter(|c| !(54..57).contains(c))).collect() } else { (0..NCFG).collect() };
    for cfg in order {
        let ra = std::panic::catch_unwind(|| sketch(cfg, seed));
        let rb = std::panic::catch_unwind(|| sketch(cfg, seed));
        let (a, b) = match (ra, rb) {
            (Ok(a), Ok(b)) => (a, b),
            _ => {
                diffs.push(json!({"cfg": cfg, "sketcher": NAMES[cfg / 3], "where": "a panic while sketching (other configurations ran before it in this process)"}));
                out.push(json!({"cfg": cfg, "sketcher": NAMES[cfg / 3], "words": [-1]}));
                continue;
            }
        };
        if a != b {
            diffs.push(json!({"cfg": cfg, "sketcher": NAMES[cfg / 3], "where": "two instances in one thread"}));
        }
        // eight threads concurrently
        let handles: Vec<_> = (0..8).map(|_| std::thread::spawn(move || sketch(cfg, seed))).collect();
        for h in handles {
            match h.join() {
                Ok(c) => if c != a { diffs.push(json!({"cfg": cfg, "sketcher": NAMES[cfg / 3], "where": "another thread"})); },
                Err(_) => diffs.push(json!({"cfg": cfg, "sketcher": NAMES[cfg / 3], "where": "panic in a thread"})),
            }
        }
        out.push(json!({"cfg": cfg, "sketcher": NAMES[cfg / 3], "words": a}));
    }
    crate::util::wd_pause();
    println!("{}", json!({"sketches": out, "diffs": diffs}));
}
