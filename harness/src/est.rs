//! C14 (counting part): run the eight Jaccard estimators on generated sketch pairs.
use crate::util::*;
use fnv::FnvHasher;
use probminhash::jaccard;
use probminhash::superminhasher;
use probminhash::superminhasher::SuperMinHash;
use probminhash::superminhasher2;
use probminhash::superminhasher2::SuperMinHash2;
use serde_json::{json, Value};
use std::hash::BuildHasherDefault;
use std::panic::{catch_unwind, AssertUnwindSafe};

fn pair_lens(rng: &mut SplitMix64) -> (usize, usize) {
    let xs = crate::util::extra_sizes();
    if !xs.is_empty() && rng.coin(0.12) {
        if let Some(v) = crate::util::near_size(rng, &xs, 300_000) {
            return (v as usize, v as usize);
        }
    }
    let n = if rng.coin(0.3) { rng.range(1, 4) } else { rng.range(1, 64) } as usize;
    if rng.coin(0.15) {
        let mut k = rng.range(0, 66) as usize;
        if k == n {
            k = n + 1;
        }
        (n, k)
    } else {
        (n, n)
    }
}

/// keys of a pair of sketches; equal positions at a random rate (0, low, high, all)
fn gen_keys(rng: &mut SplitMix64, la: usize, lb: usize, alphabet: u64) -> (Vec<u64>, Vec<u64>) {
    let a: Vec<u64> = (0..la).map(|_| rng.below(alphabet)).collect();
    let p = [0.0, 0.1, 0.5, 0.9, 1.0][rng.below(5) as usize];
    let b: Vec<u64> = (0..lb).map(|i| if i < la && rng.coin(p) { a[i] } else { rng.below(alphabet) }).collect();
    (a, b)
}

fn outcome3<T>(r: std::thread::Result<Result<T, ()>>) -> (String, Option<T>) {
    match r {
        Err(_) => ("panic".into(), None),
        Ok(Err(_)) => ("err".into(), None),
        Ok(Ok(v)) => ("ok".into(), Some(v)),
    }
}

fn emit(out: &mut Vec<Value>, est: &str, ty: &str, res: &str, a: &[u64], b: &[u64], oc: String, bits: Option<u64>) {
    out.push(json!({"est": est, "ty": ty, "res": res, "a": a, "b": b, "outcome": oc, "bits": bits}));
}

macro_rules! generic_estimators {
    ($out:expr, $ty:expr, $a:expr, $b:expr, $conv:expr, $t:ty, $alias:expr) => {{
        let va0: Vec<$t> = $a.iter().map(|k| $conv(*k)).collect();
        let vb0: Vec<$t> = $b.iter().map(|k| $conv(*k)).collect();
        // aliasing: the first sketch is a prefix slice of the second one's storage (same start address, other length)
        let (va, vb): (&[$t], &[$t]) = if $alias { (&vb0[..va0.len()], &vb0[..]) } else { (&va0[..], &vb0[..]) };
        let r = catch_unwind(AssertUnwindSafe(|| Ok::<f64, ()>(jaccard::compute_probminhash_jaccard(va, vb))));
        let (oc, v) = outcome3(r);
        emit($out, "jaccard_compute_probminhash_jaccard", $ty, "f64", $a, $b, oc, v.map(|x| x.to_bits()));
        let r = catch_unwind(AssertUnwindSafe(|| jaccard::get_jaccard_index_estimate(va, vb).map_err(|_| ())));
        let (oc, v) = outcome3(r);
        emit($out, "jaccard_get_jaccard_index_estimate", $ty, "f64", $a, $b, oc, v.map(|x| x.to_bits()));
        let r = catch_unwind(AssertUnwindSafe(|| superminhasher2::compute_superminhash_jaccard(&va0, &vb0)));
        let (oc, v) = outcome3(r);
        emit($out, "smh2_compute_superminhash_jaccard", $ty, "f32", $a, $b, oc, v.map(|x| x.to_bits() as u64));
        let r = catch_unwind(AssertUnwindSafe(|| superminhasher2::get_jaccard_index_estimate(&va0, &vb0)));
        let (oc, v) = outcome3(r);
        emit($out, "smh2_get_jaccard_index_estimate", $ty, "f32", $a, $b, oc, v.map(|x| x.to_bits() as u64));
    }};
}

pub fn cases(args: &[String]) {
    let seed = arg_u64(args, "--seed", 1);
    let n = arg_u64(args, "--n", 100);
    let mut rng = SplitMix64::new(seed ^ 0xC14);
    std::panic::set_hook(Box::new(|_| {}));
    let mut out: Vec<Value> = Vec::new();
    for round in 0..n {
        crate::util::tick_idx(round as u64, serde_json::Value::Null);
        let (la, lb) = pair_lens(&mut rng);
        let alphabet = [2u64, 5, 1000, u16::MAX as u64][rng.below(4) as usize];
        let (mut a, b) = gen_keys(&mut rng, la, lb, alphabet);
        let alias = la < lb && rng.coin(0.5);
        if alias { a = b[..la].to_vec(); }
        match round % 6 {
            0 => generic_estimators!(&mut out, "u16", &a, &b, |k: u64| k as u16, u16, alias),
            1 => generic_estimators!(&mut out, "u32", &a, &b, |k: u64| k as u32, u32, alias),
            2 => generic_estimators!(&mut out, "u64", &a, &b, |k: u64| k, u64, alias),
            3 => generic_estimators!(&mut out, "usize", &a, &b, |k: u64| k as usize, usize, alias),
            4 => {
                // f64 sketches: keys are bit patterns of non-negative finite doubles
                // in a third of the rounds: values below 2 where equal positions are turned into neighbouring doubles
                // (1 ulp apart: different values, to be counted as different)
                let near = rng.coin(0.34);
                let sc = if near { 1.0 / 65536.0 } else { 0.37 };
                let ka: Vec<u64> = a.iter().map(|k| (*k as f64 * sc).to_bits()).collect();
                let mut kb: Vec<u64> = b.iter().map(|k| (*k as f64 * sc).to_bits()).collect();
                if near { for i in 0..kb.len().min(ka.len()) { if ka[i] == kb[i] && rng.coin(0.5) { kb[i] = ka[i] + 1; } } }
                generic_estimators!(&mut out, "f64", &ka, &kb, |k: u64| f64::from_bits(k), f64, alias);
                let va0: Vec<f64> = ka.iter().map(|k| f64::from_bits(*k)).collect();
                let vb: Vec<f64> = kb.iter().map(|k| f64::from_bits(*k)).collect();
                let va: &[f64] = if alias && ka[..] == kb[..ka.len()] { &vb[..va0.len()] } else { &va0[..] };
                let r = catch_unwind(AssertUnwindSafe(|| superminhasher::compute_superminhash_jaccard(va, &vb).map_err(|_| ())));
                let (oc, v) = outcome3(r);
                emit(&mut out, "smh_compute_superminhash_jaccard", "f64", "f64", &ka, &kb, oc, v.map(|x| x.to_bits()));
                let r = catch_unwind(AssertUnwindSafe(|| superminhasher::get_jaccard_index_estimate(va, &vb).map_err(|_| ())));
                let (oc, v) = outcome3(r);
                emit(&mut out, "smh_get_jaccard_index_estimate", "f64", "f64", &ka, &kb, oc, v.map(|x| x.to_bits()));
            }
            _ => {
                let near = rng.coin(0.34);
                let sc = if near { 1.0f32 / 65536.0 } else { 0.37f32 };
                let ka: Vec<u64> = a.iter().map(|k| (*k as f32 * sc).to_bits() as u64).collect();
                let mut kb: Vec<u64> = b.iter().map(|k| (*k as f32 * sc).to_bits() as u64).collect();
                if near { for i in 0..kb.len().min(ka.len()) { if ka[i] == kb[i] && rng.coin(0.5) { kb[i] = ka[i] + 1; } } }
                generic_estimators!(&mut out, "f32", &ka, &kb, |k: u64| f32::from_bits(k as u32), f32, alias);
                let va0: Vec<f32> = ka.iter().map(|k| f32::from_bits(*k as u32)).collect();
                let vb: Vec<f32> = kb.iter().map(|k| f32::from_bits(*k as u32)).collect();
                let va: &[f32] = if alias && ka[..] == kb[..ka.len()] { &vb[..va0.len()] } else { &va0[..] };
                let r = catch_unwind(AssertUnwindSafe(|| superminhasher::compute_superminhash_jaccard(va, &vb).map_err(|_| ())));
                let (oc, v) = outcome3(r);
                emit(&mut out, "smh_compute_superminhash_jaccard", "f32", "f32", &ka, &kb, oc, v.map(|x| x.to_bits() as u64));
                let r = catch_unwind(AssertUnwindSafe(|| superminhasher::get_jaccard_index_estimate(va, &vb).map_err(|_| ())));
                let (oc, v) = outcome3(r);
                emit(&mut out, "smh_get_jaccard_index_estimate", "f32", "f32", &ka, &kb, oc, v.map(|x| x.to_bits() as u64));
            }
        }
        // the two methods: self.hsketch comes from a real sketcher
        if round % 3 == 0 {
            let m = la;
            let nitems = rng.range(1, 30);
            let base = rng.below(1000);
            let shift = rng.below(nitems + 3);
            let mut s1 = SuperMinHash::<f64, u64, FnvHasher>::new(m, BuildHasherDefault::<FnvHasher>::default());
            let mut s2 = SuperMinHash::<f64, u64, FnvHasher>::new(lb.max(1), BuildHasherDefault::<FnvHasher>::default());
            for i in 0..nitems {
                s1.sketch(&(base + i)).unwrap();
                s2.sketch(&(base + shift + i)).unwrap();
            }
            let ka: Vec<u64> = s1.get_hsketch().iter().map(|x| x.to_bits()).collect();
            let other: Vec<f64> = s2.get_hsketch().clone();
            let kb: Vec<u64> = other.iter().map(|x| x.to_bits()).collect();
            let r = catch_unwind(AssertUnwindSafe(|| s1.get_jaccard_index_estimate(&other).map_err(|_| ())));
            let (oc, v) = outcome3(r);
            emit(&mut out, "smh_method_get_jaccard_index_estimate", "f64", "f64", &ka, &kb, oc, v.map(|x| x.to_bits()));
            let mut t1 = SuperMinHash2::<u64, u64, FnvHasher>::new(m, BuildHasherDefault::<FnvHasher>::default());
            let mut t2 = SuperMinHash2::<u64, u64, FnvHasher>::new(lb.max(1), BuildHasherDefault::<FnvHasher>::default());
            for i in 0..nitems {
                t1.sketch(&(base + i)).unwrap();
                t2.sketch(&(base + shift + i)).unwrap();
            }
            let ka: Vec<u64> = t1.get_hsketch().clone();
            let kb: Vec<u64> = t2.get_hsketch().clone();
            let r = catch_unwind(AssertUnwindSafe(|| t1.get_jaccard_index_estimate(&kb)));
            let (oc, v) = outcome3(r);
            emit(&mut out, "smh2_method_get_jaccard_index_estimate", "u64", "f64", &ka, &kb, oc, v.map(|x| x.to_bits()));
        }
    }
    crate::util::wd_pause();
    println!("{}", json!({ "cases": out }));
}
