(* Property-agnostic driver of the extracted models.
   stdin: one case per line:  <code> <w1> <w2> ...   (decimal integers, possibly negative)
   stdout: one line per case: the integers returned by run_generic. *)
open Modelcore

let rec pos_of_int (n : int) : positive =
  if n = 1 then XH else if n land 1 = 0 then XO (pos_of_int (n lsr 1)) else XI (pos_of_int (n lsr 1))

let z_of_small (n : int) : z = if n = 0 then Z0 else if n > 0 then Zpos (pos_of_int n) else Zneg (pos_of_int (-n))

let ten = z_of_small 10

(* decimal string -> Z using the extracted arithmetic (chunks of 15 digits) *)
let z_of_string (s : string) : z =
  let neg = String.length s > 0 && s.[0] = '-' in
  let s = if neg then String.sub s 1 (String.length s - 1) else s in
  let n = String.length s in
  let acc = ref Z0 in
  let i = ref 0 in
  while !i < n do
    let len = min 15 (n - !i) in
    let chunk = int_of_string (String.sub s !i len) in
    let mult = ref (z_of_small 1) in
    for _ = 1 to len do mult := Z.mul !mult ten done;
    acc := Z.add (Z.mul !acc !mult) (z_of_small chunk);
    i := !i + len
  done;
  if neg then Z.opp !acc else !acc

let rec int_of_pos (p : positive) : int =
  match p with XH -> 1 | XO q -> 2 * int_of_pos q | XI q -> 2 * int_of_pos q + 1

let chunk_mod = z_of_string "1000000000000000"

let string_of_z (x : z) : string =
  let neg, x = (match x with Zneg p -> true, Zpos p | _ -> false, x) in
  let rec go (x : z) (acc : string list) =
    match x with
    | Z0 -> acc
    | _ ->
      let (q, r) = Z.div_eucl x chunk_mod in
      let ri = (match r with Z0 -> 0 | Zpos p -> int_of_pos p | Zneg _ -> 0) in
      (match q with
       | Z0 -> string_of_int ri :: acc
       | _ -> go q (Printf.sprintf "%015d" ri :: acc))
  in
  let body = match x with Z0 -> "0" | _ -> String.concat "" (go x []) in
  if neg then "-" ^ body else body

let () =
  try
    while true do
      let line = input_line stdin in
      let toks = List.filter (fun t -> t <> "") (String.split_on_char ' ' line) in
      match toks with
      | [] -> print_newline ()
      | code :: ws ->
        let res = run_generic (z_of_string code) (List.map z_of_string ws) in
        print_endline (String.concat " " (List.map string_of_z res))
    done
  with End_of_file -> ()
