"""C14: Jaccard estimators (counting: translated shapes; MLE: translated glue + control-flow model)."""
import json
import os
import struct
from fractions import Fraction
import vlib
import tr_estimators
import tr_mle
from rustexpr import Untranslatable

ID = "C14"
LEVEL = "proof"
PROPERTIES_MODULE = "Properties.C14"
COQ_TARGETS = ["Properties/C14.vo", "Model/EstimatorsRun.vo", "Model/MleRun.vo"]
THEOREMS = ["C14_generated_estimators_sane", "C14_est_exact", "C14_est_symmetric", "C14_est_identical_is_one",
            "C14_est_range", "C14_est_len_mismatch", "C14_quotient_rounding", "C14_mle_start_in_bracket",
            "C14_mle_total"]
AXIOMS_ALLOWED = ["ClassicalDedekindReals.sig_forall_dec", "ClassicalDedekindReals.sig_not_dec",
                  "FunctionalExtensionality.functional_extensionality_dep", "Classical_Prop.classic"]
TRUSTED_BASE = [
    "translate/tr_estimators.py: the eight estimator bodies must match closed templates; the generated shape records "
    "are interpreted by coq/Model/Estimators.v; validated each run by comparing (outcome, float result bits) of the "
    "real functions with count/len computed from the model",
    "translate/tr_mle.py: bracket, start value and iteration cap of get_mle as rational expressions",
    "argmin 0.10 GoldenSectionSearch (new/init/next_iter) is modelled by hand over Q in coq/Model/Mle.v with every cost "
    "comparison an oracle answer; the cost function, ln/exp and the rayon reduction are not modelled",
    "float keys: sketch elements are compared as bit patterns (non-negative, non-NaN floats only, as sketches contain)",
]
ASSUMPTIONS = ["element equality is reflexive (no NaN in sketches)",
               "both cardinality estimates are positive and finite (all b^-K do not underflow)",
               "the float evaluation of g1*x+g2*y inside argmin may differ from the rational model by rounding"]

EST_NAMES = [e[0] for e in tr_estimators.ESTIMATORS]


def translate_est(run):
    try:
        txt = tr_estimators.generate(vlib.REPO)
    except Untranslatable as e:
        return False, "an estimator body is outside the templates: %s" % e
    tr_estimators.write_if_changed(os.path.join(vlib.COQ, "Gen", "EstimatorsGen.v"), txt)
    return True, ""


def translate_mle(run):
    try:
        txt = tr_mle.generate(vlib.REPO)
    except Untranslatable as e:
        return False, "get_mle glue is outside the accepted form: %s" % e
    tr_estimators.write_if_changed(os.path.join(vlib.COQ, "Gen", "MleGen.v"), txt)
    return True, ""


TRANSLATORS = [("estimators", translate_est), ("mle-glue", translate_mle)]

HEADER = ("From Coq Require Import ZArith List. Import ListNotations.\n"
          "From PMH Require Import Lib.Cases Model.Estimators Gen.EstimatorsGen Model.EstimatorsRun Model.MleRun.\n"
          "Open Scope Z_scope.\n")


def expected_bits(count, n, res):
    if n == 0:
        return None
    q = Fraction(count, n)
    x = float(q)           # correctly rounded binary64
    if res == "f64":
        return struct.unpack("<Q", struct.pack("<d", x))[0]
    return struct.unpack("<I", struct.pack("<f", x))[0]   # binary32 (double rounding harmless for small integers)


def correspond(run):
    n = 400 if run.depth == "quick" else 4000
    rc, js, out, err = vlib.harness(["est-cases", "--seed", run.seed, "--n", n], timeout=900)
    if rc != 0 or js is None:
        run.oblige("correspondence:est-cases", "correspondence", False, (out + err)[-800:])
        return
    cases = js["cases"]
    # the property's own clauses on the implementation: result = equal positions / length, mismatch reported
    for c in cases:
        la, lb = len(c["a"]), len(c["b"])
        if la != lb and c["outcome"] == "ok":
            run.violation("est-length-mismatch", "%s on sketches of lengths %d and %d returns a value instead of reporting the mismatch" % (
                c["est"], la, lb), {"kind": "impl-input", "input": {"estimator": c["est"], "type": c["ty"], "a": c["a"], "b": c["b"]},
                                    "observed": {"outcome": c["outcome"], "bits": c["bits"]}, "expected": "error or panic"})
            break
        if la == lb and la > 0:
            cnt = sum(1 for x, y in zip(c["a"], c["b"]) if x == y)
            if c["outcome"] != "ok" or expected_bits(cnt, la, c["res"]) != c["bits"]:
                run.violation("est-not-exact", "%s on two sketches of length %d with %d equal positions returns outcome %s, bits %s (expected the "
                              "float %d/%d)" % (c["est"], la, cnt, c["outcome"], c["bits"], cnt, la),
                              {"kind": "impl-input", "input": {"estimator": c["est"], "type": c["ty"], "a": c["a"], "b": c["b"]},
                               "observed": {"outcome": c["outcome"], "bits": c["bits"]}, "expected": {"count": cnt, "len": la}})
                break
    shard = 300
    jobs = []
    for i in range(0, len(cases), shard):
        lit = "[" + ";\n ".join("(%d%%Z, %s, %s)" % (EST_NAMES.index(c["est"]), vlib.zlist(c["a"]), vlib.zlist(c["b"]))
                                for c in cases[i:i + shard]) + "]"
        jobs.append(("c14_%d" % (i // shard), HEADER, ["run_est_all %s" % lit]))
    res = vlib.run_coq_cases_parallel(jobs)
    model = []
    for r in res:
        if isinstance(r, Exception):
            run.oblige("correspondence:est-model-eval", "correspondence", False, str(r))
            return
        model += r[0]
    bad = []
    seen = set()
    nontriv = 0
    dist = {"ok": 0, "err": 0, "panic": 0, "by_estimator": {}, "by_type": {}}
    for c, mres in zip(cases, model):
        code, cnt, ln = mres
        want_oc = {0: "ok", 1: "err", 2: "panic"}.get(code, "?")
        dist[c["outcome"]] = dist.get(c["outcome"], 0) + 1
        dist["by_estimator"][c["est"]] = dist["by_estimator"].get(c["est"], 0) + 1
        dist["by_type"][c["ty"]] = dist["by_type"].get(c["ty"], 0) + 1
        ok = (want_oc == c["outcome"])
        if ok and code == 0:
            ok = (expected_bits(cnt, ln, c["res"]) == c["bits"])
        if not ok:
            bad.append({"case": {k: c[k] for k in ("est", "ty", "res", "outcome", "bits")}, "a": c["a"][:8], "b": c["b"][:8],
                        "len": [len(c["a"]), len(c["b"])], "model": mres})
        key = json.dumps([c["est"], c["a"], c["b"]])
        if key not in seen:
            seen.add(key)
            if code != 0 or (0 < cnt < ln):
                nontriv += 1
    run.add_cases(len(cases), nontriv,
                  [{"est": c["est"], "ty": c["ty"], "len": [len(c["a"]), len(c["b"])], "outcome": c["outcome"],
                    "bits": c["bits"]} for c in cases[:3]],
                  rule="sketch pairs of every element type (u16 u32 u64 usize f32 f64), lengths 1..64, 15% mismatched lengths, "
                       "equal positions at rates 0/0.1/0.5/0.9/1, through all eight estimators (the two methods on real "
                       "sketchers); compared: outcome class and the exact bits of the float result vs count/len from the "
                       "model; non-trivial = distinct case with a mismatch outcome or 0 < count < len",
                  extra=dist)
    run.oblige("correspondence:estimators", "correspondence", not bad,
               "%d cases differ; first: %s" % (len(bad), json.dumps(bad[0])[:500] if bad else ""))

    # MLE: outcome class and range
    rounds = 1 if run.depth == "quick" else 6
    rc, js, out, err = vlib.harness(["mle-cases", "--seed", run.seed, "--n", rounds,
                                     "--big", 100000 if run.depth == "quick" else 1000000], timeout=1800)
    if rc != 0 or js is None:
        run.oblige("correspondence:mle-cases", "correspondence", False, (out[-400:] + err[-400:]))
        return
    mc = js["cases"]
    lits = []
    for c in mc:
        f1 = Fraction(c["info"]["card1"]) if c["info"].get("card1") is not None else Fraction(0)
        f2 = Fraction(c["info"]["card2"]) if c["info"].get("card2") is not None else Fraction(0)
        lits.append(vlib.zlist([f1.numerator, f1.denominator, f2.numerator, f2.denominator, c["info"].get("dequal", 0), c["m"]]))
    try:
        r = vlib.run_coq_cases("c14_mle", HEADER, ["map run_mle [%s]" % "; ".join(lits)])
    except RuntimeError as ex:
        run.oblige("correspondence:mle-model-eval", "correspondence", False, str(ex))
        return
    badm = []
    for c, code in zip(mc, r[0]):
        want = "ok" if code == 0 else "panic"
        if c["outcome"] != want:
            badm.append({"family": c["family"], "b": c["b"], "m": c["m"], "impl": c["outcome"], "model": code, "info": c["info"]})
        if c["outcome"] == "ok":
            v = c["value"]
            c1, c2 = c["info"]["card1"], c["info"]["card2"]
            bsup = min(c1 / c2, c2 / c1)
            if not (v == v and 0.0 <= v <= 1.0 and v <= bsup * (1 + 1e-9)):
                run.violation("mle-range", "get_mle returned %r outside [0, min(1, b_sup=%r)] for %s sets (b=%s, m=%d)" % (
                    v, bsup, c["family"], c["b"], c["m"]),
                    {"kind": "impl-input", "sketcher": "MleJaccard::get_mle", "input": {k: c[k] for k in ("b", "m", "a", "q", "ty", "set1", "set2")},
                     "observed": v, "expected": "finite value in [0,1]"})
        else:
            run.violation("mle-" + c["outcome"], "get_mle %s for %s sets %s / %s (b=%s, m=%d, dequal=%s, cards %s %s)" % (
                "panics" if c["outcome"] == "panic" else "returns None", c["family"], c["set1"], c["set2"], c["b"], c["m"],
                c["info"].get("dequal"), c["info"].get("card1"), c["info"].get("card2")),
                {"kind": "impl-input", "sketcher": "MleJaccard::get_mle", "input": {k: c[k] for k in ("b", "m", "a", "q", "ty", "set1", "set2")},
                 "observed": c["outcome"], "expected": "Some(j), j finite in [0,1]"})
    run.add_cases(len(mc), len([c for c in mc if c["family"] not in ("identical",)]),
                  [{"family": c["family"], "b": c["b"], "m": c["m"], "outcome": c["outcome"], "value": c["value"]} for c in mc[2:4]],
                  rule="get_mle on SetSketch pairs (identical, disjoint, nested both ways, overlapping, 1 vs big, {0} vs {0,1}, shifted) "
                       "for b in {1.001, 1.2, 2}, m in {16, 64, 256}: outcome class vs the model, value in [0, b_sup]",
                  extra={"mle_outcomes": {o: len([c for c in mc if c["outcome"] == o]) for o in ("ok", "none", "panic")}})
    run.oblige("correspondence:mle-outcome-class", "correspondence", not badm,
               "%d cases differ; first: %s" % (len(badm), json.dumps(badm[0])[:400] if badm else ""))


def search(run):
    """counting estimators: brute force on the implementation is what `correspond` already did; the MLE: many more
    pairs of sets (every family, in particular disjoint sets of unrelated sizes), outcome class and range"""
    if [v for v in run.violations if v["key"].startswith("mle-")]:
        return
    for seed in range(3):
        rc, js, out, err = vlib.harness(["mle-cases", "--seed", run.seed + 101 + seed, "--n", 9, "--big", 100000], timeout=2400)
        if rc != 0 or js is None:
            return
        for c in js["cases"]:
            if c["outcome"] != "ok":
                run.violation("mle-" + c["outcome"], "get_mle %s for %s sets %s / %s (b=%s, m=%d, dequal=%s, cards %s %s)" % (
                    "panics" if c["outcome"] == "panic" else "returns None", c["family"], c["set1"], c["set2"], c["b"], c["m"],
                    c["info"].get("dequal"), c["info"].get("card1"), c["info"].get("card2")),
                    {"kind": "impl-input", "sketcher": "MleJaccard::get_mle", "input": {k: c[k] for k in ("b", "m", "a", "q", "ty", "set1", "set2")},
                     "observed": c["outcome"], "expected": "Some(j), j finite in [0,1]"})
                return
            v = c["value"]
            if not (v == v and 0.0 <= v <= 1.0):
                run.violation("mle-range", "get_mle returned %r for %s sets (b=%s, m=%d)" % (v, c["family"], c["b"], c["m"]),
                              {"kind": "impl-input", "sketcher": "MleJaccard::get_mle",
                               "input": {k: c[k] for k in ("b", "m", "a", "q", "ty", "set1", "set2")}, "observed": v})
                return


def replay(path):
    rep = json.load(open(path))
    if rep.get("kind") == "impl-input" and "set1" in rep.get("input", {}):
        vlib.harness_build()
        rc, js, out, err = vlib.harness(["mle-replay", "--case", json.dumps(rep["input"])])
        print(json.dumps(js))
        return 0
    print("obligation replay: re-run ./check C14; broken: %s" % [b["name"] for b in rep.get("broken", [])])
    return 0
