"""C07: SetSketch register collisions follow the model; Jaccard bounds hold."""
import json
import vlib
from props import setflib, estlib

ID = "C07"
LEVEL = "proof"
PROPERTIES_MODULE = "Properties.C07"
COQ_TARGETS = ["Properties/C07.vo", "Model/Dispatch.vo"]
THEOREMS = ["C07_no_order_assertion", "C07_bounds_ordered", "C07_bounds_gap", "C07_bounds_contain_J", "C07_pb_collision",
            "C07_increment_is_renyi_spacing", "C07_register_threshold", "C07_register_antitone", "C07_estimator_is_match_fraction",
            "C07_source_bounds_are_the_proved_bounds", "C07_source_register_law_is_the_proved_law"]
AXIOMS_ALLOWED = setflib.REAL_AXIOMS
TRANSLATORS = [("setsketch-formulas", setflib.translate), ("setsketch-register-law", setflib.translate_setlaw),
               ("setsketch-formulas-from-source", setflib.translate_src("set")), estlib.translator("EstIdx")]
TRUSTED_BASE = [
    "translate/tr_setformulas.py: the bodies of get_jaccard_bounds and MleCost::pb must equal closed templates; the Coq definitions "
    "jb_sup, jb_binf, jb_inf, pb_fun are the transcription of those templates over the reals (b.powf(jac/2) enters as the variable X); "
    "the abort structure (is there an assertion on jinf <= jsup?) is read from the source",
    "real-number axioms of the Coq standard library",
    "translate/tr_setlaw.py (register law of SetSketcher::sketch), translate/tr_estimators.py (jaccard::get_jaccard_index_estimate); "
    "register correspondence through the extracted model (as C05)",
    "implementation-level sweep: 10^4 (b, jac) pairs incl. jac within 1e-12 of 0 and 1, and 10^4 (b, u, J) triples through the cost "
    "function's collision probability",
]
ASSUMPTIONS = ["PARTIAL: the first clause (the expected fraction of equal registers equals the collision probability) is a statement about "
               "the hash randomness and is not decided; libm rounding (powf, sqrt, ln) is not modelled: the float results are checked on "
               "the implementation with the property's 1e-4 tolerance"]


def correspond(run):
    setflib.correspond_registers(run, 300 if run.depth == "quick" else 3000)
    rc, js, out, err = vlib.harness(["bounds-props", "--seed", run.seed, "--n", 6000 if run.depth == "quick" else 200000], timeout=1800)
    if rc != 0 or js is None:
        run.oblige("direct:bounds-props", "correspondence", False, (out[-300:] + err[-300:]))
        return
    for f in js["found"]:
        run.violation(f["key"], f["text"], {"kind": "impl-input", "sketcher": "SetSketchParams::get_jaccard_bounds", "input": f["input"],
                                            "observed": f["text"]})
    run.add_cases(js["tried"], js["tried"] - 3,
                  [{"b": 1.001, "jac": 0.9999999, "note": "recorded witness of the former assertion failure"}],
                  rule="(b, jac): b in {1.001, 2, 1+10^-k, uniform (1,2]}, jac in {0, 1, 10^-k, 1-10^-k, uniform}; (b, u, J): u in {1/2, 10^-k, "
                       "uniform}, J in {0, max, uniform}: returns without abort, lower <= upper, contains J within 1e-4",
                  extra={"largest_excess_over_true_J": js["max_excess"]})
    run.oblige("direct:bounds-sweep-ran", "correspondence", js["tried"] > 1000, "")


def search(run):
    estlib.search(run, "EstIdx")
    from props import sklib
    # the registers of a set must not depend on the order / history of the stream (else common items of two sets land on different registers)
    sklib.direct_props(run, ["ss-order", "reinit-ss"], n=600)
    # the fraction of equal registers against the exact collision probability of the model, small and large sets, four bases
    import vlib
    rc, js, out, err = vlib.harness(["coll-mc", "--seed", run.seed, "--trials", 400], timeout=3000)
    if rc == 0 and js is not None:
        worst = sorted([r for r in js["rows"] if abs(r["z"]) > 6], key=lambda r: -abs(r["z"]))
        for f in worst[:1]:
            run.violation("collision-bias", "SetSketch b=%s m=%d |A\\B|=%d |B\\A|=%d |AnB|=%d: mean fraction of equal registers %.5f, collision "
                          "probability of the model %.5f (z = %.1f over %d pairs of sets)" % (
                              f["b"], f["m"], f["a_only"], f["b_only"], f["both"], f["mean"], f["p"], f["z"], f["trials"]),
                          {"kind": "impl-input", "input": f, "observed": f["mean"], "expected": f["p"]})


def replay(path):
    rep = json.load(open(path))
    print(json.dumps(rep.get("input")))
    return 0
