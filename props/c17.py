"""C17: lazy Fisher-Yates shuffle."""
import json
import vlib

ID = "C17"
LEVEL = "proof"
PROPERTIES_MODULE = "Properties.C17"
COQ_TARGETS = ["Properties/C17.vo", "Model/FYShuffleRun.vo"]
THEOREMS = ["C17_index_bound_binary64", "C17_index_bound_model", "C17_block_is_permutation",
            "C17_reset_forgets", "C17_reset_as_new", "C17_new_and_reset_are_block_starts",
            "C17_every_order_has_exactly_one_choice_vector", "C17_choice_vectors_counted", "C17_choice_is_identity_in_range",
            "C17_cells_are_balanced_intervals", "C17_pick_cells",
            "C17_model_rounding_is_binary64", "C17_pick_is_binary64", "C17_binary64_index_cells"]
# only the Flocq/Reals theorem uses the standard library's real-number axioms
AXIOMS_ALLOWED = ["ClassicalDedekindReals.sig_forall_dec", "ClassicalDedekindReals.sig_not_dec",
                  "FunctionalExtensionality.functional_extensionality_dep", "Classical_Prop.classic"]
TRUSTED_BASE = [
    "hand-written model coq/Model/FYShuffle.v of src/fyshuffle.rs; the integer round-to-nearest-even of fl(xsi*n) that the "
    "model executes (rne_mul_floor) is proved equal to Flocq's binary64 round-to-nearest-even of the product for every "
    "k < 2^52, n <= 2^53 (C17_model_rounding_is_binary64); that the machine's f64 multiply and `as usize` are that IEEE "
    "operation is checked by a per-run correspondence on (u, n) pairs with n up to 2^53",
    "rand 0.9.5 Uniform<f64>::new(0.,1.) decodes a draw as (next_u64 >> 12) * 2^-52 (checked by the correspondence: "
    "the harness feeds raw 64-bit outputs through the real FYshuffle::next)",
    "harness/src/fy.rs (scripted RngCore)",
]
ASSUMPTIONS = ["uniformity of the generator's outputs is assumed, not proved; under it every index choice is within 2^-51 of uniform "
               "(C17_cells_are_balanced_intervals: the cells of fl(xsi*(m-lastidx)) are intervals of 2^52/n - 1 .. 2^52/n + 2 values of the "
               "52-bit fraction), every order comes from exactly one vector of index choices and every block is a permutation",
               "m <= 2^53 (usize sizes that a Vec can hold)"]

HEADER = ("From Coq Require Import ZArith List. Import ListNotations.\n"
          "From PMH Require Import Lib.ListArr Lib.Cases Model.FYShuffle Model.FYShuffleRun.\nOpen Scope Z_scope.\n")


def coq_case(c):
    ops = "[" + "; ".join(vlib.zlist(o) for o in c["ops"]) + "]"
    oc = 0 if c["outcome"] == "ok" else 1
    return "(%d%%Z, %s, (%d%%Z, %s, %s))" % (c["m"], ops, oc, vlib.zlist(c["outs"]), vlib.zlist(c["final"]))


def correspond(run):
    n = 2000 if run.depth == "quick" else 20000
    npick = 4000 if run.depth == "quick" else 60000
    rc, js, out, err = vlib.harness(["fy-cases", "--seed", run.seed, "--n", n], timeout=900)
    rc2, js2, out2, err2 = vlib.harness(["fy-pick-cases", "--seed", run.seed, "--n", npick], timeout=900)
    if rc != 0 or js is None or rc2 != 0 or js2 is None:
        run.oblige("correspondence:fy-cases", "correspondence", False, (out + err + out2 + err2)[-800:])
        return
    cases = js["cases"]
    picks = js2["cases"]
    jobs = []
    shard = 125
    for i in range(0, len(cases), shard):
        lit = "[" + ";\n ".join(coq_case(c) for c in cases[i:i + shard]) + "]"
        jobs.append(("c17_%d" % (i // shard), HEADER, ["bad_idx chk_fy 0 %s" % lit]))
    pshard = 2000
    for i in range(0, len(picks), pshard):
        lit = "[" + "; ".join(vlib.zlist(c) for c in picks[i:i + pshard]) + "]"
        jobs.append(("c17_pick_%d" % (i // pshard), HEADER, ["bad_idx chk_pick 0 %s" % lit]))
    res = vlib.run_coq_cases_parallel(jobs)
    bad, badp = [], []
    nseq = (len(cases) + shard - 1) // shard
    for ji, r in enumerate(res):
        if isinstance(r, Exception):
            run.oblige("correspondence:fy-model-eval", "correspondence", False, str(r))
            return
        if ji < nseq:
            bad += [cases[ji * shard + b] for b in r[0]]
        else:
            badp += [picks[(ji - nseq) * pshard + b] for b in r[0]]
    seen = set()
    nontriv = 0
    dist = {"m": {}, "draws": 0, "resets": 0, "rounded_products": 0, "u_zero": 0, "u_max": 0}
    for c in cases:
        key = json.dumps([c["m"], c["ops"]])
        dist["m"][str(c["m"])] = dist["m"].get(str(c["m"]), 0) + 1
        nd = len([o for o in c["ops"] if o[0] == 0])
        nr = len(c["ops"]) - nd
        dist["draws"] += nd
        dist["resets"] += nr
        dist["u_zero"] += len([o for o in c["ops"] if o[0] == 0 and o[1] == 0])
        dist["u_max"] += len([o for o in c["ops"] if o[0] == 0 and o[1] == 2 ** 64 - 1])
        if key not in seen:
            seen.add(key)
            if c["m"] >= 2 and nd > c["m"]:     # wraps past a block boundary
                nontriv += 1
    for p in picks:
        if (p[0] >> 12) * p[1] >= 2 ** 53:
            dist["rounded_products"] += 1
    run.add_cases(len(cases) + len(picks), nontriv + len(set(map(tuple, picks))),
                  [{"m": c["m"], "ops": c["ops"][:8], "outs": c["outs"][:8]} for c in cases[:2]] +
                  [{"u": picks[0][0], "n": picks[0][1], "idx": picks[0][2]}],
                  rule="(a) seeded next/reset sequences on FYshuffle (m 1..70) driven by a scripted RngCore with raw outputs "
                       "0, 2^64-1, values on/next to every cell boundary j/n and random values; outputs after every call and "
                       "get_values() compared with the model; non-trivial = distinct case with more draws than m (wraps a "
                       "block). (b) (u, n) pairs with n up to 2^53: (xsi*n as f64) as usize vs the model's integer rounding",
                  extra=dist)
    run.oblige("correspondence:fyshuffle", "correspondence", not bad,
               "model and implementation differ on %d sequences; first: %s" % (len(bad), json.dumps(bad[0])[:500] if bad else ""))
    run.oblige("correspondence:fy-index-rounding", "correspondence", not badp,
               "model rounding and the code's f64 product differ on %d (u,n) pairs; first: %s" % (len(badp), badp[:2]))


def _report(run, js):
    for f in js["found"]:
        run.violation("fy-property", "lazy shuffle: %s (m=%d)" % (f["why"], f["m"]),
                      {"kind": "impl-input", "sketcher": "FYshuffle", "params": {"m": f["m"]},
                       "input": {"m": f["m"], "pre": f["pre"], "us": f["us"]}, "observed": f["why"],
                       "expected": "after reset m draws are a permutation of 0..m-1 equal to those of a new shuffle; "
                                   "the next block is a permutation too"})


def direct(run):
    n = 4000 if run.depth == "quick" else 100000
    rc, js, out, err = vlib.harness(["fy-search", "--seed", run.seed, "--n", n], timeout=900)
    if rc != 0 or js is None:
        run.oblige("direct:fy-search", "correspondence", False, (out + err)[-800:])
        return
    run.coverage["impl_histories_checked"] = js["tried"]
    _report(run, js)


def search(run):
    if run.violations:
        return
    rc, js, out, err = vlib.harness(["fy-search", "--seed", run.seed + 1, "--n", 300000], timeout=1500)
    if rc == 0 and js is not None:
        _report(run, js)
    if run.violations:
        return
    # a large shuffle: every position must be reachable by the first draw (floor(xsi * m), xsi with 52 fraction bits)
    rc, js, out, err = vlib.harness(["fy-large", "--seed", run.seed], timeout=600)
    if rc == 0 and js is not None and js["wrong"]:
        ex = js["examples"][0]
        run.violation("fy-large-index", "lazy shuffle of m = 2^24: after reset the generator output %d gives the draw %d, not floor(xsi * m) = %d; "
                      "%d of %d draws differ and %d of them are odd (about half should be): not every order can be produced" % (
                          ex["u"], ex["draw"], ex["floor_xsi_m"], js["wrong"], js["tried"], js["odd_draws"]),
                      {"kind": "impl-input", "input": {"m": js["m"], "generator_output": ex["u"]}, "observed": ex["draw"], "expected": ex["floor_xsi_m"]})


def replay(path):
    rep = json.load(open(path))
    if rep.get("kind") == "impl-input":
        vlib.harness_build()
        rc, js, out, err = vlib.harness(["fy-replay", "--case", json.dumps(rep["input"])])
        print(out.strip())
        return 0
    print("obligation replay: re-run ./check C17; broken: %s" % [b["name"] for b in rep.get("broken", [])])
    return 0
