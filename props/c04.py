"""C04: unweighted sketches have set semantics."""
from props import sklib

ID = "C04"
LEVEL = "proof"
PROPERTIES_MODULE = "Properties.C04"
COQ_TARGETS = ["Properties/C04.vo", "Model/Dispatch.vo"]
THEOREMS = ["C04_source_flags", "C04_setsketch_set_semantics", "C04_dens_set_semantics", "C04_dens_holds_streamed_hash",
            "C04_superminhash_set_semantics", "C04_superminhash2_set_semantics", "C04_superminhash2_holds_streamed_hash"]
AXIOMS_ALLOWED = []
TRANSLATORS = [("flags-smh", sklib.translate_flags_smh), ("flags-dens", sklib.translate_flags_dens)]
TRUSTED_BASE = [
    "hand-written models coq/Model/{SetSketch,SuperMinHash,SuperMinHash2,DensMinHash}.v, each compared with the real sketcher on "
    "every field over generated histories (hooks verif_state)",
    "theorems cover all five: SetSketch (registers = maximum over the SET of draws), densified sketchers (per-bin lexicographic "
    "minimum of (value, hash)), SuperMinHash (position = minimum over items of the value the item's own lazily generated "
    "permutation puts there; histogram / a_upper pruning proved sound; float values abstracted as (key, integer part = F key), F "
    "monotone), SuperMinHash2 (position = lexicographic minimum of (round, value), stored hash under tie_free)",
    "translate/tr_flags.py (which alternative of the histogram update / tie rule the source implements)",
    "extraction (ExtrOcamlBasic) + ocaml/driver.ml",
]
ASSUMPTIONS = ["SuperMinHash2 ties between distinct items (64-bit collision of generator outputs) are not excluded by a theorem"]


def correspond(run):
    n = 1200 if run.depth == "quick" else 12000
    cases, codes = sklib.correspond_sk(run, n, "all")
    if cases is None:
        return
    sklib.report_cases(run, cases, codes, "unweighted-sketchers",
                       "histories on all five sketchers (SetSketch, SuperMinHash f32/f64, SuperMinHash2, OptDens, RevOptDens): streams with "
                       "duplicates from small and large item spaces, chunked over sketch / sketch_slice calls, reinit in between, m from 1 "
                       "to 64, FNV / 3-bit (tie forcing) / identity hashers; all fields compared; non-trivial = distinct history with >= 2 ops")


def direct(run):
    sklib.direct_props(run, ["smh-f", "smh2-", "ss-order", "optdens-order", "revdens-order", "dens-foreign", "dens-marker", "special-hash", "panic"])


def replay(path):
    return sklib.replay_generic(ID, path)
