"""C01: ProbMinHash estimates the probability-Jaccard index without bias."""
import json
import os
import vlib
from props import estlib
import tr_pmhformulas
from rustexpr import Untranslatable
from props import pmhlib, setflib

ID = "C01"
LEVEL = "proof"
PROPERTIES_MODULE = "Properties.C01"
COQ_TARGETS = ["Properties/C01.vo", "Model/Dispatch.vo"]
THEOREMS = ["C01_signature_is_argmin", "C01_pmh3_reaches_final", "C01_pmh3a_reaches_final", "C01_pmh2_reaches_final",
            "C01_slot_clock_exponential", "C01_rate_is_forced", "C01_beta_spacing", "C01_race_integral", "C01_race_limit",
            "C01_single_set", "C01_estimator_is_match_fraction",
            "C01_source_rates_are_the_proved_rate", "C01_source_increment_is_the_proved_increment"]
AXIOMS_ALLOWED = setflib.REAL_AXIOMS + ["ClassicalEpsilon.constructive_indefinite_description"]
TRUSTED_BASE = [
    "translate/tr_pmhformulas.py: lambda = ln(m/(m-1)) (three constructors, guarded by m >= 2), betas[i] = m/(m-i-1), g[i-1] = m/(m-i), "
    "and their use sites, template-matched on every run",
    "the refinement theorems are those of C02 (hand model coq/Model/ProbMinHash.v tied by the same per-run correspondence: here the "
    "scripts are drawn from the specified distributions - ExpRestricted01(lambda), Uniform(0,m), Exp1, FYshuffle - through the crate's "
    "own samplers with the generator state the code uses)",
    "real-number axioms of the Coq standard library / Coquelicot",
]
ASSUMPTIONS = ["PARTIAL: the expectation itself is not a theorem.  Assumed: generator and hash outputs behave as independent uniform bits; "
               "the Renyi representation of exponential order statistics (variant 2); the joint law across slots (the MSE bound "
               "J_P(1-J_P)/m is not decided)",
               "Monte-Carlo runs are a search aid after a broken obligation (|z| > 6), never a pass criterion"]


def translate(run):
    try:
        txt = tr_pmhformulas.generate(vlib.REPO)
    except Untranslatable as e:
        return False, "constructor formulas outside the expected form: %s" % e
    path = os.path.join(vlib.COQ, "Gen", "PmhFormulas.v")
    old = open(path).read() if os.path.exists(path) else None
    if old != txt:
        open(path, "w").write(txt)
    return True, ""


TRANSLATORS = [("pmh-formulas", translate), ("pmh-formulas-from-source", setflib.translate_src("pmh")), estlib.translator("EstPmh")]


def correspond(run):
    n = 300 if run.depth == "quick" else 3000
    cases, codes = pmhlib.correspond_pmh(run, n, extra_args=[])
    if cases is None:
        return
    bad = [(c["variant"], c["m"], c["index"], cd) for c, cd in zip(cases, codes) if cd != 0]
    run.add_cases(len(cases), len(set(json.dumps([c["variant"], c["m"], c["sig"]]) for c in cases if len(c["calls"]) and c["sig"])),
                  [{"variant": c["variant"], "m": c["m"], "sig": c["sig"][:5]} for c in cases[:2]],
                  rule="as C02: weighted sets through every variant and entry point; scripts are the crate's own samplers replayed from the "
                       "item hash, so agreement pins the sampling transformation (rate, slot law, increments) to the specification")
    run.oblige("correspondence:probminhash", "correspondence", not bad, "%d differ; first %s" % (len(bad), bad[:3]))


def direct(run):
    """the deterministic core on the implementation (signature = arg-min of the race whatever the entry point and the
    signature length), cheap and always on"""
    rc, js, out, err = vlib.harness(["pmh-props", "--seed", run.seed + 7, "--n", 120 if run.depth == "quick" else 1500], timeout=2400)
    if rc != 0 or js is None:
        run.oblige("direct:pmh-props", "correspondence", False, (out[-300:] + err[-300:]))
        return
    for f in js["found"]:
        if f["key"] in ("3-vs-3a", "order-3", "order-2", "batch-3a", "batch-3asha", "entry-2", "batch-2", "panic", "scale"):
            run.violation(f["key"], f["text"], {"kind": "impl-input", "sketcher": "ProbMinHash", "input": f["input"], "observed": f["text"]})
            break


def search(run):
    estlib.search(run, "EstPmh")
    # the deterministic core on the implementation (signature = arg-min of the race whatever the entry point), incl. the
    # signature lengths suggested by new literals of a changed source file
    rc, js, out, err = vlib.harness(["pmh-props", "--seed", run.seed, "--n", 300], timeout=2400)
    if rc == 0 and js is not None:
        for f in js["found"]:
            if f["key"] in ("3-vs-3a", "order-3", "order-2", "batch-3a", "batch-3asha", "entry-2", "batch-2", "scale"):
                run.violation(f["key"], f["text"], {"kind": "impl-input", "sketcher": "ProbMinHash", "input": f["input"], "observed": f["text"]})
                break
    rc, js, out, err = vlib.harness(["pmh-mc", "--seed", run.seed, "--trials", 3000], timeout=3000)
    if rc != 0 or js is None:
        return
    for f in js["found"][:1]:
        run.violation("pmh-bias", "ProbMinHash%s, m=%d, family %s: mean match fraction %.5f vs J_P = %.5f (z = %.1f over %d trials)" % (
            f["variant"], f["m"], f["family"], f["mean_match_fraction"], f["jp"], f["z"], f["trials"]),
            {"kind": "impl-input", "input": f, "observed": f["mean_match_fraction"], "expected": f["jp"]})


def replay(path):
    rep = json.load(open(path))
    print(json.dumps(rep.get("input")))
    return 0
