"""C05: sketch of a union is the position-wise join; SetSketch merge is exact."""
from props import sklib

ID = "C05"
LEVEL = "proof"
PROPERTIES_MODULE = "Properties.C05"
COQ_TARGETS = ["Properties/C05.vo", "Model/Dispatch.vo"]
THEOREMS = ["C05_invariant_new", "C05_invariant_item", "C05_invariant_reinit", "C05_invariant_merge",
            "C05_registers_are_max", "C05_new_is_final", "C05_item_keeps_final", "C05_merge_is_union",
            "C05_merge_equals_sketch_of_union", "C05_merge_registers", "C05_merge_refused",
            "C05_superminhash_source_flag", "C05_superminhash_is_min", "C05_superminhash_union_is_min", "C05_merge_commutative", "C05_merge_associative", "C05_merge_idempotent"]
AXIOMS_ALLOWED = []
TRANSLATORS = [("flags-smh", sklib.translate_flags_smh)]
TRUSTED_BASE = [
    "hand-written model coq/Model/SetSketch.v of SetSketcher::{new, sketch, sketch_slice, merge, reinit, get_low_sketch} with all "
    "fields (k_vec, lower_k, nbmin, nb_overflow, clipping at I::MAX, both early exits, refresh every m improvements, parameter "
    "check before any mutation); compared each run on k_vec, lower_k, nbmin, nb_overflow and every merge result",
    "draw scripts (floor(-log_b x_j), clamped k_j, Fisher-Yates position): harness/src/sk.rs mirrors the float expressions of sketch()",
    "the merge tolerance |x-y|/x < EPSILON is modelled on bit patterns (f64_close) and exercised with 0, 1 and 2 ulp differences",
    "SuperMinHash part: hand model coq/Model/SuperMinHash.v (lazy permutation p/q, histogram b, a_upper) tied by correspondence on "
    "every field; theorem: sketch = position-wise minimum over the draws of all items, hence sketch of a union = minimum of the "
    "sketches; float values abstracted as (key, integer part = F key) for a monotone F",
    "extraction (ExtrOcamlBasic) + ocaml/driver.ml",
]
ASSUMPTIONS = ["script well-formedness for the characterisation: k_j non-increasing in j and k_j <= floor(-log_b x_j) + 1 "
               "(float rounding of 1 - log_b x can break the second clause with probability ~1e-16 per draw)",
               "the invariant theorems (lower_k sound) need no hypothesis on the draws"]


def correspond(run):
    n = 700 if run.depth == "quick" else 7000
    cases, codes = sklib.correspond_sk(run, n, "setsketch")
    if cases is None:
        return
    sklib.report_cases(run, cases, codes, "setsketch",
                       "histories (<= 10 operations) of sketch / sketch_slice / merge / reinit on SetSketcher<u16|u32>, m in {1,2,3,4,8,16,33}, "
                       "five parameter tuples (small q: clamping at q+1; b=1.0001 with u16: clipping at I::MAX), merges with equal "
                       "parameters and with m, q changed or b, a moved by 1 or 2 ulps; non-trivial = distinct history with >= 2 operations")
    low_bad = [c["meta"] for c in cases if c["meta"]["low_sketch"] > (c["meta"]["min_register"] if c["meta"]["min_register"] is not None else 0)]
    run.oblige("direct:get_low_sketch<=min-register", "correspondence", not low_bad, "%s" % low_bad[:2])
    n2 = 300 if run.depth == "quick" else 3000
    cases2, codes2 = sklib.correspond_sk(run, n2, "superminhash")
    if cases2 is not None:
        sklib.report_cases(run, cases2, codes2, "superminhash",
                           "SuperMinHash<f32|f64> histories incl. seeds whose r + j rounds up to j + 1 (all fields compared)")


def direct(run):
    sklib.direct_props(run, ["ss-", "smh-union", "smh-f"])


def replay(path):
    return sklib.replay_generic(ID, path)
