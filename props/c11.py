"""C11: ProbOrdMinHash2 selects per position independently of sequence order."""
import json
import vlib
from props import sklib

ID = "C11"
LEVEL = "proof"
PROPERTIES_MODULE = "Properties.C11"
COQ_TARGETS = ["Properties/C11.vo", "Model/Dispatch.vo"]
THEOREMS = ["C11_source_flag", "C11_slot_update", "C11_hash_set_history_free", "C11_hash_set_offers_every_point",
            "C11_selection_order_independent", "C11_values_order_independent", "C11_monitors_sound"]
AXIOMS_ALLOWED = []
TRANSLATORS = [("flags-ord", sklib.translate_flags_ord)]
TRUSTED_BASE = [
    "hand-written model coq/Model/OrdMinHash.v of OrdMinHashStore::update_with_maxtracker and ProbOrdMinHash2::hash_set "
    "(sorted insertion, the three loop exits, clearing at entry); compared each run with the code on the selected indices and "
    "values of every slot (hook verif_selected)",
    "pair scripts: harness/src/ord.rs rebuilds the (hash, occurrence, seed) generator seed and calls Exp1 / FYshuffle in order",
    "the combining hasher (WyHash) is external: the harness recomputes every signature entry from the selected indices",
    "translate/tr_flags.py (is the early exit on a rejected value present?)",
    "extraction (ExtrOcamlBasic) + ocaml/driver.ml",
]
ASSUMPTIONS = ["the theorems are about the model; the model is tied to the code by the correspondence on sampled sequences",
               "C11_selection_order_independent needs the values falling in one slot to be pairwise distinct (an exact tie between two "
               "pairs is decided by insertion order, in the code as in the model); the boolean monitors of that hypothesis and of "
               "script well-formedness are evaluated on every case and their shares are in the evidence; the values layer "
               "(C11_values_order_independent) needs no such hypothesis",
               "the per-pair generator is a function of (element hash, occurrence number, seed) only: mirrored in the harness, "
               "pinned by agreement of outputs"]


def correspond(run):
    n = 800 if run.depth == "quick" else 8000
    rc, js, out, err = vlib.harness(["ord-cases", "--seed", run.seed, "--n", n, "--break-on-reject", sklib.flags_ord()], timeout=1200)
    if rc != 0 or js is None:
        run.oblige("correspondence:ord-cases", "correspondence", False, (out[-300:] + err[-300:]))
        return
    cases = js["cases"]
    ok, log = vlib.build_modelrun()
    if not ok:
        run.oblige("correspondence:extracted-runner", "correspondence", False, log[-800:])
        return
    res = vlib.modelrun([[int(x) for x in c["wire"]] for c in cases])
    bad = [(c["meta"], c["index"], r[0]) for c, r in zip(cases, res) if r[0] != 0]
    sigbad = [c["meta"] for c in cases if not c["meta"]["sig_ok"]]
    dist = {"l": {}, "m_le_8": 0, "len_sum": 0}
    for c in cases:
        dist["l"][str(c["meta"]["l"])] = dist["l"].get(str(c["meta"]["l"]), 0) + 1
        dist["m_le_8"] += 1 if c["meta"]["m"] <= 8 else 0
        dist["len_sum"] += c["meta"]["len"]
    run.add_cases(len(cases), len(set(json.dumps(c["wire"][:300]) for c in cases if c["meta"]["len"] > c["meta"]["l"])),
                  [c["meta"] for c in cases[:3]],
                  rule="sequences of length l..40 over alphabets of 2, 4, 20 and 2^30 symbols (with and without repeats), m 1..32, "
                       "l 1..6, after 0..2 earlier hash_set calls; compared: selected indices (sorted) and values of every slot; "
                       "non-trivial = distinct case longer than l", extra=dist)
    dist["pairs_ok_share"] = round(sum(1 for r in res if len(r) > 1 and r[1] == 1) / max(1, len(res)), 4)
    dist["slot_values_distinct_share"] = round(sum(1 for r in res if len(r) > 2 and r[2] == 1) / max(1, len(res)), 4)
    run.coverage["hypothesis_monitors"] = {"pairs_ok": dist["pairs_ok_share"], "slot_values_distinct": dist["slot_values_distinct_share"]}
    run.oblige("correspondence:ordminhash", "correspondence", not bad, "%d differ; first %s" % (len(bad), bad[:2]))
    tied = [c["meta"] for c, r in zip(cases, res) if r[0] == 0 and len(r) > 2 and r[2] != 1]
    run.oblige("hypotheses:slot-values-distinct", "correspondence", not tied,
               "%d of %d sequences have two pairs with the same value in one slot (theorem C11_selection_order_independent does not "
               "cover them); first m=%s l=%s data=%s" % (len(tied), len(res), tied[0]["m"] if tied else "", tied[0]["l"] if tied else "",
                                                        tied[0]["data"] if tied else ""))
    illformed = [c["meta"] for c, r in zip(cases, res) if r[0] == 0 and len(r) > 1 and r[1] != 1]
    run.oblige("hypotheses:scripts-well-formed", "correspondence", not illformed,
               "pair scripts outside the theorems' hypotheses (values must not decrease, slots < m, at most m points): %s" % illformed[:2])
    run.oblige("direct:signature-is-hash-of-selected", "correspondence", not sigbad, "%s" % sigbad[:2])
    if sigbad:
        c = min(sigbad, key=lambda x: x["len"])
        run.violation("ord-sig-not-in-sequence-order", "hash_set: a signature position is not the combined hash of its l selected elements read in "
                      "sequence order (m=%d, l=%d, sequence %s)" % (c["m"], c["l"], c["data"]),
                      {"kind": "impl-input", "sketcher": "ProbOrdMinHash2", "input": {"m": c["m"], "l": c["l"], "data": c["data"]},
                       "observed": "signature differs from WyHash over the selected elements sorted by sequence index"})


def direct(run):
    rc, js, out, err = vlib.harness(["ord-props", "--seed", run.seed, "--n", 400 if run.depth == "quick" else 6000], timeout=1800)
    if rc != 0 or js is None:
        run.oblige("direct:ord-props", "correspondence", False, (out[-300:] + err[-300:]))
        return
    run.coverage["impl_sequences_checked"] = js["tried"]
    for f in js["found"]:
        if f["key"] in ("ord-l1-perm", "ord-select-perm", "ord-panic", "ord-history", "ord-late-winners"):
            run.violation(f["key"], f["text"], {"kind": "impl-input", "sketcher": "ProbOrdMinHash2", "input": f["input"], "observed": f["text"]})


def replay(path):
    rep = json.load(open(path))
    if rep.get("kind") == "impl-input" and isinstance(rep.get("input"), dict) and "a" in rep["input"]:
        vlib.harness_build()
        rc, js, out, err = vlib.harness(["ord-replay", "--case", json.dumps(rep["input"])])
        print(json.dumps({"input": {k: (v if not isinstance(v, list) or len(v) < 40 else "%d elements" % len(v)) for k, v in rep["input"].items()},
                          "observed_now": js, "recorded": rep.get("observed")})[:3000])
        return 0
    return sklib.replay_generic(ID, path)
