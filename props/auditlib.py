"""translators shared by C12 / C13"""
import os
import vlib
import tr_ambient
import tr_fields
from rustexpr import Untranslatable


def _write(path, txt):
    old = open(path).read() if os.path.exists(path) else None
    if old != txt:
        open(path, "w").write(txt)


def translate_ambient(run):
    try:
        txt = tr_ambient.generate(vlib.REPO)
    except Untranslatable as e:
        return False, str(e)
    _write(os.path.join(vlib.COQ, "Gen", "Ambient.v"), txt)
    return True, ""


def translate_fields(run):
    try:
        txt = tr_fields.generate(vlib.REPO)
    except Untranslatable as e:
        return False, str(e)
    _write(os.path.join(vlib.COQ, "Gen", "Fields.v"), txt)
    return True, ""
