"""C18: byte identities of hashed objects are faithful and memory safe."""
import json
import os
import subprocess
import vlib
import tr_sig
from rustexpr import Untranslatable

ID = "C18"
LEVEL = "proof"
PROPERTIES_MODULE = "Properties.C18"
COQ_TARGETS = ["Properties/C18.vo", "Model/Dispatch.vo"]
THEOREMS = ["C18_table_shapes", "C18_ownership_ok", "C18_scalar_injective_unsigned", "C18_scalar_injective_signed",
            "C18_vector_injective", "C18_scalar_faithful"]
AXIOMS_ALLOWED = []
TRUSTED_BASE = [
    "translate/tr_sig.py: every `impl Sig for T` body must match a closed template; it yields the value shape (width, signedness, "
    "vector / scalar / UTF-8) and an ownership trace (allocation, adoption through from_raw_parts, drops, return)",
    "the ownership abstraction (coq/Model/Sig.v: one buffer, owners with alignments, freed exactly once with the allocation layout); "
    "the allocator itself is not modelled",
    "little-endian target (x86-64): to_ne_bytes = to_le_bytes",
    "correspondence: bytes returned by the real get_sig for all ten types (empty to 10^5-element vectors, each vector twice) vs the "
    "model; a stress run in a child process (a double free aborts it)",
    "extraction (ExtrOcamlBasic) + ocaml/driver.ml",
]
ASSUMPTIONS = ["PARTIAL for memory safety: decided on the ownership abstraction plus the child-process stress run (thorough tier: under valgrind)",
               "String values are compared through their UTF-8 bytes (equal strings <=> equal bytes is the definition of String equality)"]


def translate(run):
    try:
        txt = tr_sig.generate(vlib.REPO)
    except Untranslatable as e:
        return False, "sig.rs outside the templates: %s" % e
    path = os.path.join(vlib.COQ, "Gen", "SigGen.v")
    old = open(path).read() if os.path.exists(path) else None
    if old != txt:
        open(path, "w").write(txt)
    return True, ""


TRANSLATORS = [("sig", translate)]
WIDTH = {"u8": 1, "u16": 2, "u32": 4, "u64": 8, "i16": 2, "i32": 4}


def correspond(run):
    # memory behaviour first: in a child process, so that an abort is observed, not suffered
    cmd = [vlib.HARNESS_BIN, "sig-stress", "--n", "1500" if run.depth == "quick" else "20000"]
    if run.depth == "thorough":
        cmd = ["valgrind", "--error-exitcode=97", "-q"] + [vlib.HARNESS_BIN, "sig-stress", "--n", "300"]
    try:
        p = subprocess.run(cmd, stdout=subprocess.PIPE, stderr=subprocess.PIPE, timeout=1500, universal_newlines=True, errors="replace")
        rc, out, err = p.returncode, p.stdout, p.stderr
    except subprocess.TimeoutExpired:
        rc, out, err = 124, "", "timeout"
    if rc != 0:
        run.violation("sig-memory", "get_sig corrupts memory: the stress run (Vec<u16>/Vec<u32>/Vec<u8>/String/u32, results dropped) "
                      "ended with status %d: %s" % (rc, (err or out).strip()[-200:]),
                      {"kind": "impl-input", "input": {"command": " ".join(cmd)}, "observed": {"status": rc, "stderr": err[-400:]},
                       "expected": "exit 0"})
        return
    rc, js, out, err = vlib.harness(["sig-cases", "--seed", run.seed, "--n", 120 if run.depth == "quick" else 1200], timeout=900)
    if rc != 0 or js is None:
        run.violation("sig-memory", "get_sig: the case generator itself died (status %d): %s" % (rc, err[-200:]),
                      {"kind": "impl-input", "input": {"command": "sig-cases"}, "observed": {"status": rc}})
        return
    cases = js["cases"]
    ok, log = vlib.build_modelrun()
    if not ok:
        run.oblige("correspondence:extracted-runner", "correspondence", False, log[-800:])
        return
    lines = []
    for c in cases:
        ty = c["ty"]
        if ty in WIDTH:
            lines.append([12, 0, WIDTH[ty]] + c["values"])
        elif ty == "String":
            lines.append([12, 2, 1] + c["values"])
        else:
            lines.append([12, 1, WIDTH[ty[4:-1]]] + c["values"])
    res = vlib.modelrun(lines)
    bad = [{"ty": c["ty"], "values": c["values"][:6], "impl": c["bytes"][:12], "model": r[:12]} for c, r in zip(cases, res) if r != c["bytes"]]
    again = [c["ty"] for c in cases if c.get("again_same") is False]
    dist = {}
    for c in cases:
        dist[c["ty"]] = dist.get(c["ty"], 0) + 1
    run.add_cases(len(cases), len(set(json.dumps([c["ty"], c["values"][:50], len(c["values"])]) for c in cases)),
                  [{"ty": c["ty"], "values": c["values"][:4], "bytes": c["bytes"][:8]} for c in cases[:3] + cases[6:8]],
                  rule="values of all ten types: 0, 1, 0x7f, 0x80, 0xff, all-ones, sign boundaries, random; vectors of length 0, 1, 2..300 and "
                       "100000, each queried twice, and again in vectors with spare capacity; strings with multi-byte characters; distinct (type, value) pairs counted",
                  extra={"by_type": dist, "largest_vector": max(len(c["values"]) for c in cases)})
    run.oblige("correspondence:sig-bytes", "correspondence", not bad, "%d differ; first %s" % (len(bad), bad[:2]))
    # the model IS the property's right-hand side (native-endian bytes of the elements / UTF-8 bytes): a difference is a failing input
    for c, r in zip(cases, res):
        if r != c["bytes"]:
            shown = bytes(c["values"]).decode("utf-8", "replace") if c["ty"] == "String" else c["values"][:16]
            run.violation("sig-bytes", "get_sig of the %s value %r%s returns %d bytes %s..., the native-endian / UTF-8 representation has %d bytes %s..." % (
                c["ty"], shown, " (vector with %d spare capacity)" % c["spare_capacity"] if c.get("spare_capacity") else "",
                len(c["bytes"]), c["bytes"][:10], len(r), r[:10]),
                {"kind": "impl-input", "input": {"type": c["ty"], "values": c["values"][:200], "spare_capacity": c.get("spare_capacity", 0)},
                 "observed": c["bytes"][:64], "expected": r[:64]})
            break
    run.oblige("direct:second-call-same-bytes", "correspondence", not again, "second get_sig differs for %s" % again[:3])
    for lk in js.get("sha_long_keys", []):
        if min(lk["wins"]) == 0:
            run.violation("sha-long-keys", "ProbMinHash3aSha<Vec<u8>> (128 positions, equal weights): of two keys of %d bytes that differ only in their last "
                          "byte one wins %d positions and the other %d - they are hashed as the same object" % (lk["bytes"], lk["wins"][0], lk["wins"][1]),
                          {"kind": "impl-input", "input": {"key_bytes": lk["bytes"], "keys": "k1[i] = (7 i + 3) mod 256, k2 = k1 with the last byte xor 0x55",
                                                           "weights": [1.0, 1.0], "m": 128}, "observed": lk["wins"]})
            break
    # the bytes are what the Sha variant hashes: its signatures must be those of the model run on scripts drawn from
    # generators seeded with Sha512_256(get_sig(key)) - for every key, whatever was hashed before it
    from props import pmhlib
    pc, codes = pmhlib.correspond_pmh(run, 700 if run.depth == "quick" else 7000)
    if pc is not None:
        sha = [(c, cd) for c, cd in zip(pc, codes) if c["variant"] == "3asha"]
        badsha = [(c, cd) for c, cd in sha if cd != 0]
        run.coverage["sha_variant_cases"] = len(sha)
        run.oblige("correspondence:sha-seeded-generator", "correspondence", not badsha,
                   "%d of %d ProbMinHash3aSha cases differ from the model seeded with Sha512_256(get_sig(key)); first m=%s items=%s" % (
                       len(badsha), len(sha), badsha[0][0]["m"] if badsha else "",
                       sum(len(call["items"]) for call in badsha[0][0]["calls"]) if badsha else ""))


def search(run):
    if run.violations:
        return
    rc, js, out, err = vlib.harness(["pmh-props", "--seed", run.seed, "--n", 1500], timeout=1800)
    if rc == 0 and js is not None:
        for f in js["found"]:
            if f["key"] in ("batch-3asha",) or (f["key"] == "dup" and "3a" in f["text"]):
                run.violation(f["key"], f["text"], {"kind": "impl-input", "input": f["input"], "observed": f["text"]})


def replay(path):
    rep = json.load(open(path))
    print(json.dumps(rep.get("input")))
    return 0
