"""C03: SuperMinHash and SuperMinHash2 estimate the Jaccard index without bias."""
import json
import vlib
from props import sklib, estlib

ID = "C03"
LEVEL = "proof"
PROPERTIES_MODULE = "Properties.C03"
COQ_TARGETS = ["Properties/C03.vo", "Model/Dispatch.vo"]
THEOREMS = ["C03_source_flag", "C03_superminhash_is_min", "C03_superminhash2_final", "C03_single_item_is_a_permutation",
            "C03_single_item_permutation_uniform", "C03_index_vectors_counted", "C03_collision_share_under_uniform_ranking",
            "C03_estimator_is_match_fraction"]
AXIOMS_ALLOWED = []
TRANSLATORS = [("flags-smh", sklib.translate_flags_smh), estlib.translator("EstSmh")]
TRUSTED_BASE = [
    "hand models coq/Model/SuperMinHash.v and SuperMinHash2.v tied to the code by per-run correspondence on every field (hooks), "
    "scripts drawn through Uniform<F>, Uniform<usize>(j, m), Uniform<u64> and FYshuffle with the generator state the code uses",
    "float values enter the theorems as (key, integer part) with integer part = F key, F monotone (the float -> to_usize map)",
    "translate/tr_flags.py (histogram bucket of a stored value)",
    "extraction (ExtrOcamlBasic) + ocaml/driver.ml",
]
ASSUMPTIONS = ["PARTIAL: the expectation and the MSE bound are not theorems. Decided: the exact characterisation of both sketches and the "
               "single-item permutation structure. Not yet formalised: the counting lemmas (uniform permutation <-> choice vectors; "
               "arg-min of exchangeable values is uniform) and everything about variances; generator outputs assumed independent uniform",
               "known: in f32 (and with probability ~2^-52 in f64) r + j can round up to j + 1, so the integer part of the i-th value is "
               ">= i, not = i; the sketch logic is correct for this (C04/C05), the statement 'integer parts are exactly 0..m-1' holds "
               "only up to this rounding event"]


def correspond(run):
    n = 500 if run.depth == "quick" else 5000
    for kind in ("superminhash", "superminhash2"):
        cases, codes = sklib.correspond_sk(run, n, kind)
        if cases is None:
            return
        sklib.report_cases(run, cases, codes, kind,
                           "histories on %s (duplicates, chunking, reinit, tie-forcing and rounding-up seeds), all fields compared" % kind)


def search(run):
    estlib.search(run, "EstSmh")
    sklib.direct_props(run, ["reinit-smh", "smh-f", "smh2-"], n=4000)
    rc, js, out, err = vlib.harness(["sk-mc", "--seed", run.seed, "--trials", 3000], timeout=3000)
    if rc != 0 or js is None:
        return
    for f in [f for f in js["found"] if f["sketcher"].startswith("SuperMinHash")][:1]:
        if f["sketcher"].endswith("single item"):
            run.violation("smh-single-item-law", "SuperMinHash<f64>, single-item sketches, m=%d: %s (z = %.1f over %d sketches)" % (
                f["m"], f["family"], f["z"], f["trials"]), {"kind": "impl-input", "input": f, "observed": f["z"], "expected": "|z| <= 7"})
        else:
            run.violation("smh-bias", "%s, m=%d, %s: mean match fraction %.5f vs J = %.5f (z = %.1f over %d trials)" % (
                f["sketcher"], f["m"], f["family"], f["mean"], f["j"], f["z"], f["trials"]),
                {"kind": "impl-input", "input": f, "observed": f["mean"], "expected": f["j"]})


def replay(path):
    return sklib.replay_generic(ID, path)
