import os
import vlib
import tr_setformulas
from rustexpr import Untranslatable


def translate(run):
    try:
        txt = tr_setformulas.generate(vlib.REPO)
    except Untranslatable as e:
        return False, "setsketcher.rs formulas outside the expected form: %s" % e
    path = os.path.join(vlib.COQ, "Gen", "SetSketchFormulas.v")
    old = open(path).read() if os.path.exists(path) else None
    if old != txt:
        open(path, "w").write(txt)
    return True, ""


REAL_AXIOMS = ["ClassicalDedekindReals.sig_forall_dec", "ClassicalDedekindReals.sig_not_dec",
               "FunctionalExtensionality.functional_extensionality_dep", "Classical_Prop.classic"]
