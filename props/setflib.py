import os
import vlib
import tr_setformulas
from rustexpr import Untranslatable


def translate(run):
    try:
        txt = tr_setformulas.generate(vlib.REPO)
    except Untranslatable as e:
        return False, "setsketcher.rs formulas outside the expected form: %s" % e
    path = os.path.join(vlib.COQ, "Gen", "SetSketchFormulas.v")
    old = open(path).read() if os.path.exists(path) else None
    if old != txt:
        open(path, "w").write(txt)
    return True, ""


def translate_src(which):
    """the formulas read off the source text as terms over R (translate/tr_formulas_src.py): which = 'pmh' or 'set'"""
    def run_it(run):
        import tr_formulas_src
        try:
            txt = tr_formulas_src.generate_pmh(vlib.REPO) if which == "pmh" else tr_formulas_src.generate_set(vlib.REPO)
        except Untranslatable as e:
            return False, "a formula of the source is outside the expression subset or not where it is expected: %s" % e
        path = os.path.join(vlib.COQ, "Gen", "PmhFormulasSrc.v" if which == "pmh" else "SetFormulasSrc.v")
        old = open(path).read() if os.path.exists(path) else None
        if old != txt:
            open(path, "w").write(txt)
        return True, ""
    return run_it


REAL_AXIOMS = ["ClassicalDedekindReals.sig_forall_dec", "ClassicalDedekindReals.sig_not_dec",
               "FunctionalExtensionality.functional_extensionality_dep", "Classical_Prop.classic"]


def translate_setlaw(run):
    import os
    import tr_setlaw
    from rustexpr import Untranslatable
    try:
        txt = tr_setlaw.generate(vlib.REPO)
    except Untranslatable as e:
        return False, "SetSketcher::sketch outside the expected form: %s" % e
    path = os.path.join(vlib.COQ, "Gen", "SetSketchLaw.v")
    old = open(path).read() if os.path.exists(path) else None
    if old != txt:
        open(path, "w").write(txt)
    return True, ""


def correspond_registers(run, n):
    """the registers the estimators read are those of the model of SetSketcher (sketch / merge / reinit histories)"""
    from props import sklib
    cases, codes = sklib.correspond_sk(run, n, "setsketch")
    if cases is None:
        return
    sklib.report_cases(run, cases, codes, "setsketch-registers",
                       "operation histories (sketch, sketch_slice, merge incl. accumulators, reinit) on SetSketcher<u16/u32>, m in "
                       "{1,2,3,4,8,16,33}, five parameter tuples incl. clipping: registers, lower bound and counters against the model")
