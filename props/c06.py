"""C06: SetSketch cardinality estimate is accurate and monotone."""
import json
import vlib
from props import setflib

ID = "C06"
LEVEL = "proof"
PROPERTIES_MODULE = "Properties.C06"
COQ_TARGETS = ["Properties/C06.vo", "Model/Dispatch.vo"]
THEOREMS = ["C06_card_monotone", "C06_card_positive", "C06_sum_antitone",
            "C06_increment_is_renyi_spacing", "C06_register_threshold", "C06_register_antitone",
            "C06_sequential_and_any_parallel_sum_agree", "C06_any_sum_tree_is_accurate", "C06_estimates_in_inverse_ratio_of_sums", "C06_source_estimators_are_the_proved_estimator",
            "C06_source_spread_is_the_advertised_spread", "C06_source_register_law_is_the_proved_law",
            "C06_item_never_lowers_estimate", "C06_merge_never_lowers_estimate"]
AXIOMS_ALLOWED = setflib.REAL_AXIOMS
TRANSLATORS = [("setsketch-formulas", setflib.translate), ("setsketch-register-law", setflib.translate_setlaw),
               ("setsketch-formulas-from-source", setflib.translate_src("set"))]
TRUSTED_BASE = [
    "translate/tr_setformulas.py: get_cardinal_stats and MleJaccard::get_cardinal_estimate must equal closed templates with the same "
    "expression m (1 - 1/b) / (a ln b sum b^-K); card_of_sum is its transcription over the reals",
    "monotonicity in the registers is proved over the reals; that registers only increase under sketch and merge is C05 (Coq); the float "
    "evaluation (exp, ln_1p, summation order, rayon reduction) is checked on the implementation along generated streams",
    "real-number axioms of the Coq standard library",
    "translate/tr_setlaw.py: the statements of SetSketcher::sketch that define the register law (seeding, spacing inva/(m-j), "
    "ln x / ln b, floor and clamp, both early exits, strict raise) must occur in the expected form and order",
    "register correspondence through the extracted model (as C05)",
]
ASSUMPTIONS = ["PARTIAL: expected relative error O(1/m) and the 15% window on the relative spread are statistical and not decided "
               "(observed relative errors are listed in the evidence, never used as a pass criterion)",
               "parallel estimator: the two binary64 sums of the m non-negative terms agree within (1 +- 2^-53)^m for EVERY reduction tree "
               "(C06_sequential_and_any_parallel_sum_agree, Flocq, no overflow since each term is at most 1); assumed: rayon's sum is such a "
               "tree with 0.0 as identity, and both sides compute a term with the same libm calls (translator template); the four "
               "operations after the sum are the same code on both sides; the implementation sweep uses 1e-9 relative"]


def correspond(run):
    setflib.correspond_registers(run, 300 if run.depth == "quick" else 3000)
    rc, js, out, err = vlib.harness(["card-props", "--seed", run.seed, "--n", 40 if run.depth == "quick" else 600], timeout=2400)
    if rc != 0 or js is None:
        run.oblige("direct:card-props", "correspondence", False, (out[-300:] + err[-300:]))
        return
    for f in js["found"]:
        run.violation(f["key"], f["text"], {"kind": "impl-input", "sketcher": "SetSketcher::get_cardinal_stats", "input": f["input"],
                                            "observed": f["text"]})
    obs = js["observations"]
    run.add_cases(js["tried"] * 50, js["tried"], obs[:3],
                  rule="streams of 1..180000 distinct items with repeats on SetSketcher<u32>, m in {16,64,256,1024}, three parameter tuples: "
                       "estimate sampled at 50 points (never decreases), parallel estimator compared at each, then a merge (never decreases)",
                  extra={"observed_relative_errors": [round(o["rel_err"], 4) for o in obs[:20]]})
    run.oblige("direct:card-streams-ran", "correspondence", js["tried"] >= 10, "")


def search(run):
    rc, js, out, err = vlib.harness(["card-mc", "--seed", run.seed, "--trials", 400], timeout=3000)
    if rc == 0 and js is not None:
        for f in js["found"][:1]:
            run.violation("card-bias", "SetSketch cardinality estimate for n = %d distinct items, m = %d, b = %s: mean relative error %+.4f over %d "
                          "trials, allowed 2 sigma^2 + 6 standard errors = %.4f (advertised sigma %.4f)" % (
                              f["n"], f["m"], f["b"], f["mean_rel_err"], f["trials"], f["allowed"], f["advertised_rsd"]),
                          {"kind": "impl-input", "input": f, "observed": f["mean_rel_err"], "expected": "|mean| <= %s" % f["allowed"]})


def replay(path):
    rep = json.load(open(path))
    print(json.dumps(rep.get("input")))
    return 0
