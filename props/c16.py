"""C16: truncated-exponential sampler has the right law on [0,1)."""
import json
import os
import vlib
import tr_exp01
from rustexpr import Untranslatable

ID = "C16"
LEVEL = "proof"
PROPERTIES_MODULE = "Properties.C16"
COQ_TARGETS = ["Properties/C16.vo", "Model/Exp01.vo"]
THEOREMS = ["C16_accept_iff", "C16_c2_is_half", "C16_mixture", "C16_cdf", "C16_f_range", "C16_returned_values_in_unit_interval"]
AXIOMS_ALLOWED = ["ClassicalDedekindReals.sig_forall_dec", "ClassicalDedekindReals.sig_not_dec",
                  "FunctionalExtensionality.functional_extensionality_dep", "Classical_Prop.classic",
                  "ClassicalEpsilon.constructive_indefinite_description"]
TRUSTED_BASE = [
    "translate/tr_exp01.py: the constants c1 c2 c3 and the three acceptance tests are regenerated as real expressions from "
    "src/exp01.rs (control-flow shape of sample() checked against a closed template)",
    "coq/Model/Exp01.v: the sampler on Coq primitive binary64 floats, executed by vm_compute; the outcome of the third test "
    "(exp_m1) is an oracle supplied by the harness; compared with the real sample() under a scripted RngCore: sample bits and "
    "number of draws consumed, every branch",
    "Coq's primitive floats (kernel implementation of IEEE binary64) for the correspondence only",
    "real-number axioms of the Coq standard library / Coquelicot for the analytic theorems",
]
ASSUMPTIONS = ["PARTIAL: the law is decided as: exact acceptance region + mixture identity + distribution function, for all lambda > 0; "
               "that uniform generator outputs turn these into the sampled law (measure preservation of the reflection, independence) "
               "is not formalised",
               "rounding of the constants at tiny lambda (c2, c3 lose ~1e-7 relative at lambda = 1e-9) is observed, not bounded"]


def translate(run):
    try:
        txt = tr_exp01.generate(vlib.REPO)
    except Untranslatable as e:
        return False, "exp01.rs outside the accepted form: %s" % e
    path = os.path.join(vlib.COQ, "Gen", "Exp01Gen.v")
    old = open(path).read() if os.path.exists(path) else None
    if old != txt:
        open(path, "w").write(txt)
    return True, ""


TRANSLATORS = [("exp01", translate)]
HEADER = ("From Coq Require Import List Floats Bool. Import ListNotations.\nFrom PMH Require Import Model.Exp01.\nOpen Scope float_scope.\n")


def fl(x):
    return "(%s)%%float" % float(x).hex()


def correspond(run):
    n = 60 if run.depth == "quick" else 600
    rc, js, out, err = vlib.harness(["exp01-cases", "--seed", run.seed, "--n", n], timeout=900)
    if rc != 0 or js is None:
        run.oblige("correspondence:exp01-cases", "correspondence", False, (out[-300:] + err[-300:]))
        return
    cases = js["cases"]
    jobs = []
    shard = 60
    for i in range(0, len(cases), shard):
        lits = []
        for c in cases[i:i + shard]:
            lits.append("((%s, %s, %s), [%s], [%s], (%s, %d%%nat))" % (
                fl(c["c"][0]), fl(c["c"][1]), fl(c["c"][2]), "; ".join(fl(d) for d in c["draws"]),
                "; ".join("true" if b else "false" for b in c["b3s"]), fl(c["result"]), c["used"]))
        jobs.append(("c16_%d" % (i // shard), HEADER, ["map chk_exp01 [%s]" % ";\n ".join(lits)]))
    res = vlib.run_coq_cases_parallel(jobs)
    codes = []
    for r in res:
        if isinstance(r, Exception):
            run.oblige("correspondence:exp01-model-eval", "correspondence", False, str(r)[-1200:])
            return
        codes += r[0]
    bad = [(c["lambda"], c["result"], c["used"], cd) for c, cd in zip(cases, codes) if cd != 0]
    branches = {"first-try": 0, "x<c2": 0, "fast-tests": 0, "test3": 0, "rejections": 0}
    for c in cases:
        if c["used"] == 1:
            branches["first-try"] += 1
        elif c["used"] == 2:
            branches["x<c2"] += 1
        elif c["b3s"] and c["b3s"][-1]:
            branches["test3"] += 1
        else:
            branches["fast-tests"] += 1
        branches["rejections"] += len([b for b in c["b3s"] if not b])
    for c in js.get("range_bad", [])[:1]:
        run.violation("exp01-range", "ExpRestricted01(lambda=%r) returned %r, outside [0,1), for the generator outputs %s (unit draws %s)" % (
            c["lambda"], c["result"], c["raw_draws"][:4], c["first_units"]),
            {"kind": "impl-input", "input": {"lambda": c["lambda"], "raw_draws": c["raw_draws"]}, "observed": c["result"]})
    run.coverage["range_extreme_scripts"] = js.get("range_tried", 0)
    outside = [c for c in cases if not (0.0 <= c["result"] < 1.0)]
    for c in outside[:1]:
        run.violation("exp01-range", "ExpRestricted01(lambda=%r) returned %r, outside [0,1)" % (c["lambda"], c["result"]),
                      {"kind": "impl-input", "input": {"lambda": c["lambda"], "draws": c["draws"]}, "observed": c["result"]})
    run.add_cases(len(cases), len(set(json.dumps([c["lambda"], c["draws"][:5]]) for c in cases if c["used"] >= 2)),
                  [{"lambda": c["lambda"], "draws": c["draws"][:3], "result": c["result"], "used": c["used"]} for c in cases[:3]],
                  rule="14 rates from 1e-9 through ln 2 to 30; scripted unit draws aimed at every branch (first try, x < c2, reflection, "
                       "each of the three tests, rejection); compared: sample bits and draws consumed; non-trivial = distinct case "
                       "that entered the loop", extra={"branches": branches, "lambdas": 14})
    run.oblige("correspondence:exp01", "correspondence", not bad, "%d differ (1 = script too short, 2 = differs); first %s" % (len(bad), bad[:3]))


def search(run):
    """Monte-Carlo search for a rate and a point where the empirical distribution function is off by more than 6 sigma"""
    if run.violations:
        return
    rc, js, out, err = vlib.harness(["exp01-law", "--seed", run.seed, "--n", 3000000], timeout=1800)
    if rc != 0 or js is None:
        return
    for f in js["found"][:1]:
        run.violation("exp01-law", "ExpRestricted01(lambda=%r): P(X <= %r) observed %r, law says %r (z = %.1f, n = %d)" % (
            f.get("lambda"), f.get("t"), f.get("observed"), f.get("expected"), f.get("z", 0.0), f.get("n", 0)),
            {"kind": "impl-input", "input": f, "observed": f.get("observed"), "expected": f.get("expected")})


def replay(path):
    rep = json.load(open(path))
    print(json.dumps(rep.get("input")))
    return 0
