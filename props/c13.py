"""C13: after reinit/reset a sketcher behaves exactly like a new one."""
import json
import vlib
from props import sklib, auditlib, pmhlib

ID = "C13"
LEVEL = "proof"
PROPERTIES_MODULE = "Properties.C13"
COQ_TARGETS = ["Properties/C13.vo", "Model/Dispatch.vo"]
THEOREMS = ["C13_reset_covers_mutated", "C13_models_know_mutated_fields", "C13_ten_structs", "C13_superminhash",
            "C13_superminhash2", "C13_setsketch", "C13_densified", "C13_probminhash2", "C13_tracker", "C13_shuffle",
            "C13_ordminhash_self_clearing"]
AXIOMS_ALLOWED = []
TRANSLATORS = [("fields", auditlib.translate_fields)]
TRUSTED_BASE = [
    "translate/tr_fields.py: struct fields, fields mutated by methods (assignments, op-assignments, mutating method calls, &mut), "
    "fields re-established by reinit/reset (for ProbOrdMinHash2: the clearing prelude of hash_set); regenerated every run",
    "the reset = constructor theorems are about the hand-written models (in which reset is defined field by field as the code "
    "does); the models are tied to the code by histories containing reinit/reset compared on every field (hooks), and by "
    "implementation-level reset-vs-fresh comparisons",
    "exemptions (scratch buffer, re-seeding state, per-item permutation) are declared with reasons in coq/Model/Env.v",
    "extraction (ExtrOcamlBasic) + ocaml/driver.ml",
]
ASSUMPTIONS = ["parameters, hashers and type markers are constant after construction (not mutated: checked by the field audit)"]


def correspond(run):
    n = 1000 if run.depth == "quick" else 10000
    cases, codes = sklib.correspond_sk(run, n, "all")
    if cases is None:
        return
    with_reinit = [c for c in cases if any(True for _ in [0]) and c["meta"].get("nops", 0) >= 2]
    sklib.report_cases(run, cases, codes, "histories-with-reinit",
                       "operation histories on SetSketch, SuperMinHash, SuperMinHash2 and both densified sketchers in which reinit "
                       "occurs between partial streams, finished and unfinished densification, merges and clipped registers; the "
                       "model (whose reinit is the constructor) must reproduce every field afterwards")
    rc, js, out, err = vlib.harness(["ord-cases", "--seed", run.seed, "--n", 300 if run.depth == "quick" else 3000,
                                     "--break-on-reject", sklib.flags_ord()], timeout=1200)
    if rc != 0 or js is None:
        run.oblige("correspondence:ord-cases", "correspondence", False, (out[-300:] + err[-300:]))
        return
    oc = js["cases"]
    res = vlib.modelrun([[int(x) for x in c["wire"]] for c in oc])
    bad = [(c["meta"], r[0]) for c, r in zip(oc, res) if r[0] != 0]
    run.add_cases(len(oc), len([c for c in oc if c["meta"]["nprev"] >= 1]),
                  [c["meta"] for c in oc[:2]],
                  rule="ProbOrdMinHash2::hash_set after 0..2 earlier hash_set calls on the same instance vs the model that "
                       "starts from a cleared store (non-trivial = at least one earlier call)")
    run.oblige("correspondence:ordminhash-self-clearing", "correspondence", not bad, "%s" % bad[:2])


def direct(run):
    sklib.direct_props(run, ["reinit"])
    rc, js, out, err = vlib.harness(["pmh-props", "--seed", run.seed, "--n", 200 if run.depth == "quick" else 3000], timeout=1800)
    if rc == 0 and js is not None:
        for f in js["found"]:
            if f["key"] == "reset-2":
                run.violation(f["key"], f["text"], {"kind": "impl-input", "input": f["input"], "observed": f["text"]})
    rc, js, out, err = vlib.harness(["ord-props", "--seed", run.seed, "--n", 200 if run.depth == "quick" else 3000], timeout=1800)
    if rc == 0 and js is not None:
        for f in js["found"]:
            if f["key"] == "ord-history":
                run.violation(f["key"], f["text"], {"kind": "impl-input", "input": f["input"], "observed": f["text"]})


def replay(path):
    return sklib.replay_generic(ID, path)
