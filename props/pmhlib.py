"""shared correspondence code of the ProbMinHash properties (C02, C01, C13)"""
import json
import vlib

VARIANT = {"3": 3, "3a": 31, "3asha": 31, "2": 2}


def wire_case(c, code=2):
    w = [code, VARIANT[c["variant"]], c["m"], c["maxv"], c["init"], len(c["calls"])]
    for call in c["calls"]:
        w.append(len(call["items"]))
        for it in call["items"]:
            w.append(it["id"])
            w.append(len(it["script"]))
            for p in it["script"]:
                if len(p) == 2:
                    w += [p[0], p[1], 0]
                else:
                    w += p
    w.append(0 if c["outcome"] == "ok" else 1)
    w.append(len(c["regs"]))
    w += c["regs"]
    w.append(len(c["sig"]))
    w += c["sig"]
    return w


def eval_cases(cases):
    """codes: 0 agree, 1 exhausted, 2 differ, 3 model failure, -1 wire error"""
    ok, log = vlib.build_modelrun()
    if not ok:
        raise RuntimeError("extracted runner does not build: " + log[-800:])
    res = vlib.modelrun([wire_case(c) for c in cases])
    return [r[0] for r in res]


def model_output(c):
    res = vlib.modelrun([wire_case(c, code=20)], nproc=1)[0]
    if res[0] != 0:
        return {"code": res[0]}
    n = res[1]
    return {"code": 0, "regs": res[2:2 + n], "sig": res[2 + n:]}


def correspond_pmh(run, n, subcmd="pmh-cases", extra_args=None):
    """model vs implementation with the exhaustion / retry protocol. returns (cases, codes)"""
    args = [subcmd, "--seed", run.seed, "--n", n] + (extra_args or [])
    rc, js, out, err = vlib.harness(args, timeout=1800)
    if rc != 0 or js is None:
        run.oblige("correspondence:%s" % subcmd, "correspondence", False, (out[-400:] + err[-400:]))
        return None, None
    cases = js["cases"]
    try:
        codes = eval_cases(cases)
        scale = 1
        for _ in range(3):
            ex = [i for i, cd in enumerate(codes) if cd == 1]
            if not ex:
                break
            scale *= 3
            rc, js2, out, err = vlib.harness(args + ["--only", ",".join(str(cases[i]["index"]) for i in ex), "--scale", scale],
                                             timeout=1800)
            if rc != 0 or js2 is None:
                run.oblige("correspondence:%s-retry" % subcmd, "correspondence", False, (out[-400:] + err[-400:]))
                return None, None
            sub = js2["cases"]
            subcodes = eval_cases(sub)
            for i, c2, cd in zip(ex, sub, subcodes):
                cases[i] = c2
                codes[i] = cd
    except Exception as ex:   # noqa
        run.oblige("correspondence:pmh-model-eval", "correspondence", False, str(ex)[-1500:])
        return None, None
    return cases, codes
