"""C08: densified one-permutation hashing is an unbiased Jaccard LSH at any fill ratio."""
import json
import vlib
from props import sklib, estlib

ID = "C08"
LEVEL = "proof"
PROPERTIES_MODULE = "Properties.C08"
COQ_TARGETS = ["Properties/C08.vo", "Model/Dispatch.vo"]
THEOREMS = ["C08_source_flags", "C08_collision_iff", "C08_opt_densify_copies_populated", "C08_rev_densify_copies_populated",
            "C08_collision_share_under_uniform_ranking", "C08_estimator_is_match_fraction"]
AXIOMS_ALLOWED = []
TRANSLATORS = [("flags-dens", sklib.translate_flags_dens), estlib.translator("EstIdx")]
TRUSTED_BASE = [
    "hand model coq/Model/DensMinHash.v tied to the code by the per-run correspondence of C09 (all four arrays over histories)",
    "item values (r, bin, hash) are drawn by the harness through Uniform<F> and Uniform<usize>(0, m) from the generator seeded with the "
    "item hash; densification targets are the replayed ChaCha12 streams",
    "translate/tr_flags.py; extraction (ExtrOcamlBasic) + ocaml/driver.ml",
]
ASSUMPTIONS = ["PARTIAL: the expectation is not a theorem. Decided: collision on a bin <=> a common item attains the bin's minimum over the "
               "union; densified bins copy pairs of populated bins chosen by target streams that do not depend on the items. Not "
               "formalised: arg-min of exchangeable values is uniform (conditional probability J), the conditioning on the occupancy "
               "pattern, fairness and independence of the target streams",
               "Monte-Carlo runs are a search aid after a broken obligation (|z| > 6), never a pass criterion"]


def correspond(run):
    n = 500 if run.depth == "quick" else 5000
    cases, codes = sklib.correspond_sk(run, n, "dens")
    if cases is None:
        return
    sklib.report_cases(run, cases, codes, "densminhash",
                       "histories on both densified sketchers, f32/f64, tie-forcing hasher, m 1..64 (sparse regime included: most bins "
                       "filled by densification when the stream is shorter than m)")


def search(run):
    estlib.search(run, "EstIdx")
    sklib.direct_props(run, ["reinit-optdens", "reinit-revdens", "dens-resume", "dens-f32-order", "optdens-order", "revdens-order"])
    rc, js, out, err = vlib.harness(["sk-mc", "--seed", run.seed, "--trials", 3000], timeout=3000)
    if rc != 0 or js is None:
        return
    for f in [f for f in js["found"] if "Dens" in f["sketcher"]][:1]:
        if True:
            run.violation("dens-bias", "%s, m=%d, %s: mean match fraction %.5f vs J = %.5f (z = %.1f over %d trials)" % (
                f["sketcher"], f["m"], f["family"], f["mean"], f["j"], f["z"], f["trials"]),
                {"kind": "impl-input", "input": f, "observed": f["mean"], "expected": f["j"]})


def replay(path):
    return sklib.replay_generic(ID, path)
