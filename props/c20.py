"""C20: SetSketch parameters survive a dump/reload and a torn file is reported."""
import json
import os
import vlib
from props import sklib

ID = "C20"
LEVEL = "proof"
PROPERTIES_MODULE = "Properties.C20"
COQ_TARGETS = ["Properties/C20.vo", "Model/Dispatch.vo"]
THEOREMS = ["C20_source_flag", "C20_parse_ok_contains_close", "C20_torn_file_rejected", "C20_reload_torn",
            "C20_reload_missing_file", "C20_reload_never_panics", "C20_roundtrip", "C20_number_token_lexed_whole"]
AXIOMS_ALLOWED = []
TRANSLATORS = [("flags-json", sklib.translate_flags_json)]
TRUSTED_BASE = [
    "hand-written byte-level model coq/Model/ParamsJson.v of the document serde_json writes for SetSketchParams and of the subset "
    "of JSON the derived Deserialize accepts that the correspondence generates (object form, simple values); compared each run: "
    "model print = bytes of the dumped file; model parse = outcome class and integers of reload_json on the file, on EVERY prefix "
    "and on edited files",
    "float tokens are carried as byte strings: the decimal<->binary conversion of ryu / serde_json is external; the harness "
    "measures the ulp distance of every reloaded float and the digit count of its token",
    "translate/tr_flags.py (does reload_json unwrap the parse result?)",
    "OS file semantics: a torn file is a prefix of the written bytes",
    "extraction (ExtrOcamlBasic) + ocaml/driver.ml",
]
ASSUMPTIONS = ["PARTIAL: the general round-trip theorem parse(print p) = p is not proved (an Example and the per-run correspondence "
               "on random tuples stand in); numeric exactness of the float round trip is measured, not proved",
               "serde also accepts the array form of a struct and nested unknown values: outside the modelled subset (reported as unsupported)"]


def correspond(run):
    n = 150 if run.depth == "quick" else 1500
    d = os.path.join(vlib.BUILD, "tmp", "json_%d" % os.getpid())
    rc, js, out, err = vlib.harness(["json-cases", "--seed", run.seed, "--n", n, "--dir", d], timeout=1800)
    try:
        os.rmdir(d)
    except OSError:
        pass
    if rc != 0 or js is None:
        run.oblige("correspondence:json-cases", "correspondence", False, (out[-300:] + err[-300:]))
        return
    cases = js["cases"]
    ok, log = vlib.build_modelrun()
    if not ok:
        run.oblige("correspondence:extracted-runner", "correspondence", False, log[-800:])
        return
    panic_flag = open(os.path.join(vlib.COQ, "Gen", "FlagsJson.v")).read().count(":= true") > 0
    lines = []
    index = []
    for ci, c in enumerate(cases):
        lines.append([11, len(c["btok"])] + c["btok"] + [c["m"], len(c["atok"])] + c["atok"] + [c["q"]])
        index.append((ci, "print", None))
        lines.append([10] + c["bytes"])
        index.append((ci, "full", None))
        for cut in range(len(c["bytes"])):
            lines.append([10] + c["bytes"][:cut])
            index.append((ci, "prefix", cut))
        for ei, e in enumerate(c["edits"]):
            lines.append([10] + e["bytes"])
            index.append((ci, "edit", ei))
    res = vlib.modelrun(lines)
    bad = []
    unsupported = 0
    nprefix = nedit = 0
    for (ci, kind, k), r in zip(index, res):
        c = cases[ci]
        if kind == "print":
            if r != c["bytes"]:
                bad.append({"what": "dumped bytes differ from the model's print", "file": bytes(c["bytes"]).decode("latin1"), "model": bytes([x & 255 for x in r]).decode("latin1")})
        elif kind == "full":
            okm = (r[0] == 0 and r[1] == c["m"] and r[2] == c["q"] and r[4:4 + r[3]] == c["btok"])
            if not okm or c["roundtrip"]["class"] != 0:
                bad.append({"what": "full file: model %s / reload class %s" % (r[:3], c["roundtrip"]["class"]), "file": bytes(c["bytes"]).decode("latin1")})
        elif kind == "prefix":
            nprefix += 1
            impl = c["prefixes"][k]
            want = 1 if r[0] == 1 else (0 if r[0] == 0 else None)
            if r[0] == 2:
                unsupported += 1
            elif impl == 3 or impl == 0:
                run.violation("torn-file-accepted", "reload_json returns parameters for a file cut at byte %d of %d" % (k, len(c["bytes"])),
                              {"kind": "impl-input", "input": {"file": bytes(c["bytes"]).decode("latin1"), "cut": k}, "observed": impl})
            elif impl == 2:
                run.violation("torn-file-panic", "reload_json panics for a file cut at byte %d of %d" % (k, len(c["bytes"])),
                              {"kind": "impl-input", "input": {"file": bytes(c["bytes"]).decode("latin1"), "cut": k}, "observed": "panic"})
            elif want is not None and not ((impl == 1 and want == 1) or (impl == 2 and want == 1 and panic_flag)):
                bad.append({"what": "prefix %d: model %s impl %s" % (k, r[:1], impl)})
        else:
            nedit += 1
            e = c["edits"][k]
            if r[0] == 2:
                unsupported += 1
                continue
            impl = e["class"]
            if impl == 2:
                run.violation("edited-file-panic", "reload_json panics on %r" % bytes(e["bytes"]).decode("latin1"),
                              {"kind": "impl-input", "input": {"file": bytes(e["bytes"]).decode("latin1")}, "observed": "panic"})
                continue
            mclass = 0 if r[0] == 0 else (2 if panic_flag else 1)
            if impl != mclass or (impl == 0 and (r[1] != e["m"] or r[2] != e["q"])):
                bad.append({"what": "edited file: model %s impl class %s m=%s q=%s" % (r[:3], impl, e["m"], e["q"]),
                            "file": bytes(e["bytes"]).decode("latin1")})
    # property clauses measured on the implementation
    for c in cases:
        rt = c["roundtrip"]
        if c.get("missing_odd", 1) != 1:
            run.violation("missing-file-odd-path", "reload_json on a directory whose name is not valid UTF-8 and that holds no parameters.json does not "
                          "return Err (class %s: 2 = panic, 0 = Ok)" % c["missing_odd"],
                          {"kind": "impl-input", "input": {"directory_name_bytes": "donn\\xe9es \\xff"}, "observed": c["missing_odd"]})
            break
        if c.get("roundtrip_odd", 0) >= 2:
            run.violation("odd-path-panic", "%s panics in a directory whose name is not valid UTF-8" % ("dump_json" if c["roundtrip_odd"] == 3 else "reload_json after dump_json"),
                          {"kind": "impl-input", "input": {"directory_name_bytes": "donn\\xe9es \\xff", "m": c["m"], "q": c["q"]}, "observed": c["roundtrip_odd"]})
            break
        if c["missing"] != 1:
            run.violation("missing-file", "reload_json on a directory without parameters.json does not return Err (class %s)" % c["missing"],
                          {"kind": "impl-input", "input": {}, "observed": c["missing"]})
        ow = c.get("overwrite")
        if ow is not None and not (ow["dumped"] and ow["class"] == 0 and ow["same"]):
            run.violation("dump-over-existing-file", "dump_json into a directory that already holds a longer parameters.json, then "
                          "reload_json: class %s (0 = parameters), same as dumped: %s; file now: %r" % (ow["class"], ow["same"], ow["file"][:120]),
                          {"kind": "impl-input", "input": {"first_dump": "b=1.2345678901234567 m=2^64-1 a=19.876543210987654 q=2^64-2",
                                                           "second_dump": {"b_bits": c["b"], "m": c["m"], "a_bits": c["a"], "q": c["q"]}},
                           "observed": ow})
        no = c.get("near_overwrite")
        if no is not None:
            bad_no = (not no["dumped"]) or no["class"] != 0 or not no["mq_same"]
            for nm in ("a", "b"):
                u = no.get(nm + "_ulps")
                if u is None or u > 1 or (no[nm + "_digits"] <= 15 and u != 0):
                    bad_no = True
            if bad_no:
                run.violation("dump-over-similar-file", "dump_json into a directory whose parameters.json holds the same m, q and floats %d ulp(s) away, then "
                              "reload_json: class %s, b off by %s ulps (%d digits), a off by %s ulps (%d digits) from what was dumped last" % (
                                  no["ulps_before"], no["class"], no.get("b_ulps"), no["b_digits"], no.get("a_ulps"), no["a_digits"]),
                              {"kind": "impl-input", "input": {"second_dump": {"b_bits": c["b"], "m": c["m"], "a_bits": c["a"], "q": c["q"]},
                                                               "first_dump": "same m, q; b + %d ulps, a - %d ulps" % (no["ulps_before"], no["ulps_before"])},
                               "observed": no})
        if rt["class"] == 0:
            if not (rt["m_same"] and rt["q_same"]):
                run.violation("roundtrip-int", "m or q changed by dump/reload", {"kind": "impl-input", "input": {"m": c["m"], "q": c["q"]}, "observed": rt})
            for nm in ("a", "b"):
                if rt[nm + "_ulps"] > 1 or (rt[nm + "_digits"] <= 15 and rt[nm + "_ulps"] != 0):
                    run.violation("roundtrip-float", "%s changed by %d ulps through dump/reload (token with %d significant digits)" % (
                        nm, rt[nm + "_ulps"], rt[nm + "_digits"]),
                        {"kind": "impl-input", "input": {nm + "_bits": c[nm]}, "observed": rt})
    off = len([c for c in cases if c["roundtrip"]["class"] == 0 and (c["roundtrip"]["a_ulps"] or c["roundtrip"]["b_ulps"])])
    run.add_cases(len(lines), len(cases) + nprefix // 4,
                  [{"file": bytes(c["bytes"]).decode("latin1"), "roundtrip": c["roundtrip"]} for c in cases[:2]],
                  rule="random tuples (b, m, a, q): short and 17-digit floats, m and q from 0 to 2^64-1; the dumped bytes, every prefix of "
                       "every dumped file (the crash point), and 24 edited files per tuple (whitespace, reordering, unknown / duplicate / "
                       "missing fields, trailing bytes, wrong types, deletions), and a dump over an existing longer file; non-trivial: one per tuple plus a quarter of the prefixes",
                  extra={"tuples": len(cases), "prefixes": nprefix, "edited_files": nedit, "outside_modelled_subset": unsupported,
                         "floats_reloaded_1ulp_off": off})
    run.oblige("correspondence:params-json", "correspondence", not bad, "%d differences; first: %s" % (len(bad), json.dumps(bad[:2])[:600]))


def replay(path):
    rep = json.load(open(path))
    print(json.dumps(rep.get("input")))
    return 0
