"""C09: densification copies populated bins, is idempotent, terminates (reports on an empty sketch)."""
from props import sklib

ID = "C09"
LEVEL = "proof"
PROPERTIES_MODULE = "Properties.C09"
COQ_TARGETS = ["Properties/C09.vo", "Model/Dispatch.vo"]
THEOREMS = ["C09_source_flags", "C09_sketch_step", "C09_opt_densify", "C09_rev_densify", "C09_opt_terminates",
            "C09_empty_reports", "C09_empty_never_fills", "C09_holds_streamed", "C09_end_sketch_idempotent", "C09_views_agree"]
AXIOMS_ALLOWED = []
TRANSLATORS = [("flags-dens", sklib.translate_flags_dens)]
TRUSTED_BASE = [
    "hand-written model coq/Model/DensMinHash.v of src/densminhash.rs (sketch, both densify loops, end_sketch, sketch_slice, reinit); "
    "compared each run with the real sketchers on hsketch, values, init, nb_empty (hook verif_state) over generated histories",
    "translate/tr_flags.py decides from the source which comparison (`r <= h[k]` / hash tie-break) and which empty-sketch "
    "behaviour (loop / error) the model instantiates; theorems are about the repaired alternatives",
    "densification target streams are data: harness replays ChaCha12Rng::seed_from_u64(k+123743) / ((k+1)*m+pass+253713)",
    "murmur3_32 is external; the u32 view is checked against it on the implementation only",
    "extraction (ExtrOcamlBasic) + ocaml/driver.ml",
]
ASSUMPTIONS = ["fairness of the concrete ChaCha12 target streams is not proved (validated on every generated case: no Exhausted outcome)",
               "hashes < 2^64, item values below the initial marker u32::MAX"]


def correspond(run):
    n = 800 if run.depth == "quick" else 8000
    cases, codes = sklib.correspond_sk(run, n, "dens")
    if cases is None:
        return
    sklib.report_cases(run, cases, codes, "densminhash",
                       "histories of sketch / sketch_slice (also empty) / end_sketch / reinit on OptDensMinHash and RevOptDensMinHash, "
                       "f32 and f64, FNV and a 3-bit hasher forcing ties, m 1..64; end_sketch or an empty slice on a sketch with "
                       "nothing streamed runs under a time limit (outcome hang / error); compared: all four arrays; "
                       "non-trivial = distinct history with >= 2 operations")
    views_bad = [c["meta"] for c in cases if not c["meta"].get("views_ok", True)]
    run.oblige("direct:views", "correspondence", not views_bad, "u32/u64 view mismatch: %s" % views_bad[:2])


def direct(run):
    sklib.direct_props(run, ["optdens", "revdens", "dens-"])


def replay(path):
    return sklib.replay_generic(ID, path)
