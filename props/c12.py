"""C12: a sketch is a pure function of parameters, hasher and input."""
import json
import vlib
from props import auditlib

ID = "C12"
LEVEL = "proof"
PROPERTIES_MODULE = "Properties.C12"
COQ_TARGETS = ["Properties/C12.vo"]
THEOREMS = ["C12_ambient_reads_classified"]
AXIOMS_ALLOWED = []
TRANSLATORS = [("ambient-reads", auditlib.translate_ambient)]
TRUSTED_BASE = [
    "translate/tr_ambient.py: a textual audit of the non-test source for ThreadRng construction / draws, RandomState maps, "
    "clocks, global mutable state and address leaks, per function; regenerated every run; the classifier in coq/Model/Env.v "
    "says which are harmless and why",
    "the Coq models are closed functions of (parameters, draw scripts): purity of the models is definitional; the scripts are "
    "produced from (hasher, item) only (harness)",
    "differential runs: 12 sketcher types x 3 parameterisations, two instances in one thread, eight threads, two processes",
]
ASSUMPTIONS = ["thread interleavings and address-space layout cannot be exhibited by a Coq model; the argument is: no shared "
               "mutable state exists (audit) plus the differential runs",
               "std HashMap semantics (get/insert/clear) do not depend on its RandomState keys"]


def correspond(run):
    outs = []
    for i in range(2):     # two processes
        rc, js, out, err = vlib.harness(["purity", "--seed", run.seed] + (["--order", "rev"] if i == 1 else []), timeout=900)
        if rc != 0 or js is None:
            run.oblige("differential:purity-run", "correspondence", False, (out[-300:] + err[-300:]))
            return
        outs.append(js)
    a, b = outs
    for d in a["diffs"] + b["diffs"]:
        run.violation("impure-" + d["sketcher"], "%s: sketches differ between %s (configuration %d)" % (d["sketcher"], d["where"], d["cfg"]),
                      {"kind": "impl-input", "sketcher": d["sketcher"], "input": {"cfg": d["cfg"], "seed": run.seed}, "observed": d["where"]})
    bmap = {y["cfg"]: y for y in b["sketches"]}
    for x in a["sketches"]:
        y = bmap.get(x["cfg"]) or {"words": []}
        if x["words"] != y["words"]:
            run.violation("impure-" + x["sketcher"], "%s: sketches differ between two processes that run the same configurations in opposite orders (configuration %d)" % (x["sketcher"], x["cfg"]),
                          {"kind": "impl-input", "sketcher": x["sketcher"], "input": {"cfg": x["cfg"], "seed": run.seed},
                           "observed": {"process1": x["words"][:8], "process2": y["words"][:8]}})
    run.add_cases(len(a["sketches"]) * 11, len(a["sketches"]),
                  [{"sketcher": s["sketcher"], "cfg": s["cfg"], "first_words": s["words"][:4]} for s in a["sketches"][:3]],
                  rule="every sketcher type and entry point (22) x 3 parameterisations: instance 1, instance 2, 8 concurrent threads, and the "
                       "same again in a second process that runs the configurations in the opposite order; all compared bitwise; non-trivial = one per configuration")
    run.oblige("differential:two-processes", "correspondence", True, "")


def replay(path):
    rep = json.load(open(path))
    print(json.dumps(rep.get("input")))
    return 0
