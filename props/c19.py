"""C19: invertible integer hashes.  Model regenerated from src/invhash.rs."""
import os
import vlib
import tr_invhash
from rustexpr import Untranslatable

ID = "C19"
LEVEL = "proof"
PROPERTIES_MODULE = "Properties.C19"
COQ_TARGETS = ["Properties/C19.vo"]
THEOREMS = ["C19_int64_inverse_left", "C19_int64_inverse_right",
            "C19_int32_inverse_left", "C19_int32_inverse_right", "C19_ranges"]
AXIOMS_ALLOWED = []
TRUSTED_BASE = [
    "translate/tr_invhash.py + translate/rustexpr.py (Rust subset -> Z with explicit mod 2^w); "
    "validated on every run against the compiled functions",
    "rustc's semantics of wrapping_add/sub/mul, <<, >>, ^, ! on u32/u64",
]
ASSUMPTIONS = ["the four functions in src/invhash.rs stay inside the translator's grammar (else: broken obligation)"]


def translate(run):
    try:
        txt = tr_invhash.generate(vlib.REPO)
    except Untranslatable as e:
        return False, "src/invhash.rs is outside the translator's grammar: %s" % e
    tr_invhash.write_if_changed(os.path.join(vlib.COQ, "Gen", "InvHashGen.v"), txt)
    return True, ""


TRANSLATORS = [("invhash", translate)]


def correspond(run):
    """translator validation: generated Coq functions vs the compiled Rust functions"""
    n = 3000 if run.depth == "quick" else 60000
    rc, js, out, err = vlib.harness(["invhash-vectors", "--seed", run.seed, "--n", n])
    if rc != 0 or js is None:
        run.oblige("correspondence:invhash-vectors", "correspondence", False, (out + err)[-800:])
        return
    cases = js["cases"]
    if not run.obligations or not all(o["ok"] for o in run.obligations if o["kind"] == "translation"):
        return
    header = "From Coq Require Import ZArith List. Import ListNotations.\n" \
             "From PMH Require Import Lib.BitVec Gen.InvHashGen.\nOpen Scope Z_scope.\n" \
             "Definition chk (c : list Z) : bool := match c with [x; h; hi; y; g; gi] => " \
             "(int64_hash x =? h) && (int64_hash_inverse x =? hi) && (int32_hash y =? g) && (int32_hash_inverse y =? gi) " \
             "| _ => false end.\n" \
             "Definition bad (cs : list (list Z)) := filter (fun c => negb (chk c)) cs.\n"
    shard = 1500
    jobs = []
    for i in range(0, len(cases), shard):
        part = cases[i:i + shard]
        lit = "[" + "; ".join(vlib.zlist(c) for c in part) + "]"
        jobs.append(("c19_%d" % (i // shard), header, ["bad %s" % lit]))
    res = vlib.run_coq_cases_parallel(jobs)
    bad = []
    for r in res:
        if isinstance(r, Exception):
            run.oblige("correspondence:invhash-model-eval", "correspondence", False, str(r))
            return
        bad.extend(r[0])
    distinct = set(c[0] for c in cases)
    nontriv = len([x for x in distinct if bin(x).count("1") >= 2])
    run.add_cases(len(cases), nontriv,
                  [{"x": c[0], "int64_hash": c[1], "int64_hash_inverse": c[2], "x32": c[3],
                    "int32_hash": c[4], "int32_hash_inverse": c[5]} for c in cases[200:203]],
                  rule="structured 64-bit values (0, all-ones, single bits, adjacent pairs, 2^k+-1, carries across every "
                       "shift distance) plus seeded random values; each compared between the generated Coq functions "
                       "(vm_compute) and the compiled Rust functions; non-trivial = distinct value with >= 2 set bits")
    run.oblige("correspondence:translator-validation", "correspondence", not bad,
               "generated model and compiled code differ on %d inputs, e.g. %s" % (len(bad), bad[:2]))


def _search(run, n, debug=False):
    rc, js, out, err = vlib.harness(["invhash-search", "--seed", run.seed, "--n", n], timeout=900, debug=debug)
    if rc != 0 or js is None:
        run.oblige("direct:invhash-search", "correspondence", False, (out + err)[-800:])
        return None
    return js


def direct(run):
    """the property itself on the implementation (cheap): structured + random values"""
    js = _search(run, 300000 if run.depth == "quick" else 20000000)
    if js is None:
        return
    run.coverage["impl_values_checked"] = js["tried"]
    for f in js["found"]:
        run.violation("roundtrip-%d" % f["width"],
                      "%s fails for the %d-bit pair at x=%d (%s)%s" % (f["identity"], f["width"], f["x"], "panics" if f.get("panic") else "got %d" % f["got"],
                                                                       " in a " + f["build"] + " build" if f.get("build") else ""),
                      {"kind": "impl-input", "function": "int%d_hash / int%d_hash_inverse" % (f["width"], f["width"]),
                       "identity": f["identity"], "input": f["x"], "expected": f["x"], "observed": f["got"]})


def search(run):
    if run.violations:
        return
    js = _search(run, 20000000)
    found = list(js["found"]) if js else []
    if not found:
        # overflow checks: the same sweep on a debug build (a checked addition that wraps in release panics there)
        okd, _ = vlib.harness_build(debug=True)
        if okd:
            jd = _search(run, 200000, debug=True)
            found = [dict(f, build="debug (overflow checks on)") for f in (jd["found"] if jd else [])]
    for f in found:
        run.violation("roundtrip-%d" % f["width"],
                      "%s fails for the %d-bit pair at x=%d (%s)%s" % (f["identity"], f["width"], f["x"], "panics" if f.get("panic") else "got %d" % f["got"],
                                                                       " in a " + f["build"] + " build" if f.get("build") else ""),
                      {"kind": "impl-input", "function": "int%d_hash / int%d_hash_inverse" % (f["width"], f["width"]),
                       "identity": f["identity"], "input": f["x"], "expected": f["x"], "observed": f["got"]})


def replay(path):
    import json
    rep = json.load(open(path))
    if rep.get("kind") == "impl-input":
        ok, log = vlib.harness_build()
        rc, js, out, err = vlib.harness(["invhash-replay", "--x", rep["input"]])
        print(out.strip())
        return 0
    print("obligation replay: re-run ./check C19; broken: %s" % [b["name"] for b in rep.get("broken", [])])
    return 0
