"""C15: max value tracker.  Hand model (Model/Tracker.v), correspondence through hook H1."""
import json
import vlib

ID = "C15"
LEVEL = "proof"
PROPERTIES_MODULE = "Properties.C15"
COQ_TARGETS = ["Properties/C15.vo", "Model/TrackerRun.vo"]
THEOREMS = ["C15_tracker_history", "C15_tracker_update", "C15_tracker_root", "C15_tracker_reset"]
AXIOMS_ALLOWED = []
TRUSTED_BASE = [
    "hand-written model coq/Model/Tracker.v of src/maxvaluetrack.rs, tied to the code by the per-run "
    "correspondence (all 2m-1 nodes, maximum after every operation, is_update_possible probes, panic class)",
    "harness/src/tracker.rs (drives the crate-private tracker through the guarded wrapper verif_hooks::VerifTracker)",
    "values are compared as integers: u32 / i32 as themselves, non-negative f64 as IEEE bit patterns (order-isomorphic)",
]
ASSUMPTIONS = ["values offered to the tracker are totally ordered (no NaN): the crate only offers finite or +inf race values",
               "m >= 1 (m = 0 underflows in new; excluded by the property)"]


def coq_case(c):
    ops = "[" + "; ".join(vlib.zlist(o) for o in c["ops"]) + "]"
    oc = 0 if c["outcome"] == "ok" else 1
    return "((%d, %s)%%Z, %s, (%d%%Z, %s, %s))" % (c["m"], c["maxv"], ops, oc, vlib.zlist(c["nodes"]), vlib.zlist(c["obs"]))


HEADER = ("From Coq Require Import ZArith List. Import ListNotations.\n"
          "From PMH Require Import Lib.ListArr Model.Tracker Model.TrackerRun.\nOpen Scope Z_scope.\n")


def correspond(run):
    n = 2000 if run.depth == "quick" else 20000
    rc, js, out, err = vlib.harness(["tracker-cases", "--seed", run.seed, "--n", n], timeout=900)
    if rc != 0 or js is None:
        run.oblige("correspondence:tracker-cases", "correspondence", False, (out + err)[-800:])
        return
    cases = js["cases"]
    shard = 150
    jobs = []
    for i in range(0, len(cases), shard):
        part = cases[i:i + shard]
        lit = "[" + ";\n ".join(coq_case(c) for c in part) + "]"
        jobs.append(("c15_%d" % (i // shard), HEADER, ["bad_cases 0 %s" % lit]))
    res = vlib.run_coq_cases_parallel(jobs)
    bad = []
    for ji, r in enumerate(res):
        if isinstance(r, Exception):
            run.oblige("correspondence:tracker-model-eval", "correspondence", False, str(r))
            return
        for b in r[0]:
            bad.append((ji * shard + b[0], b[1]))
    # coverage: distinct and non-trivial = at least one update propagated to an internal node and a tie or
    # non-improving update occurred; measured from the observations
    seen = set()
    nontriv = 0
    dist = {"m": {}, "ty": {}, "ops": 0, "panic": 0, "resets": 0, "probes": 0}
    for c in cases:
        key = json.dumps([c["ty"], c["m"], c["ops"]])
        dist["m"][str(c["m"])] = dist["m"].get(str(c["m"]), 0) + 1
        dist["ty"][c["ty"]] = dist["ty"].get(c["ty"], 0) + 1
        dist["ops"] += len(c["ops"])
        dist["panic"] += 1 if c["outcome"] != "ok" else 0
        dist["resets"] += len([o for o in c["ops"] if o[0] == 1])
        dist["probes"] += len([o for o in c["ops"] if o[0] == 2])
        if key in seen:
            continue
        seen.add(key)
        mx = c["maxv"]
        if c["outcome"] == "ok" and c["m"] >= 2 and any(o != mx for o in c["obs"] if o not in ("0", "1")):
            nontriv += 1
    run.add_cases(len(cases), nontriv,
                  [{"ty": c["ty"], "m": c["m"], "ops": c["ops"][:12], "n_ops": len(c["ops"]), "outcome": c["outcome"],
                    "root": c["nodes"][-1] if c["nodes"] else None} for c in cases[:3]],
                  rule="seeded random update/reset/probe sequences (m in 1..40, odd/even/powers of two; 4-value alphabets "
                       "forcing ties and equal siblings, small and wide ranges; u32, i32, f64; 4% malformed streams with "
                       "slot >= m); non-trivial = distinct case with m >= 2 whose reported maximum dropped below the type "
                       "maximum at least once (i.e. every slot was filled and propagation reached the root)",
                  extra=dist)
    run.oblige("correspondence:tracker", "correspondence", not bad,
               "model and implementation differ on %d cases; first: case %s model=%s impl=%s" % (
                   len(bad), bad[0][0] if bad else "", bad[0][1] if bad else "",
                   json.dumps(cases[bad[0][0]])[:600] if bad else ""))
    run._c15_bad = [cases[b[0]] for b in bad[:3]]


def _report(run, js):
    for f in js["found"]:
        run.violation("tracker-oracle", "tracker disagrees with per-slot minima: %s (%s, m=%d, %d ops)" % (
            f["why"], f["ty"], f["m"], len(f["ops"])),
            {"kind": "impl-input", "sketcher": "MaxValueTracker<%s>" % f["ty"], "params": {"m": f["m"]},
             "input": {"ty": f["ty"], "m": f["m"], "ops": f["ops"]}, "observed": f["why"],
             "expected": "slot value = min offered; maximum = largest slot value; is_update_possible(v) <-> v < maximum"})


def direct(run):
    n = 4000 if run.depth == "quick" else 100000
    rc, js, out, err = vlib.harness(["tracker-search", "--seed", run.seed, "--n", n], timeout=900)
    if rc != 0 or js is None:
        run.oblige("direct:tracker-search", "correspondence", False, (out + err)[-800:])
        return
    run.coverage["impl_sequences_checked_against_oracle"] = js["tried"]
    _report(run, js)
    # the same with trace-level logging on (the arguments of the crate's log lines are then evaluated)
    rc, js, out, err = vlib.harness(["tracker-search", "--seed", run.seed + 3, "--n", max(1000, n // 4)], timeout=900, trace=True)
    if rc != 0 or js is None:
        run.violation("tracker-trace-logging", "with trace-level logging enabled the tracker run dies (status %s): %s" % (rc, (err or out)[-200:]),
                      {"kind": "impl-input", "input": {"command": "VERIF_TRACE=1 pmh-harness tracker-search --seed %d" % (run.seed + 3)}, "observed": rc})
        return
    for f in js["found"][:1]:
        f = dict(f)
        f["why"] = "with trace-level logging enabled: " + f.get("why", "")
        _report(run, {"found": [f], "tried": js["tried"]})


def search(run):
    if run.violations:
        return
    rc, js, out, err = vlib.harness(["tracker-search", "--seed", run.seed + 1, "--n", 300000], timeout=1500)
    if rc == 0 and js is not None:
        _report(run, js)


def replay(path):
    rep = json.load(open(path))
    if rep.get("kind") == "impl-input":
        vlib.harness_build()
        rc, js, out, err = vlib.harness(["tracker-replay", "--case", json.dumps(rep["input"])])
        print(out.strip())
        return 0
    print("obligation replay: re-run ./check C15; broken: %s" % [b["name"] for b in rep.get("broken", [])])
    return 0
