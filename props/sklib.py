"""shared code of the unweighted-sketcher properties (C04, C05, C09, C13, C03)"""
import json
import os
import re
import vlib
import tr_flags
from rustexpr import Untranslatable


def _translate(name):
    def tr(run):
        try:
            txt = tr_flags.GENERATORS[name](vlib.REPO)
        except Untranslatable as e:
            return False, "source outside the modelled alternatives: %s" % e
        path = os.path.join(vlib.COQ, "Gen", name + ".v")
        old = open(path).read() if os.path.exists(path) else None
        if old != txt:
            open(path, "w").write(txt)
        return True, ""
    return tr


translate_flags_smh = _translate("FlagsSmh")
translate_flags_dens = _translate("FlagsDens")
translate_flags_ord = _translate("FlagsOrd")
translate_flags_json = _translate("FlagsJson")


def _flag(fname, name):
    txt = open(os.path.join(vlib.COQ, "Gen", fname + ".v")).read()
    m = re.search(r"Definition %s : bool := (true|false)\." % name, txt)
    return 1 if (m and m.group(1) == "true") else 0


def flags():
    return {"smh_hist_by_floor": _flag("FlagsSmh", "smh_hist_by_floor"),
            "dens_tie_on_hash": _flag("FlagsDens", "dens_tie_on_hash"),
            "dens_report_empty": _flag("FlagsDens", "dens_report_empty")}


CHUNK = 1200


def correspond_sk(run, n, kind):
    """history cases of one sketcher kind (or 'all') through the extracted model, in chunks of CHUNK cases so that the
    decoded wires of a thorough run never sit in memory together (a 10 000-case run held 11 GB). returns (cases, codes);
    the cases keep the first 400 words of their wire and its length"""
    all_cases, all_codes = [], []
    for ci, start in enumerate(range(0, int(n), CHUNK)):
        cases, codes = _correspond_sk_chunk(run, min(CHUNK, int(n) - start), kind, int(run.seed) + 1000003 * ci)
        if cases is None:
            return None, None
        for c in cases:
            c["wire_len"] = len(c["wire"])
            c["wire"] = c["wire"][:400]
            c["meta"]["case_seed"] = int(run.seed) + 1000003 * ci
        all_cases += cases
        all_codes += codes
    return all_cases, all_codes


def _correspond_sk_chunk(run, n, kind, seed):
    fl = flags()
    args = ["sk-cases", "--seed", seed, "--n", n, "--kind", kind, "--hist-by-floor", fl["smh_hist_by_floor"],
            "--tie-on-hash", fl["dens_tie_on_hash"], "--report-empty", fl["dens_report_empty"]]
    rc, js, out, err = vlib.harness(args, timeout=1800)
    if rc != 0 or js is None:
        run.oblige("correspondence:sk-cases", "correspondence", False, (out[-400:] + err[-400:]))
        return None, None
    cases = js["cases"]
    ok, log = vlib.build_modelrun()
    if not ok:
        run.oblige("correspondence:extracted-runner", "correspondence", False, log[-800:])
        return None, None
    try:
        res = vlib.modelrun([[int(x) for x in c["wire"]] for c in cases])
        codes = [r[0] for r in res]
        scale = 1
        for _ in range(3):
            ex = [i for i, cd in enumerate(codes) if cd == 1]
            if not ex:
                break
            scale *= 4
            rc, js2, out, err = vlib.harness(args + ["--only", ",".join(str(cases[i]["index"]) for i in ex), "--scale", scale], timeout=1800)
            if rc != 0 or js2 is None:
                break
            sub = js2["cases"]
            subres = vlib.modelrun([[int(x) for x in c["wire"]] for c in sub])
            for i, c2, r in zip(ex, sub, subres):
                cases[i] = c2
                codes[i] = r[0]
    except Exception as ex:   # noqa
        run.oblige("correspondence:sk-model-eval", "correspondence", False, str(ex)[-1200:])
        return None, None
    return cases, codes


def report_cases(run, cases, codes, name, rule):
    bad = [(c, cd) for c, cd in zip(cases, codes) if cd != 0]
    dist = {}
    seen = set()
    nontriv = 0
    for c in cases:
        k = c["meta"]["kind"] + ("/" + str(c["meta"].get("float")) if c["meta"].get("float") else "")
        dist[k] = dist.get(k, 0) + 1
        key = json.dumps(c["wire"][:400])
        if key not in seen:
            seen.add(key)
            if c["meta"].get("nops", 1) >= 2 and c.get("wire_len", len(c["wire"])) > 60:
                nontriv += 1
    run.add_cases(len(cases), nontriv, [dict(c["meta"], wire_words=c.get("wire_len", len(c["wire"]))) for c in cases[:3]], rule=rule,
                  extra={"kinds": dist, "exhausted_after_retries": len([1 for _, cd in bad if cd == 1])})
    run.oblige("correspondence:" + name, "correspondence", not bad,
               "%d of %d histories differ (1 = data exhausted, 2 = state differs, 3 = model error, -1 = wire); first: %s" % (
                   len(bad), len(cases), json.dumps({"code": bad[0][1], "meta": bad[0][0]["meta"], "index": bad[0][0]["index"]}) if bad else ""))


def direct_props(run, keys_prefixes, n=None):
    """implementation-level clause checks (sk-props); reports the violation classes whose key starts with one of the prefixes"""
    n = n or (300 if run.depth == "quick" else 5000)
    rc, js, out, err = vlib.harness(["sk-props", "--seed", run.seed, "--n", n], timeout=2400)
    if rc != 0 or js is None:
        run.oblige("direct:sk-props", "correspondence", False, (out[-400:] + err[-400:]))
        return
    run.coverage["impl_streams_checked"] = js["tried"]
    for f in js["found"]:
        if any(f["key"].startswith(p) for p in keys_prefixes):
            run.violation(f["key"], f["text"], {"kind": "impl-input", "input": f["input"], "observed": f["text"],
                                                "expected": "property %s" % run.pid})


def replay_generic(pid, path):
    rep = json.load(open(path))
    if rep.get("kind") == "impl-input":
        print(json.dumps({"replay": "re-run `harness/target/release/pmh-harness sk-props` on the recorded input", "input": rep.get("input"),
                          "observed": rep.get("observed")})[:3000])
        return 0
    print("obligation replay: re-run ./check %s; broken: %s" % (pid, [b["name"] for b in rep.get("broken", [])]))
    return 0


def flags_ord():
    return _flag("FlagsOrd", "ord_break_on_reject")
