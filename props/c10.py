"""C10: ProbOrdMinHash2 collision probability equals the order-min-hash similarity."""
import json
import os
import vlib
import tr_pmhformulas
from rustexpr import Untranslatable
from props import sklib, setflib

ID = "C10"
LEVEL = "proof"
PROPERTIES_MODULE = "Properties.C10"
COQ_TARGETS = ["Properties/C10.vo", "Model/Dispatch.vo"]
THEOREMS = ["C10_source_flag", "C10_slot_update", "C10_slot_is_l_lowest", "C10_increments_are_spacings", "C10_source_increment_is_the_proved_increment"]
AXIOMS_ALLOWED = setflib.REAL_AXIOMS


def translate_formulas(run):
    try:
        txt = tr_pmhformulas.generate(vlib.REPO)
    except Untranslatable as e:
        return False, "constructor formulas outside the expected form: %s" % e
    path = os.path.join(vlib.COQ, "Gen", "PmhFormulas.v")
    old = open(path).read() if os.path.exists(path) else None
    if old != txt:
        open(path, "w").write(txt)
    return True, ""


TRANSLATORS = [("flags-ord", sklib.translate_flags_ord), ("pmh-formulas", translate_formulas), ("pmh-formulas-from-source", setflib.translate_src("pmh"))]
TRUSTED_BASE = [
    "hand model coq/Model/OrdMinHash.v tied to the code by per-run correspondence on the selected indices and values of every slot",
    "pair scripts are drawn through Exp1 and FYshuffle from the generator seeded with (element hash, occurrence number, seed)",
    "translate/tr_flags.py, translate/tr_pmhformulas.py (increments g); extraction (ExtrOcamlBasic) + ocaml/driver.ml",
    "real-number axioms of the Coq standard library for the spacing identity only",
]
ASSUMPTIONS = ["PARTIAL: the expectation is not a theorem. Proved: every slot holds the l lowest-valued pairs among all pairs "
               "(C10_slot_is_l_lowest), i.e. the collision event is the one the property names, for the ranking of the pairs by their "
               "value in that slot; assumed: that this ranking is uniform (exchangeability of the pairs' races) and the Renyi "
               "representation of exponential order statistics",
               "Monte-Carlo runs are a search aid after a broken obligation (|z| > 6), never a pass criterion"]


def correspond(run):
    n = 500 if run.depth == "quick" else 5000
    rc, js, out, err = vlib.harness(["ord-cases", "--seed", run.seed + 10, "--n", n, "--break-on-reject", sklib.flags_ord()], timeout=1200)
    if rc != 0 or js is None:
        run.oblige("correspondence:ord-cases", "correspondence", False, (out[-300:] + err[-300:]))
        return
    cases = js["cases"]
    ok, log = vlib.build_modelrun()
    if not ok:
        run.oblige("correspondence:extracted-runner", "correspondence", False, log[-800:])
        return
    res = vlib.modelrun([[int(x) for x in c["wire"]] for c in cases])
    bad = [(c["meta"], c["index"], r[0]) for c, r in zip(cases, res) if r[0] != 0]
    run.add_cases(len(cases), len(set(json.dumps(c["wire"][:300]) for c in cases if c["meta"]["len"] > c["meta"]["l"])),
                  [c["meta"] for c in cases[:3]],
                  rule="as C11: sequences with and without repeats, m 1..32, l 1..6; selected indices and values of every slot compared")
    run.oblige("correspondence:ordminhash", "correspondence", not bad, "%d differ; first %s" % (len(bad), bad[:2]))
    # hypotheses of the probabilistic reading, monitored on every case: scripts well formed, and no two pairs share a value
    shared = [c["meta"] for c, r in zip(cases, res) if len(r) > 3 and r[3] != 1]
    run.coverage["hypothesis_monitors"] = {
        "pairs_ok": round(sum(1 for r in res if len(r) > 1 and r[1] == 1) / max(1, len(res)), 4),
        "pair_races_share_no_value": round(1 - len(shared) / max(1, len(res)), 4)}
    run.oblige("hypotheses:pair-races-share-no-value", "correspondence", not shared,
               "%d of %d sequences have two (element, occurrence) pairs whose races share a value; first m=%s l=%s data=%s" % (
                   len(shared), len(res), shared[0]["m"] if shared else "", shared[0]["l"] if shared else "",
                   shared[0]["data"] if shared else ""))
    if shared:
        c = min(shared, key=lambda x: x["len"])
        run.notes.append({"shared_value_case": c})


def direct(run):
    # identical sequences collide with probability 1 wherever they are sketched; a slot's winner among distinct elements is
    # equally likely to come from either half (only reported from sizes suggested by a source change)
    rc, js, out, err = vlib.harness(["ord-props", "--seed", run.seed, "--n", 200 if run.depth == "quick" else 2000], timeout=1800)
    if rc != 0 or js is None:
        run.oblige("direct:ord-props", "correspondence", False, (out[-300:] + err[-300:]))
        return
    run.coverage["impl_sequences_checked"] = js["tried"]
    for f in js["found"]:
        if f["key"] in ("ord-history", "ord-panic", "ord-late-winners", "ord-l1-perm"):
            run.violation(f["key"], f["text"], {"kind": "impl-input", "sketcher": "ProbOrdMinHash2", "input": f["input"], "observed": f["text"]})


def search(run):
    rc, js, out, err = vlib.harness(["ord-mc", "--seed", run.seed, "--trials", 3000], timeout=3000)
    if rc == 0 and js is not None:
        for f in js["found"][:1]:
            run.violation("ord-bias", "ProbOrdMinHash2 l=1, m=%d, %s: mean match fraction %.5f vs %.5f (z = %.1f over %d trials)" % (
                f["m"], f["family"], f["mean"], f["j"], f["z"], f["trials"]),
                {"kind": "impl-input", "input": f, "observed": f["mean"], "expected": f["j"]})
    # sequences with repeated elements against the exact probability (all rankings of the pairs enumerated)
    rc, js, out, err = vlib.harness(["ord-mc-rep", "--seed", run.seed, "--trials", 3000], timeout=3000)
    if rc == 0 and js is not None:
        worst = sorted([r for r in js["rows"] if abs(r["z"]) > 6], key=lambda r: -abs(r["z"]))
        for f in worst[:1]:
            run.violation("ord-bias-repeats", "ProbOrdMinHash2 %s (sequences with repeated elements), l=%d, m=%d: mean match fraction %.5f, "
                          "exact order-min-hash probability %.5f (z = %.1f over %d trials)" % (
                              f["family"], f["l"], f["m"], f["mean"], f["p"], f["z"], f["trials"]),
                          {"kind": "impl-input", "input": f, "observed": f["mean"], "expected": f["p"]})


def replay(path):
    rep = json.load(open(path))
    if rep.get("kind") == "impl-input" and isinstance(rep.get("input"), dict) and "a" in rep["input"]:
        vlib.harness_build()
        rc, js, out, err = vlib.harness(["ord-replay", "--case", json.dumps(rep["input"])])
        print(json.dumps({"input": {k: (v if not isinstance(v, list) or len(v) < 40 else "%d elements" % len(v)) for k, v in rep["input"].items()},
                          "observed_now": js, "recorded": rep.get("observed")})[:3000])
        return 0
    return sklib.replay_generic(ID, path)
