"""the counting estimator a property relies on ("estimator = matching positions / m"): per-property translation
of just the functions that property names, and an implementation-level search for a failing pair of sketches"""
import os
import struct
from fractions import Fraction
import vlib
import tr_estimators
from rustexpr import Untranslatable

GROUPS = {
    "EstPmh": (["jaccard_compute_probminhash_jaccard"], "pmh_estimators"),
    "EstIdx": (["jaccard_get_jaccard_index_estimate"], "idx_estimators"),
    "EstSmh": (["smh_method_get_jaccard_index_estimate", "smh_compute_superminhash_jaccard", "smh_get_jaccard_index_estimate",
                "smh2_method_get_jaccard_index_estimate", "smh2_compute_superminhash_jaccard", "smh2_get_jaccard_index_estimate"],
               "smh_estimators"),
}


def translator(group):
    names, listname = GROUPS[group]

    def tr(run):
        try:
            txt = tr_estimators.generate(vlib.REPO, only=names, listname=listname)
        except Untranslatable as e:
            return False, "an estimator body is outside the templates: %s" % e
        tr_estimators.write_if_changed(os.path.join(vlib.COQ, "Gen", group + ".v"), txt)
        return True, ""
    return ("estimator-" + group, tr)


def _bits(count, n, res):
    x = float(Fraction(count, n))
    if res == "f64":
        return struct.unpack("<Q", struct.pack("<d", x))[0]
    return struct.unpack("<I", struct.pack("<f", x))[0]


def search(run, group):
    """real estimator functions of the group on generated sketch pairs against count/len computed here"""
    names, _ = GROUPS[group]
    rc, js, out, err = vlib.harness(["est-cases", "--seed", run.seed, "--n", 400], timeout=900)
    if rc != 0 or js is None:
        return
    for c in js["cases"]:
        if c["est"] not in names:
            continue
        la, lb = len(c["a"]), len(c["b"])
        if la != lb:
            if c["outcome"] == "ok":
                run.violation("est-length-mismatch", "%s on sketches of lengths %d and %d returns a value instead of reporting the mismatch" % (
                    c["est"], la, lb), {"kind": "impl-input", "input": {"estimator": c["est"], "type": c["ty"], "a": c["a"], "b": c["b"]},
                                        "observed": {"outcome": c["outcome"], "bits": c["bits"]}})
                return
            continue
        if la == 0:
            continue
        cnt = sum(1 for x, y in zip(c["a"], c["b"]) if x == y)
        if c["outcome"] != "ok" or _bits(cnt, la, c["res"]) != c["bits"]:
            run.violation("est-not-exact", "%s on two sketches of length %d with %d equal positions does not return %d/%d (outcome %s, bits %s)" % (
                c["est"], la, cnt, cnt, la, c["outcome"], c["bits"]),
                {"kind": "impl-input", "input": {"estimator": c["est"], "type": c["ty"], "a": c["a"], "b": c["b"]},
                 "observed": {"outcome": c["outcome"], "bits": c["bits"]}, "expected": {"count": cnt, "len": la}})
            return
