"""C02: a ProbMinHash signature is a function of the weighted set alone."""
import json
import vlib
from props import pmhlib

ID = "C02"
LEVEL = "proof"
PROPERTIES_MODULE = "Properties.C02"
COQ_TARGETS = ["Properties/C02.vo", "Model/Dispatch.vo"]
THEOREMS = ["C02_pmh3_characterised", "C02_pmh3a_characterised", "C02_pmh2_characterised", "C02_final_registers",
            "C02_final_signature", "C02_pmh3_set_semantics", "C02_pmh3a_set_semantics", "C02_pmh2_set_semantics",
            "C02_pmh3_equals_pmh3a", "C02_union", "C02_signature_member", "C02_monotone_relabelling",
            "C02_pmh2_item_total"]
AXIOMS_ALLOWED = []
TRUSTED_BASE = [
    "hand-written model coq/Model/ProbMinHash.v of probminhash2.rs / probminhash3.rs / probminhash3sha.rs (control "
    "structures verbatim: pruning on the tracker maximum, lower-bound breaks, 3a buffer and rounds, variant-2 break and "
    "assert); compared each run with the real sketchers on registers (hook verif_registers) and signatures",
    "draw scripts: harness/src/pmh.rs re-seeds Xoshiro256++ from the same hash (FNV / colliding test hasher / Sha512_256) and "
    "calls ExpRestricted01, Uniform<usize>, Exp1 and FYshuffle in the specified order, evaluating winv*x, winv*i, h+=... "
    "with the same float operations; agreement of outputs pins this mirror",
    "extraction of the models to OCaml (ExtrOcamlBasic only; Z/positive/nat stay inductive; no Extract Constant) and "
    "ocaml/driver.ml (decimal I/O) for the high-volume correspondence",
    "the tracker is composed in through C15 (pmax = largest register)",
    "race values as integers: IEEE bit patterns of non-negative doubles (order-isomorphic)",
]
ASSUMPTIONS = ["theorems are conditional on the run being Done (the script prefix sufficed); the harness re-sends longer "
               "prefixes until it is",
               "script well-formedness lb_i <= h_i <= lb_{i+1} (can fail by one ulp with probability ~ i*2^-52 per draw; "
               "monitored per case and reported below)",
               "identity layer under tie_free (no two distinct items attain a slot's minimum); monitored per case",
               "weights positive and finite"]


def correspond(run):
    n = 600 if run.depth == "quick" else 6000
    cases, codes = pmhlib.correspond_pmh(run, n)
    if cases is None:
        return
    bad = [(c, cd) for c, cd in zip(cases, codes) if cd != 0]
    # monitors
    mon = vlib.modelrun([pmhlib.wire_case(c, code=21) for c in cases])
    wf_bad = len([m for m in mon if m[0] != 1])
    ties = len([m for m in mon if len(m) > 1 and m[1] != 1])
    seen = set()
    nontriv = 0
    dist = {"variant": {}, "hasher": {}, "entry": {}, "items": 0, "points_sent": 0, "scripts_not_wf": wf_bad,
            "cases_with_ties": ties, "exhausted_after_retries": len([1 for _, cd in bad if cd == 1])}
    for c in cases:
        dist["variant"][c["variant"]] = dist["variant"].get(c["variant"], 0) + 1
        dist["hasher"][c["hasher"]] = dist["hasher"].get(c["hasher"], 0) + 1
        ni = 0
        for call in c["calls"]:
            dist["entry"][call["entry"]] = dist["entry"].get(call["entry"], 0) + 1
            ni += len(call["items"])
            dist["points_sent"] += sum(len(it["script"]) for it in call["items"])
        dist["items"] += ni
        key = json.dumps([c["variant"], c["m"], [[it["id"], it["w"]] for call in c["calls"] for it in call["items"]]])
        if key not in seen:
            seen.add(key)
            # non-trivial: several items and every register was improved (pruning was active)
            if ni >= 2 and all(r != c["maxv"] for r in c["regs"]):
                nontriv += 1
    run.add_cases(len(cases), nontriv,
                  [{"variant": c["variant"], "hasher": c["hasher"], "m": c["m"],
                    "calls": [[call["entry"], [[it["id"], it["w"]] for it in call["items"]][:4]] for call in c["calls"]][:3],
                    "sig": c["sig"][:6]} for c in cases[:2]],
                  rule="weighted sets of 1..60 items (repeated pairs included), m 2..48, weights equal / small integers / "
                       "log-uniform 1e-300..1e300 / powers of two, FNV or a colliding hasher (forces exact ties) or Sha512_256; "
                       "every entry point (hash_item, hash_wset, IndexMap, HashMap) and random batch splits; compared: all m "
                       "registers (bit patterns) and the signature; non-trivial = distinct case with >= 2 items and every "
                       "register improved",
                  extra=dist)
    run.oblige("correspondence:probminhash", "correspondence", not bad,
               "%d of %d cases differ (code 1 = script exhausted after retries, 2 = state differs, 3 = model failure); first: %s" % (
                   len(bad), len(cases), json.dumps({"code": bad[0][1], "variant": bad[0][0]["variant"], "m": bad[0][0]["m"],
                                                     "index": bad[0][0]["index"], "impl_sig": bad[0][0]["sig"][:8],
                                                     "model": pmhlib.model_output(bad[0][0])})[:700] if bad else ""))
    run.oblige("monitor:scripts-well-formed", "correspondence", wf_bad <= max(1, len(cases) // 200),
               "%d of %d cases contain a script outside the well-formedness hypothesis" % (wf_bad, len(cases)))


def _report(run, js):
    for f in js["found"]:
        run.violation(f["key"], f["text"], {"kind": "impl-input", "sketcher": "ProbMinHash", "input": f["input"],
                                            "observed": f["text"], "expected": "C02"})


def direct(run):
    n = 400 if run.depth == "quick" else 6000
    rc, js, out, err = vlib.harness(["pmh-props", "--seed", run.seed, "--n", n], timeout=1800)
    if rc != 0 or js is None:
        run.oblige("direct:pmh-props", "correspondence", False, (out[-400:] + err[-400:]))
        return
    run.coverage["impl_weighted_sets_checked"] = js["tried"]
    _report(run, js)


def search(run):
    if [v for v in run.violations if v["key"] != "placeholder-after-overflow"]:
        return
    rc, js, out, err = vlib.harness(["pmh-props", "--seed", run.seed + 1, "--n", 20000], timeout=3000)
    if rc == 0 and js is not None:
        _report(run, js)


def replay(path):
    rep = json.load(open(path))
    if rep.get("kind") == "impl-input":
        vlib.harness_build()
        rc, js, out, err = vlib.harness(["pmh-props-replay", "--case", json.dumps(rep["input"])])
        print(json.dumps(js))
        return 0
    print("obligation replay: re-run ./check C02; broken: %s" % [b["name"] for b in rep.get("broken", [])])
    return 0
