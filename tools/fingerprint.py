#!/usr/bin/env python3
"""record a fingerprint (sha256 of the comment-stripped, whitespace-normalised text) of every source file of /repo
in fingerprints.json.  ./check compares the working tree with it: when a file a property is anchored in has changed,
the correspondence and the direct clauses of that property run at thorough-tier sizes (more cases, larger inputs)
even in the quick tier - never an alarm by itself.  Re-run after a change to /repo has been accepted (fix commit)."""
import json, os, sys
sys.path.insert(0, os.path.join(os.path.dirname(os.path.abspath(__file__)), ".."))
import vlib
fp = vlib.source_fingerprints()
json.dump({"repo_head": vlib.repo_head(), "files": fp, "literals": vlib.source_literals()}, open(os.path.join(vlib.VERIF, "fingerprints.json"), "w"), indent=1, sort_keys=True)
print("%d files" % len(fp))
