#!/usr/bin/env python3
"""markdown table of the behaviour-preserving refactors and the alarms they raise (refactors/*/R*/{meta,result}.json)"""
import glob, json, os, re
VERIF = os.path.dirname(os.path.dirname(os.path.abspath(__file__)))
rows, quiet, total, kinds = [], 0, 0, {}
for d in sorted(glob.glob(os.path.join(VERIF, "refactors", "*", "R*"))):
    meta = json.load(open(os.path.join(d, "meta.json"))) if os.path.exists(os.path.join(d, "meta.json")) else {}
    rp = os.path.join(d, "result.json")
    if not os.path.exists(rp):
        continue
    res = json.load(open(rp))
    total += 1
    summ = re.sub(r"\s+", " ", meta.get("summary", ""))
    summ = (summ[:140] + "…") if len(summ) > 140 else summ
    broken = set()
    concrete = []
    for cid, lines in res["lines"].items():
        for l in lines:
            if not l.startswith("VIOLATION"):
                continue
            m = re.search(r"obligations no longer check: (.*?) no-failing-input-found", l)
            if m:
                broken |= set(x.strip() for x in m.group(1).split(","))
            else:
                concrete.append(cid + ": " + re.sub(r"\s+", " ", l.split(".json", 1)[1].strip())[:120])
    if not res["caught_by"]:
        quiet += 1
    for b in broken:
        kinds[b.split(":")[0]] = kinds.get(b.split(":")[0], 0) + 1
    name = os.path.relpath(d, os.path.join(VERIF, "refactors"))
    rows.append("| %s | %s | %s | %s | %s |" % (name, summ.replace("|", "/"), ", ".join(res["caught_by"]) or "–",
                                               ", ".join(sorted(broken))[:160], "; ".join(concrete)[:200].replace("|", "/")))
print("%d of %d raise no alarm.  Kinds of broken obligations over all alarms: %s\n" % (quiet, total, kinds))
print("| refactor | what | alarms | broken obligation | failing input reported |")
print("|---|---|---|---|---|")
print("\n".join(rows))
