#!/usr/bin/env python3
"""run every translator once (setup); ./check re-runs the ones a property needs"""
import importlib
import os
import sys
sys.path.insert(0, os.path.join(os.path.dirname(os.path.abspath(__file__)), ".."))
import vlib

class _R:
    tier = "quick"
    seed = 0

bad = 0
for f in sorted(os.listdir(os.path.join(vlib.VERIF, "props"))):
    if not f.startswith("c") or not f.endswith(".py"):
        continue
    mod = importlib.import_module("props." + f[:-3])
    for name, fn in getattr(mod, "TRANSLATORS", []):
        try:
            ok, detail = fn(_R())
        except Exception as ex:
            ok, detail = False, repr(ex)
        print("translate %s/%s: %s %s" % (f[:-3], name, "ok" if ok else "FAILED", detail))
        bad += 0 if ok else 1
# a translator that fails leaves the previous Gen file in place; the check reports it
sys.exit(0)
