#!/usr/bin/env python3
"""apply each seeded change to /repo, run the quick checks, restore /repo.
usage: tools/seeded_eval.py [--checks C01,C02|all|own] [--jobs N] seeded/C05/A [seeded/...]
Never commits anything in /repo.  Writes <dir>/result.json."""
import json, os, subprocess, sys, time
from concurrent.futures import ThreadPoolExecutor
VERIF = os.path.dirname(os.path.dirname(os.path.abspath(__file__)))
ALL = ["C%02d" % i for i in range(1, 21)]


def sh(cmd, **kw):
    return subprocess.run(cmd, shell=True, stdout=subprocess.PIPE, stderr=subprocess.STDOUT, universal_newlines=True, **kw)


def run_check(cid):
    t = time.time()
    p = sh("cd %s && VERIF_SEED=${VERIF_SEED:-1} timeout 3000 ./check %s --tier quick" % (VERIF, cid))
    lines = [l for l in p.stdout.split("\n") if l.startswith("VIOLATION") or l.startswith("KNOWN-FINDING")]
    return cid, p.returncode, lines, round(time.time() - t, 1)


def main():
    args = sys.argv[1:]
    checks, jobs, dirs = "all", 4, []
    i = 0
    while i < len(args):
        if args[i] == "--checks":
            checks = args[i + 1]; i += 2
        elif args[i] == "--jobs":
            jobs = int(args[i + 1]); i += 2
        else:
            dirs.append(args[i]); i += 1
    st = sh("git -C /repo status --porcelain").stdout.strip()
    if st:
        print("/repo is not clean:\n" + st)
        return 2
    for d in dirs:
        d = os.path.abspath(d)
        own = os.path.basename(os.path.dirname(d))
        ids = ALL if checks == "all" else ([own] if checks == "own" else checks.split(","))
        a = sh("git -C /repo apply %s/patch.diff" % d)
        if a.returncode != 0:
            print("%s: patch does not apply: %s" % (d, a.stdout[-300:]))
            continue
        try:
            with ThreadPoolExecutor(max_workers=jobs) as ex:
                res = list(ex.map(run_check, ids))
        finally:
            sh("git -C /repo checkout -- .")
        caught = {cid: lines for cid, rc, lines, _ in res if rc != 0}
        out = {"seeded": os.path.relpath(d, VERIF), "property": own, "checks_run": ids,
               "caught_by": sorted(caught), "own_check_catches": own in caught,
               "lines": {cid: [l[:400] for l in lines] for cid, lines in caught.items()},
               "seconds": {cid: s for cid, _, _, s in res}}
        json.dump(out, open(os.path.join(d, "result.json"), "w"), indent=1)
        print("%s: own check %s; caught by %s" % (out["seeded"], "CATCHES" if out["own_check_catches"] else "MISSES", out["caught_by"]))
        for cid in sorted(caught):
            for l in caught[cid][:2]:
                print("    " + l[:260])
    # leave generated files as the clean tree produces them
    sh("cd %s && python3 tools/translate_all.py" % VERIF)
    return 0


if __name__ == "__main__":
    sys.exit(main())
