#!/usr/bin/env python3
"""apply each seeded change to /repo, run the quick checks, restore /repo.
usage: tools/seeded_eval.py [--checks C01,C02|all|own] [--jobs N] seeded/C05/A [seeded/...]
Never commits anything in /repo.  Writes <dir>/result.json."""
import json, os, subprocess, sys, time
from concurrent.futures import ThreadPoolExecutor
VERIF = os.path.dirname(os.path.dirname(os.path.abspath(__file__)))
ALL = ["C%02d" % i for i in range(1, 21)]


def sh(cmd, **kw):
    return subprocess.run(cmd, shell=True, stdout=subprocess.PIPE, stderr=subprocess.STDOUT, universal_newlines=True, **kw)


def run_check(cid):
    t = time.time()
    p = sh("cd %s && VERIF_SEED=${VERIF_SEED:-1} timeout 3000 ./check %s --tier quick" % (VERIF, cid))
    lines = [l for l in p.stdout.split("\n") if l.startswith("VIOLATION") or l.startswith("KNOWN-FINDING")]
    return cid, p.returncode, lines, round(time.time() - t, 1)


def main():
    args = sys.argv[1:]
    checks, jobs, dirs = "auto", 4, []
    i = 0
    while i < len(args):
        if args[i] == "--checks":
            checks = args[i + 1]; i += 2
        elif args[i] == "--jobs":
            jobs = int(args[i + 1]); i += 2
        else:
            dirs.append(args[i]); i += 1
    st = sh("git -C /repo status --porcelain").stdout.strip()
    if st:
        print("/repo is not clean:\n" + st)
        return 2
    for d in dirs:
        d = os.path.abspath(d)
        own = os.path.basename(os.path.dirname(d))
        if checks == "auto":
            touched = [l.split(" b/")[-1].strip() for l in open(os.path.join(d, "patch.diff")) if l.startswith("diff --git")]
            rel = {"probminhash2.rs": "C01 C02 C12 C13", "probminhash3.rs": "C01 C02 C12 C13", "probminhash3sha.rs": "C01 C02 C12 C18",
                   "superminhasher.rs": "C03 C04 C05 C13 C14", "superminhasher2.rs": "C03 C04 C13 C14",
                   "setsketcher.rs": "C04 C05 C06 C07 C13 C14 C20", "densminhash.rs": "C04 C08 C09 C12 C13",
                   "probordminhash2.rs": "C10 C11 C12 C13", "maxvaluetrack.rs": "C15 C02 C11", "fyshuffle.rs": "C17 C02 C04 C05",
                   "exp01.rs": "C16 C01 C02", "invhash.rs": "C19", "sig.rs": "C18", "jaccard.rs": "C14 C07 C08"}
            ids = sorted(set(([own] if own in ALL else []) + [c for t in touched for c in rel.get(os.path.basename(t), "").split()]))
        else:
            ids = ALL if checks == "all" else ([own] if checks == "own" else checks.split(","))
        a = sh("git -C /repo apply %s/patch.diff" % d)
        if a.returncode != 0:
            print("%s: patch does not apply: %s" % (d, a.stdout[-300:]))
            continue
        try:
            with ThreadPoolExecutor(max_workers=jobs) as ex:
                res = list(ex.map(run_check, ids))
        finally:
            sh("git -C /repo checkout -- .")
        # a check that exits non-zero without a VIOLATION line died (killed, out of memory): that is not a catch
        caught = {cid: lines for cid, rc, lines, _ in res if rc != 0 and any(l.startswith("VIOLATION") for l in lines)}
        died = [cid for cid, rc, lines, _ in res if rc != 0 and not any(l.startswith("VIOLATION") for l in lines)]
        if died:
            print("%s: CHECK DIED (non-zero exit without a VIOLATION line): %s - re-run it" % (d, died))
        out = {"seeded": os.path.relpath(d, VERIF), "property": own, "checks_run": ids,
               "caught_by": sorted(caught), "own_check_catches": own in caught,
               "lines": {cid: [l[:400] for l in lines] for cid, lines in caught.items()},
               "seconds": {cid: s for cid, _, _, s in res}}
        json.dump(out, open(os.path.join(d, "result.json"), "w"), indent=1)
        if own in ALL:
            print("%s: own check %s; caught by %s" % (out["seeded"], "CATCHES" if out["own_check_catches"] else "MISSES", out["caught_by"]))
        else:
            print("%s: behaviour-preserving change; alarms from %s (checks run: %s)" % (out["seeded"], out["caught_by"] or "none", ids))
        for cid in sorted(caught):
            for l in caught[cid][:2]:
                print("    " + l[:260])
    # leave generated files as the clean tree produces them
    sh("cd %s && python3 tools/translate_all.py" % VERIF)
    return 0


if __name__ == "__main__":
    sys.exit(main())
