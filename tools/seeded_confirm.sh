#!/bin/bash
# confirm a seeded change by hand: run its demo in a scratch worktree of /repo, once on the unchanged
# source and once with the patch applied.  usage: tools/seeded_confirm.sh <dir with patch.diff + demo.rs> <worktree> <name>
set -u
d=$1; wt=$2; name=$3
mkdir -p "$wt/examples"
cp "$d"/demo*.rs "$wt/examples/demo_$name.rs"
cd "$wt" || exit 2
git checkout -q -- src
run() { CARGO_NET_OFFLINE=true timeout 1200 cargo run --offline --release --example "demo_$name" 2>/dev/null | grep -E "PROPERTY|VIOLATED|HOLDS" | cut -c1-400 | head -6; }
echo "== original"; o=$(run); echo "$o"
git apply "$d/patch.diff" || { echo "patch does not apply"; exit 2; }
echo "== patched"; p=$(run); echo "$p"
git checkout -q -- src
case "$o" in *"PROPERTY HOLDS"*) ;; *) echo "CONFIRM-FAIL: original does not hold"; exit 1;; esac
case "$p" in *"VIOLATED"*) echo "CONFIRMED";; *) echo "CONFIRM-FAIL: patched does not violate"; exit 1;; esac
