#!/bin/sh
# evaluate seeded changes with N workers, each in its own mount namespace with private copies of /repo and /verif
# (scratch under /tmp/evalw, removed at the end).  usage: tools/seeded_eval_par.sh N [--checks own|auto|all] dirs...
N=$1; shift
CH=own
if [ "$1" = "--checks" ]; then CH=$2; shift; shift; fi
git -C /repo status --porcelain | grep -q . && { echo "/repo is dirty"; exit 1; }
rm -rf /tmp/evalw; mkdir -p /tmp/evalw
i=0
for d in "$@"; do w=$((i % N)); echo "$d" >> /tmp/evalw/list.$w; i=$((i+1)); done
for w in $(seq 0 $((N-1))); do
  [ -f /tmp/evalw/list.$w ] || continue
  mkdir -p /tmp/evalw/$w
  rsync -a --exclude target /repo/ /tmp/evalw/$w/repo/
  rsync -a --exclude .git --exclude replays /verif/ /tmp/evalw/$w/verif/
  mkdir -p /tmp/evalw/$w/verif/replays
  ( unshare -m sh -c "mount --bind /tmp/evalw/$w/repo /repo && mount --bind /tmp/evalw/$w/verif /verif && cd /verif && python3 tools/seeded_eval.py --checks $CH --jobs 2 \$(cat /tmp/evalw/list.$w)" > /tmp/evalw/out.$w 2>&1 ) &
done
wait
for w in $(seq 0 $((N-1))); do
  [ -f /tmp/evalw/list.$w ] || continue
  for d in $(cat /tmp/evalw/list.$w); do
    rel=${d#/verif/}
    cp /tmp/evalw/$w/verif/$rel/result.json /verif/$rel/result.json 2>/dev/null
  done
  cat /tmp/evalw/out.$w
done
rm -rf /tmp/evalw
