#!/bin/sh
# run every claimed quick check on the current tree (use before committing evidence)
cd "$(dirname "$0")/.."
git -C /repo status --porcelain | grep -q . && { echo "/repo is dirty"; exit 1; }
rc=0
for id in $(python3 -c "import json;print(' '.join(c['property_id'] for c in json.load(open('MANIFEST.json'))['checks']))"); do
  if [ -n "$1" ] && ! echo " $* " | grep -q " $id "; then continue; fi
  ./check $id --tier quick | tail -3 || rc=1
done
python3-vt - <<'PY'
import json, jsonschema, sys
man = json.load(open('MANIFEST.json'))
jsonschema.validate(man, json.load(open('/root/.vp/MANIFEST.schema.json')))
sch = json.load(open('/root/.vp/EVIDENCE.schema.json'))
for c in man['checks']:
    ev = json.load(open(c['evidence_file']))
    jsonschema.validate(ev, sch)
    cov = ev['coverage']
    if cov['obligations'] != cov['discharged'] or ev.get('violations'):
        print("EVIDENCE NOT CLEAN:", c['property_id'], cov['discharged'], cov['obligations'], ev.get('violations'))
        sys.exit(1)
print("manifest and evidence valid")
PY
exit $rc
