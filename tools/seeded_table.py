#!/usr/bin/env python3
"""markdown table of the seeded changes and what caught them (from seeded/*/*/{meta,result}.json)"""
import glob, json, os, re
VERIF = os.path.dirname(os.path.dirname(os.path.abspath(__file__)))
rows = []
for d in sorted(glob.glob(os.path.join(VERIF, "seeded", "*", "[A-H]"))):
    meta = json.load(open(os.path.join(d, "meta.json")))
    rp = os.path.join(d, "result.json")
    res = json.load(open(rp)) if os.path.exists(rp) else None
    pid = os.path.basename(os.path.dirname(d))
    files = sorted(set(re.findall(r"^diff --git a/(\S+)", open(os.path.join(d, "patch.diff")).read(), flags=re.M)))
    summ = re.sub(r"\s+", " ", meta.get("summary", ""))
    summ = (summ[:130] + "…") if len(summ) > 130 else summ
    trig = re.sub(r"\s+", " ", meta.get("trigger", ""))
    trig = (trig[:90] + "…") if len(trig) > 90 else trig
    if res is None:
        how, others = "not run", ""
    else:
        own = [l for l in res["lines"].get(pid, []) if l.startswith("VIOLATION")]
        if not own:
            how = "**missed by its own check**"
        elif all("no-failing-input-found" in l for l in own):
            m = re.search(r"obligations no longer check: (.*?) no-failing-input-found", own[0])
            how = "broken obligation (%s), no failing input found" % (m.group(1)[:80] if m else "?")
        else:
            l = [x for x in own if "no-failing-input-found" not in x][0]
            how = "replay: " + re.sub(r"\s+", " ", l.split(".json", 1)[1].strip())[:170]
        others = ", ".join(c for c in res["caught_by"] if c != pid)
    rows.append("| %s/%s | %s | %s | %s | %s | %s |" % (pid, os.path.basename(d), ", ".join(os.path.basename(f) for f in files),
                                                      summ.replace("|", "/"), trig.replace("|", "/"), how.replace("|", "/"), others))
print("| change | file | what was changed | needs | own check | also caught by |")
print("|---|---|---|---|---|---|")
print("\n".join(rows))
