#!/bin/sh
# tools/seeds.sh C02 C04 ... : run the quick check under several seeds (quiet-on-healthy-code test)
cd "$(dirname "$0")/.."
for id in "$@"; do
  for s in 1 2 3 17 12345; do
    out=$(VERIF_SEED=$s ./check $id --tier quick 2>&1 | tail -1)
    echo "seed=$s $out"
  done
done
tools/run_all.sh "$@" >/dev/null 2>&1 || echo "run_all reports a problem"
