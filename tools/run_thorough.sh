#!/bin/bash
# runs every thorough check on the current /repo tree; prints one summary line per property
cd "$(dirname "$0")/.."
ids=${@:-C01 C02 C03 C04 C05 C06 C07 C08 C09 C10 C11 C12 C13 C14 C15 C16 C17 C18 C19 C20}
rc=0
for id in $ids; do
  out=$(./check $id --tier thorough 2>&1); r=$?
  echo "$out" | grep -E "VIOLATION|KNOWN-FINDING|thorough:" 
  [ $r -ne 0 ] && rc=1
done
exit $rc
