#!/usr/bin/env python3
"""tools/manifest_set.py Cxx '<json with technique, level_text, level_note, category>' : add/replace a check entry"""
import json, sys, os
root = os.path.join(os.path.dirname(os.path.abspath(__file__)), "..")
man = json.load(open(os.path.join(root, "MANIFEST.json")))
pid = sys.argv[1]
spec = json.loads(sys.argv[2])
entry = {
    "property_id": pid,
    "quick_cmd": "./check %s --tier quick" % pid,
    "thorough_cmd": "./check %s --tier thorough" % pid,
    "evidence_file": "evidence/%s.json" % pid,
    "replay_cmd_template": "./check %s --replay {path}" % pid,
    "engine": "coq",
    "technique": spec["technique"],
    "level_claimed": {"category": spec.get("category", "proof"), "text": spec["level_text"], "design_ref": "DESIGN.md section 6, %s" % pid},
    "level_note": spec["level_note"],
}
man["checks"] = [c for c in man["checks"] if c["property_id"] != pid] + [entry]
man["checks"].sort(key=lambda c: c["property_id"])
man["not_applicable"] = [n for n in man.get("not_applicable", []) if n["property_id"] != pid]
for e in man.get("engines", []):
    if pid not in e["serves_properties"]:
        e["serves_properties"].append(pid)
        e["serves_properties"].sort()
json.dump(man, open(os.path.join(root, "MANIFEST.json"), "w"), indent=1)
print("ok", pid)
