(* C14 (counting part): every sane estimator shape returns exactly
   (number of equal positions) / length, symmetric, 1 on identical sketches, within [0,1],
   and reports a length mismatch without computing anything. *)
From Coq Require Import List Arith ZArith Bool Lia ZifyNat ZifyBool.
From PMH Require Import Model.Estimators Gen.EstimatorsGen.
Import ListNotations.

Lemma est_loop_spec : forall l r i acc,
  length l = length r -> i <= length l ->
  est_loop l r i (length l - i) acc = Some (acc + count_eq (skipn i l) (skipn i r)).
Proof.
  intros l r i acc Hlen. remember (length l - i) as n eqn:En. revert i acc En.
  induction n as [|n IH]; intros i acc En Hi.
  - cbn. assert (i = length l) by lia. subst i. rewrite skipn_all. cbn. f_equal. lia.
  - cbn [est_loop].
    assert (Hil : i < length l) by lia.
    destruct (nth_error l i) as [x|] eqn:Ex; [|apply nth_error_None in Ex; lia].
    destruct (nth_error r i) as [y|] eqn:Ey; [|apply nth_error_None in Ey; lia].
    rewrite IH by lia.
    assert (Hsl : skipn i l = x :: skipn (S i) l).
    { clear -Ex. revert i Ex. induction l as [|a l IHl]; intros [|i] Ex; cbn in *; try discriminate.
      - injection Ex as ->. reflexivity.
      - apply IHl. exact Ex. }
    assert (Hsr : skipn i r = y :: skipn (S i) r).
    { clear -Ey. revert i Ey. induction r as [|a r IHr]; intros [|i] Ey; cbn in *; try discriminate.
      - injection Ey as ->. reflexivity.
      - apply IHr. exact Ey. }
    rewrite Hsl, Hsr. cbn [count_eq]. f_equal. destruct (Z.eqb x y); lia.
Qed.

Lemma count_eq_sym a b : count_eq a b = count_eq b a.
Proof.
  revert b; induction a as [|x a IH]; intros [|y b]; cbn; auto. rewrite IH, (Z.eqb_sym x y). reflexivity.
Qed.
Lemma count_eq_refl a : count_eq a a = length a.
Proof. induction a as [|x a IH]; cbn; auto. rewrite Z.eqb_refl, IH. reflexivity. Qed.
Lemma count_eq_le a b : count_eq a b <= length a.
Proof. revert b; induction a as [|x a IH]; intros [|y b]; cbn; try lia. specialize (IH b). destruct (Z.eqb x y); lia. Qed.

Lemma sane_cases e : est_sane e = true ->
  (e_chk_l e <> e_chk_r e) /\ (e_lhs e <> e_rhs e).
Proof.
  unfold est_sane. destruct (e_chk_l e), (e_chk_r e), (e_lhs e), (e_rhs e); cbn; intros H;
    try discriminate; split; congruence.
Qed.

Theorem est_exact e a b : est_sane e = true -> length a = length b ->
  est_run e a b = EstOk (count_eq a b) (length a).
Proof.
  intros Hs Hl. destruct (sane_cases e Hs) as [Hc Hx]. unfold est_run.
  assert (Hchk : length (sel (e_chk_l e) a b) = length (sel (e_chk_r e) a b))
    by (destruct (e_chk_l e), (e_chk_r e); cbn; congruence).
  rewrite Hchk, Nat.eqb_refl. cbn [negb].
  assert (Hloop : length (sel (e_loop e) a b) = length (sel (e_lhs e) a b) - 0)
    by (destruct (e_loop e), (e_lhs e); cbn; lia).
  rewrite Hloop, est_loop_spec by (destruct (e_lhs e), (e_rhs e); cbn; lia). cbn [skipn plus].
  assert (Hd : length (sel (e_div e) a b) = length a) by (destruct (e_div e); cbn; congruence).
  rewrite Hd. f_equal.
  destruct (e_lhs e), (e_rhs e); cbn; try congruence. apply count_eq_sym.
Qed.

Theorem est_len_mismatch e a b : est_sane e = true -> length a <> length b ->
  est_run e a b = match e_policy e with OnMismatchPanic => EstPanic | OnMismatchErr => EstErr end.
Proof.
  intros Hs Hl. destruct (sane_cases e Hs) as [Hc _]. unfold est_run.
  destruct (Nat.eqb_spec (length (sel (e_chk_l e) a b)) (length (sel (e_chk_r e) a b))) as [He|_];
    [|reflexivity].
  exfalso. destruct (e_chk_l e), (e_chk_r e); cbn in He; congruence.
Qed.

Theorem est_sym e a b : est_sane e = true -> est_run e a b = est_run e b a.
Proof.
  intros Hs. destruct (Nat.eq_dec (length a) (length b)) as [Hl|Hl].
  - rewrite !est_exact by congruence. rewrite count_eq_sym, Hl. reflexivity.
  - rewrite !est_len_mismatch by congruence. reflexivity.
Qed.

Theorem est_refl_one e a : est_sane e = true -> est_run e a a = EstOk (length a) (length a).
Proof. intros Hs. rewrite est_exact by auto. rewrite count_eq_refl. reflexivity. Qed.

Theorem est_range e a b c n : est_sane e = true -> est_run e a b = EstOk c n -> c <= n /\ n = length a /\ n = length b.
Proof.
  intros Hs H. destruct (Nat.eq_dec (length a) (length b)) as [Hl|Hl].
  - rewrite est_exact in H by auto. injection H as <- <-. split; [apply count_eq_le|]. auto.
  - rewrite est_len_mismatch in H by auto. destruct (e_policy e); discriminate.
Qed.

(* the shapes regenerated from the source are all sane *)
Theorem generated_all_sane : forallb (fun p => est_sane (snd p)) generated_estimators = true.
Proof. vm_compute. reflexivity. Qed.

Theorem generated_count : length generated_estimators = 8.
Proof. reflexivity. Qed.

Lemma generated_sane name e : In (name, e) generated_estimators -> est_sane e = true.
Proof.
  intros Hin. assert (H := generated_all_sane). rewrite forallb_forall in H.
  apply (H (name, e) Hin).
Qed.

(* a list of generated estimators whose shapes all pass the sanity test *)
Lemma list_sane (l : list (String.string * estimator)) : forallb (fun p => est_sane (snd p)) l = true ->
  forall name e, In (name, e) l -> est_sane e = true.
Proof. intros H name e Hin. rewrite forallb_forall in H. exact (H (name, e) Hin). Qed.
