(* C20: the dumped document parses back to the dumped parameters, for every parameter value.
   m and q (any value below 2^64) come back exactly; b and a come back as the very tokens that were
   printed (whether a token denotes the original double is the business of ryu / serde_json,
   measured per case by the correspondence, see DESIGN.md). *)
From Coq Require Import List ZArith Bool Lia Decimal DecimalFacts DecimalN NArith.
From PMH Require Import Model.ParamsJson Proofs.ParamsJson.
Import ListNotations.
Open Scope Z_scope.

(* ---------- shape of a number token: [-] digits [. digits] [e [+|-] digits] ---------- *)
Definition all_digits (d : bytes) : Prop := forall c, In c d -> is_digit c = true.
Definition no_leading_zero (ip : bytes) : Prop := match ip with 48 :: _ :: _ => False | _ => True end.

Record ftok := mkF { t_neg : bool; t_ip : bytes; t_fr : option bytes; t_ex : option (bytes * bytes) }.

Definition fr_bytes (fr : option bytes) : bytes := match fr with Some f => 46 :: f | None => [] end.
Definition ex_bytes (ex : option (bytes * bytes)) : bytes := match ex with Some (sg, ed) => 101 :: sg ++ ed | None => [] end.
Definition ftok_bytes (t : ftok) : bytes :=
  (if t_neg t then [45] else []) ++ t_ip t ++ fr_bytes (t_fr t) ++ ex_bytes (t_ex t).

Definition ftok_ok (t : ftok) : Prop :=
  all_digits (t_ip t) /\ t_ip t <> [] /\ no_leading_zero (t_ip t) /\
  (forall f, t_fr t = Some f -> all_digits f /\ f <> []) /\
  (forall sg ed, t_ex t = Some (sg, ed) -> (sg = [] \/ sg = [43] \/ sg = [45]) /\ all_digits ed /\ ed <> []).

Definition is_plain (t : ftok) : bool :=
  negb (t_neg t) && negb (match t_fr t with Some _ => true | None => false end)
  && negb (match t_ex t with Some _ => true | None => false end).

Definition delim (c : Z) : Prop := c = 44 \/ c = 125.

Lemma take_digits_app ds c r : all_digits ds -> is_digit c = false ->
  take_digits (ds ++ c :: r) = (ds, c :: r).
Proof.
  intros Hd Hc. induction ds as [|d ds IH]; cbn [List.app take_digits].
  - rewrite Hc. reflexivity.
  - rewrite (Hd d (or_introl eq_refl)). rewrite IH by (intros x Hx; apply Hd; right; exact Hx). reflexivity.
Qed.

Lemma digit_cases c : is_digit c = true -> (48 <= c <= 57).
Proof. unfold is_digit. intros H. apply andb_true_iff in H. lia. Qed.

Lemma lex_exp_app ex c r : delim c ->
  (forall sg ed, ex = Some (sg, ed) -> (sg = [] \/ sg = [43] \/ sg = [45]) /\ all_digits ed /\ ed <> []) ->
  lex_exp (ex_bytes ex ++ c :: r) = (ex_bytes ex, c :: r, match ex with Some _ => true | None => false end, true).
Proof.
  intros Hc Hex. destruct ex as [[sg ed]|]; cbn [ex_bytes List.app].
  - destruct (Hex sg ed eq_refl) as [Hsg [Hed Hne]]. cbn [lex_exp]. cbn [Z.eqb orb Pos.eqb].
    assert (Hcd : is_digit c = false) by (destruct Hc as [-> | ->]; reflexivity).
    destruct ed as [|e0 ed']; [congruence|].
    assert (He0 := digit_cases e0 (Hed e0 (or_introl eq_refl))).
    assert (Htd : take_digits ((e0 :: ed') ++ c :: r) = (e0 :: ed', c :: r)) by (apply take_digits_app; assumption).
    destruct Hsg as [-> | [-> | ->]]; cbn [List.app lex_esign].
    + destruct (Z.eqb_spec e0 43); [lia|]. destruct (Z.eqb_spec e0 45); [lia|]. cbn [orb].
      change (e0 :: ed' ++ c :: r) with ((e0 :: ed') ++ c :: r). rewrite Htd. reflexivity.
    + cbn [Z.eqb Pos.eqb orb]. change (e0 :: ed' ++ c :: r) with ((e0 :: ed') ++ c :: r). rewrite Htd. reflexivity.
    + cbn [Z.eqb Pos.eqb orb]. change (e0 :: ed' ++ c :: r) with ((e0 :: ed') ++ c :: r). rewrite Htd. reflexivity.
  - cbn [lex_exp]. destruct Hc as [-> | ->]; reflexivity.
Qed.

Lemma lex_frac_app fr rest : (forall f, fr = Some f -> all_digits f /\ f <> []) ->
  (exists c r, rest = c :: r /\ is_digit c = false /\ c <> 46) ->
  lex_frac (fr_bytes fr ++ rest) = (fr_bytes fr, rest, match fr with Some _ => true | None => false end).
Proof.
  intros Hfr [c [r [-> [Hc H46]]]]. destruct fr as [f|]; cbn [fr_bytes List.app].
  - destruct (Hfr f eq_refl) as [Hf _]. cbn [lex_frac Z.eqb Pos.eqb]. rewrite take_digits_app by assumption. reflexivity.
  - cbn [lex_frac]. destruct (Z.eqb_spec c 46); [contradiction|reflexivity].
Qed.

(* the first character after the integer part *)
Lemma after_ip_head t c r : delim c ->
  exists c' r', fr_bytes (t_fr t) ++ ex_bytes (t_ex t) ++ c :: r = c' :: r' /\ is_digit c' = false.
Proof.
  intros Hc. destruct (t_fr t) as [f|]; cbn [fr_bytes List.app]; [eexists; eexists; split; reflexivity|].
  destruct (t_ex t) as [[sg ed]|]; cbn [ex_bytes List.app]; [eexists; eexists; split; reflexivity|].
  exists c, r. split; [reflexivity|]. destruct Hc as [-> | ->]; reflexivity.
Qed.

Lemma after_fr_head t c r : delim c ->
  exists c' r', ex_bytes (t_ex t) ++ c :: r = c' :: r' /\ is_digit c' = false /\ c' <> 46.
Proof.
  intros Hc. destruct (t_ex t) as [[sg ed]|]; cbn [ex_bytes List.app].
  - eexists; eexists. split; [reflexivity|]. split; [reflexivity|lia].
  - exists c, r. split; [reflexivity|]. destruct Hc as [-> | ->]; (split; [reflexivity|lia]).
Qed.

Theorem lex_number_ftok t c r : ftok_ok t -> delim c ->
  lex_number (ftok_bytes t ++ c :: r) = Some (ftok_bytes t, is_plain t, c :: r).
Proof.
  intros [Hip [Hne [Hlz [Hfr Hex]]]] Hc. unfold lex_number, ftok_bytes.
  destruct (t_ip t) as [|d0 drest] eqn:Eip; [congruence|].
  assert (Hd0 := digit_cases d0 (Hip d0 (or_introl eq_refl))).
  (* sign *)
  assert (Hsign : lex_sign (((if t_neg t then [45] else []) ++ (d0 :: drest) ++ fr_bytes (t_fr t) ++ ex_bytes (t_ex t)) ++ c :: r)
                  = (t_neg t, (d0 :: drest) ++ fr_bytes (t_fr t) ++ ex_bytes (t_ex t) ++ c :: r)).
  { destruct (t_neg t); cbn [List.app lex_sign].
    - cbn [Z.eqb Pos.eqb]. rewrite <- !List.app_assoc. reflexivity.
    - destruct (Z.eqb_spec d0 45); [lia|]. rewrite <- !List.app_assoc. reflexivity. }
  rewrite Hsign.
  destruct (after_ip_head t c r Hc) as [c1 [r1 [E1 Hc1]]].
  rewrite E1, (take_digits_app (d0 :: drest) c1 r1 Hip Hc1).
  assert (Hlead : (d0 =? 48) && negb (match drest with [] => true | _ => false end) = false).
  { destruct drest as [|d1 dr]; [rewrite andb_false_r; reflexivity|]. cbn [negb andb].
    destruct (Z.eqb_spec d0 48) as [->|]; [cbn in Hlz; contradiction|reflexivity]. }
  rewrite Hlead, <- E1.
  rewrite (lex_frac_app (t_fr t) (ex_bytes (t_ex t) ++ c :: r) Hfr) by (destruct (after_fr_head t c r Hc) as [c2 [r2 H2]]; exists c2, r2; exact H2).
  assert (Hdot : (match t_fr t with Some _ => true | None => false end) && (match fr_bytes (t_fr t) with [_] => true | _ => false end) = false).
  { destruct (t_fr t) as [f|]; [|reflexivity]. destruct (Hfr f eq_refl) as [_ Hf]. destruct f; [congruence|reflexivity]. }
  rewrite Hdot, (lex_exp_app (t_ex t) c r Hc Hex). cbn [negb].
  unfold is_plain. reflexivity.
Qed.

(* ---------- integers ---------- *)
Lemma digits_to_uint_bytes d : digits_to_uint (uint_bytes d) = d.
Proof. induction d; cbn; rewrite ?IHd; reflexivity. Qed.

Lemma u64_of_print n : (n <= 18446744073709551615)%N -> u64_of_token (print_N n) = Some n.
Proof.
  intros H. unfold u64_of_token, print_N. rewrite digits_to_uint_bytes, DecimalN.Unsigned.of_to.
  destruct (N.leb_spec n 18446744073709551615); [reflexivity|lia].
Qed.

Lemma nzhead_not_D0 d r : nzhead d <> D0 r.
Proof. induction d; cbn; try discriminate. exact IHd. Qed.

Lemma unorm_shape d : unorm d = d -> d = D0 Nil \/ (match d with D0 _ | Nil => False | _ => True end).
Proof.
  destruct d as [|r|r|r|r|r|r|r|r|r|r]; try (intros _; right; exact I).
  - cbn. discriminate.
  - unfold unorm. cbn [nzhead]. intros H. destruct (nzhead r) as [|u|u|u|u|u|u|u|u|u|u] eqn:E; try discriminate H.
    + injection H as <-. left. reflexivity.
    + exfalso. exact (nzhead_not_D0 r u E).
Qed.

Lemma to_uint_normal n : unorm (N.to_uint n) = N.to_uint n.
Proof. rewrite <- (DecimalN.Unsigned.of_to n) at 2. symmetry. apply DecimalN.Unsigned.to_of. Qed.

Definition int_tok (n : N) : ftok := mkF false (print_N n) None None.

Lemma int_tok_ok n : ftok_ok (int_tok n).
Proof.
  unfold ftok_ok, int_tok. cbn [t_ip t_fr t_ex].
  assert (Hs := unorm_shape _ (to_uint_normal n)).
  split; [intros c Hc; apply (uint_bytes_digits (N.to_uint n)); exact Hc|].
  split; [|split; [|split; [discriminate|discriminate]]].
  - unfold print_N. destruct Hs as [->|Hs]; [discriminate|]. destruct (N.to_uint n); try contradiction; discriminate.
  - unfold print_N. destruct Hs as [->|Hs]; [exact I|]. destruct (N.to_uint n); try contradiction; cbn; exact I.
Qed.

Lemma int_tok_bytes n : ftok_bytes (int_tok n) = print_N n.
Proof. unfold ftok_bytes, int_tok. cbn. rewrite List.app_nil_r. reflexivity. Qed.

(* ---------- one member ---------- *)
Lemma tok_head t : ftok_ok t -> exists c0 r0, ftok_bytes t = c0 :: r0 /\ (c0 = 45 \/ 48 <= c0 <= 57).
Proof.
  intros [Hip [Hne _]]. unfold ftok_bytes. destruct (t_neg t); cbn [List.app].
  - eexists; eexists. split; [reflexivity|left; reflexivity].
  - destruct (t_ip t) as [|d0 dr]; [congruence|]. cbn [List.app]. eexists; eexists. split; [reflexivity|].
    right. apply digit_cases, Hip. left. reflexivity.
Qed.

Lemma lex_value_ftok t c r : ftok_ok t -> delim c ->
  lex_value (skip_ws (ftok_bytes t ++ c :: r)) = (VNum (ftok_bytes t) (is_plain t), c :: r).
Proof.
  intros Hok Hc. destruct (tok_head t Hok) as [c0 [r0 [E Hc0]]].
  assert (Hl := lex_number_ftok t c r Hok Hc). rewrite E in *. cbn [List.app] in *.
  assert (Hws : is_ws c0 = false).
  { unfold is_ws. destruct (Z.eqb_spec c0 32), (Z.eqb_spec c0 9), (Z.eqb_spec c0 10), (Z.eqb_spec c0 13); try lia; reflexivity. }
  cbn [skip_ws]. rewrite Hws. cbn [lex_value].
  destruct (Z.eqb_spec c0 34); [lia|]. destruct (Z.eqb_spec c0 116); [lia|]. destruct (Z.eqb_spec c0 102); [lia|].
  destruct (Z.eqb_spec c0 110); [lia|]. destruct (Z.eqb_spec c0 91); [lia|]. destruct (Z.eqb_spec c0 123); [lia|].
  cbn [orb]. rewrite Hl. reflexivity.
Qed.

(* a member  "k":tok  followed by a delimiter, k a one-letter key *)
Lemma member_step f a k t c r : ftok_ok t -> delim c -> 32 <= k -> k <> 34 -> k <> 92 ->
  members (S f) a ([34; k; 34; 58] ++ ftok_bytes t ++ c :: r) =
  match store a [k] (VNum (ftok_bytes t) (is_plain t)) with
  | None => PError
  | Some a' => if c =? 44 then members f a' r else finish a' r
  end.
Proof.
  intros Hok Hc Hk1 Hk2 Hk3. cbn [members List.app skip_ws is_ws Z.eqb Pos.eqb orb negb].
  cbn [lex_string_body]. destruct (Z.eqb_spec k 34); [contradiction|].
  destruct (Z.eqb_spec k 92); [contradiction|]. destruct (Z.ltb_spec k 32); [lia|]. cbn [orb].
  cbn [Z.eqb Pos.eqb]. cbn [skip_ws is_ws Z.eqb Pos.eqb orb negb].
  rewrite (lex_value_ftok t c r Hok Hc).
  destruct (store a [k] (VNum (ftok_bytes t) (is_plain t))) as [a'|]; [|reflexivity].
  destruct Hc as [-> | ->]; cbn [skip_ws is_ws Z.eqb Pos.eqb orb]; reflexivity.
Qed.

Theorem roundtrip tb m ta q : ftok_ok tb -> ftok_ok ta ->
  (m <= 18446744073709551615)%N -> (q <= 18446744073709551615)%N ->
  parse_params (print_params (ftok_bytes tb) m (ftok_bytes ta) q) = POk (ftok_bytes tb) m (ftok_bytes ta) q.
Proof.
  intros Hb Ha Hm Hq. unfold print_params, parse_params.
  rewrite <- (int_tok_bytes m), <- (int_tok_bytes q).
  cbn [List.app skip_ws is_ws Z.eqb Pos.eqb orb]. cbn [length].
  (* four members *)
  change (34 :: 98 :: 34 :: 58 :: ftok_bytes tb ++ 44 :: 34 :: 109 :: 34 :: 58 :: ftok_bytes (int_tok m) ++
          44 :: 34 :: 97 :: 34 :: 58 :: ftok_bytes ta ++ 44 :: 34 :: 113 :: 34 :: 58 :: ftok_bytes (int_tok q) ++ [125])
    with ([34; 98; 34; 58] ++ ftok_bytes tb ++ 44 :: ([34; 109; 34; 58] ++ ftok_bytes (int_tok m) ++
          44 :: ([34; 97; 34; 58] ++ ftok_bytes ta ++ 44 :: ([34; 113; 34; 58] ++ ftok_bytes (int_tok q) ++ 125 :: [])))).
  rewrite (member_step _ acc0 98 tb 44) by (try assumption; try (left; reflexivity); lia).
  cbn [store bytes_eqb Z.eqb Pos.eqb andb fb fm fa fq acc0].
  rewrite (member_step _ _ 109 (int_tok m) 44) by (try apply int_tok_ok; try (left; reflexivity); lia).
  cbn [store bytes_eqb Z.eqb Pos.eqb andb fb fm fa fq is_plain int_tok t_neg t_fr t_ex negb].
  rewrite int_tok_bytes, (u64_of_print m Hm), <- (int_tok_bytes m).
  cbn [Z.eqb Pos.eqb].
  rewrite (member_step _ _ 97 ta 44) by (try assumption; try (left; reflexivity); lia).
  cbn [store bytes_eqb Z.eqb Pos.eqb andb fb fm fa fq].
  destruct (length (ftok_bytes tb ++ 44 :: 34 :: 109 :: 34 :: 58 :: ftok_bytes (int_tok m) ++ 44 :: 34 :: 97 :: 34 :: 58 :: ftok_bytes ta ++ 44 :: 34 :: 113 :: 34 :: 58 :: ftok_bytes (int_tok q) ++ [125])) eqn:El.
  { exfalso. rewrite List.app_length in El. cbn in El. lia. }
  cbn [Z.eqb Pos.eqb].
  rewrite (member_step _ _ 113 (int_tok q) 125) by (try apply int_tok_ok; try (right; reflexivity); lia).
  cbn [store bytes_eqb Z.eqb Pos.eqb andb fb fm fa fq is_plain int_tok t_neg t_fr t_ex negb].
  rewrite int_tok_bytes, (u64_of_print q Hq). cbn [Z.eqb Pos.eqb finish skip_ws fb fm fa fq]. rewrite ?int_tok_bytes. reflexivity.
Qed.

(* the tokens serde_json prints are of that shape; two instances (premises are satisfiable) *)
Example tok_default_b : ftok_ok (mkF false [49] (Some [48; 48; 49]) None) /\ ftok_bytes (mkF false [49] (Some [48; 48; 49]) None) = [49; 46; 48; 48; 49].
Proof.
  split; [|reflexivity]. unfold ftok_ok; cbn. repeat split; try discriminate; try exact I.
  - intros c [<-|[]]; reflexivity.
  - injection H as <-. intros c [<-|[<-|[<-|[]]]]; reflexivity.
  - injection H as <-. discriminate.
Qed.
Example tok_exponent : ftok_ok (mkF false [49] (Some [53]) (Some ([45], [55]))) /\ ftok_bytes (mkF false [49] (Some [53]) (Some ([45], [55]))) = [49; 46; 53; 101; 45; 55].
Proof.
  split; [|reflexivity]. unfold ftok_ok; cbn. repeat split; try discriminate; try exact I.
  - intros c [<-|[]]; reflexivity.
  - injection H as <-. intros c [<-|[]]; reflexivity.
  - injection H as <-. discriminate.
  - injection H as <- <-. right. right. reflexivity.
  - injection H as <- <-. intros c [<-|[]]; reflexivity.
  - injection H as <- <-. discriminate.
Qed.
