(* C04 / C05 / C03 (SuperMinHash, for the repaired histogram update): position p of the sketch holds
   the minimum over all items of the value the item's own lazily generated permutation puts on p;
   the positions an item visits are a function of its script alone; pruning by a_upper never skips
   a draw that could lower a position.  Values are (key, floor) pairs, floor = F key for a
   monotone F (the float -> integer-part map). *)
From Coq Require Import List Arith ZArith Bool Lia ZifyNat ZifyBool.
From PMH Require Import Lib.ListArr Model.ProbMinHash Model.FYShuffle Model.SuperMinHash
  Proofs.ProbMinHash Proofs.FYShuffle Proofs.Hist.
Import ListNotations.
Open Scope Z_scope.

Section SMH.
Variable F : Z -> Z.                         (* integer part as a function of the key *)
Hypothesis F_mono : forall a b, a <= b -> F a <= F b.
Hypothesis F_nonneg : forall a, 0 <= F a.
Variable large : Z * Z.
Hypothesis large_ok : snd large = F (fst large).

Definition bucket (m : nat) (v : Z * Z) : nat := Z.to_nat (Z.min (snd v) (Z.of_nat (m - 1))).
Definition buckets (s : smh) : list nat := map (bucket (sm_m s)) (sm_h s).

Definition peff (s : smh) (irank : Z) (x : nat) : nat :=
  if nthz (sm_q s) x =? irank then nthn (sm_p s) x else x.

(* state invariant *)
Definition wfF (s : smh) : Prop :=
  let m := sm_m s in
  (1 <= m)%nat /\ length (sm_h s) = m /\ length (sm_q s) = m /\ length (sm_p s) = m /\
  (forall x, (x < m)%nat -> snd (nthp (sm_h s) x) = F (fst (nthp (sm_h s) x))) /\
  hist_ok m (buckets s) (sm_b s) (sm_upper s).

(* the lazily reset permutation behaves like the explicit one *)
Definition pinv (s : smh) (irank : Z) (perm : list nat) : Prop :=
  arr (sm_m s) perm /\ forall x, (x < sm_m s)%nat -> peff s irank x = nth x perm 0%nat.

Definition absF (s : smh) : pstate := mkP (map fst (sm_h s)) (repeat 0 (sm_m s)).

Lemma nth_absF s x : nthz (pregs (absF s)) x = fst (nthp (sm_h s) x) \/ (length (sm_h s) <= x)%nat.
Proof.
  destruct (Nat.lt_ge_cases x (length (sm_h s))) as [H|H]; [left|right; exact H].
  unfold absF, nthz, nthp; cbn [pregs]. rewrite (nth_indep _ 0 (fst (0, 0))) by (rewrite map_length; exact H).
  apply map_nth.
Qed.

(* rounds of one item as tagged points; the permutation evolves by the swaps of the script *)
Fixpoint tagsF (perm : list nat) (j : nat) (sc : list (Z * Z * nat)) : list tpoint :=
  match sc with
  | [] => []
  | (key, fl, k) :: rest => let perm' := swap perm j k in (0, key, nth j perm' 0%nat) :: tagsF perm' (S j) rest
  end.

Fixpoint roundsF_ok (m : nat) (j : nat) (sc : list (Z * Z * nat)) : Prop :=
  match sc with
  | [] => True
  | (key, fl, k) :: rest => fl = F key /\ Z.of_nat j <= fl /\ key < fst large /\ (j <= k < m)%nat /\ roundsF_ok m (S j) rest
  end.

Definition covF (s : smh) (p : tpoint) : Prop := let '(_, h, pos) := p in fst (nthp (sm_h s) pos) <= h.
Definition monoF (s s' : smh) : Prop := forall x, (x < sm_m s)%nat -> fst (nthp (sm_h s') x) <= fst (nthp (sm_h s) x).
Definition justF (Pts : list tpoint) (s : smh) : Prop :=
  forall x, (x < sm_m s)%nat ->
    fst (nthp (sm_h s) x) = fst large \/ (exists h, In (0, h, x) Pts /\ fst (nthp (sm_h s) x) = h /\ h < fst large).

Lemma bucket_le m v v' : fst v <= fst v' -> snd v = F (fst v) -> snd v' = F (fst v') -> (bucket m v <= bucket m v')%nat.
Proof. intros H E E'. unfold bucket. rewrite E, E'. assert (Hm := F_mono _ _ H). lia. Qed.

Lemma nth_buckets s x : (x < length (sm_h s))%nat -> nth x (buckets s) 0%nat = bucket (sm_m s) (nthp (sm_h s) x).
Proof.
  intros H. unfold buckets, nthp. rewrite (nth_indep _ 0%nat (bucket (sm_m s) (0, 0))) by (rewrite map_length; exact H).
  apply map_nth.
Qed.

(* the values in [tagsF] keep positions inside the array *)
Lemma tagsF_pos m : forall sc perm j p, arr m perm -> roundsF_ok m j sc -> In p (tagsF perm j sc) ->
  exists h pos, p = (0, h, pos) /\ (pos < m)%nat.
Proof.
  induction sc as [|[[key fl] k] rest IH]; intros perm j p Ha Rok Hin; [destruct Hin|].
  cbn in Rok. destruct Rok as [_ [_ [_ [Hk Rrest]]]]. cbn in Hin.
  assert (Ha' : arr m (swap perm j k)) by (apply arr_swap; [exact Ha|lia|lia]).
  destruct Hin as [<-|Hin].
  - eexists _, _. split; [reflexivity|]. destruct Ha' as [_ [Hr _]]. apply Hr. lia.
  - apply (IH _ _ _ Ha' Rrest Hin).
Qed.

Lemma smh_rounds_ok Pts irank : forall sc s j perm s',
  wfF s -> pinv s irank perm -> justF Pts s -> roundsF_ok (sm_m s) j sc -> (j + length sc <= sm_m s)%nat ->
  (forall p, In p (tagsF perm j sc) -> In p Pts) ->
  smh_rounds true s irank j sc = Ok s' ->
  wfF s' /\ justF Pts s' /\ sm_m s' = sm_m s /\ sm_rank s' = sm_rank s /\ monoF s s' /\
  (forall p, In p (tagsF perm j sc) -> covF s' p) /\
  (forall x, (x < sm_m s)%nat -> nthz (sm_q s') x = nthz (sm_q s) x \/ nthz (sm_q s') x = irank).
Proof.
  induction sc as [|[[key fl] k] rest IH]; intros s j perm s' Wf Pi J Rok Hlen Hsub Hrun.
  - cbn in Hrun. injection Hrun as <-. split; [exact Wf|]. split; [exact J|]. split; [reflexivity|]. split; [reflexivity|].
    split; [intros x Hx; lia|]. split; [intros p []|]. intros x Hx. left. reflexivity.
  - cbn [smh_rounds] in Hrun. cbn in Rok. destruct Rok as [Hfl [Hjfl [Hklarge [Hk Rrest]]]]. cbn [length] in Hlen.
    assert (Wf0 := Wf). destruct Wf0 as [Hm [Lh [Lq [Lp [Hcons [Lbk [Lb [Hu [Hc Hub]]]]]]]]].
    set (m := sm_m s) in *.
    assert (Pi0 := Pi). destruct Pi0 as [Harr Hpe].
    assert (Harr' : arr m (swap perm j k)) by (apply arr_swap; [exact Harr|lia|lia]).
    set (pos := nth j (swap perm j k) 0%nat).
    assert (Hpos : (pos < m)%nat) by (destruct Harr' as [_ [Hr _]]; apply Hr; lia).
    destruct (Nat.ltb_spec (sm_upper s) j) as [Hstop|Hgo].
    + (* pruned *)
      injection Hrun as <-. split; [exact Wf|]. split; [exact J|]. split; [reflexivity|]. split; [reflexivity|].
      split; [intros x Hx; lia|]. split; [|intros x Hx; left; reflexivity].
      (* every remaining round has floor >= its index > upper >= bucket of every position *)
      assert (Hgen : forall sc' perm' j', arr m perm' -> roundsF_ok m j' sc' -> (sm_upper s < j')%nat -> (j' + length sc' <= m)%nat ->
                forall p, In p (tagsF perm' j' sc') -> covF s p).
      { induction sc' as [|[[key' fl'] k'] rest' IH']; intros perm' j' Ha' Rok' Hj' Hl' p Hin; [destruct Hin|].
        cbn in Rok'. destruct Rok' as [Hfl' [Hjfl' [_ [Hk' Rrest']]]]. cbn [length] in Hl'. cbn in Hin.
        assert (Ha2 : arr m (swap perm' j' k')) by (apply arr_swap; [exact Ha'|lia|lia]).
        destruct Hin as [<-|Hin]; [|apply (IH' _ (S j') Ha2 Rrest' ltac:(lia) ltac:(lia) p Hin)].
        unfold covF. set (pp := nth j' (swap perm' j' k') 0%nat).
        assert (Hpp : (pp < m)%nat) by (destruct Ha2 as [_ [Hr _]]; apply Hr; lia).
        destruct (Z_le_gt_dec (fst (nthp (sm_h s) pp)) key') as [|Hlt]; [assumption|exfalso].
        assert (HF := F_mono key' (fst (nthp (sm_h s) pp)) ltac:(lia)).
        assert (Hb := Hub pp Hpp). rewrite nth_buckets in Hb by lia. unfold bucket in Hb.
        rewrite (Hcons pp Hpp) in Hb. fold m in Hb. lia. }
      apply (Hgen ((key, fl, k) :: rest) perm j Harr); [cbn; auto|lia|cbn [length]; lia].
    + destruct (Nat.ltb_spec k m) as [_|]; [|lia]. destruct (Nat.ltb_spec j m) as [_|]; [|lia]. cbn [negb orb] in Hrun.
      (* lazy marking of j and k, then the swap: the effective permutation becomes swap perm j k *)
      set (q1 := sm_q s) in *. set (p1 := sm_p s) in *.
      destruct (if nthz q1 j =? irank then (q1, p1) else (upd q1 j irank, upd p1 j j)) as [q2 p2] eqn:E2.
      destruct (if nthz q2 k =? irank then (q2, p2) else (upd q2 k irank, upd p2 k k)) as [q3 p3] eqn:E3.
      assert (L2 : length q2 = m /\ length p2 = m).
      { destruct (nthz q1 j =? irank); injection E2 as <- <-; rewrite ?upd_length; auto. }
      assert (L3 : length q3 = m /\ length p3 = m).
      { destruct (nthz q2 k =? irank); injection E3 as <- <-; rewrite ?upd_length; tauto. }
      (* effective permutation after marking = before *)
      assert (Hpe2 : forall x, (x < m)%nat -> (if nthz q2 x =? irank then nthn p2 x else x) = nth x perm 0%nat).
      { intros x Hx. specialize (Hpe x Hx). unfold peff in Hpe. fold q1 p1 in Hpe.
        destruct (Z.eqb_spec (nthz q1 j) irank) as [Ej|Ej]; injection E2 as <- <-; [exact Hpe|].
        unfold nthz, nthn in *. destruct (Nat.eq_dec x j) as [->|Hxj].
        - rewrite !nth_upd_eq by lia. rewrite Z.eqb_refl. destruct (Z.eqb_spec (nth j q1 0) irank); [lia|exact Hpe].
        - rewrite !nth_upd_neq by lia. exact Hpe. }
      assert (Hpe3 : forall x, (x < m)%nat -> (if nthz q3 x =? irank then nthn p3 x else x) = nth x perm 0%nat).
      { intros x Hx. specialize (Hpe2 x Hx).
        destruct (Z.eqb_spec (nthz q2 k) irank) as [Ek|Ek]; injection E3 as <- <-; [exact Hpe2|].
        unfold nthz, nthn in *. destruct L2 as [L2q L2p]. destruct (Nat.eq_dec x k) as [->|Hxk].
        - rewrite !nth_upd_eq by lia. rewrite Z.eqb_refl. destruct (Z.eqb_spec (nth k q2 0) irank); [lia|exact Hpe2].
        - rewrite !nth_upd_neq by lia. exact Hpe2. }
      assert (Hq3j : nthz q3 j = irank /\ nthz q3 k = irank).
      { destruct L2 as [L2q L2p]. split.
        - destruct (Z.eqb_spec (nthz q2 k) irank) as [Ek|Ek]; injection E3 as <- <-.
          + destruct (Z.eqb_spec (nthz q1 j) irank) as [Ej|Ej]; injection E2 as <- <-; [exact Ej|]. unfold nthz. apply nth_upd_eq. lia.
          + unfold nthz. destruct (Nat.eq_dec k j) as [->|Hkj]; [apply nth_upd_eq; lia|]. rewrite nth_upd_neq by lia.
            destruct (Z.eqb_spec (nthz q1 j) irank) as [Ej|Ej]; injection E2 as <- <-; [exact Ej|]. apply nth_upd_eq. lia.
        - destruct (Z.eqb_spec (nthz q2 k) irank) as [Ek|Ek]; injection E3 as <- <-; [exact Ek|]. unfold nthz. apply nth_upd_eq. lia. }
      destruct Hq3j as [Hq3j Hq3k]. destruct L3 as [L3q L3p].
      assert (Hp3j : nthn p3 j = nth j perm 0%nat) by (specialize (Hpe3 j ltac:(lia)); rewrite Hq3j, Z.eqb_refl in Hpe3; exact Hpe3).
      assert (Hp3k : nthn p3 k = nth k perm 0%nat) by (specialize (Hpe3 k ltac:(lia)); rewrite Hq3k, Z.eqb_refl in Hpe3; exact Hpe3).
      set (p4 := upd (upd p3 j (nthn p3 k)) k (nthn p3 j)) in *.
      assert (Hp4 : forall x, (x < m)%nat -> (if nthz q3 x =? irank then nthn p4 x else x) = nth x (swap perm j k) 0%nat).
      { intros x Hx. unfold p4, swap, nthn. destruct Harr as [Lperm _].
        destruct (Nat.eq_dec x k) as [->|Hxk].
        - rewrite Hq3k, Z.eqb_refl. rewrite !nth_upd_eq by (rewrite ?upd_length; lia). exact Hp3j.
        - rewrite !(nth_upd_neq _ k x) by lia. destruct (Nat.eq_dec x j) as [->|Hxj].
          + rewrite Hq3j, Z.eqb_refl. rewrite !nth_upd_eq by lia. exact Hp3k.
          + rewrite !nth_upd_neq by lia. apply Hpe3. exact Hx. }
      assert (Hposeq : nthn p4 j = pos).
      { specialize (Hp4 j ltac:(lia)). rewrite Hq3j, Z.eqb_refl in Hp4. exact Hp4. }
      rewrite Hposeq in Hrun.
      destruct (Nat.ltb_spec pos m) as [_|]; [|lia]. cbn [negb] in Hrun.
      destruct (nthp (sm_h s) pos) as [okey ofl] eqn:Eold.
      assert (Hocons : ofl = F okey) by (specialize (Hcons pos Hpos); rewrite Eold in Hcons; exact Hcons).
      assert (Hin : In (0, key, pos) Pts) by (apply Hsub; cbn; auto).
      assert (Hsub' : forall p, In p (tagsF (swap perm j k) (S j) rest) -> In p Pts) by (intros p Hp; apply Hsub; cbn; auto).
      (* common finishing step *)
      assert (Hfin : forall s1, wfF s1 -> pinv s1 irank (swap perm j k) -> justF Pts s1 -> sm_m s1 = m -> sm_rank s1 = sm_rank s ->
                monoF s s1 -> covF s1 (0, key, pos) ->
                (forall x, (x < m)%nat -> nthz (sm_q s1) x = nthz q1 x \/ nthz (sm_q s1) x = irank) ->
                smh_rounds true s1 irank (S j) rest = Ok s' ->
                wfF s' /\ justF Pts s' /\ sm_m s' = sm_m s /\ sm_rank s' = sm_rank s /\ monoF s s' /\
                (forall p, In p (tagsF perm j ((key, fl, k) :: rest)) -> covF s' p) /\
                (forall x, (x < sm_m s)%nat -> nthz (sm_q s') x = nthz (sm_q s) x \/ nthz (sm_q s') x = irank)).
      { intros s1 Wf1 Pi1 J1 Hm1 Hr1 M1 C1 Q1 Hrun1.
        destruct (IH s1 (S j) (swap perm j k) s' Wf1 Pi1 J1 ltac:(rewrite Hm1; exact Rrest) ltac:(rewrite Hm1; lia) Hsub' Hrun1)
          as [Wf' [J' [Hm' [Hr' [M' [C' Q']]]]]].
        split; [exact Wf'|]. split; [exact J'|]. split; [lia|]. split; [lia|]. split.
        - intros x Hx. specialize (M1 x Hx). specialize (M' x ltac:(rewrite Hm1; exact Hx)). lia.
        - split.
          + intros p [<-|Hp]; [|apply C'; exact Hp]. unfold covF in *. fold pos. specialize (M' pos ltac:(rewrite Hm1; exact Hpos)). lia.
          + intros x Hx. fold q1. destruct (Q' x ltac:(rewrite Hm1; exact Hx)) as [E|E]; [|auto]. rewrite E. apply Q1. exact Hx. }
      (* q3 relates to q1 *)
      assert (Hq31 : forall x, (x < m)%nat -> nthz q3 x = nthz q1 x \/ nthz q3 x = irank).
      { intros x Hx. destruct L2 as [L2q L2p].
        assert (H2 : nthz q2 x = nthz q1 x \/ nthz q2 x = irank).
        { destruct (Z.eqb_spec (nthz q1 j) irank); injection E2 as <- <-; [auto|]. unfold nthz.
          destruct (Nat.eq_dec x j) as [->|]; [right; apply nth_upd_eq; lia|left; apply nth_upd_neq; lia]. }
        destruct (Z.eqb_spec (nthz q2 k) irank); injection E3 as <- <-; [exact H2|]. unfold nthz in *.
        destruct (Nat.eq_dec x k) as [->|]; [right; apply nth_upd_eq; lia|rewrite nth_upd_neq by lia; exact H2]. }
      assert (Hpi1 : forall h1 b1 u1, pinv (mkSMH m h1 q3 p4 b1 (sm_rank s) u1) irank (swap perm j k)).
      { intros h1 b1 u1. split; [exact Harr'|]. intros x Hx. unfold peff; cbn [sm_q sm_p sm_m] in *. apply Hp4. exact Hx. }
      assert (Lp4 : length p4 = m) by (unfold p4; rewrite !upd_length; exact L3p).
      assert (Hnthpos : nth pos (buckets s) 0%nat = bucket m (okey, ofl)) by (rewrite nth_buckets by lia; rewrite Eold; reflexivity).
      destruct (Z.ltb_spec key okey) as [Hlt|Hge].
      * (* the position improves *)
        set (h' := upd (sm_h s) pos (key, fl)) in *.
        set (j2 := Z.to_nat (Z.min ofl (Z.of_nat (m - 1)))) in *. set (j1 := Z.to_nat (Z.min fl (Z.of_nat (m - 1)))) in *.
        assert (Hj12 : (j1 <= j2)%nat) by (unfold j1, j2; rewrite Hfl, Hocons; assert (HF := F_mono key okey ltac:(lia)); lia).
        assert (Hbk' : map (bucket m) h' = upd (buckets s) pos j1) by (unfold h', buckets; fold m; apply map_upd).
        assert (Hcons' : forall x, (x < m)%nat -> snd (nthp h' x) = F (fst (nthp h' x))).
        { intros x Hx. unfold h', nthp. destruct (Nat.eq_dec x pos) as [->|Hxp]; [rewrite nth_upd_eq by lia; exact Hfl|].
          rewrite nth_upd_neq by lia. apply Hcons. exact Hx. }
        assert (Hjust' : forall b1 u1, justF Pts (mkSMH m h' q3 p4 b1 (sm_rank s) u1)).
        { intros b1 u1 x Hx; cbn [sm_m sm_h] in *. unfold h', nthp. destruct (Nat.eq_dec x pos) as [->|Hxp].
          - right. exists key. rewrite nth_upd_eq by lia. auto.
          - rewrite nth_upd_neq by lia. apply (J x Hx). }
        assert (Hmono' : forall b1 u1, monoF s (mkSMH m h' q3 p4 b1 (sm_rank s) u1)).
        { intros b1 u1 x Hx; cbn [sm_h]. unfold h', nthp. destruct (Nat.eq_dec x pos) as [->|Hxp].
          - rewrite nth_upd_eq by lia. fold (nthp (sm_h s) pos). rewrite Eold. cbn. lia.
          - rewrite nth_upd_neq by lia. lia. }
        assert (Hcov' : forall b1 u1, covF (mkSMH m h' q3 p4 b1 (sm_rank s) u1) (0, key, pos)).
        { intros b1 u1. unfold covF; cbn [sm_h]. unfold h', nthp. rewrite nth_upd_eq by lia. cbn. lia. }
        change (Z.to_nat (Z.min ofl (Z.of_nat (m - 1)))) with j2 in Hrun.
        destruct (Nat.ltb_spec j1 j2) as [Hmove|Hsame].
        -- assert (Hj2m : (j2 < m)%nat) by (unfold j2; lia).
           destruct (hist_move m (buckets s) (sm_b s) pos j1 j2 Lbk Lb Hpos Hnthpos Hmove Hj2m Hc) as [Lb' Hc'].
           set (b1 := upd (sm_b s) j2 (nthz (sm_b s) j2 - 1)) in *.
           set (b' := upd b1 j1 (nthz b1 j1 + 1)) in *.
           assert (Hj2u : (j2 <= sm_upper s)%nat) by (assert (Hq := Hub pos Hpos); rewrite Hnthpos in Hq; exact Hq).
           assert (Hub' : forall x, (x < m)%nat -> (nth x (upd (buckets s) pos j1) 0%nat <= sm_upper s)%nat).
           { intros x Hx. destruct (Nat.eq_dec x pos) as [->|Hxp]; [rewrite nth_upd_eq by lia; lia|].
             rewrite nth_upd_neq by lia. apply Hub; exact Hx. }
           destruct (lower_upper_ok m (upd (buckets s) pos j1) b' (S m) (sm_upper s)
                       ltac:(rewrite upd_length; exact Lbk) Lb' Hm Hu ltac:(lia) Hc' Hub') as [u' [Elu [Hule Hubu]]].
           rewrite Elu in Hrun.
           refine (Hfin _ _ (Hpi1 _ _ _) (Hjust' _ _) eq_refl eq_refl (Hmono' _ _) (Hcov' _ _) Hq31 Hrun).
           unfold wfF; cbn [sm_m sm_h sm_q sm_p sm_b sm_upper]. unfold h' at 1. rewrite upd_length.
           split; [exact Hm|]. split; [exact Lh|]. split; [exact L3q|]. split; [exact Lp4|]. split; [exact Hcons'|].
           unfold buckets; cbn [sm_m sm_h]. rewrite Hbk'. unfold hist_ok. rewrite upd_length.
           split; [exact Lbk|]. split; [exact Lb'|]. split; [lia|]. split; [exact Hc'|exact Hubu].
        -- assert (Ej : j1 = j2) by lia.
           refine (Hfin _ _ (Hpi1 _ _ _) (Hjust' _ _) eq_refl eq_refl (Hmono' _ _) (Hcov' _ _) Hq31 Hrun).
           unfold wfF; cbn [sm_m sm_h sm_q sm_p sm_b sm_upper]. unfold h' at 1. rewrite upd_length.
           split; [exact Hm|]. split; [exact Lh|]. split; [exact L3q|]. split; [exact Lp4|]. split; [exact Hcons'|].
           unfold buckets; cbn [sm_m sm_h]. rewrite Hbk'.
           replace (upd (buckets s) pos j1) with (buckets s).
           ++ unfold hist_ok. repeat split; assumption.
           ++ symmetry. rewrite Ej. unfold j2. change (Z.to_nat (Z.min ofl (Z.of_nat (m - 1)))) with (bucket m (okey, ofl)).
              rewrite <- Hnthpos. apply upd_same.
      * (* no improvement: the stored value is not above the offered one *)
        refine (Hfin _ _ (Hpi1 _ _ _) _ eq_refl eq_refl _ _ Hq31 Hrun).
        -- unfold wfF; cbn [sm_m sm_h sm_q sm_p sm_b sm_upper].
           split; [exact Hm|]. split; [exact Lh|]. split; [exact L3q|]. split; [exact Lp4|]. split; [exact Hcons|].
           unfold hist_ok. repeat split; assumption.
        -- intros x Hx; cbn [sm_m sm_h] in *. apply (J x Hx).
        -- intros x Hx; cbn [sm_h]. lia.
        -- unfold covF; cbn [sm_h]. rewrite Eold. cbn. lia.
Qed.

(* ---------------- items, histories from new ---------------- *)
Definition itemF_ok (m : nat) (sc : list (Z * Z * nat)) : Prop := roundsF_ok m 0 sc /\ (length sc <= m)%nat.
Definition item_tags (m : nat) (sc : list (Z * Z * nat)) : list tpoint := tagsF (seq 0 m) 0 sc.

Fixpoint smh_items (s : smh) (its : list (list (Z * Z * nat))) : outcome smh :=
  match its with [] => Ok s | sc :: r => bind (smh_sketch true s sc) (fun s' => smh_items s' r) end.

Definition alltagsF (m : nat) (its : list (list (Z * Z * nat))) : list tpoint := concat (map (item_tags m) its).

(* between items every marker is below the current rank: the lazy reset sees a fresh permutation *)
Definition qinv (s : smh) : Prop := forall x, (x < sm_m s)%nat -> nthz (sm_q s) x < sm_rank s.

Lemma pinv_fresh s : wfF s -> qinv s -> pinv s (sm_rank s) (seq 0 (sm_m s)).
Proof.
  intros Wf Q. split; [apply arr_seq|]. intros x Hx. unfold peff. specialize (Q x Hx).
  destruct (Z.eqb_spec (nthz (sm_q s) x) (sm_rank s)); [lia|]. rewrite seq_nth by exact Hx. reflexivity.
Qed.

Lemma smh_sketch_ok Pts sc s s' : wfF s -> qinv s -> justF Pts s -> itemF_ok (sm_m s) sc ->
  (forall p, In p (item_tags (sm_m s) sc) -> In p Pts) -> smh_sketch true s sc = Ok s' ->
  wfF s' /\ qinv s' /\ justF Pts s' /\ sm_m s' = sm_m s /\ monoF s s' /\ (forall p, In p (item_tags (sm_m s) sc) -> covF s' p).
Proof.
  intros Wf Q J [Rok Hlen] Hsub Hrun. unfold smh_sketch in Hrun.
  destruct (smh_rounds true s (sm_rank s) 0 sc) as [s1| | | |] eqn:E; try discriminate. cbn [bind] in Hrun. injection Hrun as <-.
  destruct (smh_rounds_ok Pts (sm_rank s) sc s 0%nat (seq 0 (sm_m s)) s1 Wf (pinv_fresh s Wf Q) J Rok ltac:(lia) Hsub E)
    as [Wf1 [J1 [Hm1 [Hr1 [M1 [C1 Q1]]]]]].
  assert (Wf1' := Wf1). destruct Wf1' as [A1 [A2 [A3 [A4 [A5 A6]]]]].
  split; [|split; [|split; [|split; [|split]]]].
  - unfold wfF; cbn [sm_m sm_h sm_q sm_p sm_b sm_upper]. exact (conj A1 (conj A2 (conj A3 (conj A4 (conj A5 A6))))).
  - intros x Hx; cbn [sm_m sm_q sm_rank] in *. destruct (Q1 x ltac:(lia)) as [E1|E1]; rewrite E1; [specialize (Q x ltac:(lia)); lia|lia].
  - intros x Hx; cbn [sm_m sm_h] in *. apply (J1 x Hx).
  - exact Hm1.
  - intros x Hx; cbn [sm_h]. apply M1. exact Hx.
  - intros p Hp. specialize (C1 p Hp). destruct p as [[id h] pos]. exact C1.
Qed.

Lemma smh_items_ok Pts : forall its s s', wfF s -> qinv s -> justF Pts s ->
  (forall sc, In sc its -> itemF_ok (sm_m s) sc) -> (forall p, In p (alltagsF (sm_m s) its) -> In p Pts) ->
  smh_items s its = Ok s' ->
  wfF s' /\ qinv s' /\ justF Pts s' /\ sm_m s' = sm_m s /\ monoF s s' /\ (forall p, In p (alltagsF (sm_m s) its) -> covF s' p).
Proof.
  induction its as [|sc r IH]; intros s s' Wf Q J Hok Hsub Hrun.
  - cbn in Hrun. injection Hrun as <-. split; [exact Wf|]. split; [exact Q|]. split; [exact J|]. split; [reflexivity|].
    split; [intros x Hx; lia|intros p []].
  - cbn [smh_items] in Hrun. destruct (smh_sketch true s sc) as [s1| | | |] eqn:E; try discriminate. cbn [bind] in Hrun.
    unfold alltagsF in *. cbn [map concat] in *.
    destruct (smh_sketch_ok Pts sc s s1 Wf Q J (Hok _ ltac:(cbn; auto)) ltac:(intros p Hp; apply Hsub; apply in_app_iff; auto) E)
      as [Wf1 [Q1 [J1 [Hm1 [M1 C1]]]]].
    destruct (IH s1 s' Wf1 Q1 J1 ltac:(intros sc' Hin; rewrite Hm1; apply Hok; cbn; auto)
                ltac:(rewrite Hm1; intros p Hp; apply Hsub; apply in_app_iff; auto) Hrun) as [Wf2 [Q2 [J2 [Hm2 [M2 C2]]]]].
    split; [exact Wf2|]. split; [exact Q2|]. split; [exact J2|]. split; [lia|]. split.
    + intros x Hx. specialize (M1 x Hx). specialize (M2 x ltac:(rewrite Hm1; exact Hx)). lia.
    + intros p Hp. apply in_app_iff in Hp. destruct Hp as [Hp|Hp]; [|apply C2; rewrite Hm1; exact Hp].
      specialize (C1 p Hp). destruct (Hok sc ltac:(cbn; auto)) as [Rok _].
      destruct (tagsF_pos (sm_m s) sc (seq 0 (sm_m s)) 0%nat p (arr_seq _) Rok Hp) as [h [pos [-> Hpos]]].
      unfold covF in *. specialize (M2 pos ltac:(rewrite Hm1; exact Hpos)). lia.
Qed.

Lemma smh_new_ok m : (1 <= m)%nat -> Z.of_nat m <= snd large -> exists s, smh_new m large = Ok s /\ wfF s /\ qinv s /\ sm_m s = m /\ justF [] s.
Proof.
  intros Hm Hlarge. destruct m as [|m']; [lia|]. eexists. split; [reflexivity|]. set (m := S m') in *.
  assert (Hh : forall x, (x < m)%nat -> nthp (repeat large m) x = large) by (intros; unfold nthp; apply nth_repeat_lt; assumption).
  assert (Hbl : bucket m large = (m - 1)%nat) by (unfold bucket; lia).
  split; [|split; [|split; [reflexivity|]]].
  - unfold wfF; cbn [sm_m sm_h sm_q sm_p sm_b sm_upper]. rewrite !repeat_length.
    split; [lia|]. split; [reflexivity|]. split; [reflexivity|]. split; [reflexivity|]. split.
    + intros x Hx. rewrite Hh by exact Hx. exact large_ok.
    + unfold hist_ok, buckets; cbn [sm_m sm_h]. rewrite map_length, upd_length, !repeat_length.
      split; [reflexivity|]. split; [reflexivity|]. split; [lia|].
      assert (Hmap : map (bucket m) (repeat large m) = repeat (m - 1)%nat m).
      { rewrite <- Hbl. clear. induction m as [|n IH] at 2 4; [reflexivity|]. cbn. f_equal. exact IH. }
      rewrite Hmap. split.
      * intros x Hx. unfold nthz. destruct (Nat.eq_dec x (m - 1)) as [->|Hne].
        -- rewrite nth_upd_eq by (rewrite repeat_length; lia).
           assert (Hcnt : forall n, cnt (m - 1) (repeat (m - 1)%nat n) = Z.of_nat n).
           { induction n as [|n IHn]; cbn [repeat cnt]; [reflexivity|]. rewrite Nat.eqb_refl, IHn. lia. }
           rewrite Hcnt. lia.
        -- rewrite nth_upd_neq by lia. rewrite nth_repeat_lt by exact Hx.
           assert (Hcnt : forall n, cnt x (repeat (m - 1)%nat n) = 0).
           { induction n as [|n IHn]; cbn [repeat cnt]; [reflexivity|]. destruct (Nat.eqb_spec (m - 1) x); [lia|]. rewrite IHn. lia. }
           rewrite Hcnt. lia.
      * intros x Hx. rewrite nth_repeat_lt by exact Hx. lia.
  - intros x Hx; cbn [sm_m sm_q sm_rank] in *. unfold nthz. rewrite nth_repeat_lt by exact Hx. lia.
  - intros x Hx; cbn [sm_m sm_h] in *. left. rewrite Hh by exact Hx. reflexivity.
Qed.

(* the sketch of a run from new is the position-wise minimum over the draws of all items *)
Theorem smh_is_min m its s : (1 <= m)%nat -> Z.of_nat m <= snd large -> (forall sc, In sc its -> itemF_ok m sc) ->
  bind (smh_new m large) (fun s0 => smh_items s0 its) = Ok s ->
  sm_m s = m /\ forall x, (x < m)%nat -> fst (nthp (sm_h s) x) = min_at (alltagsF m its) (fst large) x.
Proof.
  intros Hm Hl Hok Hrun. destruct (smh_new_ok m Hm Hl) as [s0 [E0 [Wf0 [Q0 [Hm0 J0]]]]]. rewrite E0 in Hrun. cbn [bind] in Hrun.
  destruct (smh_items_ok (alltagsF m its) its s0 s Wf0 Q0) as [Wf [_ [J [Hms [_ C]]]]].
  - intros x Hx. destruct (J0 x Hx) as [H|[h [[] _]]]. left. exact H.
  - rewrite Hm0. exact Hok.
  - rewrite Hm0. auto.
  - exact Hrun.
  - split; [lia|]. intros x Hx. rewrite Hm0 in *. apply Z.le_antisymm.
    + destruct (min_at_attained (alltagsF m its) (fst large) x) as [E|[id Hin]].
      * rewrite E. destruct (J x ltac:(lia)) as [H|[h [_ [H Hlt]]]]; lia.
      * specialize (C _ Hin). unfold covF in C. exact C.
    + destruct (J x ltac:(lia)) as [H|[h [Hin [H _]]]].
      * rewrite H. apply min_at_le_max.
      * rewrite H. apply (min_at_le _ _ _ 0). exact Hin.
Qed.

(* set semantics and union: the point set of a stream is the union of the point sets of its items,
   each a function of the item's script alone *)
Theorem smh_set_semantics m its its' s s' : (1 <= m)%nat -> Z.of_nat m <= snd large ->
  (forall sc, In sc its -> itemF_ok m sc) -> (forall sc, In sc its' -> itemF_ok m sc) ->
  (forall x, In x its <-> In x its') ->
  bind (smh_new m large) (fun s0 => smh_items s0 its) = Ok s ->
  bind (smh_new m large) (fun s0 => smh_items s0 its') = Ok s' ->
  forall x, (x < m)%nat -> fst (nthp (sm_h s) x) = fst (nthp (sm_h s') x).
Proof.
  intros Hm Hl Ok1 Ok2 Hsame R1 R2 x Hx.
  destruct (smh_is_min m its s Hm Hl Ok1 R1) as [_ H1]. destruct (smh_is_min m its' s' Hm Hl Ok2 R2) as [_ H2].
  rewrite H1, H2 by exact Hx. apply min_at_ext. intros p. unfold alltagsF. rewrite !in_concat.
  split; intros [l [Hl' Hp]]; apply in_map_iff in Hl'; destruct Hl' as [sc [<- Hsc]]; exists (item_tags m sc);
    (split; [apply in_map_iff; exists sc; split; [reflexivity|apply Hsame; exact Hsc]|exact Hp]).
Qed.

Theorem smh_union_is_min m its1 its2 s1 s2 s12 : (1 <= m)%nat -> Z.of_nat m <= snd large ->
  (forall sc, In sc (its1 ++ its2) -> itemF_ok m sc) ->
  bind (smh_new m large) (fun s0 => smh_items s0 its1) = Ok s1 ->
  bind (smh_new m large) (fun s0 => smh_items s0 its2) = Ok s2 ->
  bind (smh_new m large) (fun s0 => smh_items s0 (its1 ++ its2)) = Ok s12 ->
  forall x, (x < m)%nat -> fst (nthp (sm_h s12) x) = Z.min (fst (nthp (sm_h s1) x)) (fst (nthp (sm_h s2) x)).
Proof.
  intros Hm Hl Hok R1 R2 R12 x Hx.
  destruct (smh_is_min m its1 s1 Hm Hl ltac:(intros sc H; apply Hok; apply in_app_iff; auto) R1) as [_ H1].
  destruct (smh_is_min m its2 s2 Hm Hl ltac:(intros sc H; apply Hok; apply in_app_iff; auto) R2) as [_ H2].
  destruct (smh_is_min m (its1 ++ its2) s12 Hm Hl Hok R12) as [_ H12].
  rewrite H1, H2, H12 by exact Hx. unfold alltagsF. rewrite map_app, concat_app. apply min_at_app.
Qed.
End SMH.

(* ---------------- a single item: its m rounds visit every position exactly once ---------------- *)
Fixpoint final_perm (perm : list nat) (j : nat) (sc : list (Z * Z * nat)) : list nat :=
  match sc with [] => perm | (_, _, k) :: rest => final_perm (swap perm j k) (S j) rest end.

Fixpoint ks_ok (m j : nat) (sc : list (Z * Z * nat)) : Prop :=
  match sc with [] => True | (_, _, k) :: rest => (j <= k < m)%nat /\ ks_ok m (S j) rest end.

Lemma final_perm_arr m : forall sc perm j, arr m perm -> ks_ok m j sc -> arr m (final_perm perm j sc).
Proof.
  induction sc as [|[[key fl] k] rest IH]; intros perm j Ha Hk; [exact Ha|]. cbn in *. destruct Hk as [Hk Hr].
  apply IH; [apply arr_swap; [exact Ha|lia|lia]|exact Hr].
Qed.

Lemma final_perm_below m : forall sc perm j i, arr m perm -> ks_ok m j sc -> (i < j)%nat ->
  nth i (final_perm perm j sc) 0%nat = nth i perm 0%nat.
Proof.
  induction sc as [|[[key fl] k] rest IH]; intros perm j i Ha Hk Hi; [reflexivity|]. cbn in *. destruct Hk as [Hk Hr].
  rewrite (IH _ (S j) i (arr_swap m perm j k Ha ltac:(lia) ltac:(lia)) Hr ltac:(lia)).
  destruct Ha as [Hl _]. rewrite nth_swap by lia. unfold tr.
  destruct (Nat.eqb_spec i j); [lia|]. destruct (Nat.eqb_spec i k); [lia|reflexivity].
Qed.

(* the i-th tagged point of the item sits on position final_perm[j + i] *)
Lemma tagsF_on_final_perm m : forall sc perm j i, arr m perm -> ks_ok m j sc -> (i < length sc)%nat ->
  snd (nth i (tagsF perm j sc) (0, 0, 0%nat)) = nth (j + i) (final_perm perm j sc) 0%nat.
Proof.
  induction sc as [|[[key fl] k] rest IH]; intros perm j i Ha Hk Hi; [cbn in Hi; lia|]. cbn in Hk. destruct Hk as [Hk Hr].
  assert (Ha' : arr m (swap perm j k)) by (apply arr_swap; [exact Ha|lia|lia]).
  destruct i as [|i]; cbn [tagsF nth snd final_perm].
  - rewrite Nat.add_0_r. symmetry. apply (final_perm_below m rest _ (S j) j Ha' Hr). lia.
  - cbn [length] in Hi. rewrite (IH _ (S j) i Ha' Hr ltac:(lia)). f_equal. lia.
Qed.

Lemma tagsF_length : forall sc perm j, length (tagsF perm j sc) = length sc.
Proof. induction sc as [|[[key fl] k] rest IH]; intros; cbn; [reflexivity|]. f_equal. apply IH. Qed.

(* a complete item (m rounds): the positions of its points are a permutation of 0..m-1, the i-th
   point (value with integer part >= i, in fact fl(r_i + i)) sitting on position final_perm[i] *)
Theorem single_item_positions m sc : ks_ok m 0 sc -> length sc = m ->
  map (fun p : tpoint => snd p) (tagsF (seq 0 m) 0 sc) = final_perm (seq 0 m) 0 sc /\
  arr m (final_perm (seq 0 m) 0 sc).
Proof.
  intros Hk Hl. assert (Ha := final_perm_arr m sc (seq 0 m) 0%nat (arr_seq m) Hk). split; [|exact Ha].
  apply (nth_ext _ _ 0%nat 0%nat).
  - rewrite map_length, tagsF_length. destruct Ha as [L _]. lia.
  - intros i Hi. rewrite map_length, tagsF_length in Hi.
    rewrite (nth_indep _ 0%nat (snd (0, 0, 0%nat))) by (rewrite map_length, tagsF_length; exact Hi).
    rewrite (map_nth (fun p : tpoint => snd p)).
    rewrite (tagsF_on_final_perm m sc (seq 0 m) 0%nat i (arr_seq m) Hk Hi). reflexivity.
Qed.
