(* C12: the ambient-read audit regenerated from the source satisfies the classifier. *)
From Coq Require Import List String Bool.
From PMH Require Import Model.Env Gen.Ambient.
Import ListNotations.

Theorem ambient_reads_classified : forallb ambient_ok ambient_reads = true.
Proof. vm_compute. reflexivity. Qed.
