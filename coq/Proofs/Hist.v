(* Histogram bookkeeping shared by SuperMinHash and SuperMinHash2: b over-counts the positions per
   bucket, so lowering a_upper past empty histogram cells never passes a bucket in use. *)
From Coq Require Import List Arith ZArith Bool Lia ZifyNat ZifyBool.
From PMH Require Import Lib.ListArr Model.SuperMinHash.
Import ListNotations.
Open Scope Z_scope.

Fixpoint cnt (x : nat) (l : list nat) : Z :=
  match l with [] => 0 | y :: r => (if Nat.eqb y x then 1 else 0) + cnt x r end.

Lemma cnt_nonneg x l : 0 <= cnt x l.
Proof. induction l as [|y r IH]; cbn; [lia|]. destruct (Nat.eqb y x); lia. Qed.

Lemma cnt_upd x l pos v : (pos < length l)%nat ->
  cnt x (upd l pos v) = cnt x l - (if Nat.eqb (nth pos l 0%nat) x then 1 else 0) + (if Nat.eqb v x then 1 else 0).
Proof.
  revert pos; induction l as [|y r IH]; intros pos Hp; [cbn in Hp; lia|].
  destruct pos as [|pos]; cbn.
  - lia.
  - rewrite IH by (cbn in Hp; lia). lia.
Qed.

Lemma cnt_pos_in x l pos : (pos < length l)%nat -> nth pos l 0%nat = x -> 1 <= cnt x l.
Proof.
  revert pos; induction l as [|y r IH]; intros pos Hp E; [cbn in Hp; lia|].
  destruct pos as [|pos]; cbn in *.
  - subst y. rewrite Nat.eqb_refl. assert (H := cnt_nonneg x r). lia.
  - specialize (IH pos ltac:(lia) E). destruct (Nat.eqb y x); lia.
Qed.

(* the histogram invariant: every bucket's true count is bounded by b, all buckets are <= upper *)
Definition hist_ok (m : nat) (buckets : list nat) (b : list Z) (upper : nat) : Prop :=
  length buckets = m /\ length b = m /\ (upper < m)%nat /\
  (forall x, (x < m)%nat -> cnt x buckets <= nthz b x) /\
  (forall k, (k < m)%nat -> (nth k buckets 0%nat <= upper)%nat).

Lemma lower_upper_ok m buckets b : forall fuel u,
  length buckets = m -> length b = m -> (1 <= m)%nat -> (u < m)%nat -> (u < fuel)%nat ->
  (forall x, (x < m)%nat -> cnt x buckets <= nthz b x) ->
  (forall k, (k < m)%nat -> (nth k buckets 0%nat <= u)%nat) ->
  exists u', lower_upper fuel b u = Ok u' /\ (u' <= u)%nat /\
    (forall k, (k < m)%nat -> (nth k buckets 0%nat <= u')%nat).
Proof.
  induction fuel as [|f IH]; intros u Lb Lh Hm Hu Hf Hc Hub; [lia|].
  cbn [lower_upper]. destruct (Z.eqb_spec (nthz b u) 0) as [E0|Hne].
  - (* cell empty: no position has bucket u *)
    assert (Hnone : forall k, (k < m)%nat -> nth k buckets 0%nat <> u).
    { intros k Hk E. assert (H1 := cnt_pos_in u buckets k ltac:(lia) E). specialize (Hc u Hu). lia. }
    destruct u as [|u'].
    + (* bucket 0 empty and everything <= 0: impossible, some position exists *)
      exfalso. specialize (Hub 0%nat ltac:(lia)). apply (Hnone 0%nat ltac:(lia)). lia.
    + destruct (IH u' Lb Lh Hm ltac:(lia) ltac:(lia) Hc) as [u2 [E [Hle Hub2]]].
      * intros k Hk. specialize (Hub k Hk). specialize (Hnone k Hk). lia.
      * exists u2. split; [exact E|]. split; [lia|exact Hub2].
  - exists u. split; [reflexivity|]. split; [lia|exact Hub].
Qed.

(* moving one position from bucket j2 down to bucket j1 (j1 < j2) and adjusting b keeps the bound *)
Lemma hist_move m buckets b pos j1 j2 : length buckets = m -> length b = m -> (pos < m)%nat ->
  nth pos buckets 0%nat = j2 -> (j1 < j2)%nat -> (j2 < m)%nat ->
  (forall x, (x < m)%nat -> cnt x buckets <= nthz b x) ->
  let b1 := upd b j2 (nthz b j2 - 1) in
  let b' := upd b1 j1 (nthz b1 j1 + 1) in
  length b' = m /\ forall x, (x < m)%nat -> cnt x (upd buckets pos j1) <= nthz b' x.
Proof.
  intros Lb Lh Hp E Hlt Hj2 Hc b1 b'. split; [unfold b', b1; rewrite !upd_length; exact Lh|].
  intros x Hx. rewrite cnt_upd by lia. rewrite E. unfold b', b1, nthz.
  destruct (Nat.eq_dec x j1) as [->|H1].
  - rewrite nth_upd_eq by (rewrite upd_length; lia). rewrite nth_upd_neq by lia.
    destruct (Nat.eqb_spec j2 j1); [lia|]. rewrite Nat.eqb_refl. specialize (Hc j1 Hx). unfold nthz in Hc. lia.
  - rewrite nth_upd_neq by lia. destruct (Nat.eq_dec x j2) as [->|H2].
    + rewrite nth_upd_eq by lia. rewrite Nat.eqb_refl. destruct (Nat.eqb_spec j1 j2); [lia|].
      specialize (Hc j2 Hx). unfold nthz in Hc. lia.
    + rewrite nth_upd_neq by lia. destruct (Nat.eqb_spec j2 x); [lia|]. destruct (Nat.eqb_spec j1 x); [lia|].
      specialize (Hc x Hx). unfold nthz in Hc. lia.
Qed.
