(* C16: the rejection region of ExpRestricted01 is exactly the region under
     f(x) = (e^{-lambda x} - e^{-lambda}) / (1 - e^{-lambda}),
   the target density is the mixture 1/c1 + lambda f, and its distribution function is
   (1 - e^{-lambda t}) / (1 - e^{-lambda}), for every lambda > 0.
   The constants and tests are those of Gen/Exp01Gen.v (regenerated from src/exp01.rs). *)
From Coq Require Import Reals Lra Lia.
From Coquelicot Require Import Coquelicot.
From PMH Require Import Gen.Exp01Gen.
Open Scope R_scope.

Definition f01 (lambda x : R) : R := (exp (- lambda * x) - exp (- lambda)) / (1 - exp (- lambda)).
Definition rho01 (lambda x : R) : R := lambda * exp (- lambda * x) / (1 - exp (- lambda)).
Definition cdf01 (lambda t : R) : R := (1 - exp (- lambda * t)) / (1 - exp (- lambda)).

Lemma exp_ge_1_plus t : 1 + t <= exp t.
Proof.
  destruct (Req_dec t 0) as [->|Hne]; [rewrite exp_0; lra|]. left. apply exp_ineq1. exact Hne.
Qed.

Lemma exp_neg_lt_1 lambda : 0 < lambda -> exp (- lambda) < 1.
Proof. intros H. rewrite <- exp_0. apply exp_increasing. lra. Qed.

Lemma c1_pos lambda : 0 < lambda -> 0 < exp01_c1 lambda.
Proof.
  intros H. unfold exp01_c1. apply Rdiv_lt_0_compat; [|exact H].
  assert (1 < exp lambda) by (rewrite <- exp_0; apply exp_increasing; exact H). lra.
Qed.
Lemma c3_pos lambda : 0 < lambda -> 0 < exp01_c3 lambda.
Proof. intros H. unfold exp01_c3. apply Rdiv_lt_0_compat; [|exact H]. assert (Hl := exp_neg_lt_1 lambda H). lra. Qed.

Lemma exp_mul_neg lambda : exp lambda * exp (- lambda) = 1.
Proof. rewrite <- exp_plus. replace (lambda + - lambda) with 0 by ring. apply exp_0. Qed.

(* test 3 is the exact test y <= f(x) *)
Lemma test3_iff lambda x y : 0 < lambda -> (exp01_test3 lambda x y <-> y <= f01 lambda x).
Proof.
  intros Hl. unfold exp01_test3, exp01_c1, f01.
  assert (Hd : 0 < 1 - exp (- lambda)) by (assert (H := exp_neg_lt_1 lambda Hl); lra).
  assert (He : 1 < exp lambda) by (rewrite <- exp_0; apply exp_increasing; exact Hl).
  assert (Hm := exp_mul_neg lambda).
  replace (y * ((exp lambda - 1) / lambda) * lambda) with (y * (exp lambda - 1)) by (field; lra).
  replace (exp (lambda * (1 - x)) - 1) with (exp lambda * exp (- lambda * x) - 1)
    by (rewrite <- exp_plus; f_equal; f_equal; ring).
  (* multiply the right inequality by exp lambda * (1 - exp(-lambda)) = exp lambda - 1 > 0 *)
  assert (Hk : (exp (- lambda * x) - exp (- lambda)) / (1 - exp (- lambda)) =
               (exp lambda * exp (- lambda * x) - 1) / (exp lambda - 1)).
  { replace (exp lambda * exp (- lambda * x) - 1) with (exp lambda * (exp (- lambda * x) - exp (- lambda))) by (rewrite Rmult_minus_distr_l, Hm; reflexivity).
    replace (exp lambda - 1) with (exp lambda * (1 - exp (- lambda))) by (rewrite Rmult_minus_distr_l, Hm; ring).
    field. split; lra. }
  rewrite Hk. split; intros H.
  - apply (Rmult_le_reg_r (exp lambda - 1)); [lra|]. unfold Rdiv. rewrite Rmult_assoc, Rinv_l by lra. lra.
  - apply (Rmult_le_compat_r (exp lambda - 1)) in H; [|lra]. unfold Rdiv in H. rewrite Rmult_assoc, Rinv_l in H by lra. lra.
Qed.

(* tests 1 and 2 are the tangents of f at 0 and at 1: sufficient conditions *)
Lemma test1_implies lambda x y : 0 < lambda -> exp01_test1 lambda x y -> y <= f01 lambda x.
Proof.
  intros Hl H. unfold exp01_test1, exp01_c3 in H. unfold f01.
  assert (Hd : 0 < 1 - exp (- lambda)) by (assert (Hx := exp_neg_lt_1 lambda Hl); lra).
  assert (Ht := exp_ge_1_plus (- lambda * x)).
  apply (Rmult_le_reg_r (1 - exp (- lambda))); [exact Hd|].
  unfold Rdiv. rewrite Rmult_assoc, Rinv_l by lra.
  (* x <= (1 - e)/lambda * (1 - y)  ->  lambda x <= (1-e)(1-y) *)
  assert (H' : lambda * x <= (1 - exp (- lambda)) * (1 - y)).
  { apply (Rmult_le_compat_l lambda) in H; [|lra]. replace (lambda * ((1 - exp (- lambda)) / lambda * (1 - y)))
      with ((1 - exp (- lambda)) * (1 - y)) in H by (field; lra). exact H. }
  lra.
Qed.

Lemma test2_implies lambda x y : 0 < lambda -> exp01_test2 lambda x y -> y <= f01 lambda x.
Proof.
  intros Hl H. apply (test3_iff lambda x y Hl). unfold exp01_test3. unfold exp01_test2 in H.
  assert (Ht := exp_ge_1_plus (lambda * (1 - x))).
  apply (Rmult_le_compat_r lambda) in H; [|lra]. lra.
Qed.

(* the acceptance disjunction of the loop is exactly the region under f *)
Theorem exp01_accept_iff lambda x y : 0 < lambda ->
  (exp01_test1 lambda x y \/ exp01_test2 lambda x y \/ exp01_test3 lambda x y) <-> y <= f01 lambda x.
Proof.
  intros Hl. split.
  - intros [H|[H|H]]; [apply test1_implies|apply test2_implies|apply test3_iff]; assumption.
  - intros H. right. right. apply test3_iff; assumption.
Qed.

(* c2 is where f = 1/2: left of it every y < 1/2 is accepted without a test *)
Theorem exp01_c2_half lambda : 0 < lambda -> f01 lambda (exp01_c2 lambda) = 1 / 2.
Proof.
  intros Hl. unfold f01, exp01_c2.
  assert (Hd : 0 < 1 - exp (- lambda)) by (assert (Hx := exp_neg_lt_1 lambda Hl); lra).
  assert (Hp := exp_pos (- lambda)).
  replace (- lambda * (ln (2 / (1 + exp (- lambda))) / lambda)) with (- ln (2 / (1 + exp (- lambda)))) by (field; lra).
  rewrite exp_Ropp, exp_ln by (apply Rdiv_lt_0_compat; lra).
  field. lra.
Qed.

(* the density is the mixture: uniform with weight 1/c1, plus lambda * f *)
Theorem exp01_mixture lambda x : 0 < lambda -> rho01 lambda x = / exp01_c1 lambda + lambda * f01 lambda x.
Proof.
  intros Hl. unfold rho01, exp01_c1, f01.
  assert (Hd : 0 < 1 - exp (- lambda)) by (assert (Hx := exp_neg_lt_1 lambda Hl); lra).
  assert (He : 1 < exp lambda) by (rewrite <- exp_0; apply exp_increasing; exact Hl).
  assert (Hm := exp_mul_neg lambda).
  assert (Hi : / ((exp lambda - 1) / lambda) = lambda * exp (- lambda) / (1 - exp (- lambda))).
  { rewrite (exp_Ropp lambda). assert (Hp := exp_pos lambda). field. repeat split; lra. }
  rewrite Hi. field. lra.
Qed.

(* the distribution function: its derivative is the density, it starts at 0 and reaches 1 *)
Theorem exp01_cdf lambda t : 0 < lambda ->
  is_derive (cdf01 lambda) t (rho01 lambda t) /\ cdf01 lambda 0 = 0 /\ cdf01 lambda 1 = 1.
Proof.
  intros Hl. assert (Hd : 0 < 1 - exp (- lambda)) by (assert (Hx := exp_neg_lt_1 lambda Hl); lra).
  split; [|split].
  - unfold cdf01, rho01. auto_derive; [exact I|]. field. lra.
  - unfold cdf01. rewrite Rmult_0_r, exp_0. field. lra.
  - unfold cdf01. rewrite Rmult_1_r. field. lra.
Qed.

(* f is a density-shaped function on [0,1]: between 0 and the chord 1 - x *)
Theorem exp01_f_range lambda x : 0 < lambda -> 0 <= x <= 1 -> 0 <= f01 lambda x <= 1.
Proof.
  intros Hl Hx. unfold f01.
  assert (Hd : 0 < 1 - exp (- lambda)) by (assert (H := exp_neg_lt_1 lambda Hl); lra).
  assert (H1 : exp (- lambda) <= exp (- lambda * x)).
  { destruct (Req_dec x 1) as [->|]; [rewrite Rmult_1_r; lra|]. left. apply exp_increasing. nra. }
  assert (H2 : exp (- lambda * x) <= 1).
  { rewrite <- exp_0. destruct (Req_dec x 0) as [->|]; [rewrite Rmult_0_r; lra|]. left. apply exp_increasing. nra. }
  split.
  - apply Rmult_le_pos; [lra|]. left. apply Rinv_0_lt_compat. exact Hd.
  - apply (Rmult_le_reg_r (1 - exp (- lambda))); [exact Hd|]. unfold Rdiv. rewrite Rmult_assoc, Rinv_l by lra. lra.
Qed.

(* ------------------------------------------------------------------ *)
(* the control flow of ExpRestricted01::sample (template-matched by translate/tr_exp01.py) over the reals:
   first try  x = c1 * u0, returned if < 1;  then rounds on two unit draws (ux, uy) *)
Inductive round_result := Accept (x : R) | Reject.

Definition first_try (lambda u0 : R) : option R :=
  let x := exp01_c1 lambda * u0 in if Rlt_dec x 1 then Some x else None.

Lemma or3_dec (P Q S : Prop) : {P} + {~ P} -> {Q} + {~ Q} -> {S} + {~ S} -> {P \/ Q \/ S} + {~ (P \/ Q \/ S)}.
Proof. intros [p|np] [q|nq] [s|ns]; try (left; tauto); right; tauto. Defined.

(* each generated test is an inequality a <= b, whatever its two sides are *)
Definition accepted_dec (lambda x y : R) :
  {exp01_test1 lambda x y \/ exp01_test2 lambda x y \/ exp01_test3 lambda x y} +
  {~ (exp01_test1 lambda x y \/ exp01_test2 lambda x y \/ exp01_test3 lambda x y)}.
Proof. apply or3_dec; [unfold exp01_test1|unfold exp01_test2|unfold exp01_test3]; apply Rle_dec. Defined.

Definition one_round (lambda ux uy : R) : round_result :=
  if Rlt_dec ux (exp01_c2 lambda) then Accept ux else
  let y0 := (5 / 10) * uy in
  let x := if Rlt_dec (1 - ux) y0 then 1 - ux else ux in
  let y := if Rlt_dec (1 - ux) y0 then 1 - y0 else y0 in
  if accepted_dec lambda x y then Accept x else Reject.

(* every value the sampler can return lies in [0,1), for every rate and all unit draws *)
Theorem exp01_first_try_range lambda u0 x : 0 < lambda -> 0 <= u0 < 1 -> first_try lambda u0 = Some x -> 0 <= x < 1.
Proof.
  intros Hl Hu. unfold first_try. destruct (Rlt_dec (exp01_c1 lambda * u0) 1) as [H|H]; [|discriminate].
  intros E. injection E as <-. split; [|exact H]. apply Rmult_le_pos; [left; apply c1_pos; exact Hl|tauto].
Qed.

Theorem exp01_round_range lambda ux uy x : 0 <= ux < 1 -> 0 <= uy < 1 -> one_round lambda ux uy = Accept x -> 0 <= x < 1.
Proof.
  intros Hx Hy. unfold one_round. destruct (Rlt_dec ux (exp01_c2 lambda)) as [_|_]; [intros E; injection E as <-; exact Hx|].
  cbv zeta. destruct (Rlt_dec (1 - ux) (5 / 10 * uy)) as [Hf|Hf].
  - destruct (accepted_dec lambda (1 - ux) (1 - 5 / 10 * uy)); [|discriminate]. intros E. injection E as <-. lra.
  - destruct (accepted_dec lambda ux (5 / 10 * uy)); [|discriminate]. intros E. injection E as <-. exact Hx.
Qed.
