(* C05 / C04 (SetSketch): registers are the position-wise maximum of the clipped draws of all
   items; lower_k never exceeds the smallest register in any reachable state; merge = union. *)
From Coq Require Import List Arith ZArith Bool Lia ZifyNat ZifyBool.
From PMH Require Import Lib.ListArr Model.SetSketch.
Import ListNotations.
Open Scope Z_scope.

(* ------------------------------------------------------------------ *)
(* list minimum *)
Lemma fold_min_le_acc l a : fold_left Z.min l a <= a.
Proof. revert a; induction l as [|x l IH]; intros a; cbn; [lia|]. specialize (IH (Z.min a x)). lia. Qed.
Lemma fold_min_le_in l a x : In x l -> fold_left Z.min l a <= x.
Proof.
  revert a; induction l as [|y l IH]; intros a []; cbn.
  - subst. assert (H := fold_min_le_acc l (Z.min a x)). lia.
  - apply IH; assumption.
Qed.
Lemma lmin_le l i : (i < length l)%nat -> lmin l <= nthz l i.
Proof. intros H. unfold lmin, nthz. apply fold_min_le_in. apply nth_In. exact H. Qed.

(* ------------------------------------------------------------------ *)
(* invariant of every reachable state *)
Definition ssinv (s : ss) : Prop :=
  let p := ss_par s in
  length (ss_k s) = sp_m p /\ 0 <= sp_imax p /\ 0 <= ss_lower s /\
  (forall i, (i < sp_m p)%nat -> ss_lower s <= nthz (ss_k s) i <= sp_imax p).

Definition clip (imax k : Z) : Z := Z.min k imax.

(* draws tagged with nothing else: (k, position) *)
Definition sdraws (sc : list sdraw) : list (Z * nat) := map (fun '(_, k, i) => (k, i)) sc.

Definition smono (s s' : ss) : Prop := forall i, nthz (ss_k s) i <= nthz (ss_k s') i.
Definition scovered (s : ss) (d : Z * nat) : Prop :=
  let '(k, i) := d in clip (sp_imax (ss_par s)) k <= nthz (ss_k s) i.
Definition sjust (D : list (Z * nat)) (s : ss) : Prop :=
  forall i, (i < sp_m (ss_par s))%nat ->
    nthz (ss_k s) i = 0 \/ exists k, In (k, i) D /\ nthz (ss_k s) i = clip (sp_imax (ss_par s)) k.

Lemma smono_refl s : smono s s. Proof. intros i; lia. Qed.
Lemma smono_trans a b c : smono a b -> smono b c -> smono a c.
Proof. intros H1 H2 i. specialize (H1 i). specialize (H2 i). lia. Qed.

(* well-formed script: k non-increasing along the draws, k_j <= a_j + 1, positions in range *)
Fixpoint schain (m : nat) (ub : Z) (sc : list sdraw) : Prop :=
  match sc with
  | [] => True
  | (a, k, i) :: r => k <= ub /\ k <= a + 1 /\ (i < m)%nat /\ schain m k r
  end.
Lemma schain_le m ub sc : schain m ub sc -> forall a k i, In (a, k, i) sc -> k <= ub /\ (i < m)%nat.
Proof.
  revert ub; induction sc as [|[[a0 k0] i0] r IH]; intros ub C a k i Hin; [destruct Hin|].
  cbn in C. destruct C as [C1 [C2 [C3 C4]]]. destruct Hin as [E|Hin].
  - injection E as -> -> ->. auto.
  - destruct (IH k0 C4 a k i Hin) as [H1 H2]. split; [lia|exact H2].
Qed.

Lemma in_sdraws sc d : In d (sdraws sc) <-> exists a, In (a, fst d, snd d) sc.
Proof.
  unfold sdraws. rewrite in_map_iff. split.
  - intros [[[a k] i] [E Hin]]. subst d. exists a. exact Hin.
  - intros [a Hin]. exists (a, fst d, snd d). split; [destruct d; reflexivity|exact Hin].
Qed.

(* all draws bounded by lower are covered *)
Lemma covered_by_lower s sc x : ssinv s -> x <= ss_lower s ->
  (forall a k i, In (a, k, i) sc -> k <= x /\ (i < sp_m (ss_par s))%nat) ->
  forall d, In d (sdraws sc) -> scovered s d.
Proof.
  intros [L [Hi [H0 Hr]]] Hx Hall [k i] Hin. apply in_sdraws in Hin. destruct Hin as [a Hin]. cbn in Hin.
  destruct (Hall a k i Hin) as [H1 H2]. unfold scovered, clip. specialize (Hr i H2). lia.
Qed.

Lemma ss_item_ok D : forall sc s ub s',
  ssinv s -> sjust D s -> schain (sp_m (ss_par s)) ub sc -> (forall d, In d (sdraws sc) -> In d D) ->
  ss_item s sc = Ok s' ->
  ssinv s' /\ sjust D s' /\ smono s s' /\ ss_par s' = ss_par s /\ (forall d, In d (sdraws sc) -> scovered s' d).
Proof.
  induction sc as [|[[a k] i] r IH]; intros s ub s' Inv J C Hsub Hrun.
  - cbn in Hrun. injection Hrun as <-. split; [exact Inv|]. split; [exact J|]. split; [apply smono_refl|].
    split; [reflexivity|]. intros d [].
  - cbn [ss_item] in Hrun. cbn in C. destruct C as [C1 [C2 [C3 C4]]].
    assert (Inv' := Inv). destruct Inv' as [L [Hi [H0 Hr]]].
    assert (Hall : forall a' k' i', In (a', k', i') ((a, k, i) :: r) -> k' <= k /\ (i' < sp_m (ss_par s))%nat).
    { intros a' k' i' [E|Hin]; [injection E as <- <- <-; split; [lia|exact C3]|].
      apply (schain_le _ k r C4 a' k' i' Hin). }
    destruct (Z.ltb_spec a (ss_lower s)) as [HA|HA].
    { injection Hrun as <-. split; [exact Inv|]. split; [exact J|]. split; [apply smono_refl|].
      split; [reflexivity|]. apply (covered_by_lower s _ k Inv); [lia|exact Hall]. }
    destruct (Z.leb_spec k (ss_lower s)) as [HB|HB].
    { injection Hrun as <-. split; [exact Inv|]. split; [exact J|]. split; [apply smono_refl|].
      split; [reflexivity|]. apply (covered_by_lower s _ k Inv); [lia|exact Hall]. }
    destruct (Nat.ltb_spec i (length (ss_k s))) as [_|]; [|lia]. cbn [negb] in Hrun.
    assert (HinD : In (k, i) D) by (apply Hsub; cbn; auto).
    destruct (Z.ltb_spec (nthz (ss_k s) i) k) as [Hup|Hno].
    + (* the register is raised *)
      set (imax := sp_imax (ss_par s)) in *.
      set (kv := if imax <? k then imax else k).
      assert (Hkv : kv = clip imax k) by (unfold kv, clip; destruct (Z.ltb_spec imax k); lia).
      set (ovf := if imax <? k then ss_ovf s + 1 else ss_ovf s).
      assert (Hpair : (if imax <? k then (imax, ss_ovf s + 1) else (k, ss_ovf s)) = (kv, ovf))
        by (unfold kv, ovf; destruct (imax <? k); reflexivity).
      rewrite Hpair in Hrun.
      set (kvec := upd (ss_k s) i kv) in *.
      set (nb := ss_nbmin s + 1) in *.
      set (low := if nb mod Z.of_nat (sp_m (ss_par s)) =? 0
                  then (if ss_lower s <? lmin kvec then lmin kvec else ss_lower s) else ss_lower s) in *.
      set (s1 := mkSS (ss_par s) kvec low nb ovf) in *.
      assert (Hold := Hr i C3).
      assert (Hkvge : nthz (ss_k s) i <= kv) by (rewrite Hkv; unfold clip; lia).
      assert (Hlen1 : length kvec = sp_m (ss_par s)) by (unfold kvec; rewrite upd_length; exact L).
      assert (Hnth : forall j, nthz kvec j = if Nat.eqb j i then kv else nthz (ss_k s) j).
      { intros j. unfold kvec, nthz. destruct (Nat.eqb_spec j i) as [->|Hne].
        - apply nth_upd_eq. lia.
        - apply nth_upd_neq. lia. }
      assert (Hlow : ss_lower s <= low /\ forall j, (j < sp_m (ss_par s))%nat -> low <= nthz kvec j).
      { unfold low. destruct (nb mod Z.of_nat (sp_m (ss_par s)) =? 0).
        - destruct (Z.ltb_spec (ss_lower s) (lmin kvec)) as [Hlt|Hge].
          + split; [lia|]. intros j Hj. apply lmin_le. lia.
          + split; [lia|]. intros j Hj. rewrite Hnth. destruct (Nat.eqb j i); [lia|]. specialize (Hr j Hj). lia.
        - split; [lia|]. intros j Hj. rewrite Hnth. destruct (Nat.eqb j i); [lia|]. specialize (Hr j Hj). lia. }
      assert (Inv1 : ssinv s1).
      { unfold ssinv, s1; cbn [ss_par ss_k ss_lower ss_nbmin ss_ovf]. split; [exact Hlen1|]. split; [exact Hi|]. split; [lia|].
        intros j Hj. split; [apply Hlow; exact Hj|]. rewrite Hnth.
        destruct (Nat.eqb j i); [rewrite Hkv; unfold clip; lia|]. specialize (Hr j Hj). lia. }
      assert (J1 : sjust D s1).
      { intros j Hj. unfold s1 in *; cbn [ss_par ss_k ss_lower ss_nbmin ss_ovf] in *. rewrite Hnth. destruct (Nat.eqb_spec j i) as [->|Hne].
        - right. exists k. split; [exact HinD|exact Hkv].
        - apply J. exact Hj. }
      assert (M1 : smono s s1).
      { intros j. unfold s1; cbn [ss_par ss_k ss_lower ss_nbmin ss_ovf]. rewrite Hnth. destruct (Nat.eqb j i) eqn:E; [|lia].
        apply Nat.eqb_eq in E. subst j. exact Hkvge. }
      destruct (IH s1 k s' Inv1 J1 C4 ltac:(intros d Hd; apply Hsub; cbn; auto) Hrun) as [Inv2 [J2 [M2 [P2 C2']]]].
      split; [exact Inv2|]. split; [exact J2|]. split; [eapply smono_trans; eassumption|].
      split; [rewrite P2; reflexivity|].
      intros d [<-|Hd]; [|apply C2'; exact Hd].
      unfold scovered. rewrite P2. cbn [ss_par s1]. specialize (M2 i). unfold s1 in M2; cbn [ss_par ss_k ss_lower ss_nbmin ss_ovf] in M2.
      rewrite Hnth, Nat.eqb_refl in M2. fold imax. rewrite <- Hkv. exact M2.
    + destruct (IH s k s' Inv J C4 ltac:(intros d Hd; apply Hsub; cbn; auto) Hrun) as [Inv2 [J2 [M2 [P2 C2']]]].
      split; [exact Inv2|]. split; [exact J2|]. split; [exact M2|]. split; [exact P2|].
      intros d [<-|Hd]; [|apply C2'; exact Hd].
      unfold scovered. rewrite P2. specialize (M2 i). unfold clip. lia.
Qed.

(* the invariant alone needs no hypothesis on the script: lower_k is sound in EVERY reachable state *)
Lemma ss_item_inv : forall sc s s', ssinv s -> ss_item s sc = Ok s' -> ssinv s' /\ smono s s' /\ ss_par s' = ss_par s.
Proof.
  induction sc as [|[[a k] i] r IH]; intros s s' Inv Hrun.
  - cbn in Hrun. injection Hrun as <-. split; [exact Inv|]. split; [apply smono_refl|reflexivity].
  - cbn [ss_item] in Hrun. assert (Inv' := Inv). destruct Inv' as [L [Hi [H0 Hr]]].
    destruct (a <? ss_lower s); [injection Hrun as <-; split; [exact Inv|split; [apply smono_refl|reflexivity]]|].
    destruct (k <=? ss_lower s); [injection Hrun as <-; split; [exact Inv|split; [apply smono_refl|reflexivity]]|].
    destruct (Nat.ltb_spec i (length (ss_k s))) as [Hil|]; [|discriminate]. cbn [negb] in Hrun.
    destruct (Z.ltb_spec (nthz (ss_k s) i) k) as [Hup|Hno]; [|apply IH; assumption].
    set (imax := sp_imax (ss_par s)) in *.
    set (kv := if imax <? k then imax else k).
    set (ovf := if imax <? k then ss_ovf s + 1 else ss_ovf s).
    assert (Hpair : (if imax <? k then (imax, ss_ovf s + 1) else (k, ss_ovf s)) = (kv, ovf))
      by (unfold kv, ovf; destruct (imax <? k); reflexivity).
    rewrite Hpair in Hrun.
    set (kvec := upd (ss_k s) i kv) in *.
    assert (Hi' : (i < sp_m (ss_par s))%nat) by lia.
    assert (Hold := Hr i Hi').
    assert (Hkv : nthz (ss_k s) i <= kv <= imax) by (unfold kv; destruct (Z.ltb_spec imax k); lia).
    assert (Hnth : forall j, nthz kvec j = if Nat.eqb j i then kv else nthz (ss_k s) j).
    { intros j. unfold kvec, nthz. destruct (Nat.eqb_spec j i) as [->|Hne].
      - apply nth_upd_eq. lia.
      - apply nth_upd_neq. lia. }
    match type of Hrun with ss_item ?st r = _ => set (s1 := st) in * end.
    assert (Inv1 : ssinv s1).
    { unfold ssinv, s1; cbn [ss_par ss_k ss_lower ss_nbmin ss_ovf]. split; [unfold kvec; rewrite upd_length; exact L|]. split; [exact Hi|].
      assert (Hall : forall j, (j < sp_m (ss_par s))%nat -> ss_lower s <= nthz kvec j <= imax).
      { intros j Hj. rewrite Hnth. destruct (Nat.eqb j i); [lia|]. apply Hr; exact Hj. }
      destruct (_ mod _ =? 0).
      - destruct (Z.ltb_spec (ss_lower s) (lmin kvec)).
        + split; [lia|]. intros j Hj. split; [apply lmin_le; unfold kvec; rewrite upd_length; lia|apply Hall; exact Hj].
        + split; [lia|]. exact Hall.
      - split; [lia|]. exact Hall. }
    assert (M1 : smono s s1).
    { intros j. unfold s1; cbn [ss_par ss_k ss_lower ss_nbmin ss_ovf]. rewrite Hnth. destruct (Nat.eqb j i) eqn:E; [|lia].
      apply Nat.eqb_eq in E. subst j. lia. }
    destruct (IH s1 s' Inv1 Hrun) as [Inv2 [M2 P2]].
    split; [exact Inv2|]. split; [eapply smono_trans; eassumption|rewrite P2; reflexivity].
Qed.

Lemma ss_new_inv p : 0 <= sp_imax p -> ssinv (ss_new p).
Proof.
  intros H. unfold ssinv, ss_new; cbn. rewrite repeat_length. repeat split; try lia.
  - unfold nthz. rewrite nth_repeat_lt by assumption. lia.
  - unfold nthz. rewrite nth_repeat_lt by assumption. lia.
Qed.
Lemma ss_reinit_inv s : ssinv s -> ssinv (ss_reinit s).
Proof. intros [_ [H _]]. apply (ss_new_inv (ss_par s) H). Qed.

Lemma nth_zipmax a b i : length a = length b -> nthz (zipmax a b) i = Z.max (nthz a i) (nthz b i).
Proof.
  revert b i; induction a as [|x a IH]; intros [|y b] i H; cbn in H; try lia.
  - unfold nthz. destruct i; cbn; lia.
  - destruct i as [|i]; cbn; [reflexivity|]. apply (IH b i). lia.
Qed.
Lemma zipmax_length a b : length (zipmax a b) = length a.
Proof. revert b; induction a as [|x a IH]; intros [|y b]; cbn; auto. Qed.

Lemma mergeable_same_m p1 p2 : params_mergeable p1 p2 = true -> sp_m p1 = sp_m p2 /\ sp_q p1 = sp_q p2.
Proof.
  unfold params_mergeable. intros H. apply andb_true_iff in H. destruct H as [H _].
  apply andb_true_iff in H. destruct H as [H _]. apply andb_true_iff in H. destruct H as [H1 H2].
  split; [apply Nat.eqb_eq; exact H1|apply Z.eqb_eq; exact H2].
Qed.

(* merge keeps the invariant (so get_low_sketch stays sound after a merge and further streaming) *)
Lemma ss_merge_inv s o : ssinv s -> ssinv o -> sp_imax (ss_par s) = sp_imax (ss_par o) ->
  ssinv (fst (ss_merge s o)) /\ smono s (fst (ss_merge s o)).
Proof.
  intros Is Io Him. unfold ss_merge. destruct (params_mergeable (ss_par s) (ss_par o)) eqn:E; cbn [fst].
  - destruct (mergeable_same_m _ _ E) as [Hm _].
    destruct Is as [L [Hi [H0 Hr]]]. destruct Io as [L' [Hi' [H0' Hr']]].
    split.
    + unfold ssinv; cbn [ss_par ss_k ss_lower ss_nbmin ss_ovf fst snd]. split; [rewrite zipmax_length; exact L|]. split; [exact Hi|]. split; [exact H0|].
      intros i Hi2. rewrite nth_zipmax by lia. specialize (Hr i Hi2). specialize (Hr' i ltac:(lia)). lia.
    + intros i. cbn [ss_par ss_k ss_lower ss_nbmin ss_ovf fst snd]. destruct (Nat.lt_ge_cases i (sp_m (ss_par s))) as [Hlt|Hge].
      * rewrite nth_zipmax by lia. lia.
      * unfold nthz. rewrite !nth_overflow by (rewrite ?zipmax_length; lia). lia.
  - split; [exact Is|apply smono_refl].
Qed.

(* a refused merge leaves the receiver unchanged in every field *)
Theorem ss_merge_refused s o : params_mergeable (ss_par s) (ss_par o) = false -> ss_merge s o = (s, false).
Proof. intros H. unfold ss_merge. rewrite H. reflexivity. Qed.

(* ------------------------------------------------------------------ *)
(* the specification: position-wise maximum of the clipped draws *)
Fixpoint max_at (D : list (Z * nat)) (imax : Z) (i : nat) : Z :=
  match D with
  | [] => 0
  | (k, i') :: r => if Nat.eqb i' i then Z.max (clip imax k) (max_at r imax i) else max_at r imax i
  end.
Lemma max_at_nonneg D imax i : 0 <= max_at D imax i.
Proof. induction D as [|[k i'] r IH]; cbn; [lia|]. destruct (Nat.eqb i' i); lia. Qed.
Lemma max_at_ge D imax i k : In (k, i) D -> clip imax k <= max_at D imax i.
Proof.
  induction D as [|[k' i'] r IH]; cbn; [tauto|]. intros [E|Hin].
  - injection E as -> ->. rewrite Nat.eqb_refl. lia.
  - specialize (IH Hin). destruct (Nat.eqb i' i); lia.
Qed.
Lemma max_at_attained D imax i : max_at D imax i = 0 \/ exists k, In (k, i) D /\ max_at D imax i = clip imax k.
Proof.
  induction D as [|[k' i'] r IH]; cbn; [auto|].
  destruct (Nat.eqb_spec i' i) as [->|Hne].
  - destruct (Z.max_spec (clip imax k') (max_at r imax i)) as [[_ ->]|[_ ->]].
    + destruct IH as [E|[k [Hin E]]]; [left; exact E|right; exists k; auto].
    + right. exists k'. auto.
  - destruct IH as [E|[k [Hin E]]]; [left; exact E|right; exists k; auto].
Qed.
Lemma max_at_app A B imax i : max_at (A ++ B) imax i = Z.max (max_at A imax i) (max_at B imax i).
Proof.
  induction A as [|[k i'] r IH]; cbn.
  - assert (H := max_at_nonneg B imax i). lia.
  - destruct (Nat.eqb i' i); lia.
Qed.
Lemma max_at_ext D D' imax i : (forall d, In d D <-> In d D') -> max_at D imax i = max_at D' imax i.
Proof.
  intros Hiff. apply Z.le_antisymm.
  - destruct (max_at_attained D imax i) as [E|[k [Hin E]]].
    + rewrite E. apply max_at_nonneg.
    + rewrite E. apply max_at_ge. apply Hiff. exact Hin.
  - destruct (max_at_attained D' imax i) as [E|[k [Hin E]]].
    + rewrite E. apply max_at_nonneg.
    + rewrite E. apply max_at_ge. apply Hiff. exact Hin.
Qed.

Definition sfinal (D : list (Z * nat)) (s : ss) : Prop :=
  ssinv s /\ sjust D s /\ (forall k i, In (k, i) D -> (i < sp_m (ss_par s))%nat -> scovered s (k, i)).

Theorem sfinal_regs D s i : sfinal D s -> (i < sp_m (ss_par s))%nat ->
  nthz (ss_k s) i = max_at D (sp_imax (ss_par s)) i.
Proof.
  intros [Inv [J C]] Hi. apply Z.le_antisymm.
  - destruct (J i Hi) as [E|[k [Hin E]]].
    + rewrite E. apply max_at_nonneg.
    + rewrite E. apply max_at_ge. exact Hin.
  - destruct (max_at_attained D (sp_imax (ss_par s)) i) as [E|[k [Hin E]]].
    + rewrite E. destruct Inv as [_ [_ [H0 Hr]]]. specialize (Hr i Hi). lia.
    + rewrite E. apply (C k i Hin Hi).
Qed.

Lemma sfinal_new p : 0 <= sp_imax p -> sfinal [] (ss_new p).
Proof.
  intros H. split; [apply ss_new_inv; exact H|]. split.
  - intros i Hi. left. unfold ss_new, nthz; cbn. apply nth_repeat_lt. exact Hi.
  - intros k i [].
Qed.

Lemma sjust_weaken D D' s : (forall d, In d D -> In d D') -> sjust D s -> sjust D' s.
Proof.
  intros Hsub J i Hi. destruct (J i Hi) as [E|[k [Hin E]]]; [left; exact E|right; exists k; auto].
Qed.

(* streaming one more item keeps the state final for the enlarged set of draws *)
Theorem sfinal_item D s sc s' : sfinal D s -> schain (sp_m (ss_par s)) (sp_q (ss_par s) + 1) sc ->
  ss_item s sc = Ok s' -> sfinal (D ++ sdraws sc) s' /\ ss_par s' = ss_par s.
Proof.
  intros [Inv [J C]] Ch Hrun.
  destruct (ss_item_ok (D ++ sdraws sc) sc s (sp_q (ss_par s) + 1) s' Inv) as [Inv2 [J2 [M2 [P2 C2]]]].
  - eapply sjust_weaken; [|exact J]. intros d Hd. apply in_app_iff. auto.
  - exact Ch.
  - intros d Hd. apply in_app_iff. auto.
  - exact Hrun.
  - split; [|exact P2]. split; [exact Inv2|]. split; [exact J2|].
    intros k i Hin Hi. apply in_app_iff in Hin. destruct Hin as [Hin|Hin].
    + rewrite P2 in Hi. specialize (C k i Hin Hi). unfold scovered in *. rewrite P2. specialize (M2 i). lia.
    + apply C2. exact Hin.
Qed.

(* merging two final states with mergeable parameters gives the final state of the union *)
Theorem sfinal_merge D1 D2 s o : sfinal D1 s -> sfinal D2 o ->
  params_mergeable (ss_par s) (ss_par o) = true -> sp_imax (ss_par s) = sp_imax (ss_par o) ->
  sfinal (D1 ++ D2) (fst (ss_merge s o)) /\ snd (ss_merge s o) = true /\
  ss_par (fst (ss_merge s o)) = ss_par s.
Proof.
  intros [I1 [J1 C1]] [I2 [J2 C2]] Hm Him.
  destruct (ss_merge_inv s o I1 I2 Him) as [Inv Mono].
  unfold ss_merge in *. rewrite Hm in *. cbn [fst snd] in *.
  destruct (mergeable_same_m _ _ Hm) as [Hmm _].
  assert (L1 : length (ss_k s) = sp_m (ss_par s)) by (destruct I1; assumption).
  assert (L2 : length (ss_k o) = sp_m (ss_par o)) by (destruct I2; assumption).
  split; [|split; reflexivity]. split; [exact Inv|]. split.
  - intros i Hi. cbn [ss_par ss_k ss_lower ss_nbmin ss_ovf fst snd] in *. rewrite nth_zipmax by lia.
    destruct (Z.max_spec (nthz (ss_k s) i) (nthz (ss_k o) i)) as [[_ ->]|[_ ->]].
    + destruct (J2 i ltac:(lia)) as [E|[k [Hin E]]]; [left; exact E|].
      right. exists k. split; [apply in_app_iff; auto|]. rewrite E, Him. reflexivity.
    + destruct (J1 i Hi) as [E|[k [Hin E]]]; [left; exact E|].
      right. exists k. split; [apply in_app_iff; auto|exact E].
  - intros k i Hin Hi. cbn [ss_par ss_k ss_lower ss_nbmin ss_ovf fst snd] in *. unfold scovered; cbn [ss_par ss_k ss_lower ss_nbmin ss_ovf fst snd]. rewrite nth_zipmax by lia.
    apply in_app_iff in Hin. destruct Hin as [Hin|Hin].
    + specialize (C1 k i Hin Hi). unfold scovered in C1. lia.
    + specialize (C2 k i Hin ltac:(lia)). unfold scovered in C2. rewrite <- Him in C2. lia.
Qed.

(* consequences for registers: merge is the position-wise max, hence commutative, associative,
   idempotent; the merged registers are those of the sketch of the union *)
Theorem merge_registers s o i : params_mergeable (ss_par s) (ss_par o) = true ->
  length (ss_k s) = length (ss_k o) ->
  nthz (ss_k (fst (ss_merge s o))) i = Z.max (nthz (ss_k s) i) (nthz (ss_k o) i).
Proof. intros H L. unfold ss_merge. rewrite H. cbn [ss_par ss_k ss_lower ss_nbmin ss_ovf fst snd]. apply nth_zipmax. exact L. Qed.

Theorem merge_union_registers D1 D2 DU s o u i :
  sfinal D1 s -> sfinal D2 o -> sfinal DU u -> (forall d, In d DU <-> In d (D1 ++ D2)) ->
  params_mergeable (ss_par s) (ss_par o) = true -> sp_imax (ss_par s) = sp_imax (ss_par o) ->
  ss_par u = ss_par s -> (i < sp_m (ss_par s))%nat ->
  nthz (ss_k (fst (ss_merge s o))) i = nthz (ss_k u) i.
Proof.
  intros F1 F2 FU Hiff Hm Him Hp Hi.
  destruct (sfinal_merge D1 D2 s o F1 F2 Hm Him) as [FM [_ PM]].
  rewrite (sfinal_regs _ _ i FM) by (rewrite PM; exact Hi).
  rewrite (sfinal_regs _ _ i FU) by (rewrite Hp; exact Hi).
  rewrite PM, Hp. symmetry. apply max_at_ext. exact Hiff.
Qed.

Theorem sfinal_set_semantics D D' s s' i : sfinal D s -> sfinal D' s' ->
  (forall d, In d D <-> In d D') -> ss_par s = ss_par s' -> (i < sp_m (ss_par s))%nat ->
  nthz (ss_k s) i = nthz (ss_k s') i.
Proof.
  intros F F' Hiff Hp Hi.
  rewrite (sfinal_regs D s i F Hi), (sfinal_regs D' s' i F') by (rewrite <- Hp; exact Hi).
  rewrite Hp. apply max_at_ext. exact Hiff.
Qed.
