(* C07 / C06: the Jaccard bounds and the cardinality estimator of SetSketch over the reals.
   Formulas are those of Gen/SetSketchFormulas.v (regenerated from src/setsketcher.rs). *)
From Coq Require Import Reals Lra Lia List.
From PMH Require Import Gen.SetSketchFormulas.
Import ListNotations.
Open Scope R_scope.

(* ---------------- C07: bounds ---------------- *)
Lemma sqrt_b_sq b : 0 <= b -> sqrt b * sqrt b = b.
Proof. apply sqrt_sqrt. Qed.

(* the upper bound exceeds the raw lower bound by a square over b - 1 *)
Lemma bounds_gap b X : 1 < b -> jb_sup b X - jb_binf b X = (X - sqrt b) * (X - sqrt b) / (b - 1).
Proof.
  intros Hb. unfold jb_sup, jb_binf. assert (Hs := sqrt_b_sq b ltac:(lra)).
  assert (E : (X - sqrt b) * (X - sqrt b) = X * X - 2 * X * sqrt b + b).
  { transitivity (X * X - 2 * X * sqrt b + sqrt b * sqrt b); [ring|rewrite Hs; reflexivity]. }
  rewrite E. field. lra.
Qed.

Lemma raw_ordered b X : 1 < b -> 1 <= X -> jb_inf_raw b X <= jb_sup b X.
Proof.
  intros Hb HX. unfold jb_inf_raw.
  assert (Hgap := bounds_gap b X Hb).
  assert (Hsq : 0 <= (X - sqrt b) * (X - sqrt b) / (b - 1)).
  { apply Rmult_le_pos; [exact (Rle_0_sqr (X - sqrt b))|]. left. apply Rinv_0_lt_compat. lra. }
  assert (Hsup : 0 <= jb_sup b X).
  { unfold jb_sup. apply Rmult_le_pos; [nra|]. left. apply Rinv_0_lt_compat. lra. }
  apply Rmax_lub; lra.
Qed.

(* for every base b > 1 and every b_aux >= 1 (i.e. every collision fraction >= 0) the interval is
   well formed and starts at or above 0; the function has no assertion on this relation *)
Theorem bounds_ordered b X : 1 < b -> 1 <= X -> 0 <= jb_inf b X /\ jb_inf b X <= jb_sup b X.
Proof.
  intros Hb HX. assert (Hr := raw_ordered b X Hb HX).
  assert (H0 : 0 <= jb_inf_raw b X) by (unfold jb_inf_raw; apply Rmax_r).
  unfold jb_inf. destruct jb_caps_lower.
  - split; [apply Rmin_glb; lra|apply Rmin_r].
  - split; lra.
Qed.

(* capping changes nothing over the reals *)
Theorem cap_is_identity b X : 1 < b -> 1 <= X -> jb_inf b X = jb_inf_raw b X.
Proof.
  intros Hb HX. unfold jb_inf. destruct jb_caps_lower; [|reflexivity].
  apply Rmin_left. apply raw_ordered; assumption.
Qed.

(* the interval contains the true Jaccard index: u, v relative cardinalities (u + v = 1), J the
   Jaccard index (so u - vJ, v - uJ >= 0), and X = b^(p/2) where the collision probability p
   satisfies  b^p = b * A * B,  A = 1 - (u - vJ)(b-1)/b,  B = 1 - (v - uJ)(b-1)/b
   (this is p = 1 - p_b(u - vJ) - p_b(v - uJ), see pb_collision below) *)
Theorem bounds_contain_J b u v J X : 1 < b -> u + v = 1 -> 0 <= J ->
  0 <= u - v * J -> 0 <= v - u * J -> 0 <= X ->
  X * X = b * (1 - (u - v * J) * (b - 1) / b) * (1 - (v - u * J) * (b - 1) / b) ->
  jb_binf b X <= J /\ J <= jb_sup b X.
Proof.
  intros Hb Huv HJ Ha Hc HX HXX.
  set (a := u - v * J) in *. set (c := v - u * J) in *.
  assert (Hac : a + c = 1 - J) by (unfold a, c; nra).
  assert (Hb0 : 0 < b - 1) by lra.
  set (A := 1 - a * (b - 1) / b) in *. set (B := 1 - c * (b - 1) / b) in *.
  assert (Ha1 : a <= 1) by (unfold a in *; nra). assert (Hc1 : c <= 1) by (unfold c in *; nra).
  assert (HA : 0 < A).
  { unfold A. assert (a * (b - 1) / b < 1); [|lra]. apply (Rmult_lt_reg_r b); [lra|].
    unfold Rdiv. rewrite Rmult_assoc, Rinv_l by lra. nra. }
  assert (HB : 0 < B).
  { unfold B. assert (c * (b - 1) / b < 1); [|lra]. apply (Rmult_lt_reg_r b); [lra|].
    unfold Rdiv. rewrite Rmult_assoc, Rinv_l by lra. nra. }
  assert (HsumAB : b * (A + B) = b + 1 + J * (b - 1)).
  { unfold A, B. field_simplify; [|lra]. rewrite <- (Rmult_1_l (/ 1)) || idtac. nra. }
  assert (HprodAB : b * A * B = 1 + J * (b - 1) + (b - 1) * (b - 1) * a * c / b).
  { unfold A, B. field_simplify; [|lra|lra]. nra. }
  split.
  - (* lower bound: arithmetic-geometric mean, X sqrt b = b sqrt(AB) <= b (A+B)/2 *)
    unfold jb_binf.
    assert (Hs := sqrt_b_sq b ltac:(lra)). assert (Hsp : 0 < sqrt b) by (apply sqrt_lt_R0; lra).
    assert (Hamgm : X * sqrt b <= b * (A + B) / 2).
    { (* (X sqrt b)^2 = b^2 A B <= (b (A+B)/2)^2 *)
      apply Rsqr_incr_0_var; [|apply Rmult_le_pos; [nra|lra]].
      unfold Rsqr. replace (X * sqrt b * (X * sqrt b)) with ((X * X) * (sqrt b * sqrt b)) by ring.
      rewrite HXX, Hs.
      assert (Hq := Rle_0_sqr (A - B)). unfold Rsqr in Hq.
      replace (b * A * B * b) with (b * b * (A * B)) by ring.
      replace (b * (A + B) / 2 * (b * (A + B) / 2)) with (b * b * ((A + B) * (A + B) / 4)) by field.
      apply Rmult_le_compat_l; [nra|]. lra. }
    apply (Rmult_le_reg_r (b - 1)); [lra|].
    replace ((2 * (X * sqrt b - 1) / (b - 1) - 1) * (b - 1)) with (2 * (X * sqrt b) - 2 - (b - 1)) by (field; lra).
    nra.
  - unfold jb_sup. rewrite HXX, HprodAB.
    apply (Rmult_le_reg_r (b - 1)); [lra|]. unfold Rdiv at 1. rewrite Rmult_assoc, Rinv_l by lra.
    assert (0 <= (b - 1) * (b - 1) * a * c / b).
    { apply Rmult_le_pos; [|left; apply Rinv_0_lt_compat; lra]. apply Rmult_le_pos; [|exact Hc].
      apply Rmult_le_pos; [nra|exact Ha]. }
    lra.
Qed.

(* the collision probability of the cost function: b^(1 - pb x - pb y) = b (1 - x k)(1 - y k) *)
Theorem pb_collision b x y : 1 < b -> x * (b - 1) / b < 1 -> y * (b - 1) / b < 1 ->
  Rpower b (1 - pb_fun b x - pb_fun b y) = b * (1 - x * (b - 1) / b) * (1 - y * (b - 1) / b).
Proof.
  intros Hb Hx Hy. unfold pb_fun, Rpower.
  assert (Hl : 0 < ln b) by (rewrite <- ln_1; apply ln_increasing; lra).
  replace ((1 - - ln (1 - x * (b - 1) / b) / ln b - - ln (1 - y * (b - 1) / b) / ln b) * ln b)
    with (ln b + ln (1 - x * (b - 1) / b) + ln (1 - y * (b - 1) / b)) by (field; lra).
  rewrite !exp_plus, !exp_ln by lra. ring.
Qed.

(* ---------------- C06: cardinality estimator ---------------- *)
Definition reg_sum (b : R) (K : list R) : R := fold_right (fun k acc => exp (- k * ln b) + acc) 0 K.

Lemma reg_sum_pos b K : K <> [] -> 0 < reg_sum b K.
Proof.
  destruct K as [|k K]; [congruence|]. intros _.
  assert (H : forall L, 0 <= reg_sum b L).
  { induction L as [|a L IH]; [cbn; lra|].
    change (reg_sum b (a :: L)) with (exp (- a * ln b) + reg_sum b L).
    assert (Hp := exp_pos (- a * ln b)). lra. }
  change (reg_sum b (k :: K)) with (exp (- k * ln b) + reg_sum b K).
  assert (Hp := exp_pos (- k * ln b)). specialize (H K). lra.
Qed.

(* raising registers lowers the sum ... *)
Lemma reg_sum_antitone b : 1 < b -> forall K K', Forall2 Rle K K' -> reg_sum b K' <= reg_sum b K.
Proof.
  intros Hb K K' H. assert (Hl : 0 < ln b) by (rewrite <- ln_1; apply ln_increasing; lra).
  induction H as [|k k' K K' Hk _ IH]; [cbn; lra|].
  change (reg_sum b (k' :: K')) with (exp (- k' * ln b) + reg_sum b K').
  change (reg_sum b (k :: K)) with (exp (- k * ln b) + reg_sum b K).
  assert (exp (- k' * ln b) <= exp (- k * ln b)).
  { destruct (Req_dec k k') as [->|Hne]; [lra|]. left. apply exp_increasing. nra. }
  lra.
Qed.

(* ... and a lower sum gives a larger estimate: the estimate never decreases when registers
   increase (an item is added, a sketch is merged in: registers only go up, C05) *)
Theorem card_monotone b a m K K' : 1 < b -> 0 < a -> 0 < m -> K <> [] -> Forall2 Rle K K' ->
  card_of_sum b a m (reg_sum b K) <= card_of_sum b a m (reg_sum b K').
Proof.
  intros Hb Ha Hm Hne H.
  assert (Hne' : K' <> []) by (inversion H; subst; congruence).
  assert (Hl : 0 < ln b) by (rewrite <- ln_1; apply ln_increasing; lra).
  assert (HS := reg_sum_pos b K Hne). assert (HS' := reg_sum_pos b K' Hne').
  assert (Hle := reg_sum_antitone b Hb K K' H).
  unfold card_of_sum.
  assert (Hnum : 0 < m * (1 - 1 / b)).
  { apply Rmult_lt_0_compat; [exact Hm|]. assert (1 / b < 1); [|lra].
    apply (Rmult_lt_reg_r b); [lra|]. unfold Rdiv. rewrite Rmult_assoc, Rinv_l by lra. lra. }
  unfold Rdiv. apply Rmult_le_compat_l; [lra|].
  apply Rinv_le_contravar; [|apply Rmult_le_compat_l; [|exact Hle]].
  - apply Rmult_lt_0_compat; [apply Rmult_lt_0_compat; lra|exact HS'].
  - left. apply Rmult_lt_0_compat; lra.
Qed.

(* the estimator is positive and finite whenever the sketch is non-empty *)
Theorem card_positive b a m K : 1 < b -> 0 < a -> 0 < m -> K <> [] -> 0 < card_of_sum b a m (reg_sum b K).
Proof.
  intros Hb Ha Hm Hne. assert (Hl : 0 < ln b) by (rewrite <- ln_1; apply ln_increasing; lra).
  assert (HS := reg_sum_pos b K Hne). unfold card_of_sum.
  apply Rdiv_lt_0_compat.
  - apply Rmult_lt_0_compat; [exact Hm|]. assert (1 / b < 1); [|lra].
    apply (Rmult_lt_reg_r b); [lra|]. unfold Rdiv. rewrite Rmult_assoc, Rinv_l by lra. lra.
  - apply Rmult_lt_0_compat; [apply Rmult_lt_0_compat; lra|exact HS].
Qed.
