(* C02: every ProbMinHash variant computes, per slot, the minimum over all points of all items
   (value layer) and the item attaining it (identity layer), whatever the order, the batch
   split, the repetition of pairs or the variant (3 / 3a).  Method: every algorithm only changes
   the state by offering input points, never raises a register, and ends with every input point
   covered; these three facts determine the state. *)
From Coq Require Import List Arith ZArith Bool Lia ZifyNat ZifyBool.
From PMH Require Import Lib.ListArr Model.ProbMinHash.
Import ListNotations.
Open Scope Z_scope.

(* ------------------------------------------------------------------ *)
(* list maximum *)

Lemma fold_max_ge_acc l a : a <= fold_left Z.max l a.
Proof. revert a; induction l as [|x l IH]; intros a; cbn; [lia|]. specialize (IH (Z.max a x)). lia. Qed.
Lemma fold_max_ge_in l a x : In x l -> x <= fold_left Z.max l a.
Proof.
  revert a; induction l as [|y l IH]; intros a []; cbn.
  - subst. assert (H := fold_max_ge_acc l (Z.max a x)). lia.
  - apply IH; assumption.
Qed.
Lemma fold_max_in l a : fold_left Z.max l a = a \/ In (fold_left Z.max l a) l.
Proof.
  revert a; induction l as [|y l IH]; intros a; cbn; [auto|].
  destruct (IH (Z.max a y)) as [H|H]; [|auto].
  rewrite H. destruct (Z.max_spec a y) as [[_ ->]|[_ ->]]; auto.
Qed.

Lemma lmax_ge l k : (k < length l)%nat -> nthz l k <= lmax l.
Proof. intros H. unfold lmax, nthz. apply fold_max_ge_in. apply nth_In. exact H. Qed.
Lemma lmax_attained l : (1 <= length l)%nat -> exists k, (k < length l)%nat /\ nthz l k = lmax l.
Proof.
  intros H. unfold lmax. destruct l as [|x l]; [cbn in H; lia|]. cbn [hd].
  destruct (fold_max_in (x :: l) x) as [E|E].
  - exists 0%nat. split; [cbn; lia|]. rewrite E. reflexivity.
  - apply (In_nth _ _ 0) in E. destruct E as [k [Hk E]]. exists k. split; [exact Hk|exact E].
Qed.

(* ------------------------------------------------------------------ *)
(* states, offers *)

Definition wfst (m : nat) (st : pstate) : Prop :=
  length (pregs st) = m /\ length (psig st) = m /\ (1 <= m)%nat.
Definition mono (st st' : pstate) : Prop := forall k, nthz (pregs st') k <= nthz (pregs st) k.
Definition covered (st : pstate) (p : tpoint) : Prop := let '(_, h, k) := p in nthz (pregs st) k <= h.

Lemma mono_refl st : mono st st. Proof. intros k; lia. Qed.
Lemma mono_trans a b c : mono a b -> mono b c -> mono a c.
Proof. intros H1 H2 k. specialize (H1 k). specialize (H2 k). lia. Qed.
Lemma covered_mono st st' p : mono st st' -> covered st p -> covered st' p.
Proof. destruct p as [[id h] k]. unfold covered. intros H C. specialize (H k). lia. Qed.

Lemma offer_wf m st id h k : wfst m st -> wfst m (offer st id h k).
Proof.
  intros [H1 [H2 H3]]. unfold offer. destruct (h <? nthz (pregs st) k); [|repeat split; assumption].
  repeat split; cbn; rewrite ?upd_length; assumption.
Qed.
Lemma offer_mono st id h k : mono st (offer st id h k).
Proof.
  intros j. unfold offer. destruct (Z.ltb_spec h (nthz (pregs st) k)); [|lia]. cbn.
  destruct (Nat.eq_dec k j) as [<-|Hne].
  - unfold nthz in *. destruct (Nat.lt_ge_cases k (length (pregs st))) as [Hl|Hl].
    + rewrite nth_upd_eq by exact Hl. lia.
    + rewrite !nth_overflow by (rewrite ?upd_length; lia). lia.
  - unfold nthz. rewrite nth_upd_neq by exact Hne. lia.
Qed.
Lemma offer_covers m st id h k : wfst m st -> (k < m)%nat -> covered (offer st id h k) (id, h, k).
Proof.
  intros [H1 _] Hk. unfold covered, offer. destruct (Z.ltb_spec h (nthz (pregs st) k)); [|lia]. cbn.
  unfold nthz. rewrite nth_upd_eq by lia. lia.
Qed.

(* every register is the initial value or an offered input point (with its id in the signature) *)
Definition justified (m : nat) (maxv init : Z) (Pts : list tpoint) (st : pstate) : Prop :=
  forall k, (k < m)%nat ->
    (nthz (pregs st) k = maxv /\ nthz (psig st) k = init) \/
    (exists id h, In (id, h, k) Pts /\ nthz (pregs st) k = h /\ nthz (psig st) k = id /\ h < maxv).

Lemma justified_le m maxv init Pts st k : justified m maxv init Pts st -> (k < m)%nat ->
  nthz (pregs st) k <= maxv.
Proof. intros J Hk. destruct (J k Hk) as [[H _]|[id [h [_ [H [_ Hl]]]]]]; lia. Qed.

Lemma offer_justified m maxv init Pts st id h k : wfst m st -> justified m maxv init Pts st ->
  In (id, h, k) Pts -> (k < m)%nat -> justified m maxv init Pts (offer st id h k).
Proof.
  intros [H1 [H2 H3]] J Hin Hk j Hj. unfold offer.
  destruct (Z.ltb_spec h (nthz (pregs st) k)) as [Hlt|Hge]; [|apply J; exact Hj]. cbn.
  destruct (Nat.eq_dec k j) as [<-|Hne].
  - right. exists id, h. unfold nthz. rewrite !nth_upd_eq by lia.
    assert (Hle := justified_le _ _ _ _ _ k J Hk). repeat split; auto. lia.
  - unfold nthz. rewrite !nth_upd_neq by exact Hne. apply J; exact Hj.
Qed.

Lemma justified_weaken m maxv init Pts Pts' st : (forall p, In p Pts -> In p Pts') ->
  justified m maxv init Pts st -> justified m maxv init Pts' st.
Proof.
  intros Hsub J k Hk. destruct (J k Hk) as [H|[id [h [Hin H]]]]; [left; exact H|].
  right. exists id, h. split; [apply Hsub; exact Hin|exact H].
Qed.

(* ------------------------------------------------------------------ *)
(* the specification: per-slot minimum of the input points *)

Fixpoint min_at (Pts : list tpoint) (maxv : Z) (k : nat) : Z :=
  match Pts with
  | [] => maxv
  | (_, h, k') :: r => if Nat.eqb k' k then Z.min h (min_at r maxv k) else min_at r maxv k
  end.

Lemma min_at_le_max Pts maxv k : min_at Pts maxv k <= maxv.
Proof. induction Pts as [|[[id h] k'] r IH]; cbn; [lia|]. destruct (Nat.eqb k' k); lia. Qed.
Lemma min_at_le Pts maxv k id h : In (id, h, k) Pts -> min_at Pts maxv k <= h.
Proof.
  induction Pts as [|[[id' h'] k'] r IH]; cbn; [tauto|]. intros [E|Hin].
  - injection E as -> -> ->. rewrite Nat.eqb_refl. lia.
  - specialize (IH Hin). destruct (Nat.eqb k' k); lia.
Qed.
Lemma min_at_attained Pts maxv k :
  min_at Pts maxv k = maxv \/ exists id, In (id, min_at Pts maxv k, k) Pts.
Proof.
  induction Pts as [|[[id' h'] k'] r IH]; cbn; [auto|].
  destruct (Nat.eqb_spec k' k) as [->|Hne].
  - destruct (Z.min_spec h' (min_at r maxv k)) as [[_ ->]|[_ ->]].
    + right. exists id'. auto.
    + destruct IH as [E|[id Hin]]; [left; exact E|right; exists id; auto].
  - destruct IH as [E|[id Hin]]; [left; exact E|right; exists id; auto].
Qed.

Lemma min_at_ext Pts Pts' maxv k : (forall p, In p Pts <-> In p Pts') ->
  min_at Pts maxv k = min_at Pts' maxv k.
Proof.
  intros Hiff. apply Z.le_antisymm.
  - destruct (min_at_attained Pts' maxv k) as [E|[id Hin]].
    + rewrite E. apply min_at_le_max.
    + apply (min_at_le Pts maxv k id). apply Hiff. exact Hin.
  - destruct (min_at_attained Pts maxv k) as [E|[id Hin]].
    + rewrite E. apply min_at_le_max.
    + apply (min_at_le Pts' maxv k id). apply Hiff. exact Hin.
Qed.

Lemma min_at_app A B maxv k : min_at (A ++ B) maxv k = Z.min (min_at A maxv k) (min_at B maxv k).
Proof.
  induction A as [|[[id h] k'] r IH]; cbn.
  - assert (H := min_at_le_max B maxv k). lia.
  - destruct (Nat.eqb k' k); lia.
Qed.

(* the final state: justified + everything covered *)
Definition final (m : nat) (maxv init : Z) (Pts : list tpoint) (st : pstate) : Prop :=
  wfst m st /\ justified m maxv init Pts st /\
  (forall id h k, In (id, h, k) Pts -> (k < m)%nat -> covered st (id, h, k)).

Theorem final_regs m maxv init Pts st k : final m maxv init Pts st -> (k < m)%nat ->
  nthz (pregs st) k = min_at Pts maxv k.
Proof.
  intros [Hwf [J C]] Hk. apply Z.le_antisymm.
  - destruct (min_at_attained Pts maxv k) as [E|[id Hin]].
    + rewrite E. apply (justified_le _ _ _ _ _ k J Hk).
    + apply (C id _ k Hin Hk).
  - destruct (J k Hk) as [[H _]|[id [h [Hin [H _]]]]].
    + rewrite H. apply min_at_le_max.
    + rewrite H. apply (min_at_le _ _ _ id). exact Hin.
Qed.

(* identity layer: the signature holds the placeholder exactly when no point is below the
   initial value, else the id of an input point that attains the minimum *)
Theorem final_sig m maxv init Pts st k : final m maxv init Pts st -> (k < m)%nat ->
  (min_at Pts maxv k = maxv /\ nthz (psig st) k = init) \/
  (min_at Pts maxv k < maxv /\ In (nthz (psig st) k, min_at Pts maxv k, k) Pts).
Proof.
  intros F Hk. assert (Hr := final_regs _ _ _ _ _ k F Hk). destruct F as [Hwf [J C]].
  destruct (J k Hk) as [[H Hs]|[id [h [Hin [H [Hs Hl]]]]]].
  - left. split; [congruence|exact Hs].
  - right. rewrite <- Hr, H, Hs. auto.
Qed.

(* no two distinct items attain the minimum of a slot *)
Definition tie_free (Pts : list tpoint) (maxv : Z) (k : nat) : Prop :=
  forall id1 id2, In (id1, min_at Pts maxv k, k) Pts -> In (id2, min_at Pts maxv k, k) Pts -> id1 = id2.

(* Two final states over the same SET of input points agree on every register, and on every
   signature position that is tie free.  (Same set: any order, any batch split, any repetition
   of pairs, ProbMinHash3 versus ProbMinHash3a.) *)
Theorem final_unique m maxv init Pts Pts' st st' :
  (forall p, In p Pts <-> In p Pts') ->
  final m maxv init Pts st -> final m maxv init Pts' st' ->
  forall k, (k < m)%nat ->
    nthz (pregs st) k = nthz (pregs st') k /\
    (tie_free Pts maxv k -> nthz (psig st) k = nthz (psig st') k).
Proof.
  intros Hiff F F' k Hk.
  assert (E := min_at_ext Pts Pts' maxv k Hiff).
  split.
  - rewrite (final_regs _ _ _ _ _ k F Hk), (final_regs _ _ _ _ _ k F' Hk). exact E.
  - intros T.
    destruct (final_sig _ _ _ _ _ k F Hk) as [[H1 S1]|[H1 S1]];
    destruct (final_sig _ _ _ _ _ k F' Hk) as [[H2 S2]|[H2 S2]]; try lia.
    apply T; [exact S1|]. rewrite E. apply Hiff. exact S2.
Qed.

Lemma nth_ext_lists (a b : list Z) m : length a = m -> length b = m ->
  (forall k, (k < m)%nat -> nthz a k = nthz b k) -> a = b.
Proof.
  intros Ha Hb H. apply (nth_ext _ _ 0 0); [congruence|]. intros k Hk. apply H. lia.
Qed.

Corollary final_unique_state m maxv init Pts Pts' st st' :
  (forall p, In p Pts <-> In p Pts') ->
  final m maxv init Pts st -> final m maxv init Pts' st' ->
  pregs st = pregs st' /\ ((forall k, (k < m)%nat -> tie_free Pts maxv k) -> psig st = psig st').
Proof.
  intros Hiff F F'. assert (U := final_unique _ _ _ _ _ _ _ Hiff F F').
  destruct F as [[L1 [L2 _]] _]. destruct F' as [[L1' [L2' _]] _]. split.
  - apply (nth_ext_lists _ _ m L1 L1'). intros k Hk. apply U; exact Hk.
  - intros T. apply (nth_ext_lists _ _ m L2 L2'). intros k Hk. apply U; [exact Hk|apply T; exact Hk].
Qed.

(* ------------------------------------------------------------------ *)
(* scripts *)

(* well-formed script of variants 3/3a: lower bounds and points interleave monotonically,
   lb_i <= h_i <= lb_{i+1}, slots in range *)
Fixpoint chain (m : nat) (lb : Z) (sc : list point3) : Prop :=
  match sc with
  | [] => True
  | (h, k, lbn) :: r => lb <= h /\ h <= lbn /\ (k < m)%nat /\ chain m lbn r
  end.

Lemma chain_ge m lb sc : chain m lb sc -> forall h k l, In (h, k, l) sc -> lb <= h /\ (k < m)%nat.
Proof.
  revert lb; induction sc as [|[[h0 k0] l0] r IH]; intros lb C h k l Hin; [destruct Hin|].
  cbn in C. destruct C as [C1 [C2 [C3 C4]]]. destruct Hin as [E|Hin].
  - injection E as -> -> ->. auto.
  - destruct (IH l0 C4 h k l Hin) as [H1 H2]. split; [lia|exact H2].
Qed.

Lemma in_tag3 id sc p : In p (tag3 id sc) <-> exists h k l, In (h, k, l) sc /\ p = (id, h, k).
Proof.
  unfold tag3. rewrite in_map_iff. split.
  - intros [[[h k] l] [E Hin]]. exists h, k, l. split; [exact Hin|symmetry; exact E].
  - intros [h [k [l [Hin ->]]]]. exists (h, k, l). split; [reflexivity|exact Hin].
Qed.

Definition good (m : nat) (maxv init : Z) (Pts : list tpoint) (st : pstate) : Prop :=
  wfst m st /\ justified m maxv init Pts st.

Lemma good_offer m maxv init Pts st id h k : good m maxv init Pts st -> In (id, h, k) Pts -> (k < m)%nat ->
  good m maxv init Pts (offer st id h k).
Proof. intros [W J] Hin Hk. split; [apply offer_wf; exact W|apply offer_justified; assumption]. Qed.

Lemma covered_by_max m st id sc x : wfst m st -> pmax st <= x ->
  (forall h k l, In (h, k, l) sc -> x <= h /\ (k < m)%nat) ->
  forall p, In p (tag3 id sc) -> covered st p.
Proof.
  intros [L _] Hx Hall p Hin. apply in_tag3 in Hin. destruct Hin as [h [k [l [Hin ->]]]].
  destruct (Hall h k l Hin) as [H1 H2]. unfold covered.
  assert (H := lmax_ge (pregs st) k ltac:(lia)). unfold pmax in Hx. lia.
Qed.

(* ---------------- ProbMinHash3::hash_item ---------------- *)
Lemma pmh3_item_ok m maxv init Pts id : forall sc st lb st',
  good m maxv init Pts st -> chain m lb sc -> (forall p, In p (tag3 id sc) -> In p Pts) ->
  pmh3_item st id sc = Done st' ->
  good m maxv init Pts st' /\ mono st st' /\ (forall p, In p (tag3 id sc) -> covered st' p).
Proof.
  induction sc as [|[[h k] lbn] r IH]; intros st lb st' G C Hsub Hrun; [discriminate|].
  cbn [pmh3_item] in Hrun. cbn in C. destruct C as [C1 [C2 [C3 C4]]].
  destruct G as [W J]. assert (W' := W). destruct W' as [L [L2 Hm]].
  destruct (Z.ltb_spec h (pmax st)) as [Hlt|Hge].
  - destruct (Nat.ltb_spec k (length (pregs st))) as [_|]; [|lia]. cbn [negb] in Hrun.
    assert (Hin : In (id, h, k) Pts) by (apply Hsub; cbn; auto).
    assert (G1 : good m maxv init Pts (offer st id h k)) by (apply good_offer; [split|..]; assumption).
    assert (M1 := offer_mono st id h k).
    assert (Cv := offer_covers m st id h k W C3).
    destruct (Z.leb_spec (pmax (offer st id h k)) lbn) as [Hstop|Hgo].
    + injection Hrun as <-. split; [exact G1|]. split; [exact M1|].
      intros p [<-|Hp]; [exact Cv|].
      apply (covered_by_max m _ id r lbn (proj1 G1) Hstop); [|exact Hp].
      intros h' k' l' Hin'. apply (chain_ge m lbn r C4 h' k' l' Hin').
    + destruct (IH _ lbn st' G1 C4 ltac:(intros p Hp; apply Hsub; cbn; auto) Hrun) as [G2 [M2 Cv2]].
      split; [exact G2|]. split; [eapply mono_trans; eassumption|].
      intros p [<-|Hp]; [eapply covered_mono; eassumption|apply Cv2; exact Hp].
  - injection Hrun as <-. split; [split; assumption|]. split; [apply mono_refl|].
    apply (covered_by_max m st id ((h, k, lbn) :: r) h W Hge).
    intros h' k' l' [E|Hin'].
    + injection E as <- <- <-. split; [lia|exact C3].
    + destruct (chain_ge m lbn r C4 h' k' l' Hin') as [H1 H2]. split; [lia|exact H2].
Qed.

Definition alltags3 (items : list (Z * list point3)) : list tpoint :=
  concat (map (fun it => tag3 (fst it) (snd it)) items).

Lemma in_alltags3 items p : In p (alltags3 items) <-> exists id sc, In (id, sc) items /\ In p (tag3 id sc).
Proof.
  unfold alltags3. rewrite in_concat. split.
  - intros [l [Hl Hp]]. apply in_map_iff in Hl. destruct Hl as [[id sc] [<- Hin]]. exists id, sc. auto.
  - intros [id [sc [Hin Hp]]]. exists (tag3 id sc). split; [|exact Hp].
    apply in_map_iff. exists (id, sc). auto.
Qed.

Definition scripts_wf (m : nat) (items : list (Z * list point3)) : Prop :=
  forall id sc, In (id, sc) items -> chain m 0 sc.

Lemma pmh3_items_ok m maxv init Pts : forall items st st',
  good m maxv init Pts st -> scripts_wf m items -> (forall p, In p (alltags3 items) -> In p Pts) ->
  pmh3_items st items = Done st' ->
  good m maxv init Pts st' /\ mono st st' /\ (forall p, In p (alltags3 items) -> covered st' p).
Proof.
  induction items as [|[id sc] r IH]; intros st st' G Wf Hsub Hrun.
  - injection Hrun as <-. split; [exact G|]. split; [apply mono_refl|]. intros p [].
  - cbn [pmh3_items] in Hrun. destruct (pmh3_item st id sc) as [st1| |] eqn:E1; try discriminate.
    destruct (pmh3_item_ok m maxv init Pts id sc st 0 st1 G) as [G1 [M1 C1]].
    + apply (Wf id sc). cbn; auto.
    + intros p Hp. apply Hsub. apply in_alltags3. exists id, sc. cbn; auto.
    + exact E1.
    + destruct (IH st1 st' G1) as [G2 [M2 C2]].
      * intros id' sc' Hin. apply (Wf id' sc'). cbn; auto.
      * intros p Hp. apply Hsub. apply in_alltags3 in Hp. destruct Hp as [id' [sc' [Hin Hp]]].
        apply in_alltags3. exists id', sc'. cbn; auto.
      * exact Hrun.
      * split; [exact G2|]. split; [eapply mono_trans; eassumption|].
        intros p Hp. apply in_alltags3 in Hp. destruct Hp as [id' [sc' [[E|Hin] Hp]]].
        -- injection E as <- <-. eapply covered_mono; [exact M2|apply C1; exact Hp].
        -- apply C2. apply in_alltags3. exists id', sc'. auto.
Qed.

Lemma p_new_good m maxv init Pts : (1 <= m)%nat -> good m maxv init Pts (p_new maxv init m).
Proof.
  intros Hm. split.
  - unfold wfst, p_new; cbn. rewrite !repeat_length. auto.
  - intros k Hk. left. unfold p_new, nthz; cbn. split; apply nth_repeat_lt; exact Hk.
Qed.

(* ---------------- ProbMinHash3a (two passes, buffer of pending items) ---------------- *)
Definition remaining (P : list pend) : list tpoint :=
  concat (map (fun e : pend => let '(id, _, sc) := e in tag3 id sc) P).
Definition pend_ok (m : nat) (P : list pend) : Prop :=
  forall id lb sc, In (id, lb, sc) P -> chain m lb sc.

Lemma in_remaining P p : In p (remaining P) <-> exists id lb sc, In (id, lb, sc) P /\ In p (tag3 id sc).
Proof.
  unfold remaining. rewrite in_concat. split.
  - intros [l [Hl Hp]]. apply in_map_iff in Hl. destruct Hl as [[[id lb] sc] [<- Hin]]. exists id, lb, sc. auto.
  - intros [id [lb [sc [Hin Hp]]]]. exists (tag3 id sc). split; [|exact Hp].
    apply in_map_iff. exists (id, lb, sc). auto.
Qed.
Lemma remaining_rev P p : In p (remaining (rev P)) <-> In p (remaining P).
Proof.
  rewrite !in_remaining. split; intros [id [lb [sc [Hin Hp]]]]; exists id, lb, sc;
    (split; [|exact Hp]); [rewrite <- in_rev in Hin|rewrite <- in_rev]; exact Hin.
Qed.
Lemma pend_ok_rev m P : pend_ok m P -> pend_ok m (rev P).
Proof. intros H id lb sc Hin. apply (H id lb sc). rewrite <- in_rev in Hin. exact Hin. Qed.
Lemma pend_ok_cons m id lb sc P : chain m lb sc -> pend_ok m P -> pend_ok m ((id, lb, sc) :: P).
Proof. intros C H id' lb' sc' [E|Hin]; [injection E as <- <- <-; exact C|apply (H _ _ _ Hin)]. Qed.
Lemma remaining_cons id lb sc P p :
  In p (remaining ((id, lb, sc) :: P)) <-> In p (tag3 id sc) \/ In p (remaining P).
Proof. unfold remaining. cbn [map concat]. apply in_app_iff. Qed.

Lemma pmh3a_first_ok m maxv init Pts : forall items st acc st' P,
  good m maxv init Pts st -> scripts_wf m items -> pend_ok m acc ->
  (forall p, In p (alltags3 items) -> In p Pts) ->
  pmh3a_first st items acc = Done (st', P) ->
  good m maxv init Pts st' /\ mono st st' /\ pend_ok m P /\
  (forall p, In p (remaining acc) -> In p (remaining P)) /\
  (forall p, In p (alltags3 items) -> covered st' p \/ In p (remaining P)) /\
  (forall p, In p (remaining P) -> In p (remaining acc) \/ In p (alltags3 items)).
Proof.
  induction items as [|[id sc] r IH]; intros st acc st' P G Wf Pok Hsub Hrun.
  - cbn in Hrun. injection Hrun as <- <-. split; [exact G|]. split; [apply mono_refl|].
    split; [apply pend_ok_rev; exact Pok|]. split; [intros p Hp; apply remaining_rev; exact Hp|].
    split; [intros p []|]. intros p Hp. left. apply remaining_rev. exact Hp.
  - cbn [pmh3a_first] in Hrun. destruct sc as [|[[h k] lbn] rest]; [discriminate|].
    assert (C := Wf id _ ltac:(cbn; auto)). cbn in C. destruct C as [C1 [C2 [C3 C4]]].
    assert (Wf' : scripts_wf m r) by (intros id' sc' Hin; apply (Wf id' sc'); cbn; auto).
    assert (Hsub' : forall p, In p (alltags3 r) -> In p Pts).
    { intros p Hp. apply Hsub. apply in_alltags3 in Hp. destruct Hp as [id' [sc' [Hin Hp]]].
      apply in_alltags3. exists id', sc'. cbn; auto. }
    destruct G as [W J]. assert (W' := W). destruct W' as [L [L2 Hm]].
    (* membership of the head item's points *)
    assert (Hhead : forall p, In p (alltags3 ((id, (h, k, lbn) :: rest) :: r)) ->
              p = (id, h, k) \/ In p (tag3 id rest) \/ In p (alltags3 r)).
    { intros p Hp. apply in_alltags3 in Hp. destruct Hp as [id' [sc' [[E|Hin] Hp]]].
      - injection E as <- <-. cbn in Hp. destruct Hp as [<-|Hp]; auto.
      - right. right. apply in_alltags3. exists id', sc'. auto. }
    destruct (Z.ltb_spec h (pmax st)) as [Hlt|Hge].
    + destruct (Nat.ltb_spec k (length (pregs st))) as [_|]; [|lia]. cbn [negb] in Hrun.
      assert (Hin : In (id, h, k) Pts).
      { apply Hsub. apply in_alltags3. exists id, ((h, k, lbn) :: rest). cbn; auto. }
      assert (G1 : good m maxv init Pts (offer st id h k)) by (apply good_offer; [split|..]; assumption).
      assert (M1 := offer_mono st id h k).
      assert (Cv := offer_covers m st id h k W C3).
      destruct (Z.ltb_spec lbn (pmax (offer st id h k))) as [Hkeep|Hdrop].
      * destruct (IH _ _ _ _ G1 Wf' (pend_ok_cons m id lbn rest acc C4 Pok) Hsub' Hrun)
          as [G2 [M2 [P2 [A2 [C2' R2]]]]].
        split; [exact G2|]. split; [eapply mono_trans; eassumption|]. split; [exact P2|].
        split; [intros p Hp; apply A2; apply remaining_cons; auto|]. split.
        -- intros p Hp. destruct (Hhead p Hp) as [->|[Hr|Hr]].
           ++ left. eapply covered_mono; eassumption.
           ++ right. apply A2. apply remaining_cons. auto.
           ++ apply C2'. exact Hr.
        -- intros p Hp. destruct (R2 p Hp) as [Hr|Hr].
           ++ apply remaining_cons in Hr. destruct Hr as [Hr|Hr]; [|auto].
              right. apply in_alltags3. exists id, ((h, k, lbn) :: rest). cbn; auto.
           ++ right. apply in_alltags3 in Hr. destruct Hr as [id' [sc' [Hin' Hp']]].
              apply in_alltags3. exists id', sc'. cbn; auto.
      * destruct (IH _ _ _ _ G1 Wf' Pok Hsub' Hrun) as [G2 [M2 [P2 [A2 [C2' R2]]]]].
        split; [exact G2|]. split; [eapply mono_trans; eassumption|]. split; [exact P2|].
        split; [exact A2|]. split.
        -- intros p Hp. destruct (Hhead p Hp) as [->|[Hr|Hr]].
           ++ left. eapply covered_mono; eassumption.
           ++ left. eapply covered_mono; [exact M2|].
              apply (covered_by_max m _ id rest lbn (proj1 G1) Hdrop); [|exact Hr].
              intros h' k' l' Hin'. apply (chain_ge m lbn rest C4 h' k' l' Hin').
           ++ apply C2'. exact Hr.
        -- intros p Hp. destruct (R2 p Hp) as [Hr|Hr]; [auto|].
           right. apply in_alltags3 in Hr. destruct Hr as [id' [sc' [Hin' Hp']]].
           apply in_alltags3. exists id', sc'. cbn; auto.
    + destruct (IH _ _ _ _ (conj W J) Wf' Pok Hsub' Hrun) as [G2 [M2 [P2 [A2 [C2' R2]]]]].
      split; [exact G2|]. split; [exact M2|]. split; [exact P2|]. split; [exact A2|]. split.
      * intros p Hp.
        assert (Hall : forall p, In p (tag3 id ((h, k, lbn) :: rest)) -> covered st p).
        { apply (covered_by_max m st id _ h W Hge). intros h' k' l' [E|Hin'].
          - injection E as <- <- <-. split; [lia|exact C3].
          - destruct (chain_ge m lbn rest C4 h' k' l' Hin') as [H1 H2]. split; [lia|exact H2]. }
        destruct (Hhead p Hp) as [->|[Hr|Hr]].
        -- left. eapply covered_mono; [exact M2|]. apply Hall. cbn; auto.
        -- left. eapply covered_mono; [exact M2|]. apply Hall. cbn; auto.
        -- apply C2'. exact Hr.
      * intros p Hp. destruct (R2 p Hp) as [Hr|Hr]; [auto|].
        right. apply in_alltags3 in Hr. destruct Hr as [id' [sc' [Hin' Hp']]].
        apply in_alltags3. exists id', sc'. cbn; auto.
Qed.

Lemma pmh3a_round_ok m maxv init Pts : forall pending st acc st' P,
  good m maxv init Pts st -> pend_ok m pending -> pend_ok m acc ->
  (forall p, In p (remaining pending) -> In p Pts) ->
  pmh3a_round st pending acc = Done (st', P) ->
  good m maxv init Pts st' /\ mono st st' /\ pend_ok m P /\
  (forall p, In p (remaining acc) -> In p (remaining P)) /\
  (forall p, In p (remaining pending) -> covered st' p \/ In p (remaining P)) /\
  (forall p, In p (remaining P) -> In p (remaining acc) \/ In p (remaining pending)).
Proof.
  induction pending as [|[[id lb] sc] r IH]; intros st acc st' P G Pk Pok Hsub Hrun.
  - cbn in Hrun. injection Hrun as <- <-. split; [exact G|]. split; [apply mono_refl|].
    split; [apply pend_ok_rev; exact Pok|]. split; [intros p Hp; apply remaining_rev; exact Hp|].
    split; [intros p []|]. intros p Hp. left. apply remaining_rev. exact Hp.
  - cbn [pmh3a_round] in Hrun.
    assert (C := Pk id lb sc ltac:(cbn; auto)).
    assert (Pk' : pend_ok m r) by (intros id' lb' sc' Hin; apply (Pk id' lb' sc'); cbn; auto).
    assert (Hsub' : forall p, In p (remaining r) -> In p Pts)
      by (intros p Hp; apply Hsub; apply remaining_cons; auto).
    destruct G as [W J]. assert (W' := W). destruct W' as [L [L2 Hm]].
    destruct (Z.ltb_spec lb (pmax st)) as [Hlt|Hge].
    + destruct sc as [|[[h k] lbn] rest]; [discriminate|].
      cbn in C. destruct C as [C1 [C2 [C3 C4]]].
      destruct (Nat.ltb_spec k (length (pregs st))) as [_|]; [|lia]. cbn [negb] in Hrun.
      assert (Hin : In (id, h, k) Pts) by (apply Hsub; apply remaining_cons; left; cbn; auto).
      assert (G1 : good m maxv init Pts (offer st id h k)) by (apply good_offer; [split|..]; assumption).
      assert (M1 := offer_mono st id h k).
      assert (Cv := offer_covers m st id h k W C3).
      destruct (Z.ltb_spec lbn (pmax (offer st id h k))) as [Hkeep|Hdrop].
      * destruct (IH _ _ _ _ G1 Pk' (pend_ok_cons m id lbn rest acc C4 Pok) Hsub' Hrun)
          as [G2 [M2 [P2 [A2 [C2' R2]]]]].
        split; [exact G2|]. split; [eapply mono_trans; eassumption|]. split; [exact P2|].
        split; [intros p Hp; apply A2; apply remaining_cons; auto|]. split.
        -- intros p Hp. apply remaining_cons in Hp. destruct Hp as [[<-|Hr]|Hr].
           ++ left. eapply covered_mono; eassumption.
           ++ right. apply A2. apply remaining_cons. auto.
           ++ apply C2'. exact Hr.
        -- intros p Hp. destruct (R2 p Hp) as [Hr|Hr].
           ++ apply remaining_cons in Hr. destruct Hr as [Hr|Hr]; [|auto].
              right. apply remaining_cons. left. cbn. auto.
           ++ right. apply remaining_cons. auto.
      * destruct (IH _ _ _ _ G1 Pk' Pok Hsub' Hrun) as [G2 [M2 [P2 [A2 [C2' R2]]]]].
        split; [exact G2|]. split; [eapply mono_trans; eassumption|]. split; [exact P2|].
        split; [exact A2|]. split.
        -- intros p Hp. apply remaining_cons in Hp. destruct Hp as [[<-|Hr]|Hr].
           ++ left. eapply covered_mono; eassumption.
           ++ left. eapply covered_mono; [exact M2|].
              apply (covered_by_max m _ id rest lbn (proj1 G1) Hdrop); [|exact Hr].
              intros h' k' l' Hin'. apply (chain_ge m lbn rest C4 h' k' l' Hin').
           ++ apply C2'. exact Hr.
        -- intros p Hp. destruct (R2 p Hp) as [Hr|Hr]; [auto|]. right. apply remaining_cons. auto.
    + destruct (IH _ _ _ _ (conj W J) Pk' Pok Hsub' Hrun) as [G2 [M2 [P2 [A2 [C2' R2]]]]].
      split; [exact G2|]. split; [exact M2|]. split; [exact P2|]. split; [exact A2|]. split.
      * intros p Hp. apply remaining_cons in Hp. destruct Hp as [Hr|Hr].
        -- left. eapply covered_mono; [exact M2|].
           apply (covered_by_max m st id sc lb W Hge); [|exact Hr].
           intros h' k' l' Hin'. apply (chain_ge m lb sc C h' k' l' Hin').
        -- apply C2'. exact Hr.
      * intros p Hp. destruct (R2 p Hp) as [Hr|Hr]; [auto|]. right. apply remaining_cons. auto.
Qed.

Lemma pmh3a_rounds_ok m maxv init Pts : forall fuel st P st',
  good m maxv init Pts st -> pend_ok m P -> (forall p, In p (remaining P) -> In p Pts) ->
  pmh3a_rounds fuel st P = Done st' ->
  good m maxv init Pts st' /\ mono st st' /\ (forall p, In p (remaining P) -> covered st' p).
Proof.
  induction fuel as [|f IH]; intros st P st' G Pk Hsub Hrun.
  - destruct P; cbn in Hrun; [|discriminate]. injection Hrun as <-.
    split; [exact G|]. split; [apply mono_refl|]. intros p [].
  - destruct P as [|e P0].
    + cbn in Hrun. injection Hrun as <-. split; [exact G|]. split; [apply mono_refl|]. intros p [].
    + cbn [pmh3a_rounds] in Hrun. set (P := e :: P0) in *.
      destruct (pmh3a_round st P []) as [[st1 P1]| |] eqn:E; try discriminate.
      destruct (pmh3a_round_ok m maxv init Pts P st [] st1 P1 G Pk) as [G1 [M1 [Pk1 [_ [C1 R1]]]]].
      * intros id lb sc [].
      * exact Hsub.
      * exact E.
      * destruct (IH st1 P1 st' G1 Pk1) as [G2 [M2 C2]].
        -- intros p Hp. destruct (R1 p Hp) as [[]|Hr]. apply Hsub. exact Hr.
        -- exact Hrun.
        -- split; [exact G2|]. split; [eapply mono_trans; eassumption|].
           intros p Hp. destruct (C1 p Hp) as [Hc|Hr].
           ++ eapply covered_mono; eassumption.
           ++ apply C2. exact Hr.
Qed.

Lemma pmh3a_batch_ok m maxv init Pts items st st' :
  good m maxv init Pts st -> scripts_wf m items -> (forall p, In p (alltags3 items) -> In p Pts) ->
  pmh3a_batch st items = Done st' ->
  good m maxv init Pts st' /\ mono st st' /\ (forall p, In p (alltags3 items) -> covered st' p).
Proof.
  intros G Wf Hsub Hrun. unfold pmh3a_batch in Hrun.
  destruct (pmh3a_first st items []) as [[st1 P1]| |] eqn:E; try discriminate.
  destruct (pmh3a_first_ok m maxv init Pts items st [] st1 P1 G Wf) as [G1 [M1 [Pk1 [_ [C1 R1]]]]].
  - intros id lb sc [].
  - exact Hsub.
  - exact E.
  - destruct (pmh3a_rounds_ok m maxv init Pts (S (total_len items)) st1 P1 st' G1 Pk1) as [G2 [M2 C2]].
    + intros p Hp. destruct (R1 p Hp) as [[]|Hr]. apply Hsub. exact Hr.
    + exact Hrun.
    + split; [exact G2|]. split; [eapply mono_trans; eassumption|].
      intros p Hp. destruct (C1 p Hp) as [Hc|Hr]; [eapply covered_mono; eassumption|apply C2; exact Hr].
Qed.

Definition alltags3b (batches : list (list (Z * list point3))) : list tpoint :=
  concat (map alltags3 batches).

Lemma pmh3a_batches_ok m maxv init Pts : forall batches st st',
  good m maxv init Pts st -> (forall b, In b batches -> scripts_wf m b) ->
  (forall p, In p (alltags3b batches) -> In p Pts) ->
  pmh3a_batches st batches = Done st' ->
  good m maxv init Pts st' /\ mono st st' /\ (forall p, In p (alltags3b batches) -> covered st' p).
Proof.
  induction batches as [|b r IH]; intros st st' G Wf Hsub Hrun.
  - injection Hrun as <-. split; [exact G|]. split; [apply mono_refl|]. intros p [].
  - cbn [pmh3a_batches] in Hrun. destruct (pmh3a_batch st b) as [st1| |] eqn:E; try discriminate.
    unfold alltags3b in *. cbn [map concat] in *.
    destruct (pmh3a_batch_ok m maxv init Pts b st st1 G (Wf b ltac:(cbn; auto))) as [G1 [M1 C1]].
    + intros p Hp. apply Hsub. apply in_app_iff. auto.
    + exact E.
    + destruct (IH st1 st' G1) as [G2 [M2 C2]].
      * intros b' Hb. apply Wf. cbn; auto.
      * intros p Hp. apply Hsub. apply in_app_iff. auto.
      * exact Hrun.
      * split; [exact G2|]. split; [eapply mono_trans; eassumption|].
        intros p Hp. apply in_app_iff in Hp. destruct Hp as [Hp|Hp].
        -- eapply covered_mono; [exact M2|apply C1; exact Hp].
        -- apply C2. exact Hp.
Qed.

(* ---------------- ProbMinHash2::hash_item ---------------- *)
Fixpoint chain2 (m : nat) (lb : Z) (sc : list point2) : Prop :=
  match sc with
  | [] => True
  | (h, k) :: r => lb <= h /\ (k < m)%nat /\ chain2 m h r
  end.

Lemma chain2_ge m lb sc : chain2 m lb sc -> forall h k, In (h, k) sc -> lb <= h /\ (k < m)%nat.
Proof.
  revert lb; induction sc as [|[h0 k0] r IH]; intros lb C h k Hin; [destruct Hin|].
  cbn in C. destruct C as [C1 [C2 C3]]. destruct Hin as [E|Hin].
  - injection E as -> ->. auto.
  - destruct (IH h0 C3 h k Hin) as [H1 H2]. split; [lia|exact H2].
Qed.

Lemma in_tag2 id sc p : In p (tag2 id sc) <-> exists h k, In (h, k) sc /\ p = (id, h, k).
Proof.
  unfold tag2. rewrite in_map_iff. split.
  - intros [[h k] [E Hin]]. exists h, k. split; [exact Hin|symmetry; exact E].
  - intros [h [k [Hin ->]]]. exists (h, k). split; [reflexivity|exact Hin].
Qed.

Lemma covered_by_max2 m st id sc x : wfst m st -> pmax st <= x ->
  (forall h k, In (h, k) sc -> x <= h /\ (k < m)%nat) ->
  forall p, In p (tag2 id sc) -> covered st p.
Proof.
  intros [L _] Hx Hall p Hin. apply in_tag2 in Hin. destruct Hin as [h [k [Hin ->]]].
  destruct (Hall h k Hin) as [H1 H2]. unfold covered.
  assert (H := lmax_ge (pregs st) k ltac:(lia)). unfold pmax in Hx. lia.
Qed.

Lemma pmh2_item_ok m maxv init Pts id : forall sc st lb i st',
  good m maxv init Pts st -> chain2 m lb sc -> (forall p, In p (tag2 id sc) -> In p Pts) ->
  pmh2_item st id sc i = Done st' ->
  good m maxv init Pts st' /\ mono st st' /\ (forall p, In p (tag2 id sc) -> covered st' p).
Proof.
  induction sc as [|[h k] r IH]; intros st lb i st' G C Hsub Hrun; [discriminate|].
  cbn [pmh2_item] in Hrun. cbn in C. destruct C as [C1 [C3 C4]].
  destruct G as [W J]. assert (W' := W). destruct W' as [L [L2 Hm]].
  destruct (Z.ltb_spec h (pmax st)) as [Hlt|Hge].
  - destruct (Nat.ltb_spec k (length (pregs st))) as [_|]; [|lia]. cbn [negb] in Hrun.
    assert (Hin : In (id, h, k) Pts) by (apply Hsub; cbn; auto).
    assert (G1 : good m maxv init Pts (offer st id h k)) by (apply good_offer; [split|..]; assumption).
    assert (M1 := offer_mono st id h k).
    assert (Cv := offer_covers m st id h k W C3).
    destruct ((h <? nthz (pregs st) k) && (pmax (offer st id h k) <=? h)) eqn:Eb.
    + apply andb_true_iff in Eb. destruct Eb as [_ Eb]. apply Z.leb_le in Eb.
      injection Hrun as <-. split; [exact G1|]. split; [exact M1|].
      intros p [<-|Hp]; [exact Cv|].
      apply (covered_by_max2 m _ id r h (proj1 G1) Eb); [|exact Hp].
      intros h' k' Hin'. apply (chain2_ge m h r C4 h' k' Hin').
    + destruct (S i <? length (pregs st))%nat; [|discriminate].
      destruct (IH _ h (S i) st' G1 C4 ltac:(intros p Hp; apply Hsub; cbn; auto) Hrun) as [G2 [M2 Cv2]].
      split; [exact G2|]. split; [eapply mono_trans; eassumption|].
      intros p [<-|Hp]; [eapply covered_mono; eassumption|apply Cv2; exact Hp].
  - injection Hrun as <-. split; [split; assumption|]. split; [apply mono_refl|].
    apply (covered_by_max2 m st id ((h, k) :: r) h W Hge).
    intros h' k' [E|Hin'].
    + injection E as <- <-. split; [lia|exact C3].
    + destruct (chain2_ge m h r C4 h' k' Hin') as [H1 H2]. split; [lia|exact H2].
Qed.

Definition alltags2 (items : list (Z * list point2)) : list tpoint :=
  concat (map (fun it => tag2 (fst it) (snd it)) items).
Lemma in_alltags2 items p : In p (alltags2 items) <-> exists id sc, In (id, sc) items /\ In p (tag2 id sc).
Proof.
  unfold alltags2. rewrite in_concat. split.
  - intros [l [Hl Hp]]. apply in_map_iff in Hl. destruct Hl as [[id sc] [<- Hin]]. exists id, sc. auto.
  - intros [id [sc [Hin Hp]]]. exists (tag2 id sc). split; [|exact Hp].
    apply in_map_iff. exists (id, sc). auto.
Qed.
Definition scripts2_wf (m : nat) (items : list (Z * list point2)) : Prop :=
  forall id sc, In (id, sc) items -> chain2 m 0 sc.

Lemma pmh2_items_ok m maxv init Pts : forall items st st',
  good m maxv init Pts st -> scripts2_wf m items -> (forall p, In p (alltags2 items) -> In p Pts) ->
  pmh2_items st items = Done st' ->
  good m maxv init Pts st' /\ mono st st' /\ (forall p, In p (alltags2 items) -> covered st' p).
Proof.
  induction items as [|[id sc] r IH]; intros st st' G Wf Hsub Hrun.
  - injection Hrun as <-. split; [exact G|]. split; [apply mono_refl|]. intros p [].
  - cbn [pmh2_items] in Hrun. destruct (pmh2_item st id sc 0) as [st1| |] eqn:E1; try discriminate.
    destruct (pmh2_item_ok m maxv init Pts id sc st 0 0%nat st1 G) as [G1 [M1 C1]].
    + apply (Wf id sc). cbn; auto.
    + intros p Hp. apply Hsub. apply in_alltags2. exists id, sc. cbn; auto.
    + exact E1.
    + destruct (IH st1 st' G1) as [G2 [M2 C2]].
      * intros id' sc' Hin. apply (Wf id' sc'). cbn; auto.
      * intros p Hp. apply Hsub. apply in_alltags2 in Hp. destruct Hp as [id' [sc' [Hin Hp]]].
        apply in_alltags2. exists id', sc'. cbn; auto.
      * exact Hrun.
      * split; [exact G2|]. split; [eapply mono_trans; eassumption|].
        intros p Hp. apply in_alltags2 in Hp. destruct Hp as [id' [sc' [[E|Hin] Hp]]].
        -- injection E as <- <-. eapply covered_mono; [exact M2|apply C1; exact Hp].
        -- apply C2. apply in_alltags2. exists id', sc'. auto.
Qed.

(* the assert!(i < m) of variant 2 cannot fire, and the m points of a script always suffice:
   the slots of a script are a permutation of 0..m-1 (C17) and values do not decrease *)
Lemma pmh2_item_total m id : forall sc st lb i,
  wfst m st -> sc <> [] -> (length sc + i = m)%nat -> chain2 m lb sc ->
  (forall j, (j < m)%nat -> In j (map snd sc) \/ nthz (pregs st) j <= lb) ->
  exists st', pmh2_item st id sc i = Done st'.
Proof.
  induction sc as [|[h k] r IH]; intros st lb i W Hne Hlen C Hinv; [congruence|].
  cbn [pmh2_item]. cbn in C. destruct C as [C1 [C3 C4]]. assert (W' := W). destruct W' as [L [L2 Hm]].
  destruct (Z.ltb_spec h (pmax st)) as [Hlt|Hge]; [|eexists; reflexivity].
  destruct (Nat.ltb_spec k (length (pregs st))) as [_|]; [|lia]. cbn [negb].
  set (st1 := offer st id h k).
  assert (W1 : wfst m st1) by (apply offer_wf; exact W).
  assert (M1 : mono st st1) by apply offer_mono.
  assert (Cv : nthz (pregs st1) k <= h) by (apply (offer_covers m st id h k W C3)).
  (* after the offer every slot is a later slot of the script or holds a value <= h *)
  assert (Hinv1 : forall j, (j < m)%nat -> In j (map snd r) \/ nthz (pregs st1) j <= h).
  { intros j Hj. destruct (Hinv j Hj) as [[E|Hin]|Hle].
    - cbn in E. subst j. right. exact Cv.
    - left. exact Hin.
    - right. specialize (M1 j). lia. }
  destruct ((h <? nthz (pregs st) k) && (pmax st1 <=? h)) eqn:Eb; [eexists; reflexivity|].
  destruct r as [|p2 r'].
  - (* last point: every register is <= h now, so either the loop was not entered or it broke *)
    exfalso.
    assert (Hall : forall j, (j < m)%nat -> nthz (pregs st1) j <= h).
    { intros j Hj. destruct (Hinv1 j Hj) as [[]|H]; exact H. }
    destruct (lmax_attained (pregs st1) ltac:(destruct W1; lia)) as [j [Hj Ej]].
    assert (Hp1 : pmax st1 <= h) by (unfold pmax; rewrite <- Ej; apply Hall; destruct W1; lia).
    apply andb_false_iff in Eb. destruct Eb as [Eb|Eb].
    + apply Z.ltb_ge in Eb.
      (* no update happened, so st1 = st and pmax st <= h *)
      assert (st1 = st) by (unfold st1, offer; destruct (Z.ltb_spec h (nthz (pregs st) k)); [lia|reflexivity]).
      rewrite H in Hp1. lia.
    + apply Z.leb_gt in Eb. lia.
  - destruct (Nat.ltb_spec (S i) (length (pregs st))) as [_|Hbad]; [|cbn [length] in Hlen; lia].
    apply (IH st1 h (S i) W1); [discriminate|cbn [length] in *; lia|exact C4|exact Hinv1].
Qed.

(* ------------------------------------------------------------------ *)
(* main theorems *)

Theorem pmh3_final m maxv init items st : (1 <= m)%nat -> scripts_wf m items ->
  pmh3_items (p_new maxv init m) items = Done st -> final m maxv init (alltags3 items) st.
Proof.
  intros Hm Wf Hrun.
  destruct (pmh3_items_ok m maxv init (alltags3 items) items _ st (p_new_good m maxv init _ Hm) Wf
              ltac:(auto) Hrun) as [[W J] [_ C]].
  split; [exact W|]. split; [exact J|]. intros id h k Hin _. apply C. exact Hin.
Qed.

Theorem pmh3a_final m maxv init batches st : (1 <= m)%nat -> (forall b, In b batches -> scripts_wf m b) ->
  pmh3a_batches (p_new maxv init m) batches = Done st -> final m maxv init (alltags3b batches) st.
Proof.
  intros Hm Wf Hrun.
  destruct (pmh3a_batches_ok m maxv init (alltags3b batches) batches _ st (p_new_good m maxv init _ Hm) Wf
              ltac:(auto) Hrun) as [[W J] [_ C]].
  split; [exact W|]. split; [exact J|]. intros id h k Hin _. apply C. exact Hin.
Qed.

Theorem pmh2_final m maxv init items st : (1 <= m)%nat -> scripts2_wf m items ->
  pmh2_items (p_new maxv init m) items = Done st -> final m maxv init (alltags2 items) st.
Proof.
  intros Hm Wf Hrun.
  destruct (pmh2_items_ok m maxv init (alltags2 items) items _ st (p_new_good m maxv init _ Hm) Wf
              ltac:(auto) Hrun) as [[W J] [_ C]].
  split; [exact W|]. split; [exact J|]. intros id h k Hin _. apply C. exact Hin.
Qed.

(* same (item, script) pairs, in any order / grouping / multiplicity, give the same point set *)
Lemma same_items_same_points items batches :
  (forall x, In x items <-> In x (concat batches)) ->
  forall p, In p (alltags3 items) <-> In p (alltags3b batches).
Proof.
  intros H p. unfold alltags3b. rewrite in_alltags3, in_concat. split.
  - intros [id [sc [Hin Hp]]]. apply H in Hin. apply in_concat in Hin. destruct Hin as [b [Hb Hin]].
    exists (alltags3 b). split; [apply in_map; exact Hb|]. apply in_alltags3. exists id, sc. auto.
  - intros [l [Hl Hp]]. apply in_map_iff in Hl. destruct Hl as [b [<- Hb]].
    apply in_alltags3 in Hp. destruct Hp as [id [sc [Hin Hp]]]. exists id, sc. split; [|exact Hp].
    apply H. apply in_concat. exists b. auto.
Qed.

(* ProbMinHash3 on any arrangement of a set of pairs versus ProbMinHash3a on any other batch
   arrangement of the same pairs: identical registers, identical signature where tie free *)
Theorem pmh3_pmh3a_agree m maxv init items batches st st' : (1 <= m)%nat ->
  scripts_wf m items -> (forall b, In b batches -> scripts_wf m b) ->
  (forall x, In x items <-> In x (concat batches)) ->
  pmh3_items (p_new maxv init m) items = Done st ->
  pmh3a_batches (p_new maxv init m) batches = Done st' ->
  pregs st = pregs st' /\
  ((forall k, (k < m)%nat -> tie_free (alltags3 items) maxv k) -> psig st = psig st').
Proof.
  intros Hm W1 W2 Hsame R1 R2.
  apply (final_unique_state m maxv init (alltags3 items) (alltags3b batches)).
  - apply same_items_same_points. exact Hsame.
  - apply pmh3_final; assumption.
  - apply pmh3a_final; assumption.
Qed.

Lemma same_items_points3 items items' : (forall x, In x items <-> In x items') ->
  forall p, In p (alltags3 items) <-> In p (alltags3 items').
Proof.
  intros H p. rewrite !in_alltags3. split; intros [id [sc [Hin Hp]]]; exists id, sc; (split; [apply H; exact Hin|exact Hp]).
Qed.
Lemma same_items_points2 items items' : (forall x, In x items <-> In x items') ->
  forall p, In p (alltags2 items) <-> In p (alltags2 items').
Proof.
  intros H p. rewrite !in_alltags2. split; intros [id [sc [Hin Hp]]]; exists id, sc; (split; [apply H; exact Hin|exact Hp]).
Qed.

(* order, repetition: two streams with the same set of (item, script) pairs *)
Theorem pmh3_set_semantics m maxv init items items' st st' : (1 <= m)%nat ->
  scripts_wf m items -> scripts_wf m items' -> (forall x, In x items <-> In x items') ->
  pmh3_items (p_new maxv init m) items = Done st -> pmh3_items (p_new maxv init m) items' = Done st' ->
  pregs st = pregs st' /\
  ((forall k, (k < m)%nat -> tie_free (alltags3 items) maxv k) -> psig st = psig st').
Proof.
  intros Hm W1 W2 Hsame R1 R2.
  apply (final_unique_state m maxv init (alltags3 items) (alltags3 items')).
  - apply same_items_points3. exact Hsame.
  - apply pmh3_final; assumption.
  - apply pmh3_final; assumption.
Qed.

Theorem pmh3a_set_semantics m maxv init bs bs' st st' : (1 <= m)%nat ->
  (forall b, In b bs -> scripts_wf m b) -> (forall b, In b bs' -> scripts_wf m b) ->
  (forall x, In x (concat bs) <-> In x (concat bs')) ->
  pmh3a_batches (p_new maxv init m) bs = Done st -> pmh3a_batches (p_new maxv init m) bs' = Done st' ->
  pregs st = pregs st' /\
  ((forall k, (k < m)%nat -> tie_free (alltags3b bs) maxv k) -> psig st = psig st').
Proof.
  intros Hm W1 W2 Hsame R1 R2.
  apply (final_unique_state m maxv init (alltags3b bs) (alltags3b bs')).
  - intros p. rewrite <- (same_items_same_points (concat bs) bs) by tauto.
    rewrite <- (same_items_same_points (concat bs') bs') by tauto.
    apply same_items_points3. exact Hsame.
  - apply pmh3a_final; assumption.
  - apply pmh3a_final; assumption.
Qed.

Theorem pmh2_set_semantics m maxv init items items' st st' : (1 <= m)%nat ->
  scripts2_wf m items -> scripts2_wf m items' -> (forall x, In x items <-> In x items') ->
  pmh2_items (p_new maxv init m) items = Done st -> pmh2_items (p_new maxv init m) items' = Done st' ->
  pregs st = pregs st' /\
  ((forall k, (k < m)%nat -> tie_free (alltags2 items) maxv k) -> psig st = psig st').
Proof.
  intros Hm W1 W2 Hsame R1 R2.
  apply (final_unique_state m maxv init (alltags2 items) (alltags2 items')).
  - apply same_items_points2. exact Hsame.
  - apply pmh2_final; assumption.
  - apply pmh2_final; assumption.
Qed.

(* union: if A and B give common items the same script (same weight), the union's points are
   A's and B's points; registers are the position-wise minimum and each signature position of the
   union is that position of one of the two *)
Theorem final_union m maxv init A B sA sB sAB k :
  final m maxv init A sA -> final m maxv init B sB -> final m maxv init (A ++ B) sAB -> (k < m)%nat ->
  nthz (pregs sAB) k = Z.min (nthz (pregs sA) k) (nthz (pregs sB) k) /\
  (tie_free (A ++ B) maxv k -> nthz (psig sAB) k = nthz (psig sA) k \/ nthz (psig sAB) k = nthz (psig sB) k).
Proof.
  intros FA FB FAB Hk.
  rewrite (final_regs _ _ _ _ _ k FA Hk), (final_regs _ _ _ _ _ k FB Hk), (final_regs _ _ _ _ _ k FAB Hk).
  split; [apply min_at_app|]. intros T.
  assert (Eapp := min_at_app A B maxv k).
  destruct (final_sig _ _ _ _ _ k FAB Hk) as [[H1 S1]|[H1 S1]].
  - (* nothing below the initial value anywhere *)
    assert (HA := min_at_le_max A maxv k). assert (HB := min_at_le_max B maxv k).
    destruct (final_sig _ _ _ _ _ k FA Hk) as [[H2 S2]|[H2 _]]; [left; congruence|lia].
  - destruct (Z.min_spec (min_at A maxv k) (min_at B maxv k)) as [[Hlt Emin]|[Hle Emin]].
    + left. destruct (final_sig _ _ _ _ _ k FA Hk) as [[H2 _]|[H2 S2]]; [lia|].
      apply T; [exact S1|]. rewrite Eapp, Emin. apply in_app_iff. left. exact S2.
    + right. destruct (final_sig _ _ _ _ _ k FB Hk) as [[H2 _]|[H2 S2]]; [lia|].
      apply T; [exact S1|]. rewrite Eapp, Emin. apply in_app_iff. right. exact S2.
Qed.

(* a signature position holds an item of the set as soon as some point of that slot is below
   the initial value (no overflow + slot coverage) *)
Theorem final_sig_member m maxv init Pts st k : final m maxv init Pts st -> (k < m)%nat ->
  (exists id h, In (id, h, k) Pts /\ h < maxv) ->
  exists h, In (nthz (psig st) k, h, k) Pts.
Proof.
  intros F Hk [id [h [Hin Hlt]]].
  destruct (final_sig _ _ _ _ _ k F Hk) as [[H1 _]|[_ S]].
  - assert (Hle := min_at_le Pts maxv k id h Hin). lia.
  - eexists. exact S.
Qed.

(* strictly monotone re-labelling of the point values (e.g. every weight times 2^k, away from
   overflow and underflow): if the image points are again below the image of the initial value,
   signatures agree wherever the original is tie free *)
Definition map_pts (f : Z -> Z) (Pts : list tpoint) : list tpoint :=
  map (fun '(id, h, k) => (id, f h, k)) Pts.

Lemma min_at_map f Pts maxv k : (forall a b, a <= b -> f a <= f b) ->
  min_at (map_pts f Pts) (f maxv) k = f (min_at Pts maxv k).
Proof.
  intros Hf. induction Pts as [|[[id h] k'] r IH]; cbn; [reflexivity|].
  fold (map_pts f r). destruct (Nat.eqb k' k); [|exact IH]. rewrite IH.
  destruct (Z.min_spec h (min_at r maxv k)) as [[Hlt ->]|[Hle ->]].
  - apply Z.min_l. apply Hf. lia.
  - apply Z.min_r. apply Hf. exact Hle.
Qed.

Theorem final_monotone_iso m maxv init f Pts st st' k :
  (forall a b, a < b -> f a < f b) ->
  final m maxv init Pts st -> final m (f maxv) init (map_pts f Pts) st' -> (k < m)%nat ->
  tie_free Pts maxv k -> nthz (psig st) k = nthz (psig st') k.
Proof.
  intros Hf F F' Hk T.
  assert (Hf' : forall a b, a <= b -> f a <= f b).
  { intros a b Hab. destruct (Z.eq_dec a b) as [->|]; [lia|]. specialize (Hf a b ltac:(lia)). lia. }
  assert (Hinj : forall a b, f a = f b -> a = b).
  { intros a b E. destruct (Z.lt_trichotomy a b) as [H|[H|H]]; [specialize (Hf _ _ H); lia|exact H|specialize (Hf _ _ H); lia]. }
  assert (Em := min_at_map f Pts maxv k Hf').
  destruct (final_sig _ _ _ _ _ k F Hk) as [[H1 S1]|[H1 S1]];
  destruct (final_sig _ _ _ _ _ k F' Hk) as [[H2 S2]|[H2 S2]].
  - congruence.
  - rewrite Em, H1 in H2. lia.
  - rewrite Em in H2. apply Hinj in H2. lia.
  - apply T; [exact S1|]. rewrite Em in S2. unfold map_pts in S2. apply in_map_iff in S2.
    destruct S2 as [[[id h] k'] [E Hin]]. injection E as E1 E2 E3. subst k'. apply Hinj in E2. subst h.
    rewrite <- E1. exact Hin.
Qed.
