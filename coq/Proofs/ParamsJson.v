(* C20: a document that parses contains a closing brace; the printed document has exactly one,
   at its end; hence no strict prefix of a dumped file (a torn file) parses to parameters. *)
From Coq Require Import List ZArith Bool Decimal DecimalN NArith Lia.
From PMH Require Import Model.ParamsJson.
Import ListNotations.
Open Scope Z_scope.

Definition sub (t s : bytes) : Prop := forall x, In x t -> In x s.
Lemma sub_refl s : sub s s. Proof. intros x H; exact H. Qed.
Lemma sub_trans a b c : sub a b -> sub b c -> sub a c. Proof. intros H1 H2 x H. auto. Qed.
Lemma sub_cons c s : sub s (c :: s). Proof. intros x H; right; exact H. Qed.
Lemma sub_nil s : sub [] s. Proof. intros x []. Qed.

Lemma skip_ws_sub s : sub (skip_ws s) s.
Proof.
  induction s as [|c r IH]; [apply sub_nil|]. cbn. destruct (is_ws c); [|apply sub_refl].
  eapply sub_trans; [exact IH|apply sub_cons].
Qed.

Lemma take_digits_sub s : sub (snd (take_digits s)) s.
Proof.
  induction s as [|c r IH]; [apply sub_nil|]. cbn. destruct (is_digit c); [|apply sub_refl].
  destruct (take_digits r) as [d t]. cbn in *. eapply sub_trans; [exact IH|apply sub_cons].
Qed.

Lemma lex_string_body_sub s b t : lex_string_body s = Some (b, t) -> sub t s.
Proof.
  revert b t; induction s as [|c r IH]; intros b t H; [discriminate|]. cbn in H.
  destruct (c =? 34); [injection H as _ <-; apply sub_cons|].
  destruct ((c =? 92) || (c <? 32)); [discriminate|].
  destruct (lex_string_body r) as [[b' t']|] eqn:E; [|discriminate]. injection H as _ <-.
  eapply sub_trans; [apply (IH b' t' eq_refl)|apply sub_cons].
Qed.

Lemma starts_with_sub p s t : starts_with p s = Some t -> sub t s.
Proof.
  revert s t; induction p as [|x p IH]; intros s t H; cbn in H.
  - injection H as <-. apply sub_refl.
  - destruct s as [|y s']; [discriminate|]. destruct (x =? y); [|discriminate].
    eapply sub_trans; [apply (IH s' t H)|apply sub_cons].
Qed.

Lemma lex_sign_sub s : sub (snd (lex_sign s)) s.
Proof. unfold lex_sign. destruct s as [|c r]; [apply sub_refl|]. destruct (c =? 45); [apply sub_cons|apply sub_refl]. Qed.
Lemma lex_frac_sub s : sub (snd (fst (lex_frac s))) s.
Proof.
  unfold lex_frac. destruct s as [|c r]; [apply sub_refl|]. destruct (c =? 46); [|apply sub_refl].
  assert (H := take_digits_sub r). destruct (take_digits r) as [f t]. cbn in *. eapply sub_trans; [exact H|apply sub_cons].
Qed.
Lemma lex_esign_sub r : sub (snd (lex_esign r)) r.
Proof. unfold lex_esign. destruct r as [|c r']; [apply sub_refl|]. destruct ((c =? 43) || (c =? 45)); [apply sub_cons|apply sub_refl]. Qed.
Lemma lex_exp_sub s : sub (snd (fst (fst (lex_exp s)))) s.
Proof.
  unfold lex_exp. destruct s as [|e r]; [apply sub_refl|]. destruct ((e =? 101) || (e =? 69)); [|apply sub_refl].
  assert (H1 := lex_esign_sub r). destruct (lex_esign r) as [sg r1]. cbn in H1.
  assert (H2 := take_digits_sub r1). destruct (take_digits r1) as [ed t]. cbn in *.
  eapply sub_trans; [exact H2|]. eapply sub_trans; [exact H1|apply sub_cons].
Qed.

Lemma lex_number_sub s tok plain tl : lex_number s = Some (tok, plain, tl) -> sub tl s.
Proof.
  unfold lex_number. intros H.
  assert (H1 := lex_sign_sub s). destruct (lex_sign s) as [neg s1]. cbn in H1.
  assert (H2 := take_digits_sub s1). destruct (take_digits s1) as [ip s2]. cbn in H2.
  destruct ip as [|d0 drest]; [discriminate|].
  destruct ((d0 =? 48) && negb match drest with [] => true | _ => false end); [discriminate|].
  assert (H3 := lex_frac_sub s2). destruct (lex_frac s2) as [[frac s3] hasfrac]. cbn in H3.
  destruct (hasfrac && match frac with [_] => true | _ => false end); [discriminate|].
  assert (H4 := lex_exp_sub s3). destruct (lex_exp s3) as [[[ex s4] hasexp] okexp]. cbn in H4.
  destruct (negb okexp); [discriminate|]. injection H as _ _ <-.
  eapply sub_trans; [exact H4|]. eapply sub_trans; [exact H3|]. eapply sub_trans; [exact H2|exact H1].
Qed.

Lemma lex_value_sub s v t : lex_value s = (v, t) -> sub t s.
Proof.
  unfold lex_value. intros H. destruct s as [|c r]; [injection H as _ <-; apply sub_nil|].
  destruct (c =? 34).
  { destruct (lex_string_body r) as [[b t']|] eqn:E; injection H as _ <-; [|apply sub_nil].
    eapply sub_trans; [eapply lex_string_body_sub; exact E|apply sub_cons]. }
  destruct (c =? 116).
  { destruct (starts_with [116; 114; 117; 101] (c :: r)) eqn:E; injection H as _ <-; [eapply starts_with_sub; exact E|apply sub_nil]. }
  destruct (c =? 102).
  { destruct (starts_with [102; 97; 108; 115; 101] (c :: r)) eqn:E; injection H as _ <-; [eapply starts_with_sub; exact E|apply sub_nil]. }
  destruct (c =? 110).
  { destruct (starts_with [110; 117; 108; 108] (c :: r)) eqn:E; injection H as _ <-; [eapply starts_with_sub; exact E|apply sub_nil]. }
  destruct ((c =? 91) || (c =? 123)); [injection H as _ <-; apply sub_nil|].
  destruct (lex_number (c :: r)) as [[[tok plain] t']|] eqn:E; injection H as _ <-; [|apply sub_nil].
  eapply lex_number_sub; exact E.
Qed.

(* a document that parses to parameters contains a closing brace *)
Lemma members_ok_close : forall fuel a s b m x q, members fuel a s = POk b m x q -> In 125 s.
Proof.
  induction fuel as [|f IH]; intros a s b m x q H; [discriminate|]. cbn [members] in H.
  assert (Hs := skip_ws_sub s). destruct (skip_ws s) as [|c r] eqn:Es; [discriminate|].
  destruct (c =? 34); cbn [negb] in H; [|discriminate].
  destruct (lex_string_body r) as [[key t]|] eqn:Ek; [|discriminate].
  assert (Ht := lex_string_body_sub _ _ _ Ek).
  assert (Ht1 := skip_ws_sub t). destruct (skip_ws t) as [|c1 t1] eqn:Et; [discriminate|].
  destruct (c1 =? 58); cbn [negb] in H; [|discriminate].
  destruct (lex_value (skip_ws t1)) as [v t2] eqn:Ev.
  assert (Ht2 := lex_value_sub _ _ _ Ev). assert (Hw1 := skip_ws_sub t1).
  assert (Hchain : sub t2 s).
  { eapply sub_trans; [exact Ht2|]. eapply sub_trans; [exact Hw1|]. eapply sub_trans; [apply sub_cons|].
    eapply sub_trans; [exact Ht1|]. eapply sub_trans; [exact Ht|]. eapply sub_trans; [apply sub_cons|exact Hs]. }
  assert (Hend : forall a', (match skip_ws t2 with
                             | [] => PError
                             | c2 :: t3 => if c2 =? 44 then members f a' t3 else if c2 =? 125 then finish a' t3 else PError
                             end) = POk b m x q -> In 125 s).
  { intros a' H'. assert (Hw2 := skip_ws_sub t2). destruct (skip_ws t2) as [|c2 t3]; [discriminate|].
    destruct (c2 =? 44).
    - apply Hchain, Hw2. right. apply (IH a' t3 b m x q H').
    - destruct (Z.eqb_spec c2 125) as [->|]; [|discriminate]. apply Hchain, Hw2. left. reflexivity. }
  destruct v; try discriminate.
  - destruct (store a key (VNum tok plain)) as [a'|]; [|discriminate]. apply (Hend a' H).
  - destruct (store a key VOther) as [a'|]; [|discriminate]. apply (Hend a' H).
Qed.

Theorem parse_ok_contains_close s b m a q : parse_params s = POk b m a q -> In 125 s.
Proof.
  unfold parse_params. intros H. assert (Hs := skip_ws_sub s).
  destruct (skip_ws s) as [|c r] eqn:Es; [discriminate|].
  destruct (c =? 123).
  - assert (Hr := skip_ws_sub r). destruct (skip_ws r) as [|c1 t] eqn:Er; [discriminate|].
    destruct (Z.eqb_spec c1 125) as [->|_].
    + apply Hs. right. apply Hr. left. reflexivity.
    + apply Hs. right. eapply members_ok_close; exact H.
  - destruct (c =? 91); discriminate.
Qed.

(* tokens made of the characters of a JSON number *)
Definition num_char (c : Z) : bool :=
  is_digit c || (c =? 46) || (c =? 101) || (c =? 69) || (c =? 43) || (c =? 45).
Definition num_token (t : bytes) : Prop := forall c, In c t -> num_char c = true.

Lemma uint_bytes_digits d : forall c, In c (uint_bytes d) -> is_digit c = true.
Proof. induction d; cbn; intros c H; try tauto; destruct H as [<-|H]; try reflexivity; apply IHd; exact H. Qed.

Lemma no_close_in_body b m a q : num_token b -> num_token a ->
  exists body, print_params b m a q = body ++ [125] /\ ~ In 125 body.
Proof.
  intros Hb Ha. unfold print_params.
  exists ([123; 34; 98; 34; 58] ++ b ++ [44; 34; 109; 34; 58] ++ print_N m ++
          [44; 34; 97; 34; 58] ++ a ++ [44; 34; 113; 34; 58] ++ print_N q).
  split; [repeat rewrite <- app_assoc; reflexivity|].
  intros H. repeat (apply in_app_iff in H; destruct H as [H|H]);
    try (cbn in H; repeat (destruct H as [H|H]; [discriminate|]); exact H).
  - apply Hb in H. discriminate.
  - apply uint_bytes_digits in H. discriminate.
  - apply Ha in H. discriminate.
  - apply uint_bytes_digits in H. discriminate.
Qed.

Lemma in_firstn {A} (x : A) n l : In x (firstn n l) -> In x l.
Proof. intros H. rewrite <- (firstn_skipn n l). apply in_app_iff. left. exact H. Qed.

(* a torn file (any strict prefix of a dumped file) never parses to parameters *)
Theorem torn_file_rejected b m a q n b' m' a' q' : num_token b -> num_token a ->
  (n < length (print_params b m a q))%nat ->
  parse_params (firstn n (print_params b m a q)) <> POk b' m' a' q'.
Proof.
  intros Hb Ha Hn H. apply parse_ok_contains_close in H.
  destruct (no_close_in_body b m a q Hb Ha) as [body [E Hno]]. rewrite E in *.
  rewrite app_length in Hn. cbn in Hn.
  rewrite firstn_app in H. replace (n - length body)%nat with 0%nat in H by lia. cbn in H. rewrite app_nil_r in H.
  apply Hno. eapply in_firstn. exact H.
Qed.

(* reload: a missing file and a parse error are errors, never a panic, in the repaired code *)
Theorem reload_never_panics file : reload_json false file <> RPanic.
Proof. unfold reload_json. destruct file as [s|]; [|discriminate]. destruct (parse_params s); discriminate. Qed.
Theorem reload_missing_file flag : reload_json flag None = RErr.
Proof. reflexivity. Qed.
Theorem reload_torn flag b m a q n : num_token b -> num_token a -> (n < length (print_params b m a q))%nat ->
  match reload_json flag (Some (firstn n (print_params b m a q))) with RParams _ _ _ _ => False | _ => True end.
Proof.
  intros Hb Ha Hn. unfold reload_json.
  destruct (parse_params (firstn n (print_params b m a q))) eqn:E; [|destruct flag; exact I|exact I].
  exact (torn_file_rejected b m a q n _ _ _ _ Hb Ha Hn E).
Qed.

(* round trip on concrete documents (the general statement is checked by the correspondence) *)
Example roundtrip_default :
  parse_params (print_params [49;46;48;48;49] 4096 [50;48;46;48] 65534) = POk [49;46;48;48;49] 4096 [50;48;46;48] 65534.
Proof. vm_compute. reflexivity. Qed.
