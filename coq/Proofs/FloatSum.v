(* C06, last clause: the sketcher's own estimate adds the m terms b^-K_i from left to right, starting from 0.0;
   the estimator on a raw register slice adds the same m terms in whatever tree the work-stealing scheduler builds
   (rayon's sum: zeros as identities, sub-sums combined pairwise).  Whatever the tree, the binary64 result lies
   within (1 +- u)^depth of the exact sum: two schedules differ by rounding only, with an explicit bound. *)
From Coq Require Import Reals List Lra Lia Permutation ZArith.
From Flocq Require Import Core Plus_error Relative.
From PMH Require Import Gen.SetSketchFormulas.
Import ListNotations.
Local Open Scope R_scope.

Definition fexp64 := FLT_exp (-1074) 53.
Definition fmt64 (x : R) : Prop := generic_format radix2 fexp64 x.
Definition rnd64 (x : R) : R := round radix2 fexp64 (Znearest (fun n => negb (Z.even n))) x.
Definition u64 : R := u_ro radix2 53.            (* 2^-53 *)

Inductive stree := Leaf (x : R) | Node (l r : stree).

Fixpoint rsum (t : stree) : R := match t with Leaf x => x | Node l r => rsum l + rsum r end.
Fixpoint fsum (t : stree) : R := match t with Leaf x => x | Node l r => rnd64 (fsum l + fsum r) end.
Fixpoint depth (t : stree) : nat := match t with Leaf _ => O | Node l r => S (Nat.max (depth l) (depth r)) end.
Fixpoint leaves (t : stree) : list R := match t with Leaf x => [x] | Node l r => leaves l ++ leaves r end.
Definition leaves_ok (t : stree) : Prop := Forall (fun x => fmt64 x /\ 0 <= x) (leaves t).

Lemma u64_pos : 0 < u64. Proof. unfold u64, u_ro. simpl. lra. Qed.
Lemma u64_lt1 : u64 < 1. Proof. unfold u64, u_ro. simpl. lra. Qed.

#[local] Instance prec53 : Prec_gt_0 53. Proof. unfold Prec_gt_0. lia. Qed.

Lemma fsum_fmt t : leaves_ok t -> fmt64 (fsum t).
Proof.
  unfold leaves_ok. induction t as [x|l IHl r IHr]; cbn [leaves fsum]; intros H.
  - inversion H; subst. tauto.
  - apply generic_format_round; [apply FLT_exp_valid; exact prec53|apply valid_rnd_N].
Qed.

Lemma plus_rel x y : fmt64 x -> fmt64 y -> exists eps, Rabs eps <= u64 /\ rnd64 (x + y) = (x + y) * (1 + eps).
Proof.
  intros Fx Fy. destruct (FLT_plus_error_N_ex radix2 (-1074) 53 (fun n => negb (Z.even n)) x y Fx Fy) as [eps [He E]].
  exists eps. split; [|exact E].
  eapply Rle_trans; [exact He|]. fold u64. assert (P := u64_pos).
  apply Rle_trans with (u64 / 1); [|lra]. unfold Rdiv. apply Rmult_le_compat_l; [lra|].
  apply Rinv_le_contravar; lra.
Qed.

Lemma pow_mono_base a n m : 1 <= a -> (n <= m)%nat -> a ^ n <= a ^ m.
Proof. intros Ha H. apply Rle_pow; assumption. Qed.

Lemma pow_anti_base a n m : 0 <= a <= 1 -> (n <= m)%nat -> a ^ m <= a ^ n.
Proof.
  intros Ha H. induction H as [|m H IH]; [lra|]. cbn [pow].
  assert (0 <= a ^ m) by (apply pow_le; lra). nra.
Qed.

Theorem fsum_bounds t : leaves_ok t ->
  0 <= rsum t /\ (1 - u64) ^ depth t * rsum t <= fsum t <= (1 + u64) ^ depth t * rsum t.
Proof.
  assert (P := u64_pos). assert (Q := u64_lt1).
  unfold leaves_ok. induction t as [x|l IHl r IHr]; cbn [leaves fsum rsum depth]; intros H.
  - inversion H; subst. cbn [pow]. lra.
  - apply Forall_app in H. destruct H as [Hl Hr].
    destruct (IHl Hl) as [Pl [Ll Ul]]. destruct (IHr Hr) as [Pr [Lr Ur]].
    destruct (plus_rel (fsum l) (fsum r) (fsum_fmt l Hl) (fsum_fmt r Hr)) as [eps [He E]].
    rewrite E. apply Rabs_le_inv in He.
    set (d := Nat.max (depth l) (depth r)).
    assert (Hdl : (depth l <= d)%nat) by apply Nat.le_max_l.
    assert (Hdr : (depth r <= d)%nat) by apply Nat.le_max_r.
    assert (Up : forall n, (n <= d)%nat -> (1 + u64) ^ n <= (1 + u64) ^ d) by (intros n Hn; apply pow_mono_base; [lra|exact Hn]).
    assert (Lo : forall n, (n <= d)%nat -> (1 - u64) ^ d <= (1 - u64) ^ n) by (intros n Hn; apply pow_anti_base; [lra|exact Hn]).
    assert (PU : 0 <= (1 + u64) ^ d) by (apply pow_le; lra).
    assert (PL : 0 <= (1 - u64) ^ d) by (apply pow_le; lra).
    assert (S1 : fsum l + fsum r <= (1 + u64) ^ d * (rsum l + rsum r)).
    { assert (A := Up _ Hdl). assert (B := Up _ Hdr). nra. }
    assert (S2 : (1 - u64) ^ d * (rsum l + rsum r) <= fsum l + fsum r).
    { assert (A := Lo _ Hdl). assert (B := Lo _ Hdr). nra. }
    assert (S0 : 0 <= fsum l + fsum r) by nra.
    split; [lra|]. cbn [pow]. split.
    + apply Rle_trans with ((1 - u64) * (fsum l + fsum r)); [nra|]. nra.
    + apply Rle_trans with ((1 + u64) * (fsum l + fsum r)); [nra|]. nra.
Qed.

(* zeros (the identities rayon's sum inserts, and the 0.0 the left fold starts from) do not change the exact sum *)
Fixpoint lsum (l : list R) : R := match l with [] => 0 | x :: r => x + lsum r end.
Lemma lsum_app a b : lsum (a ++ b) = lsum a + lsum b.
Proof. induction a as [|x a IH]; cbn [lsum app]; [lra|rewrite IH; lra]. Qed.
Lemma rsum_leaves t : rsum t = lsum (leaves t).
Proof. induction t as [x|l IHl r IHr]; cbn [rsum leaves lsum]; [lra|rewrite lsum_app; lra]. Qed.
Lemma lsum_perm a b : Permutation a b -> lsum a = lsum b.
Proof. induction 1; cbn [lsum]; lra. Qed.
Definition nonzero (l : list R) : list R := filter (fun x => if Req_EM_T x 0 then false else true) l.
Lemma lsum_nonzero l : lsum (nonzero l) = lsum l.
Proof.
  induction l as [|x l IH]; [reflexivity|]. cbn [nonzero filter lsum]. fold (nonzero l).
  destruct (Req_EM_T x 0) as [->|_]; cbn [lsum]; lra.
Qed.

(* two schedules over the same terms *)
Theorem schedules_agree t1 t2 : leaves_ok t1 -> leaves_ok t2 ->
  Permutation (nonzero (leaves t1)) (nonzero (leaves t2)) ->
  (1 - u64) ^ depth t1 * fsum t2 <= (1 + u64) ^ depth t2 * fsum t1.
Proof.
  intros H1 H2 Hp. destruct (fsum_bounds t1 H1) as [P1 [L1 U1]]. destruct (fsum_bounds t2 H2) as [P2 [L2 U2]].
  assert (E : rsum t1 = rsum t2).
  { rewrite !rsum_leaves, <- (lsum_nonzero (leaves t1)), <- (lsum_nonzero (leaves t2)). apply lsum_perm. exact Hp. }
  assert (P := u64_pos). assert (Q := u64_lt1).
  assert (A : 0 <= (1 - u64) ^ depth t1) by (apply pow_le; lra).
  assert (B : 0 <= (1 + u64) ^ depth t2) by (apply pow_le; lra).
  rewrite E in *.
  apply Rle_trans with ((1 - u64) ^ depth t1 * ((1 + u64) ^ depth t2 * rsum t2)); [apply Rmult_le_compat_l; lra|].
  replace ((1 - u64) ^ depth t1 * ((1 + u64) ^ depth t2 * rsum t2)) with ((1 + u64) ^ depth t2 * ((1 - u64) ^ depth t1 * rsum t2)) by ring.
  apply Rmult_le_compat_l; lra.
Qed.

(* the left fold the sketcher uses: ((0 + x1) + x2) + ... *)
Fixpoint comb (acc : stree) (xs : list R) : stree := match xs with [] => acc | x :: r => comb (Node acc (Leaf x)) r end.
Lemma comb_depth xs : forall acc, (depth (comb acc xs) <= depth acc + length xs)%nat.
Proof.
  induction xs as [|x r IH]; intros acc; cbn [comb length]; [lia|].
  specialize (IH (Node acc (Leaf x))). cbn [depth] in IH. rewrite Nat.max_0_r in IH. lia.
Qed.
Lemma comb_leaves xs : forall acc, leaves (comb acc xs) = leaves acc ++ xs.
Proof.
  induction xs as [|x r IH]; intros acc; cbn [comb]; [rewrite app_nil_r; reflexivity|].
  rewrite IH. cbn [leaves]. rewrite <- app_assoc. reflexivity.
Qed.
Lemma comb_fsum_is_fold xs : forall acc, fsum (comb acc xs) = fold_left (fun a x => rnd64 (a + x)) xs (fsum acc).
Proof. induction xs as [|x r IH]; intros acc; cbn [comb fold_left]; [reflexivity|]. rewrite IH. reflexivity. Qed.

Lemma fmt64_0 : fmt64 0. Proof. apply generic_format_0. Qed.

(* the statement used for the property: the sequential estimate's sum against any tree over the same terms *)
Theorem fold_vs_tree xs t : Forall (fun x => fmt64 x /\ 0 <= x) xs -> leaves_ok t ->
  Permutation (nonzero xs) (nonzero (leaves t)) ->
  let s := fold_left (fun a x => rnd64 (a + x)) xs 0 in
  (1 - u64) ^ length xs * fsum t <= (1 + u64) ^ depth t * s /\
  (1 - u64) ^ depth t * s <= (1 + u64) ^ length xs * fsum t.
Proof.
  intros Hx Ht Hp s. assert (P := u64_pos). assert (Q := u64_lt1).
  set (c := comb (Leaf 0) xs).
  assert (Hc : leaves_ok c).
  { unfold leaves_ok, c. rewrite comb_leaves. cbn [leaves app]. constructor; [split; [exact fmt64_0|lra]|exact Hx]. }
  assert (Hs : s = fsum c) by (unfold s, c; rewrite comb_fsum_is_fold; reflexivity).
  assert (Hd : (depth c <= length xs)%nat) by (unfold c; apply (comb_depth xs (Leaf 0))).
  assert (Hpc : Permutation (nonzero (leaves c)) (nonzero (leaves t))).
  { unfold c. rewrite comb_leaves. cbn [leaves app nonzero filter]. destruct (Req_EM_T 0 0) as [_|N]; [exact Hp|exfalso; apply N; reflexivity]. }
  assert (A1 := schedules_agree c t Hc Ht Hpc). assert (A2 := schedules_agree t c Ht Hc (Permutation_sym Hpc)).
  destruct (fsum_bounds t Ht) as [_ [Lt _]]. destruct (fsum_bounds c Hc) as [Pc [Lc _]].
  assert (F0 : 0 <= fsum t).
  { eapply Rle_trans; [|exact Lt]. apply Rmult_le_pos; [apply pow_le; lra|]. destruct (fsum_bounds t Ht); assumption. }
  assert (C0 : 0 <= fsum c).
  { eapply Rle_trans; [|exact Lc]. apply Rmult_le_pos; [apply pow_le; lra|exact Pc]. }
  rewrite Hs. split.
  - eapply Rle_trans; [|exact A1]. apply Rmult_le_compat_r; [exact F0|]. apply pow_anti_base; [lra|exact Hd].
  - eapply Rle_trans; [exact A2|]. apply Rmult_le_compat_r; [exact F0|]. apply pow_mono_base; [lra|exact Hd].
Qed.


(* what a difference between the two sums does to the estimate: the two estimates are in the inverse ratio of the sums *)
Theorem card_inverse_ratio b a m S1 S2 : 1 < b -> 0 < a -> 0 < S1 -> 0 < S2 ->
  card_of_sum b a m S1 * S1 = card_of_sum b a m S2 * S2.
Proof.
  intros Hb Ha H1 H2. unfold card_of_sum.
  assert (L : 0 < ln b) by (rewrite <- ln_1; apply ln_increasing; lra).
  field. repeat split; lra.
Qed.

(* non-vacuity: three terms, two shapes *)
Example schedules_example :
  leaves_ok (Node (Node (Leaf 0) (Leaf 1)) (Leaf 1)) /\ leaves_ok (Node (Leaf 1) (Node (Leaf 0) (Leaf 1))).
Proof.
  assert (F1 : fmt64 1) by (change 1 with (bpow radix2 0); apply generic_format_bpow; unfold fexp64, FLT_exp; simpl; lia).
  unfold leaves_ok; cbn [leaves app]; split; repeat constructor; try exact F1; try exact fmt64_0; lra.
Qed.
