(* C11 / C10 (ProbOrdMinHash2): facts about the per-slot store.  The full characterisation
   (slot = the l smallest values over all pairs, independent of sequence order) is work in
   progress; what is proved here: a slot stays sorted with constant length, its last value never
   increases, an insertion happens exactly below the last value, and the stored values are the l
   smallest of (old values + the new one). *)
From Coq Require Import List Arith ZArith Bool Lia ZifyNat ZifyBool Sorted Permutation.
From PMH Require Import Lib.ListArr Model.ProbMinHash Model.OrdMinHash.
Import ListNotations.
Open Scope Z_scope.

Definition vsorted (s : oslot) : Prop := Sorted (fun a b => fst a <= fst b) s.

Lemma ins_length x i s : length (ins x i s) = S (length s).
Proof. induction s as [|[v j] r IH]; cbn; [reflexivity|]. destruct (x <? v); cbn; lia. Qed.

Lemma ins_perm x i s : Permutation (ins x i s) ((x, i) :: s).
Proof.
  induction s as [|[v j] r IH]; cbn; [apply Permutation_refl|].
  destruct (x <? v); [apply Permutation_refl|].
  eapply Permutation_trans; [apply perm_skip; exact IH|apply perm_swap].
Qed.

Lemma ins_hdrel a x i s : (forall b, In b s -> fst a <= fst b) -> fst a <= x ->
  HdRel (fun a b => fst a <= fst b) a (ins x i s).
Proof.
  intros H Hx. destruct s as [|[v j] r]; cbn; [constructor; exact Hx|].
  destruct (x <? v); constructor; cbn; [exact Hx|apply (H (v, j)); cbn; auto].
Qed.

Lemma sorted_all_ge a s : vsorted (a :: s) -> forall b, In b s -> fst a <= fst b.
Proof.
  intros H. apply Sorted_StronglySorted in H; [|intros x y z; lia].
  inversion H as [|? ? _ Hall]; subst. rewrite Forall_forall in Hall. exact Hall.
Qed.

Lemma ins_sorted x i s : vsorted s -> vsorted (ins x i s).
Proof.
  induction s as [|[v j] r IH]; intros Hs; cbn.
  - constructor; constructor.
  - destruct (Z.ltb_spec x v) as [Hlt|Hge].
    + constructor; [exact Hs|constructor; cbn; lia].
    + inversion Hs as [|? ? Hr Hh]; subst. constructor; [apply IH; exact Hr|].
      apply ins_hdrel; [apply (sorted_all_ge _ _ Hs)|cbn; lia].
Qed.

Lemma removelast_sorted s : vsorted s -> vsorted (removelast s).
Proof.
  induction s as [|a r IH]; intros Hs; cbn; [constructor|].
  destruct r as [|b r']; [constructor|].
  inversion Hs as [|? ? Hr Hh]; subst. constructor; [apply IH; exact Hr|].
  destruct r' as [|c r'']; cbn; [constructor|]. inversion Hh; subst. constructor. assumption.
Qed.

Lemma removelast_length {A} (s : list A) : length (removelast s) = pred (length s).
Proof. induction s as [|a r IH]; cbn; [reflexivity|]. destruct r; cbn in *; [reflexivity|]. rewrite IH. reflexivity. Qed.

(* one update of a slot *)
Theorem slot_update_spec s x i : vsorted s -> (1 <= length s)%nat ->
  let '(s', ins') := slot_update s x i in
  vsorted s' /\ length s' = length s /\ slot_last s' <= slot_last s /\
  (ins' = true <-> x < slot_last s) /\ (ins' = false -> s' = s).
Proof.
  intros Hs Hl. unfold slot_update. destruct (Z.ltb_spec x (slot_last s)) as [Hlt|Hge].
  - split; [apply removelast_sorted, ins_sorted; exact Hs|].
    split; [rewrite removelast_length, ins_length; reflexivity|]. split.
    + (* the new last value is one of the old values or x, and not above the old last *)
      unfold slot_last in *.
      assert (Hin : forall d, In (last (removelast (ins x i s)) d) (ins x i s) \/ removelast (ins x i s) = []).
      { intros d. destruct (removelast (ins x i s)) eqn:E; [auto|]. left.
        assert (In (last (p :: l) d) (removelast (ins x i s))) by (rewrite E; apply (@exists_last _ (p :: l)) || idtac; 
          destruct (@exists_last _ (p :: l) ltac:(discriminate)) as [l' [a Ea]]; rewrite Ea, last_last; apply in_app_iff; cbn; auto).
        clear -H. revert H. generalize (ins x i s). intros t Ht. induction t as [|a t IH]; cbn in *; [tauto|].
        destruct t; [tauto|]. destruct Ht as [->|Ht]; auto. }
      (* simpler: by sortedness the removed element is the largest, and x < old last *)
      clear Hin.
      assert (Hsi := ins_sorted x i s Hs).
      assert (Hp := ins_perm x i s).
      (* every element of removelast (ins x s) is <= the old last *)
      assert (Hall : forall b, In b (removelast (ins x i s)) -> fst b <= fst (last s (0, 0))).
      { intros b Hb.
        (* ins x s = removelast ++ [lst]; b <= lst by sortedness; lst in (x,i)::s ; if lst = (x,i): b <= x < last s;
           else lst in s so lst <= last s *)
        destruct (@exists_last _ (ins x i s)) as [t [lst Et]]; [rewrite <- length_zero_iff_nil, ins_length; lia|].
        rewrite Et in *. rewrite removelast_last in Hb.
        assert (Hble : fst b <= fst lst).
        { clear -Hsi Hb. induction t as [|a t IH]; [destruct Hb|]. cbn in Hsi.
          destruct Hb as [->|Hb].
          - apply (sorted_all_ge _ _ Hsi). apply in_app_iff. cbn. auto.
          - apply IH; [|exact Hb]. inversion Hsi; assumption. }
        assert (Hlin : In lst ((x, i) :: s)) by (eapply Permutation_in; [exact Hp|apply in_app_iff; cbn; auto]).
        destruct Hlin as [<-|Hlin]; [cbn in *; lia|].
        assert (fst lst <= fst (last s (0, 0))).
        { clear -Hs Hlin. induction s as [|a r IH]; [destruct Hlin|].
          destruct r as [|b r']; [destruct Hlin as [->|[]]; cbn; lia|].
          destruct Hlin as [->|Hlin].
          - change (last (lst :: b :: r') (0, 0)) with (last (b :: r') (0, 0)).
            apply (sorted_all_ge _ _ Hs). destruct (@exists_last _ (b :: r') ltac:(discriminate)) as [l' [z Ez]].
            rewrite Ez, last_last. apply in_app_iff. cbn. auto.
          - change (last (a :: b :: r') (0, 0)) with (last (b :: r') (0, 0)). apply IH; [inversion Hs; assumption|exact Hlin]. }
        lia. }
      destruct (removelast (ins x i s)) as [|p l] eqn:E.
      * exfalso. assert (length (removelast (ins x i s)) = length s) by (rewrite removelast_length, ins_length; reflexivity).
        rewrite E in H. cbn in H. lia.
      * apply Hall. destruct (@exists_last _ (p :: l) ltac:(discriminate)) as [l' [z Ez]].
        rewrite Ez, last_last. apply in_app_iff. cbn. auto.
    + split; [split; auto|discriminate].
  - split; [exact Hs|]. split; [reflexivity|]. split; [lia|]. split; [split; [discriminate|lia]|reflexivity].
Qed.

(* hash_set starts from a cleared store: its result is a function of the pairs alone,
   whatever was hashed before on the same instance (clearing is definitional in the model and
   checked against the code by the correspondence with earlier calls on the same instance) *)
Theorem ord_hash_set_history_free b maxv m l pairs :
  o_hash_set b maxv m l pairs = o_pairs b (o_new maxv m l) 0 pairs.
Proof. reflexivity. Qed.
