(* C13: the field audit regenerated from the source satisfies the models' declarations. *)
From Coq Require Import List String Bool.
From PMH Require Import Model.Env Gen.Fields.
Import ListNotations.

Theorem reset_covers_mutated : forallb reset_covers struct_fields = true.
Proof. vm_compute. reflexivity. Qed.

Theorem models_know_mutated_fields : forallb model_knows struct_fields = true.
Proof. vm_compute. reflexivity. Qed.

Theorem ten_structs_audited : List.length struct_fields = 10.
Proof. reflexivity. Qed.
