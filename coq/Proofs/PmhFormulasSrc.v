(* The closed-form expressions as the source text writes them (Gen/FormulasSrc.v, regenerated on every run by reading
   the Rust expressions as terms over R) are the canonical formulas the theorems are stated on.  The proofs use only
   ring / field reasoning under the side conditions of the code's own guards, so an algebraically equivalent rewrite of
   the source keeps them, and any other change of a formula breaks them. *)
From Coq Require Import Reals Lra.
From PMH Require Import Gen.PmhFormulas Gen.PmhFormulasSrc.
Open Scope R_scope.

(* normalise the two shapes that are not ring identities: ln_1p (b - 1) = ln b, and equal arguments of ln / sqrt *)
Ltac src_norm :=
  repeat match goal with
  | |- context [ln (1 + (?x - 1))] => replace (1 + (x - 1)) with x by ring
  end.
Ltac src_arith := first [ reflexivity | field; repeat split; lra ].
Ltac src_solve :=
  src_norm;
  first [ src_arith
        | f_equal; src_arith
        | f_equal; f_equal; src_arith ].

Lemma pmh_lambda_src_1_ok m : 1 < m -> pmh_lambda_src_1 m = pmh_lambda m.
Proof. intros H. unfold pmh_lambda_src_1, pmh_lambda. src_solve. Qed.
Lemma pmh_lambda_src_2_ok m : 1 < m -> pmh_lambda_src_2 m = pmh_lambda m.
Proof. intros H. unfold pmh_lambda_src_2, pmh_lambda. src_solve. Qed.
Lemma pmh_lambda_src_3_ok m : 1 < m -> pmh_lambda_src_3 m = pmh_lambda m.
Proof. intros H. unfold pmh_lambda_src_3, pmh_lambda. src_solve. Qed.

(* i ranges over 0 .. m-2 where the increment is used (the last table entry divides by zero and is never read) *)
Lemma pmh2_beta_src_ok m i : i + 1 < m -> pmh2_beta_src m i = pmh2_beta m i.
Proof. intros H. unfold pmh2_beta_src, pmh2_beta. src_solve. Qed.

Lemma ord_g_src_ok m i : i < m -> ord_g_src m i = ord_g m i.
Proof. intros H. unfold ord_g_src, ord_g. src_solve. Qed.

