(* C11 / C10 (ProbOrdMinHash2): the characterisation of hash_set.
   1. pruning soundness: with the early exit on a rejected value removed (break_on_reject = false)
      the loop of hash_set gives exactly the store obtained by offering EVERY point of EVERY pair
      to its slot (o_naive);
   2. a slot of that store is the first l entries of the insertion-sorted list of all points that
      fall in the slot (the l lowest-valued pairs);
   3. hence, when the values falling in one slot are pairwise distinct, the store does not depend
      on the order in which the points are offered: permuting the sequence changes the sequence
      indices only. *)
From Coq Require Import List Arith ZArith Bool Lia ZifyNat ZifyBool Sorted Permutation.
From PMH Require Import Lib.ListArr Model.ProbMinHash Model.OrdMinHash Proofs.ProbMinHash Proofs.OrdMinHash.
Import ListNotations.
Open Scope Z_scope.

(* ---------- sorted insertion and truncation ---------- *)
Lemma sorted_le_last s d : vsorted s -> forall b, In b s -> fst b <= fst (last s d).
Proof.
  induction s as [|a r IH]; intros Hs b Hb; [destruct Hb|].
  destruct r as [|c r']; [destruct Hb as [->|[]]; cbn; lia|].
  change (last (a :: c :: r') d) with (last (c :: r') d).
  destruct Hb as [->|Hb].
  - apply (sorted_all_ge _ _ Hs). destruct (@exists_last _ (c :: r') ltac:(discriminate)) as [l' [z Ez]].
    rewrite Ez, last_last. apply in_app_iff. cbn. auto.
  - apply IH; [inversion Hs; assumption|exact Hb].
Qed.

Lemma ins_ge_all x i s : (forall b, In b s -> fst b <= x) -> ins x i s = s ++ [(x, i)].
Proof.
  induction s as [|[v j] r IH]; intros H; cbn; [reflexivity|].
  assert (Hv := H (v, j) (or_introl eq_refl)). cbn in Hv.
  destruct (Z.ltb_spec x v); [lia|]. rewrite IH; [reflexivity|]. intros b Hb. apply H. right. exact Hb.
Qed.

(* what one update of a slot does, in closed form *)
Lemma slot_update_topl s x i : vsorted s -> (1 <= length s)%nat ->
  fst (slot_update s x i) = firstn (length s) (ins x i s).
Proof.
  intros Hs Hl. unfold slot_update. destruct (Z.ltb_spec x (slot_last s)) as [Hlt|Hge]; cbn [fst].
  - rewrite removelast_firstn_len, ins_length. reflexivity.
  - rewrite ins_ge_all.
    + rewrite firstn_app, firstn_all, Nat.sub_diag. cbn. rewrite app_nil_r. reflexivity.
    + intros b Hb. assert (H := sorted_le_last s (0, 0) Hs b Hb). unfold slot_last in Hge. lia.
Qed.

Lemma firstn_cons_firstn {A} n (a : A) r : firstn n (a :: firstn n r) = firstn n (a :: r).
Proof.
  destruct n as [|n]; [reflexivity|]. rewrite !firstn_cons. f_equal. rewrite firstn_firstn. f_equal. lia.
Qed.

(* truncating before or after an insertion gives the same first l entries *)
Lemma ins_firstn l x i t : firstn l (ins x i (firstn l t)) = firstn l (ins x i t).
Proof.
  revert l. induction t as [|[v j] r IH]; intros l.
  - rewrite firstn_nil. reflexivity.
  - destruct l as [|l]; [reflexivity|]. cbn [firstn ins]. destruct (x <? v).
    + cbn [firstn]. f_equal. apply firstn_cons_firstn.
    + cbn [firstn]. f_equal. apply IH.
Qed.

Definition point := (Z * nat * Z)%type.           (* value, slot, tag *)
Definition p_val (p : point) : Z := fst (fst p).
Definition p_slot (p : point) : nat := snd (fst p).
Definition p_tag (p : point) : Z := snd p.

Definition ins_all (pts : list point) (s : oslot) : oslot :=
  fold_left (fun s p => ins (p_val p) (p_tag p) s) pts s.
Definition topl_all (l : nat) (pts : list point) (s : oslot) : oslot :=
  fold_left (fun s p => firstn l (ins (p_val p) (p_tag p) s)) pts s.

Lemma topl_all_firstn l pts : forall t, topl_all l pts (firstn l t) = firstn l (ins_all pts t).
Proof.
  induction pts as [|p pts IH]; intros t; cbn; [reflexivity|].
  rewrite ins_firstn. apply IH.
Qed.

Lemma ins_all_sorted pts : forall s, vsorted s -> vsorted (ins_all pts s).
Proof. induction pts as [|p pts IH]; intros s Hs; cbn; [exact Hs|]. apply IH, ins_sorted, Hs. Qed.

Lemma ins_all_perm pts : forall s,
  Permutation (ins_all pts s) (map (fun p => (p_val p, p_tag p)) pts ++ s).
Proof.
  induction pts as [|p pts IH]; intros s; cbn; [apply Permutation_refl|].
  eapply Permutation_trans; [apply IH|].
  eapply Permutation_trans; [apply Permutation_app_head, ins_perm|].
  apply Permutation_sym, Permutation_middle.
Qed.

(* insertions of different values commute *)
Lemma ins_comm x i y j s : x <> y -> ins x i (ins y j s) = ins y j (ins x i s).
Proof.
  intros Hne. induction s as [|[v k] r IH]; cbn.
  - destruct (Z.ltb_spec x y), (Z.ltb_spec y x); try lia; reflexivity.
  - destruct (Z.ltb_spec y v) as [Hyv|Hyv], (Z.ltb_spec x v) as [Hxv|Hxv]; cbn.
    + destruct (Z.ltb_spec x y), (Z.ltb_spec y x); try lia; cbn;
      destruct (Z.ltb_spec x v), (Z.ltb_spec y v); try lia; reflexivity.
    + destruct (Z.ltb_spec x y); [lia|]. destruct (Z.ltb_spec x v); [lia|].
      destruct (Z.ltb_spec y v); [|lia]. reflexivity.
    + destruct (Z.ltb_spec y x); [lia|]. destruct (Z.ltb_spec x v); [|lia].
      destruct (Z.ltb_spec y v); [lia|]. reflexivity.
    + destruct (Z.ltb_spec x v); [lia|]. destruct (Z.ltb_spec y v); [lia|]. rewrite IH. reflexivity.
Qed.

(* the values falling in one slot are pairwise distinct *)
Definition vals_distinct (pts : list point) : Prop := NoDup (map p_val pts).

Lemma ins_all_comm_one p pts : forall s, ~ In (p_val p) (map p_val pts) ->
  ins_all pts (ins (p_val p) (p_tag p) s) = ins (p_val p) (p_tag p) (ins_all pts s).
Proof.
  induction pts as [|q pts IH]; intros s Hn; cbn; [reflexivity|].
  cbn in Hn. rewrite <- IH by tauto. change (ins_all pts (ins (p_val q) (p_tag q) (ins (p_val p) (p_tag p) s)) = ins_all pts (ins (p_val p) (p_tag p) (ins (p_val q) (p_tag q) s))).
  f_equal. apply ins_comm. intros E. apply Hn. left. exact E.
Qed.

Theorem ins_all_permutation pts pts' : Permutation pts pts' -> vals_distinct pts ->
  forall s, ins_all pts s = ins_all pts' s.
Proof.
  unfold vals_distinct. induction 1 as [|p l l' HP IH|p q l|l l' l'' H1 IH1 H2 IH2]; intros Hd s.
  - reflexivity.
  - cbn. cbn in Hd. inversion Hd; subst. apply IH. assumption.
  - cbn. cbn in Hd. inversion Hd as [|? ? Hq Hd']; subst. f_equal. apply ins_comm.
    intros E. apply Hq. left. exact E.
  - rewrite IH1 by exact Hd. apply IH2.
    eapply Permutation_NoDup; [apply Permutation_map; exact H1|exact Hd].
Qed.

(* ---------- the naive store: every point is offered to its slot ---------- *)
Definition o_offer (l : nat) (slots : list oslot) (p : point) : list oslot :=
  upd slots (p_slot p) (firstn l (ins (p_val p) (p_tag p) (nths slots (p_slot p)))).
Definition o_naive (l : nat) (pts : list point) (slots : list oslot) : list oslot :=
  fold_left (o_offer l) pts slots.

Definition in_slot (k : nat) (p : point) : bool := (p_slot p =? k)%nat.

Lemma o_naive_length l pts : forall slots, length (o_naive l pts slots) = length slots.
Proof.
  induction pts as [|p pts IH]; intros slots; [reflexivity|].
  change (length (o_naive l pts (o_offer l slots p)) = length slots).
  rewrite IH. unfold o_offer. apply upd_length.
Qed.

(* a slot of the naive store sees exactly the points that fall in it, in the order offered *)
Lemma o_naive_slot l k pts : forall slots, (k < length slots)%nat ->
  nths (o_naive l pts slots) k = topl_all l (filter (in_slot k) pts) (nths slots k).
Proof.
  induction pts as [|p pts IH]; intros slots Hk; [reflexivity|].
  change (nths (o_naive l pts (o_offer l slots p)) k = topl_all l (filter (in_slot k) (p :: pts)) (nths slots k)).
  rewrite IH by (unfold o_offer; rewrite upd_length; exact Hk).
  cbn [filter]. unfold in_slot at 2. destruct (Nat.eqb_spec (p_slot p) k) as [E|E].
  - cbn [topl_all fold_left]. f_equal. unfold o_offer, nths. rewrite E. rewrite nth_upd_eq by exact Hk. reflexivity.
  - f_equal. unfold o_offer, nths. rewrite nth_upd_neq by exact E. reflexivity.
Qed.

(* ---------- store invariant ---------- *)
Record store_ok (st : ostore) : Prop := {
  so_len : length (o_slots st) = o_m st;
  so_l : (1 <= o_l st)%nat;
  so_slots : forall k, (k < o_m st)%nat -> vsorted (nths (o_slots st) k) /\ length (nths (o_slots st) k) = o_l st }.

Lemma o_max_ge st k : store_ok st -> (k < o_m st)%nat -> slot_last (nths (o_slots st) k) <= o_max st.
Proof.
  intros W Hk. unfold o_max.
  assert (H := lmax_ge (map slot_last (o_slots st)) k ltac:(rewrite map_length, (so_len _ W); exact Hk)).
  unfold nthz in H. change 0 with (slot_last []) in H. rewrite map_nth in H. exact H.
Qed.

(* a value at or above the largest l-th value changes nothing *)
Lemma o_offer_noop st p : store_ok st -> (p_slot p < o_m st)%nat -> o_max st <= p_val p ->
  o_offer (o_l st) (o_slots st) p = o_slots st.
Proof.
  intros W Hk Hx. unfold o_offer.
  destruct (so_slots _ W _ Hk) as [Hs Hl].
  assert (Hle := o_max_ge st _ W Hk).
  rewrite ins_ge_all.
  - rewrite <- Hl, firstn_app, firstn_all, Nat.sub_diag. cbn. rewrite app_nil_r. apply upd_same.
  - intros b Hb. assert (H := sorted_le_last _ (0, 0) Hs b Hb). unfold slot_last in Hle. lia.
Qed.

Lemma o_naive_noop st pts : store_ok st ->
  Forall (fun p => (p_slot p < o_m st)%nat /\ o_max st <= p_val p) pts ->
  o_naive (o_l st) pts (o_slots st) = o_slots st.
Proof.
  intros W H. induction H as [|p pts [Hk Hx] _ IH]; cbn; [reflexivity|].
  rewrite o_offer_noop by assumption. exact IH.
Qed.

(* one accepted or rejected point keeps the invariant and is the naive offer *)
Lemma step_ok st x k idx : store_ok st -> (k < o_m st)%nat ->
  let s' := fst (slot_update (nths (o_slots st) k) x idx) in
  let st' := mkO (o_m st) (o_l st) (upd (o_slots st) k s') in
  store_ok st' /\ o_slots st' = o_offer (o_l st) (o_slots st) (x, k, idx).
Proof.
  intros W Hk. cbn zeta. destruct (so_slots _ W _ Hk) as [Hs Hl].
  assert (Hl1 : (1 <= length (nths (o_slots st) k))%nat) by (rewrite Hl; apply (so_l _ W)).
  assert (Hspec := slot_update_spec (nths (o_slots st) k) x idx Hs Hl1).
  assert (Htop := slot_update_topl (nths (o_slots st) k) x idx Hs Hl1).
  destruct (slot_update (nths (o_slots st) k) x idx) as [s' b] eqn:E. cbn [fst] in *.
  destruct Hspec as [Hs' [Hl' _]]. split.
  - constructor; cbn [o_slots o_m o_l].
    + rewrite upd_length. apply (so_len _ W).
    + apply (so_l _ W).
    + intros j Hj. unfold nths. destruct (Nat.eq_dec k j) as [<-|Hne].
      * rewrite nth_upd_eq by (rewrite (so_len _ W); exact Hk). split; [exact Hs'|lia].
      * rewrite nth_upd_neq by exact Hne. apply (so_slots _ W _ Hj).
  - cbn [o_slots]. unfold o_offer, p_slot, p_val, p_tag. cbn [fst snd]. rewrite Htop, Hl. reflexivity.
Qed.

(* the script of one pair: values do not decrease, slots are in range, at most m - nb points *)
Fixpoint script_ok (m : nat) (prev : Z) (script : list (Z * nat)) : Prop :=
  match script with
  | [] => True
  | (x, k) :: r => prev <= x /\ (k < m)%nat /\ script_ok m x r
  end.

Definition tag_script (idx : Z) (script : list (Z * nat)) : list point :=
  map (fun p => (fst p, snd p, idx)) script.

Lemma script_ok_weaken m a b sc : a <= b -> script_ok m b sc -> script_ok m a sc.
Proof. destruct sc as [|[x k] r]; cbn; [tauto|]. intros; intuition lia. Qed.

Lemma script_tail_ge m x sc : script_ok m x sc ->
  Forall (fun p => (p_slot p < m)%nat /\ x <= p_val p) (tag_script 0 sc).
Proof.
  revert x. induction sc as [|[y k] r IH]; intros x H; cbn; [constructor|].
  destruct H as [Hxy [Hk Hr]]. constructor; [cbn; split; [exact Hk|exact Hxy]|].
  specialize (IH y Hr). rewrite Forall_forall in *. intros p Hp. specialize (IH p Hp). cbn in IH. split; [tauto|lia].
Qed.

Lemma tag_script_forall (P : nat -> Z -> Prop) idx sc :
  Forall (fun p => P (p_slot p) (p_val p)) (tag_script 0 sc) ->
  Forall (fun p => P (p_slot p) (p_val p)) (tag_script idx sc).
Proof.
  unfold tag_script. rewrite !Forall_map. apply Forall_impl. intros [x k]. cbn. tauto.
Qed.

(* pruning soundness for one pair *)
Theorem o_pair_naive : forall script st idx nb prev st',
  store_ok st -> script_ok (o_m st) prev script -> (length script + nb <= o_m st)%nat ->
  o_pair false st idx script nb = Done st' ->
  store_ok st' /\ o_m st' = o_m st /\ o_l st' = o_l st /\
  o_slots st' = o_naive (o_l st) (tag_script idx script) (o_slots st).
Proof.
  induction script as [|[x k] rest IH]; intros st idx nb prev st' W Hsc Hlen Hrun; [discriminate|].
  cbn [o_pair] in Hrun. destruct Hsc as [Hpx [Hk Hrest]].
  assert (Htail : forall bound, bound <= x -> Forall (fun p => (p_slot p < o_m st)%nat /\ bound <= p_val p) (tag_script idx rest)).
  { intros bound Hb. apply (tag_script_forall (fun s v => (s < o_m st)%nat /\ bound <= v)).
    assert (H := script_tail_ge _ _ _ Hrest). rewrite Forall_forall in *. intros p Hp. specialize (H p Hp). split; [tauto|lia]. }
  destruct (Z.ltb_spec x (o_max st)) as [Hlt|Hge].
  - destruct (Nat.ltb_spec k (o_m st)) as [_|Hbad]; [|lia]. cbn [negb] in Hrun.
    destruct (step_ok st x k idx W Hk) as [W' Hoff]. cbn zeta in W', Hoff.
    destruct (slot_update (nths (o_slots st) k) x idx) as [s' inserted] eqn:E. cbn [fst] in W', Hoff.
    set (st1 := mkO (o_m st) (o_l st) (upd (o_slots st) k s')) in *.
    rewrite andb_false_r in Hrun.
    assert (Hcons : o_naive (o_l st) (tag_script idx ((x, k) :: rest)) (o_slots st)
                    = o_naive (o_l st) (tag_script idx rest) (o_slots st1)).
    { cbn. rewrite <- Hoff. reflexivity. }
    destruct (inserted && negb (x <? o_max st1)) eqn:Estop.
    + injection Hrun as <-. split; [exact W'|]. split; [reflexivity|]. split; [reflexivity|].
      rewrite Hcons. symmetry. apply (o_naive_noop st1 _ W').
      apply andb_true_iff in Estop. destruct Estop as [_ Hn]. apply negb_true_iff, Z.ltb_ge in Hn.
      apply (Htail (o_max st1) Hn).
    + destruct (Nat.leb_spec (o_m st) (nb + 1)) as [Hm|Hm].
      * injection Hrun as <-. split; [exact W'|]. split; [reflexivity|]. split; [reflexivity|].
        rewrite Hcons. assert (rest = []) as -> by (destruct rest; [reflexivity|cbn in Hlen; lia]). reflexivity.
      * destruct (IH st1 idx (S nb) x st' W' Hrest ltac:(cbn in Hlen |- *; lia) Hrun) as [W2 [Em [El Es]]].
        split; [exact W2|]. split; [exact Em|]. split; [exact El|]. rewrite Hcons. exact Es.
  - injection Hrun as <-. split; [exact W|]. split; [reflexivity|]. split; [reflexivity|].
    symmetry. apply (o_naive_noop st _ W). constructor; [cbn; split; [exact Hk|exact Hge]|]. apply (Htail (o_max st) Hge).
Qed.

Fixpoint tag_pairs (idx : Z) (pairs : list (list (Z * nat))) : list point :=
  match pairs with
  | [] => []
  | sc :: r => tag_script idx sc ++ tag_pairs (idx + 1) r
  end.

Definition pairs_ok (m : nat) (pairs : list (list (Z * nat))) : Prop :=
  Forall (fun sc => script_ok m 0 sc /\ (length sc <= m)%nat) pairs.

Theorem o_pairs_naive : forall pairs st idx st',
  store_ok st -> pairs_ok (o_m st) pairs -> o_pairs false st idx pairs = Done st' ->
  store_ok st' /\ o_m st' = o_m st /\ o_l st' = o_l st /\
  o_slots st' = o_naive (o_l st) (tag_pairs idx pairs) (o_slots st).
Proof.
  induction pairs as [|sc r IH]; intros st idx st' W Hp Hrun; cbn in Hrun.
  - injection Hrun as <-. split; [exact W|]. split; [reflexivity|]. split; reflexivity.
  - inversion Hp as [|? ? [Hsc Hlen] Hr]; subst.
    destruct (o_pair false st idx sc 0) as [st1| |] eqn:E; try discriminate.
    destruct (o_pair_naive sc st idx 0%nat 0 st1 W Hsc ltac:(lia) E) as [W1 [Em [El Es]]].
    rewrite <- Em in Hr. destruct (IH st1 (idx + 1) st' W1 Hr Hrun) as [W2 [Em2 [El2 Es2]]].
    split; [exact W2|]. split; [lia|]. split; [lia|].
    cbn [tag_pairs]. unfold o_naive in *. rewrite fold_left_app, <- Es, <- El. exact Es2.
Qed.

Lemma o_new_ok maxv m l : (1 <= l)%nat -> store_ok (o_new maxv m l).
Proof.
  intros Hl. constructor; cbn.
  - apply repeat_length.
  - exact Hl.
  - intros k Hk. unfold nths. rewrite nth_repeat_lt by exact Hk. split; [|apply repeat_length].
    clear. induction l as [|l IH]; cbn; [constructor|]. constructor; [exact IH|].
    destruct l; cbn; constructor. cbn. lia.
Qed.

(* the whole of hash_set: the result is the naive store over all points of all pairs *)
Theorem hash_set_naive maxv m l pairs st : (1 <= l)%nat -> pairs_ok m pairs ->
  o_hash_set false maxv m l pairs = Done st ->
  store_ok st /\ o_slots st = o_naive l (tag_pairs 0 pairs) (o_slots (o_new maxv m l)).
Proof.
  intros Hl Hp Hrun. unfold o_hash_set in Hrun.
  destruct (o_pairs_naive pairs (o_new maxv m l) 0 st (o_new_ok maxv m l Hl) Hp Hrun) as [W [_ [_ Es]]].
  split; [exact W|exact Es].
Qed.

(* slot k holds the l lowest-valued points that fall in it: the first l entries of a sorted
   arrangement of those points and the l initial fillers *)
Definition fillers (maxv : Z) (l : nat) : oslot := repeat (maxv, 2 ^ 64 - 1) l.

Theorem hash_set_slot maxv m l pairs st k : (1 <= l)%nat -> pairs_ok m pairs -> (k < m)%nat ->
  o_hash_set false maxv m l pairs = Done st ->
  let pts := filter (in_slot k) (tag_pairs 0 pairs) in
  nths (o_slots st) k = firstn l (ins_all pts (fillers maxv l)) /\
  vsorted (ins_all pts (fillers maxv l)) /\
  Permutation (ins_all pts (fillers maxv l)) (map (fun p => (p_val p, p_tag p)) pts ++ fillers maxv l).
Proof.
  intros Hl Hp Hk Hrun. cbn zeta.
  destruct (hash_set_naive maxv m l pairs st Hl Hp Hrun) as [W Es].
  assert (Hf : vsorted (fillers maxv l)).
  { unfold fillers. clear. induction l as [|l IH]; cbn; [constructor|]. constructor; [exact IH|].
    destruct l; cbn; constructor. cbn. lia. }
  split; [|split; [apply ins_all_sorted; exact Hf|apply ins_all_perm]].
  rewrite Es, o_naive_slot by (cbn; rewrite repeat_length; exact Hk).
  cbn [o_slots o_new]. unfold nths. rewrite nth_repeat_lt by exact Hk.
  change (repeat (maxv, 2 ^ 64 - 1) l) with (fillers maxv l).
  rewrite <- (firstn_all (fillers maxv l)) at 1. unfold fillers at 1. rewrite repeat_length.
  apply topl_all_firstn.
Qed.

(* ---------- independence of the sequence order (C11) ---------- *)
(* a pair carries a label (its element and occurrence number); its script is whatever the pair's
   generator yields, the sequence position only tags the stored values *)
Definition lpair := (Z * list (Z * nat))%type.
Definition label_points (lp : list lpair) : list point :=
  flat_map (fun p => tag_script (fst p) (snd p)) lp.

Definition label_of (labels : list Z) (i : Z) : Z :=
  if (0 <=? i) && (i <? Z.of_nat (length labels)) then nth (Z.to_nat i) labels (-1) else -1.
Definition relabel (labels : list Z) (s : oslot) : oslot := map (fun e => (fst e, label_of labels (snd e))) s.
Definition retag (f : Z -> Z) (p : point) : point := (p_val p, p_slot p, f (p_tag p)).

Lemma map_ins (f : Z -> Z) x i s :
  map (fun e => (fst e, f (snd e))) (ins x i s) = ins x (f i) (map (fun e => (fst e, f (snd e))) s).
Proof.
  induction s as [|[v j] r IH]; cbn; [reflexivity|]. destruct (x <? v); cbn; [reflexivity|]. rewrite IH. reflexivity.
Qed.

Lemma map_ins_all (f : Z -> Z) pts : forall s,
  map (fun e => (fst e, f (snd e))) (ins_all pts s) = ins_all (map (retag f) pts) (map (fun e => (fst e, f (snd e))) s).
Proof.
  induction pts as [|p pts IH]; intros s; cbn; [reflexivity|].
  change (map (fun e => (fst e, f (snd e))) (ins_all pts (ins (p_val p) (p_tag p) s))
          = ins_all (map (retag f) pts) (ins (p_val p) (f (p_tag p)) (map (fun e => (fst e, f (snd e))) s))).
  rewrite IH, map_ins. reflexivity.
Qed.

Lemma filter_retag f k pts : filter (in_slot k) (map (retag f) pts) = map (retag f) (filter (in_slot k) pts).
Proof.
  induction pts as [|p pts IH]; [reflexivity|]. cbn [map filter].
  change (in_slot k (retag f p)) with (in_slot k p). destruct (in_slot k p); cbn [map]; rewrite IH; reflexivity.
Qed.

Lemma retag_tag_script f idx sc : map (retag f) (tag_script idx sc) = tag_script (f idx) sc.
Proof. unfold tag_script. rewrite map_map. apply map_ext. intros [x k]. reflexivity. Qed.

(* positions to labels *)
Lemma retag_tag_pairs : forall (lp : list lpair) (pre : list Z),
  map (retag (label_of (pre ++ map fst lp))) (tag_pairs (Z.of_nat (length pre)) (map snd lp)) = label_points lp.
Proof.
  induction lp as [|[lab sc] r IH]; intros pre; [reflexivity|].
  cbn [map tag_pairs label_points flat_map fst snd]. rewrite map_app, retag_tag_script. f_equal.
  - f_equal. unfold label_of. rewrite app_length. cbn [length].
    destruct (Z.leb_spec 0 (Z.of_nat (length pre))); [|lia].
    destruct (Z.ltb_spec (Z.of_nat (length pre)) (Z.of_nat (length pre + S (length (map fst r))))); [|lia].
    cbn [andb]. rewrite Nat2Z.id, app_nth2, Nat.sub_diag by lia. reflexivity.
  - specialize (IH (pre ++ [lab])). rewrite <- app_assoc in IH. cbn [app] in IH.
    rewrite app_length in IH. cbn [length] in IH.
    replace (Z.of_nat (length pre) + 1) with (Z.of_nat (length pre + 1)) by lia. exact IH.
Qed.

Lemma relabel_fillers labels maxv l : Z.of_nat (length labels) <= 2 ^ 64 - 1 ->
  relabel labels (fillers maxv l) = map (fun e => (fst e, -1)) (fillers maxv l).
Proof.
  intros H. unfold relabel, fillers. induction l as [|l IH]; cbn [repeat map]; [reflexivity|].
  rewrite IH. f_equal. cbn [fst snd]. unfold label_of.
  destruct (Z.ltb_spec (2 ^ 64 - 1) (Z.of_nat (length labels))); [lia|]. rewrite andb_false_r. reflexivity.
Qed.

Lemma Permutation_filter {A} (f : A -> bool) l l' : Permutation l l' -> Permutation (filter f l) (filter f l').
Proof.
  induction 1 as [|x l l' _ IH|x y l|l l' l'' _ IH1 _ IH2]; cbn.
  - constructor.
  - destruct (f x); [constructor|]; exact IH.
  - destruct (f x), (f y); try apply Permutation_refl. apply perm_swap.
  - eapply Permutation_trans; eassumption.
Qed.

(* the slot contents, read with labels instead of positions *)
Lemma hash_set_labelled maxv m l (lp : list lpair) st k : (1 <= l)%nat -> pairs_ok m (map snd lp) ->
  Z.of_nat (length lp) <= 2 ^ 64 - 1 -> (k < m)%nat ->
  o_hash_set false maxv m l (map snd lp) = Done st ->
  relabel (map fst lp) (nths (o_slots st) k)
  = firstn l (ins_all (filter (in_slot k) (label_points lp)) (map (fun e => (fst e, -1)) (fillers maxv l))).
Proof.
  intros Hl Hp Hn Hk Hrun.
  destruct (hash_set_slot maxv m l (map snd lp) st k Hl Hp Hk Hrun) as [E _]. rewrite E.
  unfold relabel. rewrite <- firstn_map. f_equal.
  rewrite (map_ins_all (label_of (map fst lp))). rewrite <- filter_retag.
  assert (H := retag_tag_pairs lp []). cbn [app length Z.of_nat] in H. rewrite H.
  f_equal. apply (relabel_fillers (map fst lp)). rewrite map_length. exact Hn.
Qed.

Theorem hash_set_order_independent maxv m l (lp lp' : list lpair) st st' :
  (1 <= l)%nat -> Permutation lp lp' -> pairs_ok m (map snd lp) -> Z.of_nat (length lp) <= 2 ^ 64 - 1 ->
  (forall k, (k < m)%nat -> vals_distinct (filter (in_slot k) (label_points lp))) ->
  o_hash_set false maxv m l (map snd lp) = Done st ->
  o_hash_set false maxv m l (map snd lp') = Done st' ->
  forall k, (k < m)%nat ->
  relabel (map fst lp) (nths (o_slots st) k) = relabel (map fst lp') (nths (o_slots st') k).
Proof.
  intros Hl HP Hp Hn Hd Hrun Hrun' k Hk.
  assert (Hp' : pairs_ok m (map snd lp')).
  { unfold pairs_ok in *. eapply Permutation_Forall; [apply Permutation_map; exact HP|exact Hp]. }
  assert (Hn' : Z.of_nat (length lp') <= 2 ^ 64 - 1) by (rewrite <- (Permutation_length HP); exact Hn).
  rewrite (hash_set_labelled maxv m l lp st k Hl Hp Hn Hk Hrun).
  rewrite (hash_set_labelled maxv m l lp' st' k Hl Hp' Hn' Hk Hrun').
  f_equal. apply ins_all_permutation; [|apply Hd; exact Hk].
  apply Permutation_filter. unfold label_points. apply Permutation_flat_map. exact HP.
Qed.

(* the stored values alone never depend on the order, ties or not: both are the first l values
   of a sorted arrangement of the same multiset *)
Lemma sorted_perm_vals s t : vsorted s -> vsorted t -> Permutation (map fst s) (map fst t) -> map fst s = map fst t.
Proof.
  revert t. induction s as [|a s IH]; intros t Hs Ht HP.
  - apply Permutation_nil in HP. destruct t; [reflexivity|discriminate].
  - destruct t as [|b t]; [apply Permutation_sym, Permutation_nil in HP; discriminate|].
    cbn [map] in *.
    assert (Eab : fst a = fst b).
    { assert (Ha : In (fst a) (fst b :: map fst t)) by (eapply Permutation_in; [exact HP|left; reflexivity]).
      assert (Hb : In (fst b) (fst a :: map fst s)) by (eapply Permutation_in; [apply Permutation_sym; exact HP|left; reflexivity]).
      destruct Ha as [Ha|Ha]; [symmetry; exact Ha|]. destruct Hb as [Hb|Hb]; [exact Hb|].
      apply in_map_iff in Ha. destruct Ha as [a' [Ea Ha]]. apply in_map_iff in Hb. destruct Hb as [b' [Eb Hb]].
      assert (H1 := sorted_all_ge _ _ Ht a' Ha). assert (H2 := sorted_all_ge _ _ Hs b' Hb). lia. }
    rewrite Eab in *. f_equal. apply IH; [inversion Hs; assumption|inversion Ht; assumption|].
    eapply Permutation_cons_inv. exact HP.
Qed.

Theorem hash_set_values_order_independent maxv m l (lp lp' : list lpair) st st' :
  (1 <= l)%nat -> Permutation lp lp' -> pairs_ok m (map snd lp) ->
  o_hash_set false maxv m l (map snd lp) = Done st ->
  o_hash_set false maxv m l (map snd lp') = Done st' ->
  forall k, (k < m)%nat -> map fst (nths (o_slots st) k) = map fst (nths (o_slots st') k).
Proof.
  intros Hl HP Hp Hrun Hrun' k Hk.
  assert (Hp' : pairs_ok m (map snd lp')).
  { unfold pairs_ok in *. eapply Permutation_Forall; [apply Permutation_map; exact HP|exact Hp]. }
  destruct (hash_set_slot maxv m l _ st k Hl Hp Hk Hrun) as [E [S1 P1]].
  destruct (hash_set_slot maxv m l _ st' k Hl Hp' Hk Hrun') as [E' [S2 P2]].
  rewrite E, E', <- !firstn_map. f_equal.
  apply sorted_perm_vals; [exact S1|exact S2|].
  eapply Permutation_trans; [apply Permutation_map; exact P1|].
  eapply Permutation_trans; [|apply Permutation_sym, Permutation_map; exact P2].
  rewrite !map_app. apply Permutation_app_tail. rewrite !map_map. cbn [fst].
  (* the values falling in slot k are the same multiset *)
  assert (Hv : forall (q : list lpair) , map (fun p => p_val p) (filter (in_slot k) (tag_pairs 0 (map snd q)))
               = map p_val (filter (in_slot k) (label_points q))).
  { intros q. assert (H := retag_tag_pairs q []). cbn [app length Z.of_nat] in H. rewrite <- H, filter_retag, map_map. reflexivity. }
  rewrite (Hv lp), (Hv lp'). apply Permutation_map, Permutation_filter. unfold label_points. apply Permutation_flat_map. exact HP.
Qed.

(* ---------- the boolean monitors imply the hypotheses ---------- *)
Lemma script_okb_ok m sc : forall prev, script_okb m prev sc = true -> script_ok m prev sc.
Proof.
  induction sc as [|[x k] r IH]; intros prev H; cbn in *; [exact I|].
  apply andb_true_iff in H. destruct H as [H Hr]. apply andb_true_iff in H. destruct H as [Hx Hk].
  split; [lia|]. split; [apply Nat.ltb_lt; exact Hk|apply IH; exact Hr].
Qed.

Lemma pairs_okb_ok m pairs : pairs_okb m pairs = true -> pairs_ok m pairs.
Proof.
  unfold pairs_okb, pairs_ok. rewrite forallb_forall, Forall_forall. intros H sc Hsc.
  specialize (H sc Hsc). apply andb_true_iff in H. destruct H as [H1 H2].
  split; [apply script_okb_ok; exact H1|apply Nat.leb_le; exact H2].
Qed.

Lemma nodupz_NoDup l : nodupz l = true -> NoDup l.
Proof.
  induction l as [|x r IH]; intros H; [constructor|]. cbn in H. apply andb_true_iff in H. destruct H as [Hx Hr].
  constructor; [|apply IH; exact Hr]. intros Hin. apply negb_true_iff in Hx.
  assert (existsb (Z.eqb x) r = true) by (apply existsb_exists; exists x; split; [exact Hin|apply Z.eqb_refl]). congruence.
Qed.

Lemma slot_vals_label k (lp : list lpair) :
  map p_val (filter (in_slot k) (label_points lp)) = slot_vals k (map snd lp).
Proof.
  unfold label_points, slot_vals. induction lp as [|[lab sc] r IH]; [reflexivity|].
  cbn [flat_map map fst snd]. rewrite filter_app, map_app, IH. f_equal.
  unfold tag_script. clear. induction sc as [|[x j] sc IH]; [reflexivity|]. cbn [map filter].
  unfold in_slot at 1. cbn [p_slot fst snd]. destruct (j =? k)%nat; cbn [map]; rewrite IH; reflexivity.
Qed.

Lemma slots_distinctb_ok m (lp : list lpair) : slots_distinctb m (map snd lp) = true ->
  forall k, (k < m)%nat -> vals_distinct (filter (in_slot k) (label_points lp)).
Proof.
  unfold slots_distinctb. rewrite forallb_forall. intros H k Hk. unfold vals_distinct.
  rewrite slot_vals_label. apply nodupz_NoDup, H, in_seq. lia.
Qed.

(* the premises are satisfiable: two pairs, m = 2, l = 1, and their exchange *)
Example order_independent_nonvacuous :
  let lp := [(100, [(5, 1%nat); (9, 0%nat)]); (200, [(3, 0%nat); (7, 1%nat)])] in
  let lp' := [(200, [(3, 0%nat); (7, 1%nat)]); (100, [(5, 1%nat); (9, 0%nat)])] in
  pairs_okb 2 (map snd lp) = true /\ slots_distinctb 2 (map snd lp) = true /\
  (exists st st', o_hash_set false 1000 2 1 (map snd lp) = Done st /\ o_hash_set false 1000 2 1 (map snd lp') = Done st' /\
     map (relabel (map fst lp)) (o_slots st) = [[(3, 200)]; [(5, 100)]] /\
     map (relabel (map fst lp')) (o_slots st') = [[(3, 200)]; [(5, 100)]]).
Proof. cbn zeta. split; [reflexivity|]. split; [reflexivity|]. eexists. eexists. split; [reflexivity|]. split; [reflexivity|]. split; reflexivity. Qed.
