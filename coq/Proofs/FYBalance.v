(* C17: how far the index choice is from uniform.  A draw maps the 52-bit value k = u >> 12 to the cell
   floor(fl(k * 2^-52 * n)).  The cells are consecutive intervals of k whose lengths differ from 2^52 / n by at most 2:
   every index has probability within 2^-51 of 1/n when the generator output is uniform. *)
From Coq Require Import List Arith ZArith Bool Lia ZifyNat ZifyBool.
From PMH Require Import Lib.ListArr Model.FYShuffle Proofs.FYShuffle.
Import ListNotations.
Local Open Scope Z_scope.

(* the rounded product as an integer multiple of 2^-52: rne_mul_floor k n = rounded k n / 2^52 *)
Lemma rne_lower k n j : 0 <= k < 2 ^ 52 -> 1 <= n <= 2 ^ 53 -> 0 <= j ->
  j * 2 ^ 52 <= k * n -> j <= rne_mul_floor k n.
Proof.
  intros Hk Hn Hj H. unfold rne_mul_floor. set (K := k * n) in *.
  destruct (Z.ltb_spec K (2 ^ 53)) as [Hs|Hb].
  - apply Z.div_le_lower_bound; lia.
  - assert (HKp : 0 < K) by lia.
    destruct (Z.log2_spec K HKp) as [Hl1 Hl2]. set (L := Z.log2 K) in *.
    assert (HL53 : 53 <= L).
    { destruct (Z_lt_le_dec L 53) as [Hlt|]; [|assumption]. exfalso.
      assert (2 ^ Z.succ L <= 2 ^ 53) by (apply Z.pow_le_mono_r; lia). lia. }
    assert (HL104 : L <= 104).
    { destruct (Z_le_gt_dec L 104) as [|Hgt]; [assumption|exfalso].
      assert (2 ^ 105 <= 2 ^ L) by (apply Z.pow_le_mono_r; lia).
      assert (K < 2 ^ 52 * 2 ^ 53) by (unfold K; nia).
      change (2 ^ 52 * 2 ^ 53) with (2 ^ 105) in *. lia. }
    set (e := L - 52). assert (He : 1 <= e <= 52) by (unfold e; lia).
    assert (HE : 0 < 2 ^ e) by (apply Z.pow_pos_nonneg; lia).
    assert (H52 : 2 ^ 52 = 2 ^ (52 - e) * 2 ^ e) by (rewrite <- Z.pow_add_r by lia; f_equal; lia).
    assert (HF : 0 < 2 ^ (52 - e)) by (apply Z.pow_pos_nonneg; lia).
    set (q := K / 2 ^ e). set (r := K mod 2 ^ e).
    assert (Hq : j * 2 ^ (52 - e) <= q).
    { unfold q. apply Z.div_le_lower_bound; [lia|]. rewrite H52 in H. lia. }
    assert (Hgoal : forall q', q <= q' -> j <= q' * 2 ^ e / 2 ^ 52).
    { intros q' Hq'. apply Z.div_le_lower_bound; [lia|]. rewrite H52 at 1. nia. }
    apply Hgoal.
    destruct (Z.ltb_spec (2 ^ (e - 1)) r); [lia|].
    destruct (r =? 2 ^ (e - 1)); cbn [andb]; [|lia]. destruct (Z.odd q); lia.
Qed.

Lemma rne_upper k n j : 0 <= k < 2 ^ 52 -> 1 <= n <= 2 ^ 53 -> 0 <= j ->
  k * n + n <= j * 2 ^ 52 -> rne_mul_floor k n < j.
Proof.
  intros Hk Hn Hj H. unfold rne_mul_floor. set (K := k * n) in *.
  assert (HK0 : 0 <= K) by (unfold K; nia).
  destruct (Z.ltb_spec K (2 ^ 53)) as [Hs|Hb].
  - apply Z.div_lt_upper_bound; lia.
  - assert (HKp : 0 < K) by lia.
    assert (HKu : K <= 2 ^ 52 * n - n) by (unfold K; nia).
    destruct (Z.log2_spec K HKp) as [Hl1 Hl2]. set (L := Z.log2 K) in *.
    assert (HL53 : 53 <= L).
    { destruct (Z_lt_le_dec L 53) as [Hlt|]; [|assumption]. exfalso.
      assert (2 ^ Z.succ L <= 2 ^ 53) by (apply Z.pow_le_mono_r; lia). lia. }
    assert (HL104 : L <= 104).
    { destruct (Z_le_gt_dec L 104) as [|Hgt]; [assumption|exfalso].
      assert (2 ^ 105 <= 2 ^ L) by (apply Z.pow_le_mono_r; lia).
      assert (K < 2 ^ 52 * 2 ^ 53) by nia.
      change (2 ^ 52 * 2 ^ 53) with (2 ^ 105) in *. lia. }
    set (e := L - 52). assert (He : 1 <= e <= 52) by (unfold e; lia).
    set (A := 2 ^ (e - 1)). assert (HA : 0 < A) by (apply Z.pow_pos_nonneg; lia).
    assert (H2e : 2 ^ e = 2 * A).
    { unfold A. replace e with (1 + (e - 1)) at 1 by lia. rewrite Z.pow_add_r by lia. reflexivity. }
    assert (H2L : 2 ^ L = 2 ^ 52 * (2 * A)).
    { rewrite <- H2e. unfold e. rewrite <- Z.pow_add_r by lia. f_equal. lia. }
    assert (HeN : 2 * A < n) by nia.
    rewrite H2e.
    assert (Hdm := Z.div_mod K (2 * A) ltac:(lia)).
    assert (Hr := Z.mod_pos_bound K (2 * A) ltac:(lia)).
    set (q := K / (2 * A)) in *. set (r := K mod (2 * A)) in *.
    assert (Hgoal : forall q', (q' = q \/ (q' = q + 1 /\ A <= r)) -> q' * (2 * A) / 2 ^ 52 < j).
    { intros q' Hq'. apply Z.div_lt_upper_bound; [lia|]. destruct Hq' as [->|[-> Hrr]]; nia. }
    apply Hgoal.
    destruct (Z.ltb_spec A r) as [Hgt|Hle]; [right; lia|].
    destruct (Z.eqb_spec r A) as [Heq|Hne]; cbn [andb]; [|left; reflexivity].
    destruct (Z.odd q); [right; lia|left; reflexivity].
Qed.

(* the exact boundary: the least k with k * n >= j * 2^52 *)
Definition ebound (n j : Z) : Z := (j * 2 ^ 52 + n - 1) / n.
Lemma ebound_spec n j : 1 <= n -> 0 <= j -> (ebound n j - 1) * n < j * 2 ^ 52 <= ebound n j * n.
Proof.
  intros Hn Hj. unfold ebound. set (T := j * 2 ^ 52 + n - 1).
  assert (Hdm := Z.div_mod T n ltac:(lia)). assert (Hr := Z.mod_pos_bound T n ltac:(lia)). nia.
Qed.

(* the boundary of the rounded map: the exact one, or one below *)
Definition lobound (n j : Z) : Z :=
  let E := ebound n j in
  if (1 <=? E) && (j <=? rne_mul_floor (E - 1) n) then E - 1 else E.

Lemma lobound_near n j : ebound n j - 1 <= lobound n j <= ebound n j.
Proof. unfold lobound. destruct (_ && _); lia. Qed.

Lemma ebound_range n j : 1 <= n <= 2 ^ 53 -> 0 <= j <= n -> 0 <= ebound n j <= 2 ^ 52.
Proof.
  intros Hn Hj. destruct (ebound_spec n j ltac:(lia) ltac:(lia)) as [H1 H2]. split; nia.
Qed.

Lemma lobound_spec n j k : 1 <= n <= 2 ^ 53 -> 0 <= j <= n -> 0 <= k < 2 ^ 52 ->
  (j <= rne_mul_floor k n <-> lobound n j <= k).
Proof.
  intros Hn Hj Hk. destruct (ebound_spec n j ltac:(lia) ltac:(lia)) as [H1 H2].
  assert (HEr := ebound_range n j Hn Hj). set (E := ebound n j) in *.
  assert (Hlow : k <= E - 2 -> rne_mul_floor k n < j).
  { intros Hle. apply rne_upper; [lia|lia|lia|nia]. }
  assert (Hup : E <= k -> j <= rne_mul_floor k n).
  { intros Hge. apply rne_lower; [lia|lia|lia|nia]. }
  unfold lobound. fold E.
  destruct (Z.leb_spec 1 E) as [HE1|HE0]; cbn [andb].
  - destruct (Z.leb_spec j (rne_mul_floor (E - 1) n)) as [Hin|Hout].
    + split; intros H.
      * destruct (Z_le_gt_dec (E - 1) k); [lia|]. assert (k <= E - 2) by lia. specialize (Hlow H0). lia.
      * destruct (Z.eq_dec k (E - 1)) as [->|Hne]; [exact Hin|apply Hup; lia].
    + split; intros H.
      * destruct (Z_le_gt_dec E k); [lia|]. destruct (Z.eq_dec k (E - 1)) as [->|Hne]; [lia|].
        assert (k <= E - 2) by lia. specialize (Hlow H0). lia.
      * apply Hup; lia.
  - split; intros H; [lia|apply Hup; lia].
Qed.

Lemma lobound_0 n : 1 <= n <= 2 ^ 53 -> lobound n 0 = 0.
Proof.
  intros Hn. unfold lobound. assert (E0 : ebound n 0 = 0).
  { unfold ebound. apply Z.div_small. lia. }
  rewrite E0. reflexivity.
Qed.

Lemma lobound_n n : 1 <= n <= 2 ^ 53 -> lobound n n = 2 ^ 52.
Proof.
  intros Hn. unfold lobound. assert (E : ebound n n = 2 ^ 52).
  { unfold ebound. replace (n * 2 ^ 52 + n - 1) with (2 ^ 52 * n + (n - 1)) by lia.
    rewrite Z.div_add_l by lia. rewrite Z.div_small by lia. lia. }
  rewrite E. destruct (Z.leb_spec n (rne_mul_floor (2 ^ 52 - 1) n)) as [Hbad|_]; [|rewrite andb_false_r; reflexivity].
  assert (H := rne_mul_floor_range (2 ^ 52 - 1) n ltac:(lia) Hn). lia.
Qed.

(* consecutive exact boundaries are floor(2^52/n) or that plus one apart *)
Lemma ebound_step n j : 1 <= n -> 0 <= j -> 2 ^ 52 / n <= ebound n (j + 1) - ebound n j <= 2 ^ 52 / n + 1.
Proof.
  intros Hn Hj. destruct (ebound_spec n j Hn Hj) as [A1 A2]. destruct (ebound_spec n (j + 1) Hn ltac:(lia)) as [B1 B2].
  assert (Hdm := Z.div_mod (2 ^ 52) n ltac:(lia)). assert (Hr := Z.mod_pos_bound (2 ^ 52) n ltac:(lia)).
  set (Q := 2 ^ 52 / n) in *. set (R := 2 ^ 52 mod n) in *. split; nia.
Qed.

Theorem fy_cells_are_intervals n : 1 <= n <= 2 ^ 53 ->
  lobound n 0 = 0 /\ lobound n n = 2 ^ 52 /\
  (forall j k, 0 <= j < n -> 0 <= k < 2 ^ 52 -> (rne_mul_floor k n = j <-> lobound n j <= k < lobound n (j + 1))) /\
  (forall j, 0 <= j < n -> 2 ^ 52 / n - 1 <= lobound n (j + 1) - lobound n j <= 2 ^ 52 / n + 2).
Proof.
  intros Hn. split; [apply lobound_0; exact Hn|]. split; [apply lobound_n; exact Hn|]. split.
  - intros j k Hj Hk.
    assert (S1 := lobound_spec n j k Hn ltac:(lia) Hk). assert (S2 := lobound_spec n (j + 1) k Hn ltac:(lia) Hk).
    split; intros H; [|lia]. lia.
  - intros j Hj. assert (N1 := lobound_near n j). assert (N2 := lobound_near n (j + 1)).
    assert (St := ebound_step n j ltac:(lia) ltac:(lia)). lia.
Qed.

(* in terms of the raw 64-bit generator output: fy_pick u n = j exactly on 2^12 * (length of the interval) outputs *)
Corollary fy_pick_cells u n j : 0 <= u < 2 ^ 64 -> 1 <= n <= 2 ^ 53 -> 0 <= j < n ->
  (fy_pick u n = j <-> lobound n j * 2 ^ 12 <= u < lobound n (j + 1) * 2 ^ 12).
Proof.
  intros Hu Hn Hj. unfold fy_pick.
  assert (Hk : 0 <= u / 2 ^ 12 < 2 ^ 52).
  { split; [apply Z.div_pos; lia|]. apply Z.div_lt_upper_bound; [lia|]. change (2 ^ 12 * 2 ^ 52) with (2 ^ 64). lia. }
  destruct (fy_cells_are_intervals n Hn) as [_ [_ [Hc _]]]. rewrite (Hc j (u / 2 ^ 12) Hj Hk).
  assert (Hdm := Z.div_mod u (2 ^ 12) ltac:(lia)). assert (Hr := Z.mod_pos_bound u (2 ^ 12) ltac:(lia)).
  split; intros H; nia.
Qed.

Example cells_example : map (fun j => lobound 3 (Z.of_nat j)) (seq 0 4) = [0; 1501199875790166; 3002399751580331; 4503599627370496]%list.
Proof. vm_compute. reflexivity. Qed.
