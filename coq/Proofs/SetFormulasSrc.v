(* The closed-form expressions as the source text writes them (Gen/FormulasSrc.v, regenerated on every run by reading
   the Rust expressions as terms over R) are the canonical formulas the theorems are stated on.  The proofs use only
   ring / field reasoning under the side conditions of the code's own guards, so an algebraically equivalent rewrite of
   the source keeps them, and any other change of a formula breaks them. *)
From Coq Require Import Reals Lra.
From PMH Require Import Gen.SetSketchFormulas Gen.SetSketchLaw Gen.SetFormulasSrc.
Open Scope R_scope.

(* normalise the two shapes that are not ring identities: ln_1p (b - 1) = ln b, and equal arguments of ln / sqrt *)
Ltac src_norm :=
  repeat match goal with
  | |- context [ln (1 + (?x - 1))] => replace (1 + (x - 1)) with x by ring
  end.
Ltac src_arith := first [ reflexivity | field; repeat split; lra ].
Ltac src_solve :=
  src_norm;
  first [ src_arith
        | f_equal; src_arith
        | f_equal; f_equal; src_arith ].

Lemma ln_pos b : 1 < b -> 0 < ln b.
Proof. intros H. rewrite <- ln_1. apply ln_increasing; lra. Qed.

Lemma card_stats_src_ok b a m S : 1 < b -> 0 < a -> 0 < S -> card_stats_src b a m S = card_of_sum b a m S.
Proof.
  intros Hb Ha HS. assert (L := ln_pos b Hb). unfold card_stats_src, card_of_sum. src_solve.
Qed.
Lemma card_estimate_src_ok b a m S : 1 < b -> 0 < a -> 0 < S -> card_estimate_src b a m S = card_of_sum b a m S.
Proof.
  intros Hb Ha HS. assert (L := ln_pos b Hb). unfold card_estimate_src, card_of_sum. src_solve.
Qed.
(* the two estimators compute the same function of the registers' sum *)
Lemma card_sources_agree b a m S : 1 < b -> 0 < a -> 0 < S -> card_stats_src b a m S = card_estimate_src b a m S.
Proof. intros Hb Ha HS. rewrite card_stats_src_ok, card_estimate_src_ok by assumption. reflexivity. Qed.

Lemma card_rsd_src_ok b m : 1 < b -> 0 < m -> card_rsd_src b m = card_rel_std_dev b m.
Proof.
  intros Hb Hm. unfold card_rsd_src, card_rel_std_dev. src_solve.
Qed.

Lemma jb_sup_src_ok b X : 1 < b -> jb_sup_src b X = jb_sup b X.
Proof. intros Hb. unfold jb_sup_src, jb_sup. src_solve. Qed.
Lemma jb_binf_src_ok b X : 1 < b -> jb_binf_src b X = jb_binf b X.
Proof. intros Hb. unfold jb_binf_src, jb_binf. src_solve. Qed.

(* the register law of SetSketcher::sketch: coefficient of the j-th exponential increment, register before flooring *)
Lemma ss_gap_src_ok a m j : 0 < a -> j < m -> ss_gap_src a m j = ss_gap a m j.
Proof. intros Ha Hj. unfold ss_gap_src, ss_gap. src_solve. Qed.
Lemma ss_reg_real_src_ok lnb x : 0 < lnb -> ss_reg_real_src lnb x = ss_reg_real lnb x.
Proof. intros Hl. unfold ss_reg_real_src, ss_reg_real. src_solve. Qed.
