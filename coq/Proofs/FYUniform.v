(* C17 (uniformity): under index choices c_t drawn uniformly and independently from [0, m - t),
   each of the m! orders is produced with the same probability 1/m!.
   Proved as a bijection: every permutation of 0..m-1 is the output of EXACTLY ONE choice vector
   (c_0, ..., c_{m-1}) with 0 <= c_t < m - t, and there are m! such vectors. *)
From Coq Require Import List Arith ZArith Bool Lia ZifyNat ZifyBool Permutation Factorial.
From PMH Require Import Lib.ListArr Model.FYShuffle Proofs.FYShuffle.
Import ListNotations.

(* the index offset is given directly (reduced into range, so that the model is total) *)
Definition cpick (u n : Z) : Z := (u mod n)%Z.
Lemma cpick_range u n : (1 <= n)%Z -> (0 <= cpick u n < n)%Z.
Proof. intros H. unfold cpick. apply Z.mod_pos_bound. lia. Qed.
Lemma cpick_id u n : (0 <= u < n)%Z -> cpick u n = u.
Proof. intros H. unfold cpick. apply Z.mod_small. exact H. Qed.

(* entry i of the vector is the choice made when t + i elements were already drawn *)
Definition choices_ok (t m : nat) (cs : list Z) : Prop :=
  forall i, i < length cs -> (0 <= nth i cs 0%Z < Z.of_nat (m - (t + i)))%Z.

Lemma choices_ok_tail t m c cs : choices_ok t m (c :: cs) -> choices_ok (S t) m cs.
Proof.
  intros H i Hi. specialize (H (S i) ltac:(cbn; lia)). cbn [nth] in H.
  replace (m - (S t + i)) with (m - (t + S i)) by lia. exact H.
Qed.

Lemma tr_invol i j k : tr i j (tr i j k) = k.
Proof.
  unfold tr. destruct (Nat.eqb_spec k i) as [->|Hki].
  - destruct (Nat.eqb_spec j i) as [->|Hji]; [reflexivity|]. rewrite Nat.eqb_refl. reflexivity.
  - destruct (Nat.eqb_spec k j) as [->|Hkj].
    + rewrite Nat.eqb_refl. reflexivity.
    + destruct (Nat.eqb_spec k i); [lia|]. destruct (Nat.eqb_spec k j); [lia|]. reflexivity.
Qed.

(* one step with an explicit, in-range choice *)
Lemma cnext s c : fyinv s -> fy_cur s < fm s -> (0 <= c < Z.of_nat (fm s - fy_cur s))%Z ->
  fy_next cpick s c = Ok (mkFY (fm s) (swap (fv s) (fy_cur s + Z.to_nat c) (fy_cur s)) (S (fy_cur s)),
                          nth (fy_cur s + Z.to_nat c) (fv s) 0).
Proof.
  intros [Hl _] Hc Hr. unfold fy_next. rewrite cpick_id by exact Hr.
  destruct (Nat.ltb_spec (fy_cur s + Z.to_nat c) (length (fv s))) as [_|]; [reflexivity|lia].
Qed.

Lemma cur_after s t idx : fy_cur s = t -> S t < fm s ->
  fy_cur (mkFY (fm s) (swap (fv s) idx t) (S t)) = S t.
Proof. intros _ H. unfold fy_cur. cbn [fm flast]. destruct (Nat.leb_spec (fm s) (S t)); lia. Qed.

(* existence: any arrangement of the not yet drawn elements is reachable *)
Lemma choice_exists : forall tau s t,
  fyinv s -> fy_cur s = t -> t + length tau <= fm s -> (tau <> [] -> t < fm s) -> NoDup tau ->
  (forall x, In x tau -> exists k, t <= k < fm s /\ nth k (fv s) 0 = x) ->
  exists cs s', length cs = length tau /\ choices_ok t (fm s) cs /\ fy_draws cpick s cs = Ok (s', tau).
Proof.
  induction tau as [|x tau IH]; intros s t Hinv Hc Hlen Hne Hnd Hin.
  - exists [], s. split; [reflexivity|]. split; [intros i Hi; cbn in Hi; lia|reflexivity].
  - assert (Ht : t < fm s) by (apply Hne; discriminate).
    destruct (Hin x (or_introl eq_refl)) as [k [Hk Ek]].
    set (c := Z.of_nat (k - t)).
    assert (Hcr : (0 <= c < Z.of_nat (fm s - fy_cur s))%Z) by (unfold c; lia).
    assert (Hstep := cnext s c Hinv ltac:(lia) Hcr). rewrite Hc in Hstep.
    replace (t + Z.to_nat c) with k in Hstep by (unfold c; lia). rewrite Ek in Hstep.
    set (s1 := mkFY (fm s) (swap (fv s) k t) (S t)) in *.
    assert (Hinv1 : fyinv s1) by (unfold fyinv, s1; cbn [fm fv]; apply arr_swap; [exact Hinv|lia|lia]).
    apply NoDup_cons_iff in Hnd. destruct Hnd as [Hx Hnd'].
    destruct tau as [|y tau'] eqn:Etau.
    + exists [c], s1. split; [reflexivity|]. split.
      * intros i Hi. cbn in Hi. replace i with 0 by lia. cbn [nth]. rewrite Nat.add_0_r. unfold c. lia.
      * cbn [fy_draws]. rewrite Hstep. reflexivity.
    + rewrite <- Etau in *. cbn [length] in Hlen.
      assert (Hlt : S t < fm s) by (rewrite Etau in Hlen; cbn [length] in Hlen; lia).
      destruct (IH s1 (S t) Hinv1 (cur_after s t k Hc Hlt)) as [cs [s' [Hl [Hok Hd]]]].
      * cbn [fm s1]. lia.
      * intros _. cbn [fm s1]. lia.
      * exact Hnd'.
      * intros y0 Hy. destruct (Hin y0 (or_intror Hy)) as [k' [Hk' Ek']].
        assert (Hkk : k' <> k) by (intros ->; rewrite Ek in Ek'; subst y0; contradiction).
        exists (tr k t k'). destruct Hinv as [Hlv _]. split.
        -- cbn [fm s1]. unfold tr. destruct (Nat.eqb_spec k' k); [lia|]. destruct (Nat.eqb_spec k' t); lia.
        -- cbn [fv s1]. rewrite nth_swap by lia. rewrite tr_invol. exact Ek'.
      * exists (c :: cs), s'. split; [cbn [length]; lia|]. split.
        -- intros i Hi. destruct i as [|i]; cbn [nth].
           ++ rewrite Nat.add_0_r. unfold c. lia.
           ++ specialize (Hok i ltac:(cbn [length] in Hi; lia)). cbn [fm s1] in Hok.
              replace (fm s - (t + S i)) with (fm s - (S t + i)) by lia. exact Hok.
        -- cbn [fy_draws]. rewrite Hstep. cbn [bind]. rewrite Hd. reflexivity.
Qed.

(* uniqueness: two in-range choice vectors with the same outputs are equal *)
Lemma choice_unique : forall cs1 cs2 s t s1 s2 outs,
  fyinv s -> fy_cur s = t -> t + length cs1 <= fm s -> (cs1 <> [] -> t < fm s) ->
  length cs1 = length cs2 -> choices_ok t (fm s) cs1 -> choices_ok t (fm s) cs2 ->
  fy_draws cpick s cs1 = Ok (s1, outs) -> fy_draws cpick s cs2 = Ok (s2, outs) -> cs1 = cs2.
Proof.
  induction cs1 as [|c1 cs1 IH]; intros cs2 s t s1 s2 outs Hinv Hc Hlen Hne Hll Hok1 Hok2 Hd1 Hd2.
  - destruct cs2; [reflexivity|discriminate].
  - destruct cs2 as [|c2 cs2]; [discriminate|]. cbn [length] in *.
    assert (Ht : t < fm s) by (apply Hne; discriminate).
    assert (Hr1 := Hok1 0 ltac:(cbn; lia)). assert (Hr2 := Hok2 0 ltac:(cbn; lia)).
    cbn [nth] in Hr1, Hr2. rewrite Nat.add_0_r in Hr1, Hr2.
    assert (Hs1 := cnext s c1 Hinv ltac:(lia) ltac:(rewrite Hc; exact Hr1)).
    assert (Hs2 := cnext s c2 Hinv ltac:(lia) ltac:(rewrite Hc; exact Hr2)).
    rewrite Hc in Hs1, Hs2. cbn [fy_draws] in Hd1, Hd2. rewrite Hs1 in Hd1. rewrite Hs2 in Hd2. cbn [bind] in Hd1, Hd2.
    destruct (fy_draws cpick _ cs1) as [[s1' o1]| | | |] eqn:E1; try discriminate.
    destruct (fy_draws cpick _ cs2) as [[s2' o2]| | | |] eqn:E2; try discriminate.
    cbn [bind] in Hd1, Hd2. injection Hd1 as _ Ho1. injection Hd2 as _ Ho2.
    rewrite <- Ho2 in Ho1. injection Ho1 as Hx Ho.
    (* the first outputs agree, and the array is injective: same index, same choice *)
    assert (Ec : c1 = c2).
    { destruct Hinv as [Hlv [_ Hi]]. apply Hi in Hx; lia. }
    subst c2. f_equal.
    destruct cs1 as [|d1 cs1'] eqn:Ecs1.
    + destruct cs2; [reflexivity|discriminate].
    + rewrite <- Ecs1 in *.
      assert (Hlt : S t < fm s) by (rewrite Ecs1 in Hlen; cbn [length] in Hlen; lia).
      set (k := t + Z.to_nat c1) in *.
      set (sn := mkFY (fm s) (swap (fv s) k t) (S t)) in *.
      assert (Hinvn : fyinv sn) by (unfold fyinv, sn; cbn [fm fv]; apply arr_swap; [exact Hinv|unfold k; lia|lia]).
      subst o2. eapply (IH cs2 sn (S t) s1' s2' o1 Hinvn (cur_after s t k Hc Hlt)).
      * cbn [fm sn]. lia.
      * intros _. cbn [fm sn]. lia.
      * lia.
      * apply (choices_ok_tail t (fm s) c1). exact Hok1.
      * apply (choices_ok_tail t (fm s) c1). exact Hok2.
      * exact E1.
      * exact E2.
Qed.

Lemma reset_new_cur m : 1 <= m -> fy_cur (fy_reset (fy_new m)) = 0.
Proof. intros H. unfold fy_cur, fy_reset, fy_new. cbn. destruct m; [lia|reflexivity]. Qed.

(* every order has exactly one choice vector *)
Theorem fy_order_has_unique_choice m sigma : 1 <= m -> Permutation sigma (seq 0 m) ->
  exists cs, (length cs = m /\ choices_ok 0 m cs /\ exists s', fy_draws cpick (fy_reset (fy_new m)) cs = Ok (s', sigma)) /\
    forall cs', length cs' = m -> choices_ok 0 m cs' ->
      (exists s', fy_draws cpick (fy_reset (fy_new m)) cs' = Ok (s', sigma)) -> cs' = cs.
Proof.
  intros Hm HP. set (s0 := fy_reset (fy_new m)).
  assert (Hinv : fyinv s0) by (unfold fyinv, s0; cbn; apply arr_seq).
  assert (Hlen : length sigma = m) by (rewrite (Permutation_length HP), seq_length; reflexivity).
  assert (Hfm : fm s0 = m) by reflexivity.
  destruct (choice_exists sigma s0 0 Hinv (reset_new_cur m Hm)) as [cs [s' [Hl [Hok Hd]]]].
  - rewrite Hfm. lia.
  - intros _. rewrite Hfm. lia.
  - eapply Permutation_NoDup; [apply Permutation_sym; exact HP|apply seq_NoDup].
  - intros x Hx. assert (Hs : In x (seq 0 m)) by (eapply Permutation_in; [exact HP|exact Hx]).
    apply in_seq in Hs. exists x. split; [rewrite Hfm; lia|]. cbn [fv s0 fy_reset fy_new fm]. rewrite seq_nth by lia. reflexivity.
  - exists cs. split; [split; [lia|]; split; [rewrite <- Hfm; exact Hok|exists s'; exact Hd]|].
    intros cs' Hl' Hok' [s'' Hd']. symmetry.
    eapply (choice_unique cs cs' s0 0 s' s'' sigma Hinv (reset_new_cur m Hm)).
    + rewrite Hfm. lia.
    + intros _. rewrite Hfm. lia.
    + lia.
    + exact Hok.
    + rewrite Hfm. exact Hok'.
    + exact Hd.
    + exact Hd'.
Qed.

(* the choice vectors: exactly m! of them *)
Fixpoint all_choices (n : nat) : list (list Z) :=
  match n with
  | 0 => [[]]
  | S n' => flat_map (fun c => map (cons (Z.of_nat c)) (all_choices n')) (seq 0 (S n'))
  end.

Lemma flat_map_const_length {A B} (f : A -> list B) l k : (forall a, In a l -> length (f a) = k) ->
  length (flat_map f l) = length l * k.
Proof.
  induction l as [|a l IH]; intros H; cbn; [reflexivity|].
  rewrite app_length, IH, (H a) by (intros; try apply H; cbn; auto). lia.
Qed.

Theorem all_choices_count n : length (all_choices n) = fact n.
Proof.
  induction n as [|n IH]; [reflexivity|]. cbn [all_choices].
  rewrite (flat_map_const_length _ _ (fact n)).
  - rewrite seq_length. cbn [fact]. lia.
  - intros c _. rewrite map_length. exact IH.
Qed.

(* a vector is listed iff it has length n and its t-th entry lies in [0, n - t) *)
Theorem all_choices_spec n cs : In cs (all_choices n) <-> (length cs = n /\ choices_ok 0 n cs).
Proof.
  revert cs. induction n as [|n IH]; intros cs.
  - cbn. split.
    + intros [<-|[]]. split; [reflexivity|intros i Hi; cbn in Hi; lia].
    + intros [Hl _]. left. destruct cs; [reflexivity|discriminate].
  - cbn [all_choices]. rewrite in_flat_map. split.
    + intros [c [Hc Hin]]. apply in_map_iff in Hin. destruct Hin as [cs' [<- Hcs']].
      apply in_seq in Hc. apply IH in Hcs'. destruct Hcs' as [Hl Hok]. split; [cbn; lia|].
      intros i Hi. destruct i as [|i]; cbn [nth].
      * cbn. lia.
      * specialize (Hok i ltac:(cbn in Hi; lia)). cbn [Nat.add] in *. replace (S n - S i) with (n - i) by lia. exact Hok.
    + intros [Hl Hok]. destruct cs as [|c cs]; [discriminate|].
      assert (H0 := Hok 0 ltac:(cbn; lia)). cbn [nth Nat.add] in H0.
      exists (Z.to_nat c). split; [apply in_seq; lia|]. apply in_map_iff. exists cs. split; [f_equal; lia|].
      apply IH. split; [cbn in Hl; lia|]. intros i Hi. specialize (Hok (S i) ltac:(cbn; lia)). cbn [nth Nat.add] in *.
      replace (n - i) with (S n - S i) by lia. exact Hok.
Qed.

(* premises are satisfiable: m = 3, the order [2; 0; 1] comes from the choices [2; 1; 0] and from no other *)
Example uniform_example :
  fy_draws cpick (fy_reset (fy_new 3)) [2; 1; 0]%Z = Ok (mkFY 3 [2; 0; 1] 3, [2; 0; 1]) /\
  filter (fun cs => match fy_draws cpick (fy_reset (fy_new 3)) cs with Ok (_, o) => if list_eq_dec Nat.eq_dec o [2; 0; 1] then true else false | _ => false end)
         (all_choices 3) = [[2; 1; 0]%Z].
Proof. split; vm_compute; reflexivity. Qed.
