(* C06 / C07: the register law of SetSketch, on the formulas regenerated from SetSketcher::sketch.
   x_j are the order statistics of m independent Exp(a) values built from their Renyi spacings;
   a register is >= k exactly when the value that reached it is <= b^(1-k). *)
From Coq Require Import Reals Lra.
From PMH Require Import Gen.SetSketchLaw.
Open Scope R_scope.

(* the increment from x_{j-1} to x_j is Exp(1) / (a (m - j)): the spacing of the j-th order statistic of
   m exponentials of rate a *)
Theorem ss_gap_is_renyi_spacing a m j : 0 < a -> j < m -> ss_gap a m j = / (a * (m - j)).
Proof. intros Ha Hj. unfold ss_gap. field. split; lra. Qed.

(* the spacings are positive and grow: the x_j increase, so the real register decreases along j *)
Theorem ss_gap_positive a m j : 0 < a -> j < m -> 0 < ss_gap a m j.
Proof.
  intros Ha Hj. rewrite ss_gap_is_renyi_spacing by assumption. apply Rinv_0_lt_compat. apply Rmult_lt_0_compat; lra.
Qed.

Theorem ss_reg_antitone lnb x y : 0 < lnb -> 0 < x -> x <= y -> ss_reg_real lnb y <= ss_reg_real lnb x.
Proof.
  intros Hl Hx Hxy. unfold ss_reg_real.
  assert (Hln : ln x <= ln y).
  { destruct (Req_dec x y) as [->|Hne]; [lra|]. left. apply ln_increasing; lra. }
  assert (ln x / lnb <= ln y / lnb).
  { unfold Rdiv. apply Rmult_le_compat_r; [left; apply Rinv_0_lt_compat; exact Hl|exact Hln]. }
  lra.
Qed.

(* register >= k  iff  x <= b^(1-k)   (b^(1-k) written exp ((1-k) ln b)) *)
Theorem ss_reg_threshold lnb x k : 0 < lnb -> 0 < x ->
  (k <= ss_reg_real lnb x <-> x <= exp ((1 - k) * lnb)).
Proof.
  intros Hl Hx. unfold ss_reg_real. split.
  - intros H. assert (H1 : ln x <= (1 - k) * lnb).
    { assert (ln x / lnb <= 1 - k) by lra.
      apply (Rmult_le_compat_r lnb) in H0; [|lra]. unfold Rdiv in H0. rewrite Rmult_assoc, Rinv_l in H0 by lra. lra. }
    rewrite <- (exp_ln x Hx). destruct (Req_dec (ln x) ((1 - k) * lnb)) as [->|Hne]; [lra|]. left. apply exp_increasing. lra.
  - intros H. assert (H1 : ln x <= (1 - k) * lnb).
    { rewrite <- (ln_exp ((1 - k) * lnb)). destruct (Req_dec x (exp ((1 - k) * lnb))) as [->|Hne]; [lra|].
      left. apply ln_increasing; lra. }
    assert (ln x / lnb <= 1 - k).
    { apply (Rmult_le_reg_r lnb); [exact Hl|]. unfold Rdiv. rewrite Rmult_assoc, Rinv_l by lra. lra. }
    lra.
Qed.

Theorem ss_clamp_range q : 0 <= q -> ss_clamp_lo <= ss_clamp_hi q.
Proof. unfold ss_clamp_lo, ss_clamp_hi. lra. Qed.
