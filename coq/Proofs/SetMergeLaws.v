(* C05: SetSketch merge is commutative, associative and idempotent on the registers.
   (The pruning bound, nbmin and the overflow counter are not part of the sketch.) *)
From Coq Require Import List Arith ZArith Bool Lia.
From PMH Require Import Lib.ListArr Model.SetSketch Proofs.SetSketch.
Import ListNotations.
Open Scope Z_scope.

Definition regs (s : ss) : list Z := ss_k s.
Definition merged (s o : ss) : ss := fst (ss_merge s o).

Lemma merged_regs s o : params_mergeable (ss_par s) (ss_par o) = true ->
  regs (merged s o) = zipmax (regs s) (regs o).
Proof. intros H. unfold merged, regs, ss_merge. rewrite H. reflexivity. Qed.

Lemma merged_par s o : ss_par (merged s o) = ss_par s.
Proof. unfold merged, ss_merge. destruct (params_mergeable _ _); reflexivity. Qed.

Lemma zipmax_comm a b : length a = length b -> zipmax a b = zipmax b a.
Proof.
  revert b. induction a as [|x a IH]; intros [|y b] H; cbn in *; try lia; [reflexivity|].
  rewrite Z.max_comm. f_equal. apply IH. lia.
Qed.
Lemma zipmax_assoc a b c : length a = length b -> length b = length c ->
  zipmax (zipmax a b) c = zipmax a (zipmax b c).
Proof.
  revert b c. induction a as [|x a IH]; intros [|y b] [|z c] H1 H2; cbn in *; try lia; [reflexivity|].
  rewrite Z.max_assoc. f_equal. apply IH; lia.
Qed.
Lemma zipmax_idem a : zipmax a a = a.
Proof. induction a as [|x a IH]; cbn; [reflexivity|]. rewrite Z.max_id, IH. reflexivity. Qed.
Lemma zipmax_absorb a b : length a = length b -> zipmax (zipmax a b) b = zipmax a b.
Proof.
  revert b. induction a as [|x a IH]; intros [|y b] H; cbn in *; try lia; [reflexivity|].
  f_equal; [lia|apply IH; lia].
Qed.

Theorem merge_commutative s o : length (regs s) = length (regs o) ->
  params_mergeable (ss_par s) (ss_par o) = true -> params_mergeable (ss_par o) (ss_par s) = true ->
  regs (merged s o) = regs (merged o s).
Proof. intros L H1 H2. rewrite !merged_regs by assumption. apply zipmax_comm. exact L. Qed.

Theorem merge_associative a b c : length (regs a) = length (regs b) -> length (regs b) = length (regs c) ->
  params_mergeable (ss_par a) (ss_par b) = true -> params_mergeable (ss_par a) (ss_par c) = true ->
  params_mergeable (ss_par b) (ss_par c) = true ->
  regs (merged (merged a b) c) = regs (merged a (merged b c)).
Proof.
  intros L1 L2 Hab Hac Hbc.
  rewrite (merged_regs (merged a b) c) by (rewrite merged_par; exact Hac).
  rewrite (merged_regs a b Hab).
  rewrite (merged_regs a (merged b c)) by (rewrite merged_par; exact Hab).
  rewrite (merged_regs b c Hbc). apply zipmax_assoc; assumption.
Qed.

Theorem merge_idempotent s o : length (regs s) = length (regs o) ->
  params_mergeable (ss_par s) (ss_par o) = true ->
  regs (merged (merged s o) o) = regs (merged s o) /\ (params_mergeable (ss_par s) (ss_par s) = true -> regs (merged s s) = regs s).
Proof.
  intros L H. split.
  - rewrite (merged_regs (merged s o) o) by (rewrite merged_par; exact H). rewrite (merged_regs s o H). apply zipmax_absorb. exact L.
  - intros Hs. rewrite (merged_regs s s Hs). apply zipmax_idem.
Qed.
