(* C14 (MLE part): the golden section search stays inside its bracket whatever the cost
   comparisons answer; with the start value of Gen/MleGen.v, get_mle's model never reaches
   an unwrap failure and its result lies in [0, b_sup] with b_sup <= 1. *)
From Coq Require Import QArith Qminmax Qabs List Lqa Lia Bool.
From PMH Require Import Lib.ListArr Gen.MleGen Model.Mle.
Import ListNotations.
Open Scope Q_scope.

Lemma g2_bounds : 0 <= g2 /\ g2 <= 1.
Proof. unfold g2. split; unfold Qle; cbn; lia. Qed.

Definition inb (lo hi : Q) (s : gss) : Prop :=
  lo <= x0 s /\ x0 s <= x1 s /\ x1 s <= x2 s /\ x2 s <= x3 s /\ x3 s <= hi.

Lemma Qle_bool_false a b : Qle_bool a b = false -> b < a.
Proof.
  intros H. apply Qnot_le_lt. intros Hle. apply Qle_bool_iff in Hle. congruence.
Qed.

Lemma Qabs_nonneg_id q : 0 <= q -> Qabs q == q.
Proof. apply Qabs_pos. Qed.

Lemma gss_init_ok lo hi init : lo <= init -> init <= hi ->
  exists s, gss_init lo hi init = Ok s /\ inb lo hi s.
Proof.
  intros H1 H2. unfold gss_init.
  assert (E1 : Qle_bool lo init = true) by (apply Qle_bool_iff; exact H1).
  assert (E2 : Qle_bool init hi = true) by (apply Qle_bool_iff; exact H2).
  rewrite E1, E2. cbn [negb orb].
  destruct g2_bounds as [G0 G1].
  destruct (Qle_bool (Qabs (hi - init)) (Qabs (init - lo))); eexists; (split; [reflexivity|]);
    unfold inb; cbn [x0 x1 x2 x3]; repeat split; try lra; nra.
Qed.

Lemma gss_next_ok lo hi s a : inb lo hi s -> inb lo hi (gss_next s a).
Proof.
  intros [H0 [H1 [H2 [H3 H4]]]]. destruct g2_bounds as [G0 G1].
  unfold gss_next, g1. destruct a; unfold inb; cbn [x0 x1 x2 x3]; repeat split; try lra; nra.
Qed.

Lemma gss_param_ok lo hi s b : inb lo hi s -> lo <= gss_param s b /\ gss_param s b <= hi.
Proof.
  intros [H0 [H1 [H2 [H3 H4]]]]. unfold gss_param. destruct b; split; lra.
Qed.

Lemma gss_iter_ok lo hi : forall answers fuel s cur, inb lo hi s -> lo <= cur /\ cur <= hi ->
  lo <= gss_iter s answers fuel cur /\ gss_iter s answers fuel cur <= hi.
Proof.
  induction answers as [|[a b] r IH]; intros fuel s cur Hs Hc; destruct fuel; cbn [gss_iter]; auto.
  apply IH; [apply gss_next_ok; exact Hs|apply gss_param_ok; apply gss_next_ok; exact Hs].
Qed.

(* the generated start value lies in the bracket: this is the statement that is FALSE for the
   original `let init_param = jac;` (see mle_start_in_bracket_refuted_for_jac below) *)
Theorem mle_start_in_bracket jac lo hi : lo <= hi ->
  lo <= mle_init jac lo hi /\ mle_init jac lo hi <= hi.
Proof.
  intros H. unfold mle_init.
  destruct (Q.max_spec (Qmin jac hi) lo) as [[Ha Hb]|[Ha Hb]];
  destruct (Q.min_spec jac hi) as [[Hc Hd]|[Hc Hd]]; rewrite ?Hb, ?Hd in *; split; lra.
Qed.

(* witness kept for the record: with the start value `jac` itself (the code before the fix)
   nested sets give dequal/m above card1/card2 and init is rejected *)
Example mle_start_in_bracket_refuted_for_jac :
  exists jac lo hi, lo <= hi /\ ~ (lo <= jac /\ jac <= hi).
Proof. exists (1 # 4), 0, (1 # 5). split; [lra|]. intros [_ H]. lra. Qed.

Lemma b_sup_bounds aux : 0 < aux -> 0 < mle_b_sup aux /\ mle_b_sup aux <= 1.
Proof.
  intros Ha. unfold mle_b_sup.
  assert (Hinv : 0 < 1 / aux).
  { unfold Qdiv. rewrite Qmult_1_l. apply Qinv_lt_0_compat. exact Ha. }
  split.
  - destruct (Q.min_spec aux (1 / aux)) as [[_ ->]|[_ ->]]; assumption.
  - destruct (Qlt_le_dec 1 aux) as [Hgt|Hle].
    + eapply Qle_trans; [apply Q.le_min_r|].
      apply Qle_shift_div_r; [exact Ha|]. lra.
    + eapply Qle_trans; [apply Q.le_min_l|exact Hle].
Qed.

Theorem mle_total card1 card2 dequal m first answers :
  0 < card1 -> 0 < card2 -> 0 <= dequal -> 0 < m ->
  exists j, mle_model card1 card2 dequal m first answers = Ok j /\
    0 <= j /\ j <= mle_b_sup (card1 / card2) /\ mle_b_sup (card1 / card2) <= 1.
Proof.
  intros H1 H2 Hd Hm. unfold mle_model.
  assert (Haux : 0 < card1 / card2).
  { unfold Qdiv. apply Qmult_lt_0_compat; [exact H1|apply Qinv_lt_0_compat; exact H2]. }
  destruct (b_sup_bounds _ Haux) as [Hb0 Hb1].
  set (bs := mle_b_sup (card1 / card2)) in *.
  unfold gss_new, mle_b_inf.
  assert (E : Qle_bool bs 0 = false).
  { destruct (Qle_bool bs 0) eqn:E; [|reflexivity]. apply Qle_bool_iff in E. lra. }
  rewrite E. cbn [bind].
  destruct (mle_start_in_bracket (dequal / m) 0 bs ltac:(lra)) as [Hi0 Hi1].
  destruct (gss_init_ok 0 bs _ Hi0 Hi1) as [s [Hs Hin]]. rewrite Hs. cbn [bind].
  eexists. split; [reflexivity|].
  destruct (gss_iter_ok 0 bs answers mle_max_iters s (gss_param s first) Hin
              (gss_param_ok 0 bs s first Hin)) as [Ha Hb].
  auto.
Qed.

(* non-vacuity: nested sets (the family that made the original code panic) *)
Example mle_nested_example :
  exists j, mle_model (778 # 1) (3756 # 1) 4 16 true [(true, false); (false, true)] = Ok j.
Proof. eexists. vm_compute. reflexivity. Qed.
