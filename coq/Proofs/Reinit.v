(* C13: in every model the reset operation yields exactly the state the constructor builds
   (for the shuffle: a state that the first draw cannot tell from a new one, C17). *)
From Coq Require Import List Arith ZArith Bool Lia.
From PMH Require Import Lib.ListArr Model.Tracker Model.FYShuffle Model.ProbMinHash Model.SetSketch
  Model.SuperMinHash Model.SuperMinHash2 Model.DensMinHash Model.OrdMinHash Proofs.Tracker Proofs.FYShuffle.
Import ListNotations.
Open Scope Z_scope.

Theorem smh_reinit_fresh s large : (1 <= sm_m s)%nat -> smh_new (sm_m s) large = Ok (smh_reinit s large).
Proof. intros H. unfold smh_new, smh_reinit. destruct (sm_m s); [lia|reflexivity]. Qed.

Theorem smh2_reinit_fresh s : (1 <= s2_m s)%nat -> smh2_new (s2_m s) = Ok (smh2_reinit s).
Proof. intros H. unfold smh2_new, smh2_reinit. destruct (s2_m s); [lia|reflexivity]. Qed.

Theorem ss_reinit_fresh s : ss_reinit s = ss_new (ss_par s).
Proof. reflexivity. Qed.

Theorem dens_reinit_fresh s large : dens_reinit s large = dens_new (d_m s) large.
Proof. reflexivity. Qed.

Lemma map_const_repeat' {A B} (c : B) (l : list A) : map (fun _ => c) l = repeat c (length l).
Proof. induction l; cbn; [reflexivity|]. f_equal. assumption. Qed.

Theorem pmh2_reset_fresh maxv init st m : length (pregs st) = m -> length (psig st) = m ->
  p_reset maxv init st = p_new maxv init m.
Proof. intros H1 H2. unfold p_reset, p_new. rewrite !map_const_repeat', H1, H2. reflexivity. Qed.

Theorem ord_store_fresh b maxv m l pairs :
  o_hash_set b maxv m l pairs = o_pairs b (o_new maxv m l) 0 pairs.
Proof. reflexivity. Qed.
