(* C01: the analytic facts behind "ProbMinHash estimates J_P without bias", for ideal draws.
   - with the generated rate lambda = ln(m/(m-1)) the first point of a slot has an exponential
     survival function (the stream of points of an item is, per slot, a Poisson-like race);
   - the race integral: int_0^T rho e^{-rho x} prod_j e^{-rho c_j x} dx = (1 - e^{-rho(1+C)T})/(1+C),
     with limit 1/(1+C): the probability that an item wins a slot in both sets;
   - the single-set corollary w_d / sum w. *)
From Coq Require Import Reals Lra Lia.
From Coquelicot Require Import Coquelicot.
From PMH Require Import Gen.PmhFormulas.
Open Scope R_scope.

Lemma lambda_exp m : 1 < m -> exp (- pmh_lambda m) = (m - 1) / m.
Proof.
  intros Hm. unfold pmh_lambda. rewrite exp_Ropp, exp_ln; [field; lra|].
  apply Rdiv_lt_0_compat; lra.
Qed.

Lemma lambda_pos m : 1 < m -> 0 < pmh_lambda m.
Proof.
  intros Hm. unfold pmh_lambda. rewrite <- ln_1. apply ln_increasing; [lra|].
  apply (Rmult_lt_reg_r (m - 1)); [lra|]. unfold Rdiv. rewrite Rmult_assoc, Rinv_l by lra. lra.
Qed.

(* P4: a point of the n+1-th unit interval lands in a given slot with probability 1/m, at a position
   s in [0,1) with the truncated-exponential law; the probability that the slot has received no point
   up to n + s is ((m-1)/m)^n (1 - (1/m) F(s)), F the truncated law; with the generated lambda this is
   exactly e^{-lambda (n + s)}: an exponential clock of rate lambda per slot *)
Theorem slot_survival_is_exponential m (n : nat) s : 1 < m ->
  ((m - 1) / m) ^ n * (1 - (1 / m) * ((1 - exp (- pmh_lambda m * s)) / (1 - exp (- pmh_lambda m))))
  = exp (- pmh_lambda m * (INR n + s)).
Proof.
  intros Hm. assert (He := lambda_exp m Hm).
  replace (- pmh_lambda m * (INR n + s)) with (INR n * (- pmh_lambda m) + - pmh_lambda m * s) by ring.
  rewrite exp_plus.
  assert (Hpow : exp (INR n * - pmh_lambda m) = ((m - 1) / m) ^ n).
  { induction n as [|n IH]; [rewrite Rmult_0_l, exp_0; reflexivity|].
    rewrite S_INR. replace ((INR n + 1) * - pmh_lambda m) with (INR n * - pmh_lambda m + - pmh_lambda m) by ring.
    rewrite exp_plus, IH, He. simpl. ring. }
  rewrite Hpow. f_equal. rewrite He. field. lra.
Qed.

(* and only that lambda does it: the identity at n = 0, s = 1 (one full unit interval) reads
   1 - 1/m = e^{-lambda} *)
Theorem rate_is_forced m l : 1 < m -> 0 < l -> 1 - 1 / m = exp (- l) -> l = pmh_lambda m.
Proof.
  intros Hm Hl H. unfold pmh_lambda.
  assert (Hx : exp l = m / (m - 1)).
  { replace l with (- - l) by ring. rewrite exp_Ropp, <- H. field. lra. }
  rewrite <- Hx. symmetry. apply ln_exp.
Qed.

(* Renyi spacings used by ProbMinHash2 and ProbOrdMinHash2 *)
Theorem beta_spacing m i : m - i - 1 <> 0 -> pmh2_beta m i * (m - i - 1) = m.
Proof. intros H. unfold pmh2_beta. field. exact H. Qed.
Theorem g_is_beta m i : ord_g m (i + 1) = pmh2_beta m i.
Proof. unfold ord_g, pmh2_beta. f_equal. ring. Qed.

(* P3: the race integral *)
Theorem race_integral rho C T : 0 < rho -> 0 <= C ->
  is_RInt (fun x => rho * exp (- rho * x) * exp (- rho * C * x)) 0 T ((1 - exp (- rho * (1 + C) * T)) / (1 + C)).
Proof.
  intros Hr HC.
  set (F := fun x => - exp (- rho * (1 + C) * x) / (1 + C)).
  replace ((1 - exp (- rho * (1 + C) * T)) / (1 + C)) with (F T - F 0)
    by (unfold F; rewrite Rmult_0_r, exp_0; field; lra).
  apply (is_RInt_derive F).
  - intros x _. unfold F. auto_derive; [exact I|].
    replace (- rho * (1 + C) * x) with (- rho * x + - rho * C * x) by ring. rewrite exp_plus. field. lra.
  - intros x _. apply (@ex_derive_continuous R_AbsRing R_NormedModule). auto_derive. exact I.
Qed.

(* its value converges to 1/(1+C): explicit rate, 0 <= 1/(1+C) - I(T) <= 1/((1+C)(1 + rho(1+C)T)) *)
Theorem race_limit rho C T : 0 < rho -> 0 <= C -> 0 <= T ->
  0 <= 1 / (1 + C) - (1 - exp (- rho * (1 + C) * T)) / (1 + C) <= 1 / ((1 + C) * (1 + rho * (1 + C) * T)).
Proof.
  intros Hr HC HT. set (k := rho * (1 + C)). assert (Hk : 0 < k) by (unfold k; apply Rmult_lt_0_compat; lra).
  replace (- rho * (1 + C) * T) with (- (k * T)) by (unfold k; ring).
  replace (rho * (1 + C) * T) with (k * T) by (unfold k; ring).
  replace (1 / (1 + C) - (1 - exp (- (k * T))) / (1 + C)) with (exp (- (k * T)) / (1 + C)) by (field; lra).
  assert (HkT : 0 <= k * T) by (apply Rmult_le_pos; lra).
  assert (Hp := exp_pos (- (k * T))).
  assert (Hge : 1 + k * T <= exp (k * T)).
  { destruct (Req_dec (k * T) 0) as [->|Hne]; [rewrite exp_0; lra|]. left. apply exp_ineq1. exact Hne. }
  split.
  - apply Rmult_le_pos; [lra|]. left. apply Rinv_0_lt_compat. lra.
  - rewrite exp_Ropp. unfold Rdiv. rewrite Rmult_1_l, Rinv_mult by idtac.
    rewrite (Rmult_comm (/ exp (k * T))). apply Rmult_le_compat_l; [left; apply Rinv_0_lt_compat; lra|].
    apply Rinv_le_contravar; lra.
Qed.

(* single weighted set: item d wins a position with probability w_d / sum w, the race value with
   c_j = w_j / w_d for the other items *)
Theorem single_set_probability wd rest : 0 < wd -> 0 <= rest -> 1 / (1 + rest / wd) = wd / (wd + rest).
Proof. intros H1 H2. field. split; lra. Qed.
