(* C19: the generated invhash functions are mutually inverse bijections on
   all 2^64 / 2^32 values.  The definitions proved about are those of
   Gen/InvHashGen.v, regenerated from src/invhash.rs on every run. *)
From Coq Require Import ZArith Lia.
From PMH Require Import Lib.BitVec Gen.InvHashGen.
Open Scope Z_scope.

(* ---------------- 64-bit: the steps, as the code performs them ------------- *)
Definition f1 x := wadd 64 (wnot 64 x) (wshl 64 x 21).
Definition f3 x := wadd 64 (wadd 64 x (wshl 64 x 3)) (wshl 64 x 8).
Definition f5 x := wadd 64 (wadd 64 x (wshl 64 x 2)) (wshl 64 x 4).
Definition f7 x := wadd 64 x (wshl 64 x 31).

Definition g7 y := let tmp := wsub 64 y (wshl 64 y 31) in wsub 64 y (wshl 64 tmp 31).
Definition g5 y := wmul 64 y 14933078535860113213.
Definition g3 y := wmul 64 y 15244667743933553977.
Definition g1 y :=
  let tmp := wnot 64 y in
  let tmp := wnot 64 (wsub 64 y (wshl 64 tmp 21)) in
  let tmp := wnot 64 (wsub 64 y (wshl 64 tmp 21)) in
  wnot 64 (wsub 64 y (wshl 64 tmp 21)).

(* syntactic comparison after unfolding: fails at once (instead of letting the
   kernel compute on open terms) when the regenerated code has another shape *)
Ltac syn_refl :=
  lazymatch goal with |- ?a = ?b =>
    first [ constr_eq a b | fail 1 "generated code differs from the proved step decomposition" ]
  end; reflexivity.

Lemma int64_hash_steps x :
  int64_hash x = f7 (xs 28 (f5 (xs 14 (f3 (xs 24 (f1 x)))))).
Proof. cbv beta zeta delta [int64_hash f1 f3 f5 f7 xs]. syn_refl. Qed.

Lemma int64_hash_inverse_steps y :
  int64_hash_inverse y =
  g1 (xs_iter 24 (g3 (xs_iter 14 (g5 (xs_iter 28 (g7 y) 2)) 4)) 2).
Proof. cbv beta zeta iota delta [int64_hash_inverse g1 g3 g5 g7 xs_iter]. syn_refl. Qed.

Lemma f1_range x : inrange 64 x -> inrange 64 (f1 x). Proof. intros; unfold f1; range. Qed.
Lemma f3_range x : inrange 64 (f3 x). Proof. unfold f3; range. Qed.
Lemma f5_range x : inrange 64 (f5 x). Proof. unfold f5; range. Qed.
Lemma f7_range x : inrange 64 (f7 x). Proof. unfold f7; range. Qed.
Lemma g7_range x : inrange 64 (g7 x). Proof. unfold g7; cbv zeta; range. Qed.
Lemma g5_range x : inrange 64 (g5 x). Proof. unfold g5; range. Qed.
Lemma g3_range x : inrange 64 (g3 x). Proof. unfold g3; range. Qed.
Lemma g1_range x : inrange 64 (g1 x). Proof. unfold g1; cbv zeta; range. Qed.
Lemma xs_range w s x : 0 <= w -> 0 <= s -> inrange w x -> inrange w (xs s x).
Proof. intros; unfold xs; range. Qed.
Lemma xs_iter_range w s x j : 0 <= w -> 0 <= s -> inrange w x -> inrange w (xs_iter s x j).
Proof. intros Hw Hs Hx; induction j as [|j IH]; cbn [xs_iter]; range. Qed.

Lemma g1_f1 x : inrange 64 x -> g1 (f1 x) = x.
Proof. intros Hx. unfold g1, f1; cbv zeta. solve_affine 64 x. Qed.
Lemma f1_g1 x : inrange 64 x -> f1 (g1 x) = x.
Proof. intros Hx. unfold g1, f1; cbv zeta. solve_affine 64 x. Qed.
Lemma g3_f3 x : inrange 64 x -> g3 (f3 x) = x.
Proof. intros Hx. unfold g3, f3. solve_affine 64 x. Qed.
Lemma f3_g3 x : inrange 64 x -> f3 (g3 x) = x.
Proof. intros Hx. unfold g3, f3. solve_affine 64 x. Qed.
Lemma g5_f5 x : inrange 64 x -> g5 (f5 x) = x.
Proof. intros Hx. unfold g5, f5. solve_affine 64 x. Qed.
Lemma f5_g5 x : inrange 64 x -> f5 (g5 x) = x.
Proof. intros Hx. unfold g5, f5. solve_affine 64 x. Qed.
Lemma g7_f7 x : inrange 64 x -> g7 (f7 x) = x.
Proof. intros Hx. unfold g7, f7; cbv zeta. solve_affine 64 x. Qed.
Lemma f7_g7 x : inrange 64 x -> f7 (g7 x) = x.
Proof. intros Hx. unfold g7, f7; cbv zeta. solve_affine 64 x. Qed.

Theorem int64_inverse_left x : inrange 64 x -> int64_hash_inverse (int64_hash x) = x.
Proof.
  intros Hx. rewrite int64_hash_steps, int64_hash_inverse_steps.
  assert (H1 := f1_range x Hx).
  assert (H2 : inrange 64 (xs 24 (f1 x))) by (apply xs_range; [lia|lia|exact H1]).
  assert (H3 := f3_range (xs 24 (f1 x))).
  assert (H4 : inrange 64 (xs 14 (f3 (xs 24 (f1 x))))) by (apply xs_range; [lia|lia|exact H3]).
  assert (H5 := f5_range (xs 14 (f3 (xs 24 (f1 x))))).
  assert (H6 : inrange 64 (xs 28 (f5 (xs 14 (f3 (xs 24 (f1 x))))))) by (apply xs_range; [lia|lia|exact H5]).
  rewrite g7_f7 by exact H6.
  rewrite (xs_iter_inv 64) by (first [exact H5 | lia]).
  rewrite g5_f5 by exact H4.
  rewrite (xs_iter_inv 64) by (first [exact H3 | lia]).
  rewrite g3_f3 by exact H2.
  rewrite (xs_iter_inv 64) by (first [exact H1 | lia]).
  apply g1_f1; exact Hx.
Qed.

Theorem int64_inverse_right x : inrange 64 x -> int64_hash (int64_hash_inverse x) = x.
Proof.
  intros Hx. rewrite int64_hash_steps, int64_hash_inverse_steps.
  set (a7 := g7 x). assert (H7 : inrange 64 a7) by apply g7_range.
  set (a6 := xs_iter 28 a7 2). assert (H6 : inrange 64 a6) by (apply xs_iter_range; [lia|lia|exact H7]).
  set (a5 := g5 a6). assert (H5 : inrange 64 a5) by apply g5_range.
  set (a4 := xs_iter 14 a5 4). assert (H4 : inrange 64 a4) by (apply xs_iter_range; [lia|lia|exact H5]).
  set (a3 := g3 a4). assert (H3 : inrange 64 a3) by apply g3_range.
  set (a2 := xs_iter 24 a3 2). assert (H2 : inrange 64 a2) by (apply xs_iter_range; [lia|lia|exact H3]).
  rewrite f1_g1 by exact H2. unfold a2.
  rewrite (xs_of_iter 64) by (first [exact H3 | lia]). unfold a3.
  rewrite f3_g3 by exact H4. unfold a4.
  rewrite (xs_of_iter 64) by (first [exact H5 | lia]). unfold a5.
  rewrite f5_g5 by exact H6. unfold a6.
  rewrite (xs_of_iter 64) by (first [exact H7 | lia]). unfold a7.
  apply f7_g7; exact Hx.
Qed.

Theorem int64_hash_range x : inrange 64 x -> inrange 64 (int64_hash x).
Proof. intros; rewrite int64_hash_steps; apply f7_range. Qed.
Theorem int64_hash_inverse_range x : inrange 64 x -> inrange 64 (int64_hash_inverse x).
Proof. intros; rewrite int64_hash_inverse_steps; apply g1_range. Qed.

(* ---------------- 32-bit ---------------- *)
Definition h1 x := wadd 32 x (wnot 32 (wshl 32 x 15)).
Definition h3 x := wadd 32 x (wshl 32 x 3).
Definition h5 x := wadd 32 x (wnot 32 (wshl 32 x 11)).
Definition k5 y := wmul 32 (wnot 32 y) 4290770943.
Definition k3 y := wmul 32 y 954437177.
Definition k1 y := wmul 32 (wnot 32 y) 3221192703.
Definition k4 y :=
  wxor (wxor (wxor (wxor (wxor y (wshr y 6)) (wshr y 12)) (wshr y 18)) (wshr y 24)) (wshr y 30).
Definition k2 y := wxor (wxor (wxor y (wshr y 10)) (wshr y 20)) (wshr y 30).

Lemma int32_hash_steps x :
  int32_hash x = xs 16 (h5 (xs 6 (h3 (xs 10 (h1 x))))).
Proof. cbv beta zeta delta [int32_hash h1 h3 h5 xs]. syn_refl. Qed.

Lemma int32_hash_inverse_steps y :
  int32_hash_inverse y = k1 (k2 (k3 (k4 (k5 (xs 16 y))))).
Proof. cbv beta zeta delta [int32_hash_inverse k1 k2 k3 k4 k5 xs]. syn_refl. Qed.

Lemma k4_iter y : k4 y = xs_iter 6 y 5.
Proof. rewrite <- xs_flat_iter by lia. reflexivity. Qed.
Lemma k2_iter y : k2 y = xs_iter 10 y 3.
Proof. rewrite <- xs_flat_iter by lia. reflexivity. Qed.
Lemma xs16_iter y : xs 16 y = xs_iter 16 y 1.
Proof. reflexivity. Qed.

Lemma h1_range x : inrange 32 (h1 x). Proof. unfold h1; range. Qed.
Lemma h3_range x : inrange 32 (h3 x). Proof. unfold h3; range. Qed.
Lemma h5_range x : inrange 32 (h5 x). Proof. unfold h5; range. Qed.
Lemma k1_range x : inrange 32 (k1 x). Proof. unfold k1; range. Qed.
Lemma k3_range x : inrange 32 (k3 x). Proof. unfold k3; range. Qed.
Lemma k5_range x : inrange 32 (k5 x). Proof. unfold k5; range. Qed.

Lemma k1_h1 x : inrange 32 x -> k1 (h1 x) = x.
Proof. intros Hx. unfold k1, h1. solve_affine 32 x. Qed.
Lemma h1_k1 x : inrange 32 x -> h1 (k1 x) = x.
Proof. intros Hx. unfold k1, h1. solve_affine 32 x. Qed.
Lemma k3_h3 x : inrange 32 x -> k3 (h3 x) = x.
Proof. intros Hx. unfold k3, h3. solve_affine 32 x. Qed.
Lemma h3_k3 x : inrange 32 x -> h3 (k3 x) = x.
Proof. intros Hx. unfold k3, h3. solve_affine 32 x. Qed.
Lemma k5_h5 x : inrange 32 x -> k5 (h5 x) = x.
Proof. intros Hx. unfold k5, h5. solve_affine 32 x. Qed.
Lemma h5_k5 x : inrange 32 x -> h5 (k5 x) = x.
Proof. intros Hx. unfold k5, h5. solve_affine 32 x. Qed.

Theorem int32_inverse_left x : inrange 32 x -> int32_hash_inverse (int32_hash x) = x.
Proof.
  intros Hx. rewrite int32_hash_steps, int32_hash_inverse_steps.
  assert (H1 := h1_range x).
  assert (H2 : inrange 32 (xs 10 (h1 x))) by (apply xs_range; [lia|lia|exact H1]).
  assert (H3 := h3_range (xs 10 (h1 x))).
  assert (H4 : inrange 32 (xs 6 (h3 (xs 10 (h1 x))))) by (apply xs_range; [lia|lia|exact H3]).
  assert (H5 := h5_range (xs 6 (h3 (xs 10 (h1 x))))).
  rewrite xs16_iter. rewrite (xs_iter_inv 32) by (first [exact H5 | lia]).
  rewrite k5_h5 by exact H4.
  rewrite k4_iter. rewrite (xs_iter_inv 32) by (first [exact H3 | lia]).
  rewrite k3_h3 by exact H2.
  rewrite k2_iter. rewrite (xs_iter_inv 32) by (first [exact H1 | lia]).
  apply k1_h1; exact Hx.
Qed.

Theorem int32_inverse_right x : inrange 32 x -> int32_hash (int32_hash_inverse x) = x.
Proof.
  intros Hx. rewrite int32_hash_steps, int32_hash_inverse_steps.
  rewrite xs16_iter, k4_iter, k2_iter.
  set (a6 := xs_iter 16 x 1). assert (H6 : inrange 32 a6) by (apply xs_iter_range; [lia|lia|exact Hx]).
  set (a5 := k5 a6). assert (H5 : inrange 32 a5) by apply k5_range.
  set (a4 := xs_iter 6 a5 5). assert (H4 : inrange 32 a4) by (apply xs_iter_range; [lia|lia|exact H5]).
  set (a3 := k3 a4). assert (H3 : inrange 32 a3) by apply k3_range.
  set (a2 := xs_iter 10 a3 3). assert (H2 : inrange 32 a2) by (apply xs_iter_range; [lia|lia|exact H3]).
  rewrite h1_k1 by exact H2. unfold a2.
  rewrite (xs_of_iter 32) by (first [exact H3 | lia]). unfold a3.
  rewrite h3_k3 by exact H4. unfold a4.
  rewrite (xs_of_iter 32) by (first [exact H5 | lia]). unfold a5.
  rewrite h5_k5 by exact H6. unfold a6.
  apply (xs_iter_inv 32); first [exact Hx | lia].
Qed.

Theorem int32_hash_range x : inrange 32 x -> inrange 32 (int32_hash x).
Proof.
  intros Hx; rewrite int32_hash_steps. apply xs_range; [lia|lia|apply h5_range].
Qed.
Theorem int32_hash_inverse_range x : inrange 32 x -> inrange 32 (int32_hash_inverse x).
Proof. intros; rewrite int32_hash_inverse_steps; apply k1_range. Qed.
