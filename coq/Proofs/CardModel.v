(* C06, monotonicity clause closed on the model: a step of the SetSketch model (one item, or a merge) never lowers the
   cardinality estimate computed from its registers.  Combines the register theorems of C05 (an item and a merge only
   raise registers) with the analytic monotonicity of the estimator. *)
From Coq Require Import List Arith ZArith Reals Lra Lia.
From PMH Require Import Lib.ListArr Model.SetSketch Proofs.SetSketch Gen.SetSketchFormulas Proofs.SetFormulas.
Import ListNotations.

Definition regs_R (s : ss) : list R := map IZR (ss_k s).
Definition model_estimate (b a m : R) (s : ss) : R := card_of_sum b a m (reg_sum b (regs_R s)).

Lemma pointwise_Forall2 : forall (k k' : list Z), length k = length k' ->
  (forall i, (nthz k i <= nthz k' i)%Z) -> Forall2 Rle (map IZR k) (map IZR k').
Proof.
  induction k as [|x k IH]; intros k' Hl H; destruct k' as [|y k']; try discriminate; cbn [map]; [constructor|].
  constructor.
  - apply IZR_le. exact (H 0%nat).
  - apply IH; [cbn in Hl; lia|]. intros i. exact (H (S i)).
Qed.

Lemma smono_regs s s' : length (ss_k s) = length (ss_k s') -> smono s s' -> Forall2 Rle (regs_R s) (regs_R s').
Proof. intros Hl Hm. unfold regs_R. apply pointwise_Forall2; [exact Hl|exact Hm]. Qed.

Theorem item_never_lowers_estimate b a m s sc s' : (1 < b)%R -> (0 < a)%R -> (0 < m)%R ->
  ssinv s -> (1 <= sp_m (ss_par s))%nat -> ss_item s sc = Ok s' ->
  (model_estimate b a m s <= model_estimate b a m s')%R.
Proof.
  intros Hb Ha Hm Is H1 E. destruct (ss_item_inv sc s s' Is E) as [Is' [Mono Par]].
  unfold model_estimate. apply card_monotone; try assumption.
  - unfold regs_R. destruct Is as [L _]. destruct (ss_k s); [cbn in L; lia|cbn; discriminate].
  - apply smono_regs; [|exact Mono]. destruct Is as [L _], Is' as [L' _]. rewrite L, L', Par. reflexivity.
Qed.

Theorem merge_never_lowers_estimate b a m s o : (1 < b)%R -> (0 < a)%R -> (0 < m)%R ->
  ssinv s -> ssinv o -> (1 <= sp_m (ss_par s))%nat -> sp_imax (ss_par s) = sp_imax (ss_par o) ->
  (model_estimate b a m s <= model_estimate b a m (fst (ss_merge s o)))%R.
Proof.
  intros Hb Ha Hm Is Io H1 Him. destruct (ss_merge_inv s o Is Io Him) as [Is' Mono].
  unfold model_estimate. apply card_monotone; try assumption.
  - unfold regs_R. destruct Is as [L _]. destruct (ss_k s); [cbn in L; lia|cbn; discriminate].
  - apply smono_regs; [|exact Mono]. destruct Is as [L _], Is' as [L' _]. rewrite L, L'.
    unfold ss_merge. destruct (params_mergeable (ss_par s) (ss_par o)); reflexivity.
Qed.

(* the hypotheses are met by every reachable state: a new sketcher satisfies the invariant (ss_new_inv), an item, a merge and a
   reinit keep it (ss_item_inv, ss_merge_inv, ss_reinit_inv); a concrete instance *)
Example closure_hypotheses_hold :
  let p := mkSP 4 62 65535 2 20 in ssinv (ss_new p) /\ (1 <= sp_m (ss_par (ss_new p)))%nat.
Proof. cbv zeta. split; [apply ss_new_inv; cbn; lia|cbn; lia]. Qed.
