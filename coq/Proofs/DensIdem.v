(* C09: finishing a finished sketch changes nothing (end_sketch is idempotent), for both densifications
   and whatever target streams the second call is given. *)
From Coq Require Import List Arith ZArith Bool Lia.
From PMH Require Import Lib.ListArr Model.ProbMinHash Model.DensMinHash Proofs.DensMinHash.
Import ListNotations.
Open Scope Z_scope.

Lemma opt_from_all_init targets : forall ks s, (forall k, In k ks -> nthb (d_init s) k = true) -> d_empty s = 0 ->
  opt_densify_from s targets ks = DDone s.
Proof.
  induction ks as [|k r IH]; intros s Hall He; cbn [opt_densify_from].
  - rewrite He. reflexivity.
  - rewrite (Hall k (or_introl eq_refl)). apply IH; [intros k' Hk'; apply Hall; right; exact Hk'|exact He].
Qed.

Theorem opt_densify_idempotent rep targets targets' s s' : dwf s -> opt_densify rep s targets = DDone s' ->
  opt_densify rep s' targets' = DDone s'.
Proof.
  intros Wf E. destruct (opt_densify_ok rep targets s s' Wf E) as [Wf' [X [He Hall]]].
  unfold opt_densify. rewrite He. cbn [Z.ltb Z.compare]. rewrite andb_false_r.
  apply opt_from_all_init; [|exact He].
  intros k Hk. apply in_seq in Hk. apply Hall. destruct X as [Hm _]. lia.
Qed.

Theorem rev_densify_idempotent rep rt rt' s s' : dwf s ->
  (forall tg, In tg rt -> forall k, (k < d_m s)%nat -> (tg k < d_m s)%nat) ->
  rev_densify rep s rt = DDone s' -> rev_densify rep s' rt' = DDone s'.
Proof.
  intros Wf Htg E. destruct (rev_densify_ok rep rt s s' Wf Htg E) as [_ [_ [He _]]].
  unfold rev_densify. rewrite He. cbn [Z.ltb Z.compare]. rewrite andb_false_r.
  destruct rt' as [|tg r]; cbn [rev_densify_loop]; rewrite He; reflexivity.
Qed.
