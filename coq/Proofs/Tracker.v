(* C15: the max tracker is a max-tree over per-slot minima. *)
From Coq Require Import List Arith ZArith Bool Lia ZifyNat ZifyBool.
From PMH Require Import Lib.ListArr Model.Tracker.
Import ListNotations.
Open Scope Z_scope.

Ltac Zify.zify_post_hook ::= Z.div_mod_to_equations.

Definition wf (m : nat) (vals : list Z) : Prop := (1 <= m)%nat /\ length vals = (2 * m - 1)%nat.
Definition node_ok (m : nat) (vals : list Z) (p : nat) : Prop :=
  nthz vals p = Z.max (nthz vals (2 * (p - m))) (nthz vals (2 * (p - m) + 1)).
Definition internal (m p : nat) : Prop := (m <= p <= 2 * m - 2)%nat.
Definition inv (m : nat) (vals : list Z) : Prop := forall p, internal m p -> node_ok m vals p.
Definition inv_except (m : nat) (vals : list Z) (q : nat) : Prop :=
  forall p, internal m p -> p <> q -> node_ok m vals p.

Lemma xor1_spec k : xor1 k = (if Nat.even k then k + 1 else k - 1)%nat.
Proof. unfold xor1. destruct (Nat.even k); lia. Qed.

Lemma even_div2 k : Nat.even k = true -> (k = 2 * (k / 2))%nat.
Proof.
  intros H. apply Nat.even_spec in H. destruct H as [q ->].
  rewrite Nat.mul_comm, Nat.div_mul by lia. lia.
Qed.
Lemma odd_div2 k : Nat.even k = false -> (k = 2 * (k / 2) + 1)%nat.
Proof.
  intros H. assert (Ho : Nat.odd k = true) by (rewrite <- Nat.negb_even, H; reflexivity).
  apply Nat.odd_spec in Ho. destruct Ho as [q ->].
  replace (2 * q + 1)%nat with (1 + q * 2)%nat by lia.
  rewrite Nat.div_add by lia. simpl. lia.
Qed.

(* children of the parent of ck are exactly ck and its sibling *)
Lemma parent_children m ck : (ck <= 2 * m - 3)%nat -> (2 <= m)%nat ->
  let p := (m + ck / 2)%nat in
  internal m p /\ (ck < p)%nat /\
  ((2 * (p - m) = ck /\ 2 * (p - m) + 1 = xor1 ck) \/
   (2 * (p - m) = xor1 ck /\ 2 * (p - m) + 1 = ck))%nat.
Proof.
  intros Hck Hm p. unfold p, internal. rewrite xor1_spec.
  destruct (Nat.even ck) eqn:He.
  - apply even_div2 in He. split; [lia|]. split; [lia|]. left. lia.
  - apply odd_div2 in He. split; [lia|]. split; [lia|]. right. lia.
Qed.

Lemma nthz_upd_eq l i v : (i < length l)%nat -> nthz (upd l i v) i = v.
Proof. apply nth_upd_eq. Qed.
Lemma nthz_upd_neq l i j v : i <> j -> nthz (upd l i v) j = nthz l j.
Proof. apply nth_upd_neq. Qed.

(* ------------------------------------------------------------------ *)
(* the loop *)

Lemma t_loop_ok fuel : forall m vals ck cv,
  wf m vals -> (ck <= 2 * m - 2)%nat -> (2 * m - 2 - ck < fuel)%nat ->
  cv < nthz vals ck ->
  inv_except m vals ck ->
  (internal m ck -> cv = Z.max (nthz vals (2 * (ck - m))) (nthz vals (2 * (ck - m) + 1))) ->
  exists vals', t_loop fuel m vals ck cv = Ok vals' /\
    length vals' = length vals /\ inv m vals' /\
    (forall j, (j < m)%nat -> j <> ck -> nthz vals' j = nthz vals j) /\
    ((ck < m)%nat -> nthz vals' ck = cv).
Proof.
  induction fuel as [|f IH]; intros m vals ck cv [Hm Hlen] Hck Hfuel Hlt Hinv Hc; [lia|].
  cbn [t_loop].
  assert (Hckl : (ck < length vals)%nat) by lia.
  destruct (Nat.ltb_spec ck (length vals)) as [_|]; [|lia]. cbn [negb].
  set (vals1 := upd vals ck cv).
  assert (Hlen1 : length vals1 = length vals) by apply upd_length.
  (* after the write every internal node except the parent is consistent *)
  assert (Hinv1 : inv_except m vals1 (m + ck / 2)).
  { intros p Hp Hne. unfold node_ok. destruct (Nat.eq_dec p ck) as [->|Hpc].
    - unfold vals1. rewrite nthz_upd_eq by lia. unfold internal in Hp.
      rewrite !nthz_upd_neq by lia. apply Hc; exact Hp.
    - specialize (Hinv p Hp Hpc). unfold node_ok in Hinv. unfold vals1.
      rewrite (nthz_upd_neq vals ck p) by lia.
      unfold internal in Hp.
      assert (2 * (p - m) <> ck /\ 2 * (p - m) + 1 <> ck)%nat.
      { destruct (Nat.even ck) eqn:He; [apply even_div2 in He|apply odd_div2 in He]; lia. }
      rewrite !nthz_upd_neq by lia. exact Hinv. }
  destruct (Nat.ltb_spec (2 * m - 2) (m + ck / 2)) as [Hroot|Hnr].
  - (* ck is the root *)
    exists vals1. split; [reflexivity|]. split; [exact Hlen1|]. split.
    + intros p Hp. apply Hinv1; [exact Hp|]. unfold internal in Hp. lia.
    + split.
      * intros j Hj Hne. unfold vals1. apply nthz_upd_neq. lia.
      * intros _. unfold vals1. apply nthz_upd_eq. lia.
  - assert (Hck3 : (ck <= 2 * m - 3)%nat) by lia.
    assert (Hm2 : (2 <= m)%nat) by lia.
    destruct (parent_children m ck Hck3 Hm2) as [Hpi [Hcp Hch]].
    set (p := (m + ck / 2)%nat) in *.
    assert (Hsibl : (xor1 ck < length vals)%nat).
    { rewrite xor1_spec. destruct (Nat.even ck) eqn:He; [apply even_div2 in He|apply odd_div2 in He]; lia. }
    assert (Hpl : (p < length vals)%nat) by (unfold internal in Hpi; lia).
    destruct (Nat.ltb_spec (xor1 ck) (length vals)) as [_|]; [|lia].
    destruct (Nat.ltb_spec p (length vals)) as [_|]; [|lia]. cbn [negb orb].
    assert (Hsne : xor1 ck <> ck).
    { rewrite xor1_spec. destruct (Nat.even ck) eqn:He; [lia|apply odd_div2 in He; lia]. }
    assert (Hvs : nthz vals1 (xor1 ck) = nthz vals (xor1 ck)) by (unfold vals1; apply nthz_upd_neq; lia).
    assert (Hvp : nthz vals1 p = nthz vals p) by (unfold vals1; apply nthz_upd_neq; lia).
    assert (Hvc : nthz vals1 ck = cv) by (unfold vals1; apply nthz_upd_eq; lia).
    (* the old invariant at the parent *)
    assert (Hold : nthz vals p = Z.max (nthz vals ck) (nthz vals (xor1 ck))).
    { assert (Hn := Hinv p Hpi ltac:(lia)). unfold node_ok in Hn.
      destruct Hch as [[H1 H2]|[H1 H2]]; rewrite H2, H1 in Hn; lia. }
    rewrite Hvs, Hvp.
    destruct (Z.leb_spec (nthz vals (xor1 ck)) (nthz vals p)) as [_|]; [|lia]. cbn [negb].
    destruct (Z.leb_spec cv (nthz vals p)) as [_|]; [|lia]. cbn [negb].
    destruct (Z.leb_spec (nthz vals p) cv) as [|_]; [lia|]. rewrite andb_false_r.
    set (cv' := if cv <? nthz vals (xor1 ck) then nthz vals (xor1 ck) else cv).
    assert (Hcv' : cv' = Z.max cv (nthz vals (xor1 ck))).
    { unfold cv'. destruct (Z.ltb_spec cv (nthz vals (xor1 ck))); lia. }
    assert (Hnew : cv' = Z.max (nthz vals1 (2 * (p - m))) (nthz vals1 (2 * (p - m) + 1))).
    { destruct Hch as [[H1 H2]|[H1 H2]]; rewrite H2, H1, Hvs, Hvc; lia. }
    destruct (Z.leb_spec (nthz vals p) cv') as [Hstop|Hgo].
    + (* parent already holds the new maximum *)
      exists vals1. split; [reflexivity|]. split; [exact Hlen1|]. split.
      * intros q Hq. destruct (Nat.eq_dec q p) as [->|Hqp].
        -- unfold node_ok. rewrite Hvp, <- Hnew. lia.
        -- apply Hinv1; assumption.
      * split.
        -- intros j Hj Hne. unfold vals1. apply nthz_upd_neq. lia.
        -- intros _. exact Hvc.
    + destruct (IH m vals1 p cv') as [vals' [Hrun [Hl' [Hi' [Hleaf' _]]]]].
      * split; [exact Hm|]. rewrite Hlen1. exact Hlen.
      * unfold internal in Hpi. lia.
      * lia.
      * rewrite Hvp. exact Hgo.
      * exact Hinv1.
      * intros _. exact Hnew.
      * exists vals'. split; [exact Hrun|]. split; [lia|]. split; [exact Hi'|].
        unfold internal in Hpi. split.
        -- intros j Hj Hne. rewrite Hleaf' by lia. unfold vals1. apply nthz_upd_neq. lia.
        -- intros Hckm. rewrite Hleaf' by lia. exact Hvc.
Qed.

(* ------------------------------------------------------------------ *)
(* update *)

Definition twf (t : tracker) : Prop := wf (tm t) (tvals t) /\ inv (tm t) (tvals t).

Lemma t_update_ok t k v : twf t -> (k < tm t)%nat ->
  exists t', t_update t k v = Ok t' /\ twf t' /\ tm t' = tm t /\ tmax t' = tmax t /\
    (forall j, (j < tm t)%nat -> j <> k -> t_get_value t' j = t_get_value t j) /\
    t_get_value t' k = Z.min (t_get_value t k) v.
Proof.
  intros [[Hm Hlen] Hinv] Hk. unfold t_update.
  destruct (Nat.ltb_spec k (tm t)) as [_|]; [|lia]. cbn [negb].
  unfold t_get_value.
  destruct (Z.ltb_spec v (nthz (tvals t) k)) as [Hlt|Hge].
  - destruct (t_loop_ok (2 * tm t) (tm t) (tvals t) k v) as [vals' [Hrun [Hl [Hi [Hleaf Hk']]]]].
    + split; assumption.
    + lia.
    + lia.
    + exact Hlt.
    + intros p Hp _. apply Hinv; exact Hp.
    + unfold internal. lia.
    + rewrite Hrun. cbn [bind]. eexists. split; [reflexivity|]. unfold twf, wf. cbn [tm tvals tmax].
      split; [split; [split; [exact Hm|rewrite Hl; exact Hlen]|exact Hi]|].
      split; [reflexivity|]. split; [reflexivity|]. split; [exact Hleaf|].
      rewrite Hk' by exact Hk. lia.
  - exists t. split; [reflexivity|]. split; [split; [split|]; assumption|].
    split; [reflexivity|]. split; [reflexivity|]. split; [reflexivity|]. lia.
Qed.

(* ------------------------------------------------------------------ *)
(* new, reset *)

Lemma nthz_repeat x n i : (i < n)%nat -> nthz (repeat x n) i = x.
Proof. unfold nthz. revert i; induction n as [|n IH]; intros [|i] H; simpl; try lia; auto. apply IH; lia. Qed.

Lemma t_new_ok maxv m : (1 <= m)%nat ->
  exists t, t_new maxv m = Ok t /\ twf t /\ tm t = m /\ tmax t = maxv /\
    (forall j, (j < 2 * m - 1)%nat -> t_get_value t j = maxv).
Proof.
  intros Hm. destruct m as [|m']; [lia|]. eexists. split; [reflexivity|]. unfold twf, wf. cbn [tm tvals tmax].
  split.
  - split; [split; [lia|apply repeat_length]|].
    intros p Hp. unfold node_ok, internal in *. rewrite !nthz_repeat by lia. lia.
  - split; [reflexivity|]. split; [reflexivity|]. intros j Hj. unfold t_get_value; cbn [tvals].
    apply nthz_repeat; exact Hj.
Qed.

Lemma map_const_repeat {A B} (f : A -> B) (c : B) (l : list A) :
  (forall a, f a = c) -> map f l = repeat c (length l).
Proof. intros H; induction l; simpl; [reflexivity|]. rewrite H, IHl. reflexivity. Qed.

Lemma t_reset_is_new t : wf (tm t) (tvals t) -> t_new (tmax t) (tm t) = Ok (t_reset t).
Proof.
  intros [Hm Hlen]. unfold t_new, t_reset. destruct (tm t) as [|m'] eqn:E; [lia|].
  f_equal. f_equal. rewrite (map_const_repeat _ (tmax t)) by reflexivity. rewrite Hlen. reflexivity.
Qed.

(* ------------------------------------------------------------------ *)
(* the root is the maximum of the leaves *)

Lemma le_root m vals : wf m vals -> inv m vals ->
  forall d n, (2 * m - 2 - n <= d)%nat -> (n <= 2 * m - 2)%nat -> nthz vals n <= nthz vals (2 * m - 2).
Proof.
  intros [Hm Hlen] Hinv. induction d as [|d IH]; intros n Hd Hn.
  - replace n with (2 * m - 2)%nat by lia. lia.
  - destruct (Nat.eq_dec n (2 * m - 2)) as [->|Hne]; [lia|].
    assert (Hn3 : (n <= 2 * m - 3)%nat) by lia. assert (Hm2 : (2 <= m)%nat) by lia.
    destruct (parent_children m n Hn3 Hm2) as [Hpi [Hnp Hch]].
    assert (Hp := Hinv _ Hpi). unfold node_ok in Hp. unfold internal in Hpi.
    apply Z.le_trans with (nthz vals (m + n / 2)).
    + destruct Hch as [[H1 H2]|[H1 H2]]; rewrite H2, H1 in Hp; lia.
    + apply IH; lia.
Qed.

Lemma some_leaf m vals : wf m vals -> inv m vals ->
  forall b n, (n <= b)%nat -> (n <= 2 * m - 2)%nat -> exists k, (k < m)%nat /\ nthz vals k = nthz vals n.
Proof.
  intros [Hm Hlen] Hinv. induction b as [|b IH]; intros n Hb Hn.
  - exists 0%nat. replace n with 0%nat by lia. split; [lia|reflexivity].
  - destruct (Nat.lt_ge_cases n m) as [Hl|Hi]; [exists n; split; [exact Hl|reflexivity]|].
    assert (Hp := Hinv n ltac:(unfold internal; lia)). unfold node_ok in Hp.
    destruct (Z.max_spec (nthz vals (2 * (n - m))) (nthz vals (2 * (n - m) + 1))) as [[_ He]|[_ He]];
      rewrite He in Hp; rewrite Hp; apply IH; lia.
Qed.

Theorem root_is_max t : twf t ->
  (forall k, (k < tm t)%nat -> t_get_value t k <= t_get_max t) /\
  (exists k, (k < tm t)%nat /\ t_get_value t k = t_get_max t).
Proof.
  intros [Hwf Hinv]. unfold t_get_value, t_get_max. split.
  - intros k Hk. apply (le_root _ _ Hwf Hinv (2 * tm t)); destruct Hwf; lia.
  - apply (some_leaf _ _ Hwf Hinv (2 * tm t)); destruct Hwf; lia.
Qed.

(* ------------------------------------------------------------------ *)
(* histories *)

(* the abstract specification: per-slot minimum of everything offered since the last reset *)
Definition spec_leaf (maxv : Z) (ops : list top) (k : nat) : Z :=
  fold_left (fun acc o => match o with
                          | TUpdate k' v => if Nat.eqb k' k then Z.min acc v else acc
                          | TReset => maxv
                          | TProbe _ => acc end) ops maxv.

Definition ops_valid (m : nat) (ops : list top) : Prop :=
  Forall (fun o => match o with TUpdate k _ => (k < m)%nat | _ => True end) ops.

Lemma t_reset_ok t : twf t -> twf (t_reset t) /\ tm (t_reset t) = tm t /\ tmax (t_reset t) = tmax t /\
  forall j, (j < 2 * tm t - 1)%nat -> t_get_value (t_reset t) j = tmax t.
Proof.
  intros [Hwf _]. assert (H := t_reset_is_new t Hwf).
  destruct (t_new_ok (tmax t) (tm t)) as [t' [Hn [Htw [Hm [Hx Hv]]]]]; [destruct Hwf; lia|].
  rewrite Hn in H. injection H as <-. auto.
Qed.

Lemma t_run_ok : forall ops t obs0 (leaf0 : nat -> Z),
  twf t -> ops_valid (tm t) ops ->
  (forall k, (k < tm t)%nat -> t_get_value t k = leaf0 k) ->
  exists t' obs, t_run t ops obs0 = Ok (t', obs) /\ twf t' /\ tm t' = tm t /\ tmax t' = tmax t /\
    forall k, (k < tm t)%nat ->
      t_get_value t' k =
      fold_left (fun acc o => match o with
                              | TUpdate k' v => if Nat.eqb k' k then Z.min acc v else acc
                              | TReset => tmax t
                              | TProbe _ => acc end) ops (leaf0 k).
Proof.
  induction ops as [|o ops IH]; intros t obs0 leaf0 Htw Hval Hleaf.
  - exists t, (rev obs0). cbn. auto.
  - inversion Hval as [|? ? Ho Hrest]; subst. cbn [t_run fold_left].
    destruct o as [k v| |v]; cbn [t_step].
    + destruct (t_update_ok t k v Htw Ho) as [t1 [Hu [Htw1 [Hm1 [Hx1 [Hoth Hk]]]]]].
      rewrite Hu. cbn [bind].
      destruct (IH t1 (t_get_max t1 :: obs0)
                  (fun j => if Nat.eqb k j then Z.min (leaf0 j) v else leaf0 j))
        as [t' [obs [Hr [Htw' [Hm' [Hx' Hl']]]]]].
      * exact Htw1.
      * rewrite Hm1. exact Hrest.
      * intros j Hj. rewrite Hm1 in Hj. destruct (Nat.eqb_spec k j) as [<-|Hne].
        -- rewrite Hk, Hleaf by lia. reflexivity.
        -- rewrite Hoth by lia. apply Hleaf; exact Hj.
      * exists t', obs. split; [exact Hr|]. split; [exact Htw'|]. split; [lia|]. split; [congruence|].
        intros j Hj. rewrite Hl' by lia. rewrite Hx1. reflexivity.
    + destruct (t_reset_ok t Htw) as [Htw1 [Hm1 [Hx1 Hv1]]]. cbn [bind].
      destruct (IH (t_reset t) (t_get_max (t_reset t) :: obs0) (fun _ => tmax t))
        as [t' [obs [Hr [Htw' [Hm' [Hx' Hl']]]]]].
      * exact Htw1.
      * rewrite Hm1. exact Hrest.
      * intros j Hj. rewrite Hm1 in Hj. apply Hv1. destruct Htw as [[? ?] _]. lia.
      * exists t', obs. split; [exact Hr|]. split; [exact Htw'|]. split; [lia|]. split; [congruence|].
        intros j Hj. rewrite Hl' by lia. rewrite Hx1. reflexivity.
    + cbn [bind].
      destruct (IH t ((if t_is_update_possible t v then 1 else 0) :: obs0) leaf0 Htw Hrest Hleaf)
        as [t' [obs [Hr H']]].
      exists t', obs. split; [exact Hr|exact H'].
Qed.

(* Main theorem: from new, after ANY valid history, no error outcome, the tree is consistent,
   each slot holds the minimum offered since the last reset, the root holds the largest slot
   value, is_update_possible v <-> v < that maximum. *)
Theorem tracker_history maxv m ops : (1 <= m)%nat -> ops_valid m ops ->
  exists t0 t obs, t_new maxv m = Ok t0 /\ t_run t0 ops [] = Ok (t, obs) /\
    twf t /\ tm t = m /\
    (forall k, (k < m)%nat -> t_get_value t k = spec_leaf maxv ops k) /\
    (forall k, (k < m)%nat -> spec_leaf maxv ops k <= t_get_max t) /\
    (exists k, (k < m)%nat /\ spec_leaf maxv ops k = t_get_max t) /\
    (forall v, t_is_update_possible t v = true <-> v < t_get_max t).
Proof.
  intros Hm Hval.
  destruct (t_new_ok maxv m Hm) as [t0 [Hn [Htw0 [Hm0 [Hx0 Hv0]]]]].
  destruct (t_run_ok ops t0 [] (fun _ => maxv) Htw0) as [t [obs [Hr [Htw [Hmt [Hxt Hl]]]]]].
  - rewrite Hm0. exact Hval.
  - intros k Hk. apply Hv0. lia.
  - exists t0, t, obs. split; [exact Hn|]. split; [exact Hr|]. split; [exact Htw|].
    split; [lia|].
    assert (Hleaf : forall k, (k < m)%nat -> t_get_value t k = spec_leaf maxv ops k).
    { intros k Hk. rewrite Hl by lia. unfold spec_leaf. rewrite Hx0. reflexivity. }
    split; [exact Hleaf|].
    destruct (root_is_max t Htw) as [Hle [k [Hk He]]].
    split; [intros j Hj; rewrite <- Hleaf by exact Hj; apply Hle; lia|].
    split; [exists k; split; [lia|rewrite <- Hleaf by lia; exact He]|].
    intros v. unfold t_is_update_possible. apply Z.ltb_lt.
Qed.

(* reset returns the tracker to the state new builds *)
Theorem tracker_reset t : twf t -> t_new (tmax t) (tm t) = Ok (t_reset t).
Proof. intros [H _]. apply t_reset_is_new; exact H. Qed.

(* non-vacuity: concrete histories on odd / even / power-of-two sizes meet the hypotheses *)
Example history_m3 :
  ops_valid 3 [TUpdate 2 5; TUpdate 0 7; TUpdate 1 7; TProbe 7; TUpdate 2 9; TReset; TUpdate 1 4].
Proof. repeat constructor. Qed.
Example run_m5 :
  bind (t_new 100 5) (fun t => t_run t [TUpdate 4 50; TUpdate 0 60; TUpdate 1 60; TUpdate 2 10; TUpdate 3 20; TProbe 60; TProbe 59] [])
  = Ok (mkT 5 100 [60; 60; 10; 20; 50; 60; 20; 60; 60], [100; 100; 100; 100; 60; 0; 1]).
Proof. vm_compute. reflexivity. Qed.
