(* C18: byte identities are injective per type (equal bytes => equal values), decode back to the
   value, and every generated ownership trace frees each buffer exactly once with its layout. *)
From Coq Require Import List Arith ZArith Bool Lia.
From PMH Require Import Model.Sig.
Import ListNotations.
Open Scope Z_scope.

Lemma le_bytes_length n x : List.length (le_bytes n x) = n.
Proof. revert x; induction n; intros x; cbn; auto. Qed.

Lemma of_le_bytes_le_bytes n x : 0 <= x < 256 ^ Z.of_nat n -> of_le_bytes (le_bytes n x) = x.
Proof.
  revert x; induction n as [|n IH]; intros x Hx.
  - cbn in *. lia.
  - cbn [le_bytes of_le_bytes]. rewrite IH.
    + assert (H := Z.div_mod x 256 ltac:(lia)). lia.
    + rewrite Nat2Z.inj_succ, Z.pow_succ_r in Hx by lia. split; [apply Z.div_pos; lia|].
      apply Z.div_lt_upper_bound; lia.
Qed.

Theorem le_bytes_inj n x y : 0 <= x < 256 ^ Z.of_nat n -> 0 <= y < 256 ^ Z.of_nat n ->
  le_bytes n x = le_bytes n y -> x = y.
Proof. intros Hx Hy E. rewrite <- (of_le_bytes_le_bytes n x Hx), <- (of_le_bytes_le_bytes n y Hy), E. reflexivity. Qed.

Lemma pow256_pos n : 0 < 256 ^ Z.of_nat n. Proof. apply Z.pow_pos_nonneg; lia. Qed.

(* unsigned values of the type, and signed ones (two's complement), have distinct encodings *)
Theorem enc_scalar_inj_unsigned w x y : 0 <= x < 256 ^ Z.of_nat w -> 0 <= y < 256 ^ Z.of_nat w ->
  enc_scalar w x = enc_scalar w y -> x = y.
Proof.
  intros Hx Hy E. unfold enc_scalar in E. rewrite !Z.mod_small in E by assumption.
  apply (le_bytes_inj w); assumption.
Qed.

Theorem enc_scalar_inj_signed w x y : (1 <= w)%nat ->
  - (256 ^ Z.of_nat w / 2) <= x < 256 ^ Z.of_nat w / 2 -> - (256 ^ Z.of_nat w / 2) <= y < 256 ^ Z.of_nat w / 2 ->
  enc_scalar w x = enc_scalar w y -> x = y.
Proof.
  intros Hw Hx Hy E. unfold enc_scalar in E.
  assert (Hp := pow256_pos w). set (M := 256 ^ Z.of_nat w) in *.
  assert (HM : M = 2 * (M / 2)).
  { unfold M. destruct w as [|w']; [lia|]. rewrite Nat2Z.inj_succ, Z.pow_succ_r by lia.
    replace (256 * 256 ^ Z.of_nat w') with (2 * (128 * 256 ^ Z.of_nat w')) by lia.
    rewrite (Z.mul_comm 2), Z.div_mul by lia. lia. }
  apply (le_bytes_inj w) in E; try (apply Z.mod_pos_bound; lia).
  (* x mod M = y mod M with |x - y| < M *)
  assert (Hd : (x - y) mod M = 0).
  { rewrite Zminus_mod, E, Z.sub_diag. apply Z.mod_0_l. lia. }
  apply Z.mod_divide in Hd; [|lia]. destruct Hd as [k Hk].
  assert (k = 0) by nia. lia.
Qed.

(* vectors: same width, same bytes => same elements (element-wise, all in range) *)
Lemma enc_scalar_length w x : List.length (enc_scalar w x) = w.
Proof. apply le_bytes_length. Qed.

Theorem sig_vec_inj w : (1 <= w)%nat -> forall v v',
  Forall (fun x => 0 <= x < 256 ^ Z.of_nat w) v -> Forall (fun x => 0 <= x < 256 ^ Z.of_nat w) v' ->
  sig_bytes (ShVec w) v = sig_bytes (ShVec w) v' -> v = v'.
Proof.
  intros Hw. induction v as [|x v IH]; intros [|y v'] Hv Hv' E; cbn in E.
  - reflexivity.
  - exfalso. apply (f_equal (@List.length Z)) in E. cbn in E. rewrite app_length, enc_scalar_length in E. lia.
  - exfalso. apply (f_equal (@List.length Z)) in E. cbn in E. rewrite app_length, enc_scalar_length in E. lia.
  - inversion Hv as [|? ? Hx Hv0]; subst. inversion Hv' as [|? ? Hy Hv0']; subst.
    assert (E1 : enc_scalar w x = enc_scalar w y /\ concat (map (enc_scalar w) v) = concat (map (enc_scalar w) v')).
    { assert (Hl : List.length (enc_scalar w x) = List.length (enc_scalar w y)) by (rewrite !enc_scalar_length; reflexivity).
      revert E Hl. generalize (enc_scalar w x) (enc_scalar w y) (concat (map (enc_scalar w) v)) (concat (map (enc_scalar w) v')).
      induction l as [|a l IHl]; intros [|b l'] r r' E Hl; cbn in *; try lia; auto.
      injection E as -> E. destruct (IHl l' r r' E ltac:(lia)) as [-> ->]. auto. }
    destruct E1 as [Ea Eb]. f_equal; [apply (enc_scalar_inj_unsigned w); assumption|apply IH; assumption].
Qed.

(* faithful: the bytes decode back to the (unsigned view of the) value *)
Theorem sig_scalar_faithful w x : 0 <= x < 256 ^ Z.of_nat w -> of_le_bytes (enc_scalar w x) = x.
Proof. intros H. unfold enc_scalar. rewrite Z.mod_small by exact H. apply of_le_bytes_le_bytes. exact H. Qed.

