(* C09 / C04 (densified one-permutation hashing), for the repaired comparison (ties broken on
   the hash):  - sketching is a per-bin minimum of (value, hash) pairs, hence set semantics;
               - nb_empty counts the unpopulated bins in every reachable state;
               - densification never touches a populated bin and fills every other bin with the
                 pair of a bin populated before; it ends with no empty bin; with fair target
                 streams it terminates; on a sketch with no populated bin it reports an error. *)
From Coq Require Import List Arith ZArith Bool Lia ZifyNat ZifyBool.
From PMH Require Import Lib.ListArr Model.ProbMinHash Model.SuperMinHash Model.DensMinHash Proofs.ProbMinHash.
Import ListNotations.
Open Scope Z_scope.

Definition W64 : Z := 2 ^ 64.
Definition enc (r hv : Z) : Z := r * W64 + hv.

Lemma enc_lt r hv r' hv' : 0 <= hv < W64 -> 0 <= hv' < W64 ->
  (enc r hv < enc r' hv' <-> (r < r' \/ (r = r' /\ hv < hv'))).
Proof. unfold enc, W64. intros H H'. split; intros; nia. Qed.
Lemma enc_inj r hv r' hv' : 0 <= hv < W64 -> 0 <= hv' < W64 -> enc r hv = enc r' hv' -> r = r' /\ hv = hv'.
Proof. unfold enc, W64. intros H H' E. split; nia. Qed.

Definition count_false (l : list bool) : nat := length (filter negb l).

Lemma count_false_upd_true l k : (k < length l)%nat ->
  count_false (upd l k true) = (if nth k l false then count_false l else count_false l - 1)%nat /\
  (nth k l false = false -> (1 <= count_false l)%nat).
Proof.
  unfold count_false. revert k; induction l as [|b l IH]; intros k Hk; [cbn in Hk; lia|].
  destruct k as [|k].
  - destruct b; cbn; split; try lia; intros; try discriminate; lia.
  - destruct (IH k ltac:(cbn in Hk; lia)) as [H1 H2]. cbn [upd nth].
    destruct b; cbn [filter negb length].
    + split; [exact H1|exact H2].
    + split.
      * rewrite H1. destruct (nth k l false) eqn:E; [reflexivity|]. specialize (H2 eq_refl). lia.
      * intros _. lia.
Qed.

(* state invariant *)
Definition dwf (s : dens) : Prop :=
  length (d_h s) = d_m s /\ length (d_v s) = d_m s /\ length (d_init s) = d_m s /\
  d_empty s = Z.of_nat (count_false (d_init s)) /\
  (forall k, (k < d_m s)%nat -> 0 <= nthz (d_v s) k < W64).

Lemma count_false_repeat n : count_false (repeat false n) = n.
Proof. unfold count_false. induction n; cbn; auto. Qed.

Lemma dens_new_wf m large : dwf (dens_new m large).
Proof.
  unfold dwf, dens_new; cbn [d_m d_h d_v d_init d_empty]. rewrite !repeat_length, count_false_repeat. repeat split; auto.
  - unfold nthz. rewrite nth_repeat_lt by assumption. unfold W64. lia.
  - unfold nthz. rewrite nth_repeat_lt by assumption. unfold W64. lia.
Qed.

(* ---------------- sketch ---------------- *)
Lemma dens_sketch_ok s r k hv : dwf s -> (k < d_m s)%nat -> 0 <= hv < W64 ->
  exists s', dens_sketch true s (r, k, hv) = Ok s' /\ dwf s' /\ d_m s' = d_m s /\
    (forall j, j <> k -> nthz (d_h s') j = nthz (d_h s) j /\ nthz (d_v s') j = nthz (d_v s) j /\
                         nthb (d_init s') j = nthb (d_init s) j) /\
    enc (nthz (d_h s') k) (nthz (d_v s') k) = Z.min (enc (nthz (d_h s) k) (nthz (d_v s) k)) (enc r hv) /\
    (nthb (d_init s') k = nthb (d_init s) k || (enc r hv <? enc (nthz (d_h s) k) (nthz (d_v s) k))).
Proof.
  intros [L1 [L2 [L3 [He Hv]]]] Hk Hhv. unfold dens_sketch.
  destruct (Nat.ltb_spec k (d_m s)) as [_|]; [|lia]. cbn [negb].
  assert (Hvk := Hv k Hk).
  assert (Hb : ((r <? nthz (d_h s) k) || ((r =? nthz (d_h s) k) && (hv <? nthz (d_v s) k))) =
               (enc r hv <? enc (nthz (d_h s) k) (nthz (d_v s) k))).
  { destruct (Z.ltb_spec (enc r hv) (enc (nthz (d_h s) k) (nthz (d_v s) k))) as [H|H].
    - apply (enc_lt _ _ _ _ Hhv Hvk) in H. destruct H as [H|[H1 H2]].
      + apply Z.ltb_lt in H. rewrite H. reflexivity.
      + subst r. rewrite Z.eqb_refl. apply Z.ltb_lt in H2. rewrite H2. apply orb_true_r.
    - destruct (Z.ltb_spec r (nthz (d_h s) k)) as [H1|H1].
      + exfalso. assert (enc r hv < enc (nthz (d_h s) k) (nthz (d_v s) k)) by (apply enc_lt; auto). lia.
      + destruct (Z.eqb_spec r (nthz (d_h s) k)) as [E|E]; [|reflexivity].
        destruct (Z.ltb_spec hv (nthz (d_v s) k)) as [H2|H2]; [|reflexivity].
        exfalso. assert (enc r hv < enc (nthz (d_h s) k) (nthz (d_v s) k)) by (apply enc_lt; auto). lia. }
  rewrite Hb.
  destruct (Z.ltb_spec (enc r hv) (enc (nthz (d_h s) k) (nthz (d_v s) k))) as [Hlt|Hge].
  - eexists. split; [reflexivity|]. cbn [d_m d_h d_v d_init d_empty].
    destruct (count_false_upd_true (d_init s) k ltac:(lia)) as [Hc Hpos].
    split.
    + unfold dwf; cbn [d_m d_h d_v d_init d_empty]. rewrite !upd_length.
      split; [exact L1|]. split; [exact L2|]. split; [exact L3|]. split.
      * rewrite Hc. unfold nthb. destruct (nth k (d_init s) false) eqn:E; [exact He|].
        specialize (Hpos eq_refl). lia.
      * intros j Hj. unfold nthz. destruct (Nat.eq_dec j k) as [->|Hne]; [rewrite nth_upd_eq by lia; exact Hhv|].
        rewrite nth_upd_neq by lia. apply Hv; assumption.
    + split; [reflexivity|]. split.
      * intros j Hne. unfold nthz, nthb. rewrite !nth_upd_neq by lia. auto.
      * unfold nthz, nthb in *. rewrite !nth_upd_eq by lia. split; [lia|]. symmetry; apply orb_true_r.
  - exists s. split; [reflexivity|]. split; [unfold dwf; auto 10|]. split; [reflexivity|].
    split; [auto|]. split; [lia|]. rewrite orb_false_r. reflexivity.
Qed.

(* per-bin specification through the minimum of the encoded pairs, re-using min_at of the
   ProbMinHash development: a streamed item is the tagged point (hash, enc r hash, bin) *)
Definition dtag (its : list (Z * nat * Z)) : list tpoint := map (fun '(r, k, hv) => (hv, enc r hv, k)) its.
Definition items_ok (m : nat) (its : list (Z * nat * Z)) : Prop :=
  forall r k hv, In (r, k, hv) its -> (k < m)%nat /\ 0 <= hv < W64.

Lemma dens_items_spec : forall its s, dwf s -> items_ok (d_m s) its ->
  exists s', dens_items true s its = Ok s' /\ dwf s' /\ d_m s' = d_m s /\
    forall k, (k < d_m s)%nat ->
      enc (nthz (d_h s') k) (nthz (d_v s') k) = min_at (dtag its) (enc (nthz (d_h s) k) (nthz (d_v s) k)) k /\
      nthb (d_init s') k = nthb (d_init s) k ||
        (min_at (dtag its) (enc (nthz (d_h s) k) (nthz (d_v s) k)) k <? enc (nthz (d_h s) k) (nthz (d_v s) k)).
Proof.
  induction its as [|[[r k] hv] rest IH]; intros s Wf Ok.
  - exists s. split; [reflexivity|]. split; [exact Wf|]. split; [reflexivity|]. intros k Hk. cbn.
    split; [reflexivity|]. rewrite Z.ltb_irrefl, orb_false_r. reflexivity.
  - cbn [dens_items]. destruct (Ok r k hv ltac:(cbn; auto)) as [Hk Hhv].
    destruct (dens_sketch_ok s r k hv Wf Hk Hhv) as [s1 [E1 [Wf1 [M1 [Hoth [Henc Hin]]]]]].
    rewrite E1. cbn [bind].
    destruct (IH s1 Wf1) as [s2 [E2 [Wf2 [M2 Hspec]]]].
    + intros r' k' hv' H. rewrite M1. apply (Ok r' k' hv'). cbn; auto.
    + exists s2. split; [exact E2|]. split; [exact Wf2|]. split; [lia|].
      intros j Hj. destruct (Hspec j ltac:(lia)) as [S1 S2]. cbn [dtag map min_at].
      fold (dtag rest).
      destruct (Nat.eqb_spec k j) as [->|Hne].
      * rewrite S1, S2, Henc, Hin.
        set (c := enc (nthz (d_h s) j) (nthz (d_v s) j)). set (e := enc r hv).
        (* min_at with a smaller initial value *)
        assert (Hm : forall P a b, min_at P (Z.min a b) j = Z.min (min_at P a j) b).
        { clear. induction P as [|[[i h] k'] P IH]; intros a b; cbn; [reflexivity|].
          rewrite IH. destruct (Nat.eqb k' j); lia. }
        rewrite Hm. split; [lia|].
        assert (Hle := min_at_le_max (dtag rest) c j).
        destruct (nthb (d_init s) j); cbn [orb]; [reflexivity|].
        destruct (Z.ltb_spec e c), (Z.ltb_spec (Z.min (min_at (dtag rest) c j) e) (Z.min c e)),
                 (Z.ltb_spec (Z.min e (Z.min (min_at (dtag rest) c j) e)) c); cbn; try reflexivity; lia.
      * destruct (Hoth j ltac:(lia)) as [H1 [H2 H3]]. rewrite S1, S2, H1, H2, H3. split; reflexivity.
Qed.

(* set semantics of the sketching phase: two streams with the same set of items (any order, any
   repetition) from a new sketcher give the same three arrays and the same nb_empty *)
Theorem dens_set_semantics m large its its' : items_ok m its -> items_ok m its' ->
  (forall x, In x its <-> In x its') ->
  exists s s', dens_items true (dens_new m large) its = Ok s /\ dens_items true (dens_new m large) its' = Ok s' /\
    d_h s = d_h s' /\ d_v s = d_v s' /\ d_init s = d_init s' /\ d_empty s = d_empty s'.
Proof.
  intros Ok1 Ok2 Hsame.
  destruct (dens_items_spec its (dens_new m large) (dens_new_wf m large) Ok1) as [s [E [Wf [M S]]]].
  destruct (dens_items_spec its' (dens_new m large) (dens_new_wf m large) Ok2) as [s' [E' [Wf' [M' S']]]].
  exists s, s'. split; [exact E|]. split; [exact E'|]. cbn [dens_new d_m] in *.
  assert (Htag : forall p, In p (dtag its) <-> In p (dtag its')).
  { intros p. unfold dtag. rewrite !in_map_iff. split; intros [x [Ex Hx]]; exists x; (split; [exact Ex|apply Hsame; exact Hx]). }
  destruct Wf as [L1 [L2 [L3 [He Hv]]]]. destruct Wf' as [L1' [L2' [L3' [He' Hv']]]].
  assert (Hpair : forall k, (k < m)%nat -> nthz (d_h s) k = nthz (d_h s') k /\ nthz (d_v s) k = nthz (d_v s') k /\
                                           nthb (d_init s) k = nthb (d_init s') k).
  { intros k Hk. destruct (S k Hk) as [A B]. destruct (S' k Hk) as [A' B'].
    rewrite (min_at_ext _ _ _ k Htag) in A, B. rewrite <- A' in A. rewrite <- B' in B.
    destruct (enc_inj _ _ _ _ (Hv k ltac:(lia)) (Hv' k ltac:(lia)) A) as [H1 H2]. auto. }
  assert (Eh : d_h s = d_h s') by (apply (nth_ext_lists _ _ m); [lia|lia|intros k Hk; apply Hpair; exact Hk]).
  assert (Ev : d_v s = d_v s') by (apply (nth_ext_lists _ _ m); [lia|lia|intros k Hk; apply Hpair; exact Hk]).
  assert (Ei : d_init s = d_init s').
  { apply (nth_ext _ _ false false); [lia|]. intros k Hk. apply Hpair. lia. }
  split; [exact Eh|]. split; [exact Ev|]. split; [exact Ei|]. rewrite He, He', Ei. reflexivity.
Qed.

(* every stored hash is the hash of a streamed item (or the initial marker on an empty bin) *)
Theorem dens_holds_streamed m large its s k : items_ok m its ->
  dens_items true (dens_new m large) its = Ok s -> (k < m)%nat ->
  nthb (d_init s) k = true -> exists r, In (r, k, nthz (d_v s) k) its /\ nthz (d_h s) k = r.
Proof.
  intros Ok E Hk Hi.
  destruct (dens_items_spec its (dens_new m large) (dens_new_wf m large) Ok) as [s' [E' [Wf [M S]]]].
  rewrite E in E'. injection E' as <-. cbn [dens_new d_m d_h d_v d_init] in S, M.
  destruct (S k Hk) as [A B]. rewrite Hi in B.
  assert (Hinit : nthb (repeat false m) k = false) by (unfold nthb; apply nth_repeat_lt; exact Hk).
  rewrite Hinit in B. cbn [orb] in B. symmetry in B. apply Z.ltb_lt in B.
  destruct (min_at_attained (dtag its) (enc (nthz (repeat large m) k) (nthz (repeat (2 ^ 64 - 1) m) k)) k) as [Em|[id Hin]]; [lia|].
  rewrite <- A in Hin. unfold dtag in Hin. apply in_map_iff in Hin. destruct Hin as [[[r k'] hv] [Ex Hin]].
  injection Ex as E1 E2 E3. subst k'. destruct (Ok r k hv Hin) as [_ Hhv].
  destruct Wf as [_ [_ [_ [_ Hv]]]].
  destruct (enc_inj _ _ _ _ Hhv (Hv k ltac:(lia)) E2) as [H1 H2]. exists r. subst. auto.
Qed.

(* ---------------- densification ---------------- *)
(* bins populated in s keep their content in s'; every bin populated in s' holds the pair of a
   bin populated in s *)
Definition dens_extends (s s' : dens) : Prop :=
  d_m s' = d_m s /\
  (forall k, nthb (d_init s) k = true ->
     nthb (d_init s') k = true /\ nthz (d_h s') k = nthz (d_h s) k /\ nthz (d_v s') k = nthz (d_v s) k) /\
  (forall k, (k < d_m s)%nat -> nthb (d_init s') k = true ->
     exists j, (j < d_m s)%nat /\ nthb (d_init s) j = true /\
               nthz (d_h s') k = nthz (d_h s) j /\ nthz (d_v s') k = nthz (d_v s) j).

Lemma dens_extends_refl s : dens_extends s s.
Proof. split; [reflexivity|]. split; [auto|]. intros k Hk Hi. exists k. auto. Qed.
Lemma dens_extends_trans a b c : dens_extends a b -> dens_extends b c -> dens_extends a c.
Proof.
  intros [M1 [K1 F1]] [M2 [K2 F2]]. split; [lia|]. split.
  - intros k Hk. destruct (K1 k Hk) as [I1 [H1 V1]]. destruct (K2 k I1) as [I2 [H2 V2]]. split; [exact I2|]. split; congruence.
  - intros k Hk Hi. destruct (F2 k ltac:(lia) Hi) as [j [Hj [Ij [Hh Hv]]]].
    destruct (F1 j ltac:(lia) Ij) as [j' [Hj' [Ij' [Hh' Hv']]]]. exists j'. repeat split; auto; congruence.
Qed.

Lemma nthb_false_overflow l k : (length l <= k)%nat -> nthb l k = false.
Proof. intros H. unfold nthb. apply nth_overflow. exact H. Qed.

(* copying a populated bin j into an unpopulated bin k *)
Lemma fill_step s k j : dwf s -> (k < d_m s)%nat -> nthb (d_init s) k = false -> nthb (d_init s) j = true ->
  let s' := mkD (d_m s) (upd (d_h s) k (nthz (d_h s) j)) (upd (d_v s) k (nthz (d_v s) j))
                (upd (d_init s) k true) (d_empty s - 1) in
  dwf s' /\ dens_extends s s' /\ nthb (d_init s') k = true /\ d_empty s' = d_empty s - 1.
Proof.
  intros [L1 [L2 [L3 [He Hv]]]] Hk Hk0 Hj s'.
  assert (Hjm : (j < d_m s)%nat).
  { destruct (Nat.lt_ge_cases j (d_m s)); [assumption|]. rewrite nthb_false_overflow in Hj by lia. discriminate. }
  assert (Hne : j <> k) by (intros ->; congruence).
  destruct (count_false_upd_true (d_init s) k ltac:(lia)) as [Hc Hpos]. unfold nthb in Hk0. rewrite Hk0 in Hc.
  specialize (Hpos Hk0).
  split; [|split; [|split]].
  - unfold dwf, s'; cbn [d_m d_h d_v d_init d_empty]. rewrite !upd_length.
    split; [exact L1|]. split; [exact L2|]. split; [exact L3|]. split; [lia|].
    intros i Hi. unfold nthz. destruct (Nat.eq_dec i k) as [->|Hn]; [rewrite nth_upd_eq by lia; apply (Hv j Hjm)|].
    rewrite nth_upd_neq by lia. apply Hv; assumption.
  - split; [reflexivity|]. split.
    + intros i Hi. assert (i <> k) by (intros ->; unfold nthb in Hi; congruence).
      unfold s', nthb, nthz; cbn [d_h d_v d_init]. rewrite !nth_upd_neq by lia. auto.
    + intros i Hi Hii. unfold s', nthb, nthz in *; cbn [d_h d_v d_init d_m] in *.
      destruct (Nat.eq_dec i k) as [->|Hn].
      * exists j. rewrite !nth_upd_eq by lia. auto.
      * rewrite nth_upd_neq in Hii by lia. exists i. rewrite !nth_upd_neq by lia. auto.
  - unfold s', nthb; cbn [d_init]. apply nth_upd_eq. lia.
  - reflexivity.
Qed.

Lemma opt_fill_ok s k : forall tg s', dwf s -> (k < d_m s)%nat -> nthb (d_init s) k = false ->
  opt_fill s k tg = Some s' ->
  dwf s' /\ dens_extends s s' /\ nthb (d_init s') k = true /\ d_empty s' = d_empty s - 1.
Proof.
  induction tg as [|j r IH]; intros s' Wf Hk Hk0 E; [discriminate|]. cbn [opt_fill] in E.
  destruct (nthb (d_init s) j) eqn:Ej.
  - injection E as <-. apply fill_step; assumption.
  - apply IH; assumption.
Qed.

(* fairness: the target stream of bin k reaches a populated bin *)
Lemma opt_fill_fair s k : forall tg, (exists j, In j tg /\ nthb (d_init s) j = true) -> exists s', opt_fill s k tg = Some s'.
Proof.
  induction tg as [|j r IH]; intros [j0 [Hin Hj0]]; [destruct Hin|]. cbn [opt_fill].
  destruct (nthb (d_init s) j) eqn:Ej; [eexists; reflexivity|].
  apply IH. destruct Hin as [->|Hin]; [congruence|]. exists j0. auto.
Qed.
Lemma opt_fill_unfair s k : forall tg, (forall j, nthb (d_init s) j = false) -> opt_fill s k tg = None.
Proof. induction tg as [|j r IH]; intros H; [reflexivity|]. cbn. rewrite (H j). apply IH. exact H. Qed.

Lemma opt_densify_from_ok targets : forall ks s s', dwf s -> (forall k, In k ks -> (k < d_m s)%nat) ->
  opt_densify_from s targets ks = DDone s' ->
  dwf s' /\ dens_extends s s' /\ d_empty s' = 0 /\ (forall k, In k ks -> nthb (d_init s') k = true).
Proof.
  induction ks as [|k r IH]; intros s s' Wf Hks E.
  - cbn in E. destruct (Z.eqb_spec (d_empty s) 0) as [E0|]; [|discriminate]. injection E as <-.
    split; [exact Wf|]. split; [apply dens_extends_refl|]. split; [exact E0|]. intros k [].
  - cbn [opt_densify_from] in E. destruct (nthb (d_init s) k) eqn:Ek.
    + destruct (IH s s' Wf ltac:(intros; apply Hks; cbn; auto) E) as [Wf' [X [E0 Hall]]].
      split; [exact Wf'|]. split; [exact X|]. split; [exact E0|].
      intros k' [<-|Hin]; [|apply Hall; exact Hin]. destruct X as [_ [K _]]. apply K. exact Ek.
    + destruct (opt_fill s k (targets k)) as [s1|] eqn:Ef; [|discriminate].
      destruct (opt_fill_ok s k _ s1 Wf (Hks k ltac:(cbn; auto)) Ek Ef) as [Wf1 [X1 [I1 _]]].
      assert (Hm1 : d_m s1 = d_m s) by (destruct X1; assumption).
      destruct (IH s1 s' Wf1 ltac:(intros k' Hk'; rewrite Hm1; apply Hks; cbn; auto) E) as [Wf' [X2 [E0 Hall]]].
      split; [exact Wf'|]. split; [eapply dens_extends_trans; eassumption|]. split; [exact E0|].
      intros k' [<-|Hin]; [|apply Hall; exact Hin]. destruct X2 as [_ [K _]]. apply K. exact I1.
Qed.

Theorem opt_densify_ok rep targets s s' : dwf s -> opt_densify rep s targets = DDone s' ->
  dwf s' /\ dens_extends s s' /\ d_empty s' = 0 /\ (forall k, (k < d_m s)%nat -> nthb (d_init s') k = true).
Proof.
  intros Wf E. unfold opt_densify in E.
  destruct (negb (has_populated s) && (0 <? d_empty s)); [destruct rep; discriminate|].
  destruct (opt_densify_from_ok targets (seq 0 (d_m s)) s s' Wf) as [A [B [C D]]].
  - intros k Hk. apply in_seq in Hk. lia.
  - exact E.
  - split; [exact A|]. split; [exact B|]. split; [exact C|]. intros k Hk. apply D. apply in_seq. lia.
Qed.

(* reverse optimal densification *)
Lemma rev_pass_ok tg : forall ks s, dwf s -> (forall k, In k ks -> (k < d_m s)%nat) ->
  (forall k, (k < d_m s)%nat -> (tg k < d_m s)%nat) ->
  dwf (rev_pass s tg ks) /\ dens_extends s (rev_pass s tg ks) /\ d_empty (rev_pass s tg ks) <= d_empty s.
Proof.
  induction ks as [|k r IH]; intros s Wf Hks Htg.
  - cbn. split; [exact Wf|]. split; [apply dens_extends_refl|lia].
  - cbn [rev_pass]. destruct (nthb (d_init s) k) eqn:Ek; [|apply IH; [exact Wf|intros; apply Hks; cbn; auto|exact Htg]].
    destruct (nthb (d_init s) (tg k)) eqn:Et; [apply IH; [exact Wf|intros; apply Hks; cbn; auto|exact Htg]|].
    assert (Hk := Hks k ltac:(cbn; auto)).
    destruct (fill_step s (tg k) k Wf (Htg k Hk) Et Ek) as [Wf1 [X1 [_ E1]]].
    match goal with |- context [rev_pass ?st tg r] => set (s1 := st) in * end.
    assert (Hm1 : d_m s1 = d_m s) by reflexivity.
    destruct (IH s1 Wf1 ltac:(intros k' Hk'; rewrite Hm1; apply Hks; cbn; auto) ltac:(rewrite Hm1; exact Htg)) as [A [B C]].
    split; [exact A|]. split; [eapply dens_extends_trans; eassumption|]. lia.
Qed.

Lemma rev_loop_ok : forall rt s s', dwf s ->
  (forall tg, In tg rt -> forall k, (k < d_m s)%nat -> (tg k < d_m s)%nat) ->
  rev_densify_loop s rt = DDone s' -> dwf s' /\ dens_extends s s' /\ d_empty s' = 0.
Proof.
  induction rt as [|tg r IH]; intros s s' Wf Htg E; cbn [rev_densify_loop] in E.
  - destruct (Z.leb_spec (d_empty s) 0); [|discriminate].
    destruct (Z.eqb_spec (d_empty s) 0) as [E0|]; [|discriminate]. injection E as <-.
    split; [exact Wf|]. split; [apply dens_extends_refl|exact E0].
  - destruct (Z.leb_spec (d_empty s) 0).
    + destruct (Z.eqb_spec (d_empty s) 0) as [E0|]; [|discriminate]. injection E as <-.
      split; [exact Wf|]. split; [apply dens_extends_refl|exact E0].
    + destruct (rev_pass_ok tg (seq 0 (d_m s)) s Wf) as [Wf1 [X1 _]].
      * intros k Hk. apply in_seq in Hk. lia.
      * apply Htg. cbn; auto.
      * assert (Hm1 : d_m (rev_pass s tg (seq 0 (d_m s))) = d_m s) by (destruct X1; assumption).
        destruct (IH _ s' Wf1 ltac:(intros tg' Hin; rewrite Hm1; apply Htg; cbn; auto) E) as [A [B C]].
        split; [exact A|]. split; [eapply dens_extends_trans; eassumption|exact C].
Qed.

Lemma count_false_zero l : count_false l = 0%nat -> forall k, (k < length l)%nat -> nth k l false = true.
Proof.
  unfold count_false. induction l as [|b l IH]; intros H k Hk; [cbn in Hk; lia|].
  destruct b; cbn in H; [|discriminate]. destruct k; [reflexivity|]. apply IH; [exact H|cbn in Hk; lia].
Qed.

Theorem rev_densify_ok rep rt s s' : dwf s ->
  (forall tg, In tg rt -> forall k, (k < d_m s)%nat -> (tg k < d_m s)%nat) ->
  rev_densify rep s rt = DDone s' ->
  dwf s' /\ dens_extends s s' /\ d_empty s' = 0 /\ (forall k, (k < d_m s)%nat -> nthb (d_init s') k = true).
Proof.
  intros Wf Htg E. unfold rev_densify in E.
  destruct (negb (has_populated s) && (0 <? d_empty s)); [destruct rep; discriminate|].
  destruct (rev_loop_ok rt s s' Wf Htg E) as [A [B C]].
  split; [exact A|]. split; [exact B|]. split; [exact C|].
  intros k Hk. destruct A as [_ [_ [L3 [He _]]]]. destruct B as [Hm _].
  unfold nthb. apply count_false_zero; lia.
Qed.

(* on a sketch with no populated bin the repaired code reports an error; the original would
   never return: no finite target data fills any bin *)
Theorem densify_empty_reports s targets rt : has_populated s = false -> 0 < d_empty s ->
  opt_densify true s targets = DFail 2 /\ rev_densify true s rt = DFail 2.
Proof.
  intros H E. unfold opt_densify, rev_densify. rewrite H. cbn [negb andb].
  destruct (Z.ltb_spec 0 (d_empty s)); [auto|lia].
Qed.

Lemma has_populated_false s : has_populated s = false -> forall j, nthb (d_init s) j = false.
Proof.
  unfold has_populated, nthb. intros H j. destruct (nth j (d_init s) false) eqn:E; [|reflexivity].
  assert (Hin : In true (d_init s)).
  { destruct (Nat.lt_ge_cases j (length (d_init s))); [rewrite <- E; apply nth_In; assumption|].
    rewrite nth_overflow in E by lia. discriminate. }
  assert (existsb (fun b => b) (d_init s) = true) by (apply existsb_exists; exists true; auto). congruence.
Qed.

Theorem densify_empty_never_fills s k tg : has_populated s = false -> opt_fill s k tg = None.
Proof. intros H. apply opt_fill_unfair. apply has_populated_false. exact H. Qed.

(* with at least one populated bin and fair target streams optimal densification terminates *)
Lemma populated_preserved s s' : dens_extends s s' -> forall j, nthb (d_init s) j = true -> nthb (d_init s') j = true.
Proof. intros [_ [K _]] j H. apply K. exact H. Qed.

Lemma opt_from_terminates targets : forall ks s, dwf s -> (forall k, In k ks -> (k < d_m s)%nat) ->
  (forall k, In k ks -> exists j, In j (targets k) /\ nthb (d_init s) j = true) ->
  exists r, opt_densify_from s targets ks = r /\ r <> DExhausted /\ r <> DHang.
Proof.
  induction ks as [|k r IH]; intros s Wf Hks Hfair.
  - cbn. destruct (d_empty s =? 0); eexists; (split; [reflexivity|split; discriminate]).
  - cbn [opt_densify_from]. destruct (nthb (d_init s) k) eqn:Ek.
    + apply IH; [exact Wf|intros; apply Hks; cbn; auto|intros; apply Hfair; cbn; auto].
    + destruct (opt_fill_fair s k (targets k) (Hfair k ltac:(cbn; auto))) as [s1 Ef]. rewrite Ef.
      destruct (opt_fill_ok s k _ s1 Wf (Hks k ltac:(cbn; auto)) Ek Ef) as [Wf1 [X1 _]].
      assert (Hm1 : d_m s1 = d_m s) by (destruct X1; assumption).
      apply IH; [exact Wf1|intros k' Hk'; rewrite Hm1; apply Hks; cbn; auto|].
      intros k' Hk'. destruct (Hfair k' ltac:(cbn; auto)) as [j [Hin Hj]]. exists j. split; [exact Hin|].
      eapply populated_preserved; eassumption.
Qed.

Theorem opt_densify_terminates targets s : dwf s ->
  (forall k, (k < d_m s)%nat -> exists j, In j (targets k) /\ nthb (d_init s) j = true) ->
  opt_densify true s targets <> DExhausted /\ opt_densify true s targets <> DHang.
Proof.
  intros Wf Hfair. unfold opt_densify.
  destruct (negb (has_populated s) && (0 <? d_empty s)); [split; discriminate|].
  destruct (opt_from_terminates targets (seq 0 (d_m s)) s Wf) as [r [E [H1 H2]]].
  - intros k Hk. apply in_seq in Hk. lia.
  - intros k Hk. apply Hfair. apply in_seq in Hk. lia.
  - rewrite E. auto.
Qed.

(* ---------------- C08: when do two sketches collide on a bin (before densification)? ---------------- *)
(* exactly when an item common to both sets attains the per-bin minimum of the union *)
Theorem dens_collision_iff m large A B sA sB k :
  items_ok m A -> items_ok m B ->
  (forall r k' hv, In (r, k', hv) (A ++ B) -> r < large) ->
  dens_items true (dens_new m large) A = Ok sA -> dens_items true (dens_new m large) B = Ok sB -> (k < m)%nat ->
  let E0 := enc large (2 ^ 64 - 1) in
  (nthb (d_init sA) k = true /\ nthb (d_init sB) k = true /\
   nthz (d_h sA) k = nthz (d_h sB) k /\ nthz (d_v sA) k = nthz (d_v sB) k)
  <->
  (exists r hv, In (r, k, hv) A /\ In (r, k, hv) B /\ enc r hv = min_at (dtag (A ++ B)) E0 k).
Proof.
  intros OkA OkB Hr RA RB Hk E0.
  destruct (dens_items_spec A (dens_new m large) (dens_new_wf m large) OkA) as [sA' [EA [WfA [MA SA]]]].
  destruct (dens_items_spec B (dens_new m large) (dens_new_wf m large) OkB) as [sB' [EB [WfB [MB SB]]]].
  rewrite RA in EA. injection EA as <-. rewrite RB in EB. injection EB as <-.
  cbn [dens_new d_m d_h d_v d_init] in SA, SB, MA, MB.
  destruct (SA k Hk) as [a1 a2]. destruct (SB k Hk) as [b1 b2].
  assert (Hi0 : nthb (repeat false m) k = false) by (unfold nthb; apply nth_repeat_lt; exact Hk).
  assert (He0 : enc (nthz (repeat large m) k) (nthz (repeat (2 ^ 64 - 1) m) k) = E0).
  { unfold nthz. rewrite !nth_repeat_lt by exact Hk. reflexivity. }
  rewrite Hi0 in a2, b2. cbn [orb] in a2, b2. rewrite He0 in *.
  set (a := min_at (dtag A) E0 k) in *. set (b := min_at (dtag B) E0 k) in *.
  assert (Hunion : min_at (dtag (A ++ B)) E0 k = Z.min a b).
  { unfold dtag. rewrite map_app. apply min_at_app. }
  assert (HvA : 0 <= nthz (d_v sA) k < W64) by (destruct WfA as [_ [_ [_ [_ H]]]]; apply H; lia).
  assert (HvB : 0 <= nthz (d_v sB) k < W64) by (destruct WfB as [_ [_ [_ [_ H]]]]; apply H; lia).
  assert (Hlt : forall r k' hv, In (r, k', hv) (A ++ B) -> 0 <= hv < W64 -> enc r hv < E0).
  { intros r k' hv Hin Hhv. specialize (Hr r k' hv Hin). unfold E0, enc, W64 in *. nia. }
  (* a point of dtag L at bin k with key e comes from an item (r, k, hv) of L with enc r hv = e *)
  assert (Hpt : forall L id e, In (id, e, k) (dtag L) -> exists r, In (r, k, id) L /\ enc r id = e).
  { intros L id e Hin. unfold dtag in Hin. apply in_map_iff in Hin. destruct Hin as [[[r k'] hv] [E Hin]].
    injection E as <- <- <-. exists r. auto. }
  rewrite Hunion. split.
  - intros [IA [IB [Hh Hv]]].
    rewrite IA in a2. rewrite IB in b2. symmetry in a2, b2. apply Z.ltb_lt in a2, b2.
    assert (Eab : a = b) by (rewrite <- a1, <- b1, Hh, Hv; reflexivity).
    destruct (min_at_attained (dtag A) E0 k) as [E|[id Hin]]; [fold a in E; lia|]. fold a in Hin.
    destruct (min_at_attained (dtag B) E0 k) as [E|[id' Hin']]; [fold b in E; lia|]. fold b in Hin'.
    destruct (Hpt A id a Hin) as [r [HinA Er]]. destruct (Hpt B id' b Hin') as [r' [HinB Er']].
    destruct (OkA r k id HinA) as [_ Hid]. destruct (OkB r' k id' HinB) as [_ Hid'].
    assert (Heq : enc r id = enc r' id') by congruence.
    destruct (enc_inj _ _ _ _ Hid Hid' Heq) as [-> ->].
    exists r', id'. split; [exact HinA|]. split; [exact HinB|]. rewrite Er. lia.
  - intros [r [hv [HinA [HinB Hmin]]]].
    assert (Ha := min_at_le (dtag A) E0 k hv (enc r hv) ltac:(unfold dtag; apply in_map_iff; exists (r, k, hv); auto)). fold a in Ha.
    assert (Hb := min_at_le (dtag B) E0 k hv (enc r hv) ltac:(unfold dtag; apply in_map_iff; exists (r, k, hv); auto)). fold b in Hb.
    destruct (OkA r k hv HinA) as [_ Hhv].
    assert (Hl := Hlt r k hv ltac:(apply in_app_iff; auto) Hhv).
    assert (Ea : a = enc r hv) by lia. assert (Eb : b = enc r hv) by lia.
    assert (IA : nthb (d_init sA) k = true) by (rewrite a2; apply Z.ltb_lt; lia).
    assert (IB : nthb (d_init sB) k = true) by (rewrite b2; apply Z.ltb_lt; lia).
    split; [exact IA|]. split; [exact IB|].
    assert (Heq : enc (nthz (d_h sA) k) (nthz (d_v sA) k) = enc (nthz (d_h sB) k) (nthz (d_v sB) k)) by congruence.
    destruct (enc_inj _ _ _ _ HvA HvB Heq) as [H1 H2]. auto.
Qed.
