(* C17: lazy Fisher-Yates.  Index bound, block permutations, reset forgets history,
   choice vectors <-> permutations. *)
From Coq Require Import List Arith ZArith Bool Lia Permutation ZifyNat ZifyBool.
From PMH Require Import Lib.ListArr Model.FYShuffle.
Import ListNotations.

(* ------------------------------------------------------------------ *)
(* 1. the index never leaves [lastidx, m) : integer round-to-nearest-even layer *)

Lemma rne_mul_floor_range k n : (0 <= k < 2 ^ 52)%Z -> (1 <= n <= 2 ^ 53)%Z ->
  (0 <= rne_mul_floor k n < n)%Z.
Proof.
  intros Hk Hn. unfold rne_mul_floor. set (K := (k * n)%Z).
  assert (HK0 : (0 <= K)%Z) by (unfold K; nia).
  assert (HKu : (K <= 2 ^ 52 * n - n)%Z) by (unfold K; nia).
  destruct (Z.ltb_spec K (2 ^ 53)) as [Hs|Hb].
  - split; [apply Z.div_pos; lia|]. apply Z.div_lt_upper_bound; lia.
  - assert (HKp : (0 < K)%Z) by lia.
    destruct (Z.log2_spec K HKp) as [Hl1 Hl2].
    set (L := Z.log2 K) in *.
    assert (HL53 : (53 <= L)%Z).
    { destruct (Z_lt_le_dec L 53) as [Hlt|]; [|assumption]. exfalso.
      assert (2 ^ Z.succ L <= 2 ^ 53)%Z by (apply Z.pow_le_mono_r; lia). lia. }
    assert (HL104 : (L <= 104)%Z).
    { destruct (Z_le_gt_dec L 104) as [|Hgt]; [assumption|exfalso].
      assert (2 ^ 105 <= 2 ^ L)%Z by (apply Z.pow_le_mono_r; lia).
      assert (K < 2 ^ 52 * 2 ^ 53)%Z by nia.
      change (2 ^ 52 * 2 ^ 53)%Z with (2 ^ 105)%Z in *. lia. }
    set (e := (L - 52)%Z).
    assert (He : (1 <= e <= 52)%Z) by (unfold e; lia).
    set (A := (2 ^ (e - 1))%Z).
    assert (HA : (0 < A)%Z) by (apply Z.pow_pos_nonneg; lia).
    assert (H2e : (2 ^ e = 2 * A)%Z).
    { unfold A. replace e with (1 + (e - 1))%Z at 1 by lia. rewrite Z.pow_add_r by lia. reflexivity. }
    assert (H2L : (2 ^ L = 2 ^ 52 * (2 * A))%Z).
    { rewrite <- H2e. unfold e. rewrite <- Z.pow_add_r by lia. f_equal. lia. }
    assert (HeN : (2 * A < n)%Z) by nia.
    rewrite H2e.
    assert (Hdm := Z.div_mod K (2 * A) ltac:(lia)).
    assert (Hr := Z.mod_pos_bound K (2 * A) ltac:(lia)).
    set (q := (K / (2 * A))%Z) in *. set (r := (K mod (2 * A))%Z) in *.
    assert (Hq0 : (0 <= q)%Z) by (unfold q; apply Z.div_pos; lia).
    assert (Hgoal : forall q', (q' = q \/ (q' = q + 1 /\ A <= r))%Z ->
              (0 <= q' * (2 * A) / 2 ^ 52 < n)%Z).
    { intros q' Hq'. split.
      - apply Z.div_pos; [|lia]. destruct Hq' as [->|[-> _]]; nia.
      - apply Z.div_lt_upper_bound; [lia|]. destruct Hq' as [->|[-> Hrr]]; nia. }
    apply Hgoal.
    destruct (Z.ltb_spec A r) as [Hgt|Hle]; [right; lia|].
    destruct (Z.eqb_spec r A) as [Heq|Hne]; cbn [andb]; [|left; reflexivity].
    destruct (Z.odd q); [right; lia|left; reflexivity].
Qed.

Theorem fy_pick_range u n : (0 <= u < 2 ^ 64)%Z -> (1 <= n <= 2 ^ 53)%Z ->
  (0 <= fy_pick u n < n)%Z.
Proof.
  intros Hu Hn. unfold fy_pick. apply rne_mul_floor_range; [|exact Hn].
  split; [apply Z.div_pos; lia|]. apply Z.div_lt_upper_bound; [lia|].
  change (2 ^ 12 * 2 ^ 52)%Z with (2 ^ 64)%Z. lia.
Qed.

(* ------------------------------------------------------------------ *)
(* 2. swaps and the permutation invariant *)

Definition tr (i j k : nat) : nat := if Nat.eqb k i then j else if Nat.eqb k j then i else k.

Lemma swap_length l i j : length (swap l i j) = length l.
Proof. unfold swap. rewrite !upd_length. reflexivity. Qed.

Lemma nth_swap l i j k : i < length l -> j < length l ->
  nth k (swap l i j) 0 = nth (tr i j k) l 0.
Proof.
  intros Hi Hj. unfold swap, tr.
  destruct (Nat.eqb_spec k j) as [->|Hkj].
  - rewrite nth_upd_eq by (rewrite upd_length; lia).
    destruct (Nat.eqb_spec j i) as [->|]; reflexivity.
  - rewrite nth_upd_neq by lia.
    destruct (Nat.eqb_spec k i) as [->|Hki].
    + rewrite nth_upd_eq by lia. reflexivity.
    + rewrite nth_upd_neq by lia. reflexivity.
Qed.

Lemma tr_inj i j a b : tr i j a = tr i j b -> a = b.
Proof.
  unfold tr. destruct (Nat.eqb_spec a i), (Nat.eqb_spec a j), (Nat.eqb_spec b i), (Nat.eqb_spec b j); lia.
Qed.
Lemma tr_lt i j k n : i < n -> j < n -> k < n -> tr i j k < n.
Proof. unfold tr. destruct (Nat.eqb_spec k i), (Nat.eqb_spec k j); lia. Qed.

(* v is an arrangement of 0..m-1 *)
Definition arr (m : nat) (v : list nat) : Prop :=
  length v = m /\ (forall k, k < m -> nth k v 0 < m) /\
  (forall a b, a < m -> b < m -> nth a v 0 = nth b v 0 -> a = b).

Lemma arr_seq m : arr m (seq 0 m).
Proof.
  split; [apply seq_length|]. split.
  - intros k Hk. rewrite seq_nth by lia. lia.
  - intros a b Ha Hb. rewrite !seq_nth by lia. lia.
Qed.

Lemma arr_swap m v i j : arr m v -> i < m -> j < m -> arr m (swap v i j).
Proof.
  intros [Hl [Hr Hi]] Hi' Hj'. split; [rewrite swap_length; exact Hl|]. split.
  - intros k Hk. rewrite nth_swap by lia. apply Hr. apply tr_lt; assumption.
  - intros a b Ha Hb. rewrite !nth_swap by lia. intros H.
    apply Hi in H; [|apply tr_lt; assumption|apply tr_lt; assumption]. eapply tr_inj; exact H.
Qed.

Lemma arr_NoDup m v : arr m v -> NoDup v.
Proof.
  intros [Hl [_ Hi]]. apply (NoDup_nth v 0). intros a b Ha Hb. apply Hi; lia.
Qed.

Lemma arr_Permutation m v : arr m v -> Permutation v (seq 0 m).
Proof.
  intros H. apply NoDup_Permutation_bis.
  - eapply arr_NoDup; exact H.
  - destruct H as [Hl _]. rewrite seq_length. lia.
  - destruct H as [Hl [Hr _]]. intros x Hx. apply (In_nth _ _ 0) in Hx.
    destruct Hx as [k [Hk <-]]. apply in_seq. specialize (Hr k ltac:(lia)). lia.
Qed.

(* ------------------------------------------------------------------ *)
(* 3. draws *)

Section Pick.
Variable pick : Z -> Z -> Z.
(* what the index bound provides: the truncated product stays below n *)
Hypothesis pick_range : forall u n, (1 <= n)%Z -> (0 <= pick u n < n)%Z.

Definition fyinv (s : fy) : Prop := arr (fm s) (fv s).

Lemma fy_next_ok s u : fyinv s -> 1 <= fm s ->
  exists s' idx, fy_next pick s u = Ok (s', nth idx (fv s) 0) /\
    fy_cur s <= idx < fm s /\ fyinv s' /\ fm s' = fm s /\ flast s' = S (fy_cur s) /\
    fv s' = swap (fv s) idx (fy_cur s).
Proof.
  intros Hinv Hm. unfold fy_next.
  assert (Hc : fy_cur s < fm s).
  { unfold fy_cur. destruct (Nat.leb_spec (fm s) (flast s)); lia. }
  set (last := fy_cur s) in *.
  assert (Hp := pick_range u (Z.of_nat (fm s - last)) ltac:(lia)).
  set (d := Z.to_nat (pick u (Z.of_nat (fm s - last)))) in *.
  assert (Hd : d < fm s - last) by lia.
  destruct Hinv as [Hl Hrest].
  destruct (Nat.ltb_spec (last + d) (length (fv s))) as [_|]; [|lia]. cbn [negb].
  exists (mkFY (fm s) (swap (fv s) (last + d) last) (S last)), (last + d).
  split; [reflexivity|]. split; [lia|]. split.
  - unfold fyinv; cbn [fm fv]. apply arr_swap; [split; assumption|lia|lia].
  - auto.
Qed.

(* r further draws inside a block: the outputs are exactly the next r cells of the final array,
   and the cells before the cursor never change *)
Lemma fy_draws_block : forall us s t,
  fyinv s -> fy_cur s = t -> t + length us <= fm s -> (us <> [] -> t < fm s) ->
  exists s' outs, fy_draws pick s us = Ok (s', outs) /\ fyinv s' /\ fm s' = fm s /\
    length outs = length us /\
    (us <> [] -> flast s' = t + length us) /\ (us = [] -> s' = s) /\
    (forall i, i < t -> nth i (fv s') 0 = nth i (fv s) 0) /\
    (forall i, i < length us -> nth i outs 0 = nth (t + i) (fv s') 0).
Proof.
  induction us as [|u us IH]; intros s t Hinv Ht Hlen Hne.
  - exists s, []. cbn. split; [reflexivity|]. split; [exact Hinv|]. repeat split; auto; try lia; try congruence; try (intros i Hi; lia).
  - cbn [fy_draws length] in *.
    assert (Htm : t < fm s) by (apply Hne; discriminate).
    destruct (fy_next_ok s u Hinv ltac:(lia)) as [s1 [idx [Hn [Hidx [Hinv1 [Hm1 [Hl1 Hv1]]]]]]].
    rewrite Hn. cbn [bind]. rewrite Ht in *.
    assert (Hcur1 : us <> [] -> fy_cur s1 = S t).
    { intros Hus. unfold fy_cur. rewrite Hm1, Hl1.
      destruct us; [congruence|]. cbn [length] in Hlen.
      destruct (Nat.leb_spec (fm s) (S t)); lia. }
    destruct us as [|u2 us'] eqn:Eus.
    + (* last draw of this call *)
      cbn [fy_draws bind]. exists s1, [nth idx (fv s) 0]. split; [reflexivity|].
      split; [exact Hinv1|]. split; [exact Hm1|]. split; [reflexivity|].
      split; [intros _; cbn [length]; lia|]. split; [discriminate|].
      destruct Hinv as [Hl _]. split.
      * intros i Hi. rewrite Hv1, nth_swap by lia. unfold tr.
        destruct (Nat.eqb_spec i idx); [lia|]. destruct (Nat.eqb_spec i t); [lia|reflexivity].
      * intros i Hi. cbn [length] in Hi. replace i with 0 by lia. cbn [nth].
        rewrite Nat.add_0_r, Hv1, nth_swap by lia. unfold tr.
        destruct (Nat.eqb_spec t idx) as [->|]; [reflexivity|]. rewrite Nat.eqb_refl. reflexivity.
    + rewrite <- Eus in *.
      assert (Hus : us <> []) by (rewrite Eus; discriminate).
      destruct (IH s1 (S t) Hinv1 (Hcur1 Hus)) as [s2 [outs [Hd [Hinv2 [Hm2 [Hlo [Hl2 [_ [Hpre Hout]]]]]]]]].
      * rewrite Hm1. lia.
      * intros _. rewrite Hm1. rewrite Eus in Hlen. cbn [length] in Hlen. lia.
      * rewrite Hd. cbn [bind]. exists s2, (nth idx (fv s) 0 :: outs).
        split; [reflexivity|]. split; [exact Hinv2|]. split; [lia|].
        split; [cbn [length]; lia|]. split; [intros _; rewrite (Hl2 Hus); lia|].
        split; [discriminate|]. destruct Hinv as [Hl _]. split.
        -- intros i Hi. rewrite Hpre by lia. rewrite Hv1, nth_swap by lia. unfold tr.
           destruct (Nat.eqb_spec i idx); [lia|]. destruct (Nat.eqb_spec i t); [lia|reflexivity].
        -- intros i Hi. destruct i as [|i].
           ++ cbn [nth]. rewrite Nat.add_0_r, Hpre by lia. rewrite Hv1, nth_swap by lia. unfold tr.
              destruct (Nat.eqb_spec t idx) as [->|]; [reflexivity|]. rewrite Nat.eqb_refl. reflexivity.
           ++ cbn [nth]. rewrite Hout by lia. f_equal. lia.
Qed.

(* a whole block: from any state whose array is an arrangement of 0..m-1 and whose cursor
   is at a block boundary, m draws return each of 0..m-1 exactly once *)
Theorem fy_block_perm s us : fyinv s -> 1 <= fm s -> fy_cur s = 0 -> length us = fm s ->
  exists s' outs, fy_draws pick s us = Ok (s', outs) /\ fyinv s' /\ fm s' = fm s /\
    flast s' = fm s /\ fy_cur s' = 0 /\ outs = fv s' /\ Permutation outs (seq 0 (fm s)).
Proof.
  intros Hinv Hm Hc Hl.
  destruct (fy_draws_block us s 0 Hinv Hc ltac:(lia) ltac:(lia))
    as [s' [outs [Hd [Hinv' [Hm' [Hlo [Hl' [_ [_ Hout]]]]]]]]].
  assert (Hne : us <> []) by (destruct us; [cbn in Hl; lia|discriminate]).
  specialize (Hl' Hne). cbn in Hl'.
  exists s', outs. split; [exact Hd|]. split; [exact Hinv'|]. split; [exact Hm'|].
  split; [lia|]. split; [unfold fy_cur; rewrite Hm', Hl', Hl, Nat.leb_refl; reflexivity|].
  assert (Heq : outs = fv s').
  { apply (nth_ext _ _ 0 0); [destruct Hinv' as [Hlv _]; lia|].
    intros i Hi. rewrite Hout by lia. reflexivity. }
  split; [exact Heq|]. rewrite Heq, <- Hm'. apply arr_Permutation. exact Hinv'.
Qed.

(* after a reset (or on a new shuffle) the first block is a permutation *)
Corollary fy_after_reset_perm s us : 1 <= fm s -> length us = fm s ->
  exists s' outs, fy_draws pick (fy_reset s) us = Ok (s', outs) /\ Permutation outs (seq 0 (fm s)).
Proof.
  intros Hm Hl.
  destruct (fy_block_perm (fy_reset s) us) as [s' [outs [Hd [_ [_ [_ [_ [_ Hp]]]]]]]].
  - apply arr_seq.
  - exact Hm.
  - unfold fy_cur, fy_reset; cbn. destruct (fm s); [lia|reflexivity].
  - exact Hl.
  - exists s', outs. split; [exact Hd|exact Hp].
Qed.

(* without reset every further block of m draws is again a permutation *)
Corollary fy_two_blocks s us1 us2 : fyinv s -> 1 <= fm s -> fy_cur s = 0 ->
  length us1 = fm s -> length us2 = fm s ->
  exists s1 o1 s2 o2, fy_draws pick s us1 = Ok (s1, o1) /\ fy_draws pick s1 us2 = Ok (s2, o2) /\
    Permutation o1 (seq 0 (fm s)) /\ Permutation o2 (seq 0 (fm s)) /\ fyinv s2 /\ fy_cur s2 = 0.
Proof.
  intros Hinv Hm Hc H1 H2.
  destruct (fy_block_perm s us1 Hinv Hm Hc H1) as [s1 [o1 [Hd1 [Hi1 [Hm1 [_ [Hc1 [_ Hp1]]]]]]]].
  destruct (fy_block_perm s1 us2 Hi1 ltac:(lia) Hc1 ltac:(lia)) as [s2 [o2 [Hd2 [Hi2 [Hm2 [_ [Hc2 [_ Hp2]]]]]]]].
  exists s1, o1, s2, o2. rewrite Hm1 in Hp2. auto 10.
Qed.

(* reset forgets history: the draws after a reset depend only on m and the generator output *)
Theorem fy_reset_forgets s t us : fm s = fm t ->
  fy_draws pick (fy_reset s) us = fy_draws pick (fy_reset t) us.
Proof. intros H. unfold fy_reset. rewrite H. reflexivity. Qed.

(* ... and coincide with those of a freshly constructed shuffle *)
Theorem fy_reset_as_new s us :
  match fy_draws pick (fy_reset s) us, fy_draws pick (fy_new (fm s)) us with
  | Ok (s1, o1), Ok (s2, o2) => o1 = o2 /\ (us <> [] -> s1 = s2)
  | Ok _, _ | _, Ok _ => False
  | _, _ => True
  end.
Proof.
  destruct us as [|u us]; [cbn; split; [reflexivity|congruence]|].
  cbn [fy_draws].
  assert (Hn : fy_next pick (fy_reset s) u = fy_next pick (fy_new (fm s)) u).
  { unfold fy_next, fy_cur, fy_reset, fy_new; cbn [fm fv flast].
    rewrite Nat.leb_refl. destruct (fm s); reflexivity. }
  rewrite Hn. destruct (fy_next pick (fy_new (fm s)) u) as [[s1 x]| | | |]; cbn [bind]; auto.
  destruct (fy_draws pick s1 us) as [[s2 xs]| | | |]; cbn [bind]; auto.
  all: try (split; reflexivity).
Qed.
End Pick.

(* ------------------------------------------------------------------ *)
(* 4. the concrete sampler: fy_pick satisfies the hypothesis for every m <= 2^53 *)

(* a total pick that agrees with fy_pick on every argument a run can produce *)
Definition pick_total (u n : Z) : Z :=
  if ((0 <=? u) && (u <? 2 ^ 64) && (n <=? 2 ^ 53))%Z then fy_pick u n else 0%Z.

Lemma pick_total_range u n : (1 <= n)%Z -> (0 <= pick_total u n < n)%Z.
Proof.
  intros Hn. unfold pick_total.
  destruct (Z.leb_spec 0 u), (Z.ltb_spec u (2 ^ 64)), (Z.leb_spec n (2 ^ 53)); cbn [andb]; try lia.
  apply fy_pick_range; lia.
Qed.

Lemma fy_next_fm pick s u s' x : fy_next pick s u = Ok (s', x) -> fm s' = fm s.
Proof.
  unfold fy_next. destruct (negb _); [discriminate|]. intros H. injection H as <- _. reflexivity.
Qed.

Lemma fy_draws_pick_total : forall us s, (Z.of_nat (fm s) <= 2 ^ 53)%Z ->
  Forall (fun u => 0 <= u < 2 ^ 64)%Z us ->
  fy_draws fy_pick s us = fy_draws pick_total s us.
Proof.
  induction us as [|u us IH]; intros s Hm53 Hus; [reflexivity|].
  inversion Hus as [|? ? Hu Hus']; subst. cbn [fy_draws].
  assert (Hn : fy_next fy_pick s u = fy_next pick_total s u).
  { unfold fy_next, pick_total.
    assert (Hb : (Z.of_nat (fm s - fy_cur s) <= 2 ^ 53)%Z) by lia.
    destruct (Z.leb_spec 0 u), (Z.ltb_spec u (2 ^ 64)), (Z.leb_spec (Z.of_nat (fm s - fy_cur s)) (2 ^ 53));
      cbn [andb]; try lia. reflexivity. }
  rewrite Hn. destruct (fy_next pick_total s u) as [[s1 x]| | | |] eqn:E; cbn [bind]; try reflexivity.
  rewrite IH; [reflexivity| |exact Hus']. rewrite (fy_next_fm _ _ _ _ _ E). exact Hm53.
Qed.

Theorem fy_concrete_block s us : arr (fm s) (fv s) -> 1 <= fm s -> (Z.of_nat (fm s) <= 2 ^ 53)%Z ->
  fy_cur s = 0 -> length us = fm s -> Forall (fun u => 0 <= u < 2 ^ 64)%Z us ->
  exists s' outs, fy_draws fy_pick s us = Ok (s', outs) /\ Permutation outs (seq 0 (fm s)) /\
    arr (fm s') (fv s') /\ fm s' = fm s /\ fy_cur s' = 0.
Proof.
  intros Hinv Hm Hm53 Hc Hl Hus.
  destruct (fy_block_perm pick_total pick_total_range s us Hinv Hm Hc Hl)
    as [s' [outs [Hd [Hi' [Hm' [_ [Hc' [_ Hp]]]]]]]].
  exists s', outs. rewrite fy_draws_pick_total by assumption. auto.
Qed.

(* the same for reset-forgets with the concrete sampler is an instance of fy_reset_forgets *)
Theorem fy_concrete_reset_forgets s t us : fm s = fm t ->
  fy_draws fy_pick (fy_reset s) us = fy_draws fy_pick (fy_reset t) us.
Proof. apply fy_reset_forgets. Qed.

(* non-vacuity *)
Example fy_example :
  fy_draws fy_pick (fy_new 5) [0; 18446744073709551615; 9223372036854775808; 4611686018427387904; 12345678901234567890]%Z
  = Ok (mkFY 5 [0; 4; 3; 2; 1] 5, [0; 4; 3; 2; 1]).
Proof. vm_compute. reflexivity. Qed.
