(* C18: obligations about the table regenerated from src/probminhasher/sig.rs *)
From Coq Require Import List Bool String.
From PMH Require Import Model.Sig Gen.SigGen.
Import ListNotations.

(* the generated table: ten implementations with the widths of their types, and every
   ownership trace correct *)
Theorem sig_table_shapes :
  map (fun r => (fst (fst r), snd (fst r))) sig_impls =
  [("u8", ShScalar 1 false); ("u16", ShScalar 2 false); ("u32", ShScalar 4 false); ("u64", ShScalar 8 false);
   ("i16", ShScalar 2 true); ("i32", ShScalar 4 true); ("Vec<u8>", ShVec 1); ("Vec<u16>", ShVec 2);
   ("Vec<u32>", ShVec 4); ("String", ShUtf8)]%string.
Proof. reflexivity. Qed.

Theorem sig_ownership_ok : forallb (fun r => mem_ok (snd r)) sig_impls = true.
Proof. vm_compute. reflexivity. Qed.

(* the trace of the original unsafe code (clone adopted through from_raw_parts and still
   dropped) is rejected by the same checker *)
Example unsafe_trace_refuted : mem_ok [Alloc 0 2; Adopt 0 1; Return 0; DropOwner 0]%nat = false.
Proof. reflexivity. Qed.
