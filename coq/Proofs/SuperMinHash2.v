(* C04 / C03 (SuperMinHash2): position k holds the lexicographic minimum of (round, value) over the
   draws of all items landing on k, and the hash of an item attaining it; the histogram / a_upper
   pruning never skips a draw that could improve a position.  Re-uses the [final] theory of
   Proofs/ProbMinHash.v through the key  round * 2^64 + value. *)
From Coq Require Import List Arith ZArith Bool Lia ZifyNat ZifyBool.
From PMH Require Import Lib.ListArr Model.ProbMinHash Model.SuperMinHash Model.SuperMinHash2
  Proofs.ProbMinHash Proofs.Hist.
Import ListNotations.
Open Scope Z_scope.

Definition W : Z := 2 ^ 64.
Definition key (j : nat) (r : Z) : Z := Z.of_nat j * W + r.

Definition kK (s : smh2) (k : nat) : Z := key (nthn (s2_l s) k) (nthz (s2_v s) k).
Definition abs2 (s : smh2) : pstate := mkP (map (kK s) (seq 0 (s2_m s))) (s2_h s).

Lemma nth_abs2 s k : (k < s2_m s)%nat -> nthz (pregs (abs2 s)) k = kK s k.
Proof.
  intros Hk. unfold abs2, nthz; cbn [pregs].
  rewrite (nth_indep _ 0 (kK s 0%nat)) by (rewrite map_length, seq_length; exact Hk).
  rewrite map_nth, seq_nth by exact Hk. reflexivity.
Qed.

Definition wf2 (s : smh2) : Prop :=
  let m := s2_m s in
  (1 <= m)%nat /\ length (s2_h s) = m /\ length (s2_v s) = m /\
  (forall k, (k < m)%nat -> 0 <= nthz (s2_v s) k < W) /\
  hist_ok m (s2_l s) (s2_b s) (s2_upper s).

(* rounds j, j+1, ... of one item as tagged points *)
Fixpoint tags2 (hv : Z) (j : nat) (sc : list (Z * nat)) : list tpoint :=
  match sc with [] => [] | (r, k) :: rest => (hv, key j r, k) :: tags2 hv (S j) rest end.

Fixpoint rounds_ok (m : nat) (sc : list (Z * nat)) : Prop :=
  match sc with [] => True | (r, k) :: rest => 0 <= r < W - 1 /\ (k < m)%nat /\ rounds_ok m rest end.

Lemma in_tags2 hv : forall sc j p, In p (tags2 hv j sc) ->
  exists i r k, p = (hv, key (j + i) r, k) /\ (0 <= i)%nat /\ In (r, k) sc.
Proof.
  induction sc as [|[r k] rest IH]; intros j p Hin; [destruct Hin|]. cbn in Hin. destruct Hin as [<-|Hin].
  - exists 0%nat, r, k. rewrite Nat.add_0_r. split; [reflexivity|]. split; [lia|cbn; auto].
  - destruct (IH (S j) p Hin) as [i [r' [k' [E [Hi Hin']]]]]. exists (S i), r', k'.
    replace (j + S i)%nat with (S j + i)%nat by lia. split; [exact E|]. split; [lia|cbn; auto].
Qed.

Lemma rounds_ok_in m sc r k : rounds_ok m sc -> In (r, k) sc -> 0 <= r < W - 1 /\ (k < m)%nat.
Proof.
  induction sc as [|[r0 k0] rest IH]; intros H Hin; [destruct Hin|]. cbn in H. destruct H as [H1 [H2 H3]].
  destruct Hin as [E|Hin]; [injection E as <- <-; auto|apply IH; assumption].
Qed.

Lemma key_lt j r j' r' : 0 <= r < W -> 0 <= r' < W -> (key j r < key j' r' <-> (j < j')%nat \/ (j = j' /\ r < r')).
Proof. unfold key, W. intros H H'. split; intros; nia. Qed.

(* covered in the abstract state *)
Definition cov2 (s : smh2) (p : tpoint) : Prop := let '(_, h, k) := p in kK s k <= h.
Definition mono2 (s s' : smh2) : Prop := forall k, (k < s2_m s)%nat -> kK s' k <= kK s k.
Definition just2 (maxv init : Z) (Pts : list tpoint) (s : smh2) : Prop :=
  forall k, (k < s2_m s)%nat ->
    (kK s k = maxv /\ nthz (s2_h s) k = init) \/
    (exists id h, In (id, h, k) Pts /\ kK s k = h /\ nthz (s2_h s) k = id /\ h < maxv).

Lemma kK_upd_other s k k' h' v' l' b' rk up : k <> k' ->
  kK (mkS2 (s2_m s) h' (upd (s2_v s) k v') (upd (s2_l s) k l') b' rk up) k' = kK s k'.
Proof. intros H. unfold kK, nthn, nthz; cbn. rewrite !nth_upd_neq by exact H. reflexivity. Qed.

Lemma smh2_rounds_ok maxv init Pts hv : forall sc s j s',
  wf2 s -> just2 maxv init Pts s -> maxv = Z.of_nat (s2_m s) * W - 1 ->
  rounds_ok (s2_m s) sc -> (j + length sc <= s2_m s)%nat ->
  (forall p, In p (tags2 hv j sc) -> In p Pts) ->
  smh2_rounds s hv j sc = Ok s' ->
  wf2 s' /\ just2 maxv init Pts s' /\ s2_m s' = s2_m s /\ mono2 s s' /\
  (forall p, In p (tags2 hv j sc) -> cov2 s' p).
Proof.
  induction sc as [|[r k] rest IH]; intros s j s' Wf J Hmax Rok Hlen Hsub Hrun.
  - cbn in Hrun. injection Hrun as <-. split; [exact Wf|]. split; [exact J|]. split; [reflexivity|].
    split; [intros k Hk; lia|intros p []].
  - cbn [smh2_rounds] in Hrun. cbn in Rok. destruct Rok as [Hr [Hk Rrest]]. cbn [length] in Hlen.
    assert (Wf0 := Wf). destruct Wf0 as [Hm [Lh [Lv [Hv [Ll [Lb [Hu [Hc Hub]]]]]]]].
    set (m := s2_m s) in *.
    destruct (Nat.ltb_spec (s2_upper s) j) as [Hstop|Hgo].
    + (* pruned: every remaining round is above every bucket *)
      injection Hrun as <-. split; [exact Wf|]. split; [exact J|]. split; [reflexivity|]. split; [intros x Hx; lia|].
      intros p Hin. apply in_tags2 in Hin. destruct Hin as [i [r' [k' [-> [Hi Hin']]]]].
      destruct (rounds_ok_in m ((r, k) :: rest) r' k' ltac:(cbn; auto) Hin') as [Hr' Hk'].
      unfold cov2, kK. assert (Hb := Hub k' Hk'). unfold nthn. assert (Hvk := Hv k' Hk').
      apply Z.lt_le_incl. apply key_lt; [exact Hvk|unfold W in *; lia|]. left. lia.
    + destruct (Nat.ltb_spec k m) as [_|]; [|lia]. cbn [negb] in Hrun.
      assert (Hin : In (hv, key j r, k) Pts) by (apply Hsub; cbn; auto).
      assert (Hsub' : forall p, In p (tags2 hv (S j) rest) -> In p Pts) by (intros p Hp; apply Hsub; cbn; auto).
      assert (Hkeymax : key j r < maxv) by (rewrite Hmax; unfold key, W in *; nia).
      set (lk := nthn (s2_l s) k) in *.
      assert (Elk : nth k (s2_l s) 0%nat = lk) by reflexivity.
      assert (Hvk := Hv k Hk). unfold nthz in Hvk.
      (* finishing step shared by the branches: the head point is covered in s1 and stays covered *)
      assert (Hfin : forall s1, wf2 s1 -> just2 maxv init Pts s1 -> s2_m s1 = m -> mono2 s s1 ->
                cov2 s1 (hv, key j r, k) -> smh2_rounds s1 hv (S j) rest = Ok s' ->
                wf2 s' /\ just2 maxv init Pts s' /\ s2_m s' = s2_m s /\ mono2 s s' /\
                (forall p, In p (tags2 hv j ((r, k) :: rest)) -> cov2 s' p)).
      { intros s1 Wf1 J1 Hm1 M1 C1 Hrun1.
        destruct (IH s1 (S j) s' Wf1 J1 ltac:(rewrite Hm1; exact Hmax) ltac:(rewrite Hm1; exact Rrest)
                    ltac:(rewrite Hm1; lia) Hsub' Hrun1) as [Wf' [J' [Hm' [M' C']]]].
        split; [exact Wf'|]. split; [exact J'|]. split; [lia|]. split.
        - intros x Hx. specialize (M1 x Hx). specialize (M' x ltac:(rewrite Hm1; exact Hx)). lia.
        - intros p [<-|Hp]; [|apply C'; exact Hp]. unfold cov2 in *. specialize (M' k ltac:(rewrite Hm1; exact Hk)). lia. }
      destruct (Nat.leb_spec j lk) as [Hjl|Hlj].
      * destruct (Nat.eqb_spec lk j) as [Heq|Hne].
        -- (* same round: keep the smaller value *)
           destruct (Z.leb_spec r (nthz (s2_v s) k)) as [Hle|Hgt]; unfold nthz in Hle || unfold nthz in Hgt.
           ++ refine (Hfin _ _ _ _ _ _ Hrun).
              ** unfold wf2; cbn [s2_m s2_h s2_v s2_l s2_b s2_upper]. rewrite !upd_length.
                 split; [exact Hm|]. split; [exact Lh|]. split; [exact Lv|]. split; [|repeat split; assumption].
                 intros x Hx. unfold nthz. destruct (Nat.eq_dec x k) as [->|Hxk]; [rewrite nth_upd_eq by lia; unfold W in *; lia|].
                 rewrite nth_upd_neq by lia. apply Hv; exact Hx.
              ** intros x Hx; cbn [s2_m] in Hx. destruct (Nat.eq_dec x k) as [->|Hxk].
                 --- right. exists hv, (key j r). unfold kK, nthn, nthz; cbn [s2_h s2_v s2_l]. rewrite !nth_upd_eq by lia.
                     rewrite ?Elk, ?Heq. auto.
                 --- unfold kK, nthn, nthz in *; cbn [s2_h s2_v s2_l]. rewrite !nth_upd_neq by lia. apply (J x Hx).
              ** reflexivity.
              ** intros x Hx. unfold kK, nthn, nthz; cbn [s2_v s2_l]. destruct (Nat.eq_dec x k) as [->|Hxk].
                 --- rewrite nth_upd_eq by lia. rewrite ?Elk. unfold key. lia.
                 --- rewrite nth_upd_neq by lia. lia.
              ** unfold cov2, kK, nthn, nthz; cbn [s2_v s2_l]. rewrite nth_upd_eq by lia. rewrite ?Elk, ?Heq. lia.
           ++ apply (Hfin s Wf J eq_refl ltac:(intros x Hx; lia)); [|exact Hrun].
              unfold cov2, kK, nthn, nthz. rewrite ?Elk, ?Heq. unfold key. lia.
        -- (* earlier round: the position moves to bucket j *)
           assert (Hjlt : (j < lk)%nat) by lia.
           assert (Hlkm : (lk < m)%nat) by (specialize (Hub k Hk); unfold lk, nthn; lia).
           destruct (hist_move m (s2_l s) (s2_b s) k j lk Ll Lb Hk eq_refl Hjlt Hlkm Hc) as [Lb' Hc'].
           set (b1 := upd (s2_b s) lk (nthz (s2_b s) lk - 1)) in *.
           set (b' := upd b1 j (nthz b1 j + 1)) in *.
           assert (Hub' : forall x, (x < m)%nat -> (nth x (upd (s2_l s) k j) 0%nat <= s2_upper s)%nat).
           { intros x Hx. destruct (Nat.eq_dec x k) as [->|Hxk]; [rewrite nth_upd_eq by lia; lia|].
             rewrite nth_upd_neq by lia. apply Hub; exact Hx. }
           destruct (lower_upper_ok m (upd (s2_l s) k j) b' (S m) (s2_upper s)
                       ltac:(rewrite upd_length; exact Ll) Lb' Hm Hu ltac:(lia) Hc' Hub') as [u' [Elu [Hule Hubu]]].
           rewrite Elu in Hrun.
           refine (Hfin _ _ _ _ _ _ Hrun).
           ++ unfold wf2; cbn [s2_m s2_h s2_v s2_l s2_b s2_upper]. rewrite !upd_length.
              split; [exact Hm|]. split; [exact Lh|]. split; [exact Lv|]. split.
              ** intros x Hx. unfold nthz. destruct (Nat.eq_dec x k) as [->|Hxk]; [rewrite nth_upd_eq by lia; unfold W in *; lia|].
                 rewrite nth_upd_neq by lia. apply Hv; exact Hx.
              ** unfold hist_ok. rewrite upd_length. repeat split; try assumption; lia.
           ++ intros x Hx; cbn [s2_m] in Hx. destruct (Nat.eq_dec x k) as [->|Hxk].
              ** right. exists hv, (key j r). unfold kK, nthn, nthz; cbn [s2_h s2_v s2_l]. rewrite !nth_upd_eq by lia. auto.
              ** unfold kK, nthn, nthz in *; cbn [s2_h s2_v s2_l]. rewrite !nth_upd_neq by lia. apply (J x Hx).
           ++ reflexivity.
           ++ intros x Hx. unfold kK, nthn, nthz; cbn [s2_v s2_l]. destruct (Nat.eq_dec x k) as [->|Hxk].
              ** rewrite !nth_upd_eq by lia. apply Z.lt_le_incl. apply key_lt; [unfold W in *; lia|exact Hvk|]. left. exact Hjlt.
              ** rewrite !nth_upd_neq by lia. lia.
           ++ unfold cov2, kK, nthn, nthz; cbn [s2_v s2_l]. rewrite !nth_upd_eq by lia. lia.
      * (* later round than the one stored: nothing to do, and the point is above the stored pair *)
        apply (Hfin s Wf J eq_refl ltac:(intros x Hx; lia)); [|exact Hrun].
        unfold cov2, kK, nthn. rewrite ?Elk. apply Z.lt_le_incl. apply key_lt; [exact Hvk|unfold W in *; lia|]. left. lia.
Qed.

(* ---------------- items, histories from new ---------------- *)
Definition item2 := (Z * list (Z * nat))%type.     (* hash, rounds *)
Definition item2_ok (m : nat) (it : item2) : Prop := rounds_ok m (snd it) /\ (length (snd it) <= m)%nat.

Fixpoint smh2_items (s : smh2) (its : list item2) : outcome smh2 :=
  match its with [] => Ok s | (hv, sc) :: r => bind (smh2_sketch s hv sc) (fun s' => smh2_items s' r) end.

Definition alltags_s2 (its : list item2) : list tpoint := concat (map (fun it => tags2 (fst it) 0 (snd it)) its).

Lemma smh2_sketch_ok maxv init Pts hv sc s s' :
  wf2 s -> just2 maxv init Pts s -> maxv = Z.of_nat (s2_m s) * W - 1 -> item2_ok (s2_m s) (hv, sc) ->
  (forall p, In p (tags2 hv 0 sc) -> In p Pts) -> smh2_sketch s hv sc = Ok s' ->
  wf2 s' /\ just2 maxv init Pts s' /\ s2_m s' = s2_m s /\ mono2 s s' /\ (forall p, In p (tags2 hv 0 sc) -> cov2 s' p).
Proof.
  intros Wf J Hmax [Rok Hlen] Hsub Hrun. unfold smh2_sketch in Hrun.
  destruct (smh2_rounds s hv 0 sc) as [s1| | | |] eqn:E; try discriminate. cbn [bind] in Hrun. injection Hrun as <-.
  destruct (smh2_rounds_ok maxv init Pts hv sc s 0%nat s1 Wf J Hmax Rok ltac:(cbn in *; lia) Hsub E) as [Wf1 [J1 [Hm1 [M1 C1]]]].
  split; [exact Wf1|]. split; [exact J1|]. split; [exact Hm1|]. split; [exact M1|exact C1].
Qed.

Lemma smh2_items_ok maxv init Pts : forall its s s',
  wf2 s -> just2 maxv init Pts s -> maxv = Z.of_nat (s2_m s) * W - 1 ->
  (forall it, In it its -> item2_ok (s2_m s) it) -> (forall p, In p (alltags_s2 its) -> In p Pts) ->
  smh2_items s its = Ok s' ->
  wf2 s' /\ just2 maxv init Pts s' /\ s2_m s' = s2_m s /\ mono2 s s' /\ (forall p, In p (alltags_s2 its) -> cov2 s' p).
Proof.
  induction its as [|[hv sc] r IH]; intros s s' Wf J Hmax Hok Hsub Hrun.
  - cbn in Hrun. injection Hrun as <-. split; [exact Wf|]. split; [exact J|]. split; [reflexivity|].
    split; [intros k Hk; lia|intros p []].
  - cbn [smh2_items] in Hrun. destruct (smh2_sketch s hv sc) as [s1| | | |] eqn:E; try discriminate. cbn [bind] in Hrun.
    unfold alltags_s2 in *. cbn [map concat fst snd] in *.
    destruct (smh2_sketch_ok maxv init Pts hv sc s s1 Wf J Hmax (Hok _ ltac:(cbn; auto))
                ltac:(intros p Hp; apply Hsub; apply in_app_iff; auto) E) as [Wf1 [J1 [Hm1 [M1 C1]]]].
    destruct (IH s1 s' Wf1 J1 ltac:(rewrite Hm1; exact Hmax) ltac:(intros it Hit; rewrite Hm1; apply Hok; cbn; auto)
                ltac:(intros p Hp; apply Hsub; apply in_app_iff; auto) Hrun) as [Wf2 [J2 [Hm2 [M2 C2]]]].
    split; [exact Wf2|]. split; [exact J2|]. split; [lia|]. split.
    + intros k Hk. specialize (M1 k Hk). specialize (M2 k ltac:(rewrite Hm1; exact Hk)). lia.
    + intros p Hp. apply in_app_iff in Hp. destruct Hp as [Hp|Hp]; [|apply C2; exact Hp].
      specialize (C1 p Hp). destruct p as [[id h] k]. unfold cov2 in *.
      destruct (Nat.lt_ge_cases k (s2_m s)) as [Hk|Hk]; [specialize (M2 k ltac:(rewrite Hm1; exact Hk)); lia|].
      (* a slot out of range cannot occur: points have slots < m *)
      apply in_tags2 in Hp. destruct Hp as [i [r' [k' [E' [_ Hin]]]]]. injection E' as _ _ ->.
      destruct (Hok (hv, sc) ltac:(cbn; auto)) as [Rok _]. destruct (rounds_ok_in _ _ _ _ Rok Hin). lia.
Qed.

Lemma smh2_new_ok m : (1 <= m)%nat -> exists s, smh2_new m = Ok s /\ wf2 s /\ s2_m s = m /\
  just2 (Z.of_nat m * W - 1) 0 [] s.
Proof.
  intros Hm. destruct m as [|m']; [lia|]. eexists. split; [reflexivity|]. set (m := S m') in *.
  assert (Hl : forall k, (k < m)%nat -> nth k (repeat (m - 1)%nat m) 0%nat = (m - 1)%nat) by (intros; apply nth_repeat_lt; assumption).
  split; [|split; [reflexivity|]].
  - unfold wf2; cbn [s2_m s2_h s2_v s2_l s2_b s2_upper]. rewrite !repeat_length.
    split; [lia|]. split; [reflexivity|]. split; [reflexivity|]. split.
    + intros k Hk. unfold nthz, usize_max. rewrite nth_repeat_lt by exact Hk. unfold W. lia.
    + unfold hist_ok. rewrite upd_length, !repeat_length. split; [reflexivity|]. split; [reflexivity|]. split; [lia|]. split.
      * intros x Hx. unfold nthz. destruct (Nat.eq_dec x (m - 1)) as [->|Hne].
        -- rewrite nth_upd_eq by (rewrite repeat_length; lia).
           assert (Hcnt : forall n, cnt (m - 1) (repeat (m - 1)%nat n) = Z.of_nat n).
           { induction n as [|n IHn]; cbn [repeat cnt]; [reflexivity|]. rewrite Nat.eqb_refl, IHn. lia. }
           rewrite Hcnt. lia.
        -- rewrite nth_upd_neq by lia. rewrite nth_repeat_lt by exact Hx.
           assert (Hcnt : forall n, cnt x (repeat (m - 1)%nat n) = 0).
           { induction n as [|n IHn]; cbn [repeat cnt]; [reflexivity|]. destruct (Nat.eqb_spec (m - 1) x); [lia|]. rewrite IHn. lia. }
           rewrite Hcnt. lia.
      * intros k Hk. rewrite Hl by exact Hk. lia.
  - intros k Hk. cbn [s2_m] in Hk. left. unfold kK, nthn, nthz; cbn [s2_l s2_v s2_h].
    rewrite Hl, !nth_repeat_lt by exact Hk. unfold key, usize_max, W. split; [lia|reflexivity].
Qed.

(* the abstract state of a run from new is final for the set of all draws *)
Theorem smh2_final m its s : (1 <= m)%nat -> (forall it, In it its -> item2_ok m it) ->
  bind (smh2_new m) (fun s0 => smh2_items s0 its) = Ok s ->
  final m (Z.of_nat m * W - 1) 0 (alltags_s2 its) (abs2 s) /\ s2_m s = m.
Proof.
  intros Hm Hok Hrun. destruct (smh2_new_ok m Hm) as [s0 [E0 [Wf0 [Hm0 J0]]]]. rewrite E0 in Hrun. cbn [bind] in Hrun.
  destruct (smh2_items_ok (Z.of_nat m * W - 1) 0 (alltags_s2 its) its s0 s Wf0) as [Wf [J [Hms [_ C]]]].
  - intros k Hk. destruct (J0 k Hk) as [H|[id [h [[] _]]]]. left. exact H.
  - rewrite Hm0. reflexivity.
  - rewrite Hm0. exact Hok.
  - auto.
  - exact Hrun.
  - assert (Hmm : s2_m s = m) by lia. split; [|exact Hmm].
    destruct Wf as [_ [Lh _]]. split; [|split].
    + unfold wfst, abs2; cbn [pregs psig]. rewrite map_length, seq_length. repeat split; lia.
    + intros k Hk. rewrite nth_abs2 by lia. unfold abs2; cbn [psig]. apply J. lia.
    + intros id h k Hin Hk. specialize (C (id, h, k) Hin). unfold covered, cov2 in *. rewrite nth_abs2 by lia. exact C.
Qed.

(* set semantics: same set of (hash, rounds) items, any order / repetition => same (round, value)
   keys on every position, and the same stored hashes wherever no two items tie *)
Theorem smh2_set_semantics m its its' s s' : (1 <= m)%nat ->
  (forall it, In it its -> item2_ok m it) -> (forall it, In it its' -> item2_ok m it) ->
  (forall x, In x its <-> In x its') ->
  bind (smh2_new m) (fun s0 => smh2_items s0 its) = Ok s ->
  bind (smh2_new m) (fun s0 => smh2_items s0 its') = Ok s' ->
  pregs (abs2 s) = pregs (abs2 s') /\
  ((forall k, (k < m)%nat -> tie_free (alltags_s2 its) (Z.of_nat m * W - 1) k) -> s2_h s = s2_h s').
Proof.
  intros Hm Ok1 Ok2 Hsame R1 R2.
  destruct (smh2_final m its s Hm Ok1 R1) as [F1 _]. destruct (smh2_final m its' s' Hm Ok2 R2) as [F2 _].
  apply (final_unique_state m _ 0 (alltags_s2 its) (alltags_s2 its')); [|exact F1|exact F2].
  intros p. unfold alltags_s2. rewrite !in_concat. split; intros [l [Hl Hp]]; apply in_map_iff in Hl;
    destruct Hl as [it [<- Hit]]; exists (tags2 (fst it) 0 (snd it)); (split; [|exact Hp]);
    apply in_map_iff; exists it; (split; [reflexivity|apply Hsame; exact Hit]).
Qed.

(* every position of a sketch that saw a draw below the initial marker holds the hash of a streamed item *)
Theorem smh2_holds_streamed_hash m its s k : (1 <= m)%nat -> (forall it, In it its -> item2_ok m it) ->
  bind (smh2_new m) (fun s0 => smh2_items s0 its) = Ok s -> (k < m)%nat ->
  (exists id h, In (id, h, k) (alltags_s2 its) /\ h < Z.of_nat m * W - 1) ->
  exists h, In (nthz (s2_h s) k, h, k) (alltags_s2 its).
Proof.
  intros Hm Hok R Hk Hex. destruct (smh2_final m its s Hm Hok R) as [F _].
  apply (final_sig_member m _ 0 _ (abs2 s) k F Hk Hex).
Qed.
