(* C09: positions that agree in the u64 view (the stored hash) agree in the float view, within one
   finished sketch and across two sketches - because every position holds the (value, hash) pair of a
   streamed item and an item's value is drawn from a generator seeded by its hash.  The u32 view is
   computed from the u64 view alone (murmur3 of it, checked on the implementation), so it agrees too. *)
From Coq Require Import List Arith ZArith Bool Lia.
From PMH Require Import Lib.ListArr Model.ProbMinHash Model.DensMinHash Proofs.DensMinHash.
Import ListNotations.
Open Scope Z_scope.

(* the value of an item is a function of its hash (same generator seed) *)
Definition value_by_hash (A B : list (Z * nat * Z)) : Prop :=
  forall r k hv r' k', In (r, k, hv) A -> In (r', k', hv) B -> r = r'.

Lemma finished_position m large its s s' p : items_ok m its ->
  dens_items true (dens_new m large) its = Ok s -> dwf s -> d_m s = m -> dens_extends s s' ->
  (forall k, (k < m)%nat -> nthb (d_init s') k = true) -> (p < m)%nat ->
  exists r j, In (r, j, nthz (d_v s') p) its /\ nthz (d_h s') p = r.
Proof.
  intros Hok Hrun Wf Hm [_ [_ Hfrom]] Hall Hp.
  destruct (Hfrom p ltac:(lia) (Hall p Hp)) as [j [Hj [Ij [Eh Ev]]]].
  destruct (dens_holds_streamed m large its s j Hok Hrun ltac:(lia) Ij) as [r [Hin Er]].
  exists r, j. rewrite Ev, Eh. split; [exact Hin|exact Er].
Qed.

Theorem views_agree m large A B sA sB sA' sB' p q : items_ok m A -> items_ok m B -> value_by_hash A B ->
  dens_items true (dens_new m large) A = Ok sA -> dens_items true (dens_new m large) B = Ok sB ->
  dwf sA -> dwf sB -> d_m sA = m -> d_m sB = m -> dens_extends sA sA' -> dens_extends sB sB' ->
  (forall k, (k < m)%nat -> nthb (d_init sA') k = true) -> (forall k, (k < m)%nat -> nthb (d_init sB') k = true) ->
  (p < m)%nat -> (q < m)%nat ->
  nthz (d_v sA') p = nthz (d_v sB') q -> nthz (d_h sA') p = nthz (d_h sB') q.
Proof.
  intros HA HB Hf RA RB WA WB MA MB XA XB FA FB Hp Hq Ev.
  destruct (finished_position m large A sA sA' p HA RA WA MA XA FA Hp) as [r1 [j1 [I1 E1]]].
  destruct (finished_position m large B sB sB' q HB RB WB MB XB FB Hq) as [r2 [j2 [I2 E2]]].
  rewrite E1, E2. rewrite Ev in I1. exact (Hf r1 j1 _ r2 j2 I1 I2).
Qed.

Lemma items_state_ok m large its s : items_ok m its -> dens_items true (dens_new m large) its = Ok s -> dwf s /\ d_m s = m.
Proof.
  intros Hok Hrun. destruct (dens_items_spec its (dens_new m large) (dens_new_wf m large) Hok) as [s' [E [W [M _]]]].
  rewrite Hrun in E. injection E as <-. split; [exact W|exact M].
Qed.

(* the statement without side conditions on the intermediate states: two streams, each finished by either
   densification (rep = the source's report-empty flag) *)
Theorem views_agree_finished m large A B sA sB sA' sB' p q : items_ok m A -> items_ok m B -> value_by_hash A B ->
  dens_items true (dens_new m large) A = Ok sA -> dens_items true (dens_new m large) B = Ok sB ->
  dens_extends sA sA' -> dens_extends sB sB' ->
  (forall k, (k < m)%nat -> nthb (d_init sA') k = true) -> (forall k, (k < m)%nat -> nthb (d_init sB') k = true) ->
  (p < m)%nat -> (q < m)%nat ->
  nthz (d_v sA') p = nthz (d_v sB') q -> nthz (d_h sA') p = nthz (d_h sB') q.
Proof.
  intros HA HB Hf RA RB XA XB FA FB Hp Hq Ev.
  destruct (items_state_ok m large A sA HA RA) as [WA MA]. destruct (items_state_ok m large B sB HB RB) as [WB MB].
  exact (views_agree m large A B sA sB sA' sB' p q HA HB Hf RA RB WA WB MA MB XA XB FA FB Hp Hq Ev).
Qed.
