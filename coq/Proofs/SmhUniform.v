(* C03 (single item): the positions of a single item's m values are a uniformly random
   permutation when the indices k_j are drawn uniformly and independently from [j, m):
   every arrangement of 0..m-1 is the image of EXACTLY ONE index vector (k_0, ..., k_{m-1}),
   j <= k_j < m, and there are m! such vectors.  (The fractional parts r_j are separate draws of
   the same generator and do not enter the permutation: final_perm ignores them.) *)
From Coq Require Import List Arith ZArith Bool Lia ZifyNat ZifyBool Permutation Factorial.
From PMH Require Import Lib.ListArr Model.FYShuffle Proofs.FYShuffle Model.ProbMinHash Model.SuperMinHash Proofs.SuperMinHash.
Import ListNotations.
Close Scope Z_scope.
Open Scope nat_scope.

Definition ks_of (sc : list (Z * Z * nat)) : list nat := map (fun p => snd p) sc.

Fixpoint fperm (perm : list nat) (j : nat) (ks : list nat) : list nat :=
  match ks with [] => perm | k :: rest => fperm (swap perm j k) (S j) rest end.
Fixpoint ksn_ok (m j : nat) (ks : list nat) : Prop :=
  match ks with [] => True | k :: rest => j <= k < m /\ ksn_ok m (S j) rest end.

Lemma final_perm_fperm : forall sc perm j, final_perm perm j sc = fperm perm j (ks_of sc).
Proof. induction sc as [|[[a b] k] rest IH]; intros perm j; cbn; [reflexivity|apply IH]. Qed.
Lemma ks_ok_ksn m : forall sc j, ks_ok m j sc <-> ksn_ok m j (ks_of sc).
Proof. induction sc as [|[[a b] k] rest IH]; intros j; cbn; [tauto|]. rewrite IH. tauto. Qed.

Lemma fperm_arr m : forall ks perm j, arr m perm -> ksn_ok m j ks -> arr m (fperm perm j ks).
Proof.
  induction ks as [|k rest IH]; intros perm j Ha Hk; [exact Ha|]. cbn in *. destruct Hk as [Hk Hr].
  apply IH; [apply arr_swap; [exact Ha|lia|lia]|exact Hr].
Qed.

Lemma fperm_below m : forall ks perm j i, arr m perm -> ksn_ok m j ks -> i < j ->
  nth i (fperm perm j ks) 0 = nth i perm 0.
Proof.
  induction ks as [|k rest IH]; intros perm j i Ha Hk Hi; [reflexivity|]. cbn in *. destruct Hk as [Hk Hr].
  rewrite (IH _ (S j) i (arr_swap m perm j k Ha ltac:(lia) ltac:(lia)) Hr ltac:(lia)).
  destruct Ha as [Hl _]. rewrite nth_swap by lia. unfold tr.
  destruct (Nat.eqb_spec i j); [lia|]. destruct (Nat.eqb_spec i k); [lia|reflexivity].
Qed.

(* every value below m occurs in an arrangement *)
Lemma arr_onto m v x : arr m v -> x < m -> exists k, k < m /\ nth k v 0 = x.
Proof.
  intros Ha Hx. assert (Hin : In x v).
  { eapply Permutation_in; [apply Permutation_sym, arr_Permutation; exact Ha|apply in_seq; lia]. }
  apply (In_nth _ _ 0) in Hin. destruct Hin as [k [Hk E]]. destruct Ha as [Hl _]. exists k. split; [lia|exact E].
Qed.

(* existence: from a state that agrees with the target on the first j cells *)
Lemma fperm_reach m sigma : arr m sigma -> forall n perm j, j + n = m -> arr m perm ->
  (forall i, i < j -> nth i perm 0 = nth i sigma 0) ->
  exists ks, length ks = n /\ ksn_ok m j ks /\ fperm perm j ks = sigma.
Proof.
  intros Hs. induction n as [|n IH]; intros perm j Hjn Ha Hagree.
  - exists []. split; [reflexivity|]. split; [exact I|]. cbn.
    apply (nth_ext _ _ 0 0); [destruct Ha as [L _], Hs as [L' _]; lia|].
    intros i Hi. apply Hagree. destruct Ha as [L _]. lia.
  - destruct Hs as [Ls [Rs Is]]. assert (Hj : j < m) by lia.
    destruct (arr_onto m perm (nth j sigma 0) Ha (Rs j Hj)) as [k [Hk Ek]].
    assert (Hkj : j <= k).
    { destruct (Nat.le_gt_cases j k) as [H|H]; [exact H|]. exfalso.
      rewrite (Hagree k H) in Ek. apply Is in Ek; lia. }
    assert (Ha' : arr m (swap perm j k)) by (apply arr_swap; [exact Ha|lia|lia]).
    destruct (IH (swap perm j k) (S j) ltac:(lia) Ha') as [ks [Hl [Hok Hf]]].
    + intros i Hi. destruct Ha as [L _]. rewrite nth_swap by lia. unfold tr.
      destruct (Nat.eqb_spec i j) as [->|Hne]; [exact Ek|].
      destruct (Nat.eqb_spec i k) as [->|Hnk]; [lia|]. apply Hagree. lia.
    + exists (k :: ks). split; [cbn; lia|]. split; [cbn; split; [lia|exact Hok]|exact Hf].
Qed.

(* uniqueness *)
Lemma fperm_inj m : forall ks1 ks2 perm j, arr m perm -> length ks1 = length ks2 ->
  ksn_ok m j ks1 -> ksn_ok m j ks2 -> fperm perm j ks1 = fperm perm j ks2 -> ks1 = ks2.
Proof.
  induction ks1 as [|k1 r1 IH]; intros ks2 perm j Ha Hl H1 H2 E.
  - destruct ks2; [reflexivity|discriminate].
  - destruct ks2 as [|k2 r2]; [discriminate|]. cbn in *. destruct H1 as [Hk1 Hr1], H2 as [Hk2 Hr2].
    assert (Ha1 : arr m (swap perm j k1)) by (apply arr_swap; [exact Ha|lia|lia]).
    assert (Ha2 : arr m (swap perm j k2)) by (apply arr_swap; [exact Ha|lia|lia]).
    assert (Ej : nth j (swap perm j k1) 0 = nth j (swap perm j k2) 0).
    { rewrite <- (fperm_below m r1 _ (S j) j Ha1 Hr1) by lia.
      rewrite <- (fperm_below m r2 _ (S j) j Ha2 Hr2) by lia. rewrite E. reflexivity. }
    destruct Ha as [L [R I]]. rewrite !nth_swap in Ej by lia. unfold tr in Ej. rewrite !Nat.eqb_refl in Ej.
    assert (Ek : k1 = k2) by (apply I; [lia|lia|exact Ej]). subst k2. f_equal.
    apply (IH r2 (swap perm j k1) (S j) Ha1); [lia|exact Hr1|exact Hr2|exact E].
Qed.

Theorem smh_arrangement_has_unique_indices m sigma : arr m sigma ->
  exists ks, (length ks = m /\ ksn_ok m 0 ks /\ fperm (seq 0 m) 0 ks = sigma) /\
    forall ks', length ks' = m -> ksn_ok m 0 ks' -> fperm (seq 0 m) 0 ks' = sigma -> ks' = ks.
Proof.
  intros Hs. destruct (fperm_reach m sigma Hs m (seq 0 m) 0 ltac:(lia) (arr_seq m)) as [ks [Hl [Hok Hf]]].
  - intros i Hi. lia.
  - exists ks. split; [auto|]. intros ks' Hl' Hok' Hf'. symmetry.
    apply (fperm_inj m ks ks' (seq 0 m) 0 (arr_seq m)); [lia|exact Hok|exact Hok'|congruence].
Qed.

(* in terms of the item scripts of the model *)
Corollary smh_single_item_uniform m sigma : arr m sigma ->
  exists ks, length ks = m /\ ksn_ok m 0 ks /\
    forall sc, length sc = m -> ks_ok m 0 sc -> (final_perm (seq 0 m) 0 sc = sigma <-> ks_of sc = ks).
Proof.
  intros Hs. destruct (smh_arrangement_has_unique_indices m sigma Hs) as [ks [[Hl [Hok Hf]] Hu]].
  exists ks. split; [exact Hl|]. split; [exact Hok|]. intros sc Hlen Hsc. rewrite final_perm_fperm. split.
  - intros E. apply Hu; [unfold ks_of; rewrite map_length; exact Hlen|apply ks_ok_ksn; exact Hsc|exact E].
  - intros ->. exact Hf.
Qed.

(* the index vectors: exactly n! of them for n remaining cells *)
Fixpoint all_ks (j n : nat) : list (list nat) :=
  match n with
  | 0 => [[]]
  | S n' => flat_map (fun c => map (cons (j + c)) (all_ks (S j) n')) (seq 0 (S n'))
  end.

Lemma fm_len {A B} (f : A -> list B) l k : (forall a, In a l -> length (f a) = k) -> length (flat_map f l) = length l * k.
Proof.
  induction l as [|a l IH]; intros H; cbn; [reflexivity|].
  rewrite app_length, IH, (H a) by (intros; try apply H; cbn; auto). lia.
Qed.

Theorem all_ks_count n : forall j, length (all_ks j n) = fact n.
Proof.
  induction n as [|n IH]; intros j; [reflexivity|]. cbn [all_ks].
  rewrite (fm_len _ _ (fact n)).
  - rewrite seq_length. cbn [fact]. lia.
  - intros c _. rewrite map_length. apply IH.
Qed.

Theorem all_ks_spec n : forall j ks, In ks (all_ks j n) <-> (length ks = n /\ ksn_ok (j + n) j ks).
Proof.
  induction n as [|n IH]; intros j ks.
  - cbn. split.
    + intros [<-|[]]. split; [reflexivity|exact I].
    + intros [Hl _]. left. destruct ks; [reflexivity|discriminate].
  - cbn [all_ks]. rewrite in_flat_map. split.
    + intros [c [Hc Hin]]. apply in_map_iff in Hin. destruct Hin as [ks' [<- Hks']].
      apply in_seq in Hc. apply IH in Hks'. destruct Hks' as [Hl Hok]. split; [cbn; lia|].
      cbn. split; [lia|]. replace (j + S n) with (S j + n) by lia. exact Hok.
    + intros [Hl Hok]. destruct ks as [|k ks]; [discriminate|]. cbn in Hok. destruct Hok as [Hk Hr].
      exists (k - j). split; [apply in_seq; lia|]. apply in_map_iff. exists ks. split; [f_equal; lia|].
      apply IH. split; [cbn in Hl; lia|]. replace (S j + n) with (j + S n) by lia. exact Hr.
Qed.

Example smh_uniform_example :
  filter (fun ks => if list_eq_dec Nat.eq_dec (fperm (seq 0 3) 0 ks) [2; 0; 1] then true else false) (all_ks 0 3) = [[2; 2; 2]].
Proof. vm_compute. reflexivity. Qed.
