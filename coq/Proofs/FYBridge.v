(* C17: the integer rounding executed by the model, rne_mul_floor, IS the IEEE-754 binary64 computation
   trunc (fl (k * 2^-52 * n)) with fl = round to nearest, ties to even (Flocq), for every 52-bit fraction k and every
   n <= 2^53.  The theorems stated on rne_mul_floor / fy_pick therefore speak about the float expression of the code. *)
From Coq Require Import ZArith Reals Lia Lra Bool.
From Flocq Require Import Core.
From PMH Require Import Lib.ListArr Model.FYShuffle.
Local Open Scope R_scope.

Definition fexp64 := FLT_exp (-1074) 53.
Notation rnd64 := (round radix2 fexp64 ZnearestE).

Local Instance prec53 : Prec_gt_0 53. Proof. unfold Prec_gt_0. lia. Qed.

Lemma Zfloor_quot a b : (0 < b)%Z -> Zfloor (IZR a / IZR b) = (a / b)%Z.
Proof. intros Hb. apply Zfloor_div. lia. Qed.

Lemma bpow_m52 : bpow radix2 (-52) = / IZR (2 ^ 52).
Proof. change (-52)%Z with (- (52))%Z. rewrite bpow_opp. f_equal. Qed.

Lemma div_le a b c : 0 < b -> a <= c * b -> a / b <= c.
Proof. intros Hb H. apply Rmult_le_reg_r with b; [lra|]. unfold Rdiv. rewrite Rmult_assoc, Rinv_l by lra. lra. Qed.
Lemma div_lt a b c : 0 < b -> a < c * b -> a / b < c.
Proof. intros Hb H. apply Rmult_lt_reg_r with b; [lra|]. unfold Rdiv. rewrite Rmult_assoc, Rinv_l by lra. lra. Qed.
Lemma lt_div a b c : 0 < b -> c * b < a -> c < a / b.
Proof. intros Hb H. apply Rmult_lt_reg_r with b; [lra|]. unfold Rdiv. rewrite Rmult_assoc, Rinv_l by lra. lra. Qed.

(* ties-to-even rounding of a quotient of integers by a power of two *)
Lemma ZnearestE_quot K e : (0 <= K)%Z -> (1 <= e)%Z ->
  ZnearestE (IZR K / IZR (2 ^ e)) =
  (let q := (K / 2 ^ e)%Z in let r := (K mod 2 ^ e)%Z in let half := (2 ^ (e - 1))%Z in
   if (half <? r)%Z then q + 1 else if (r =? half)%Z && Z.odd q then q + 1 else q)%Z.
Proof.
  intros HK He. cbv zeta.
  assert (HE : (0 < 2 ^ e)%Z) by (apply Z.pow_pos_nonneg; lia).
  assert (H2 : (2 ^ e = 2 * 2 ^ (e - 1))%Z).
  { replace e with (1 + (e - 1))%Z at 1 by lia. rewrite Z.pow_add_r by lia. reflexivity. }
  assert (HA : (0 < 2 ^ (e - 1))%Z) by (apply Z.pow_pos_nonneg; lia).
  set (q := (K / 2 ^ e)%Z). set (r := (K mod 2 ^ e)%Z). set (A := (2 ^ (e - 1))%Z) in *.
  assert (Hdm : (K = 2 ^ e * q + r)%Z) by (apply Z.div_mod; lia).
  assert (Hr : (0 <= r < 2 ^ e)%Z) by (apply Z.mod_pos_bound; lia).
  assert (PE : 0 < IZR (2 ^ e)) by (apply IZR_lt; lia).
  set (x := IZR K / IZR (2 ^ e)).
  assert (Hfl : Zfloor x = q) by (apply Zfloor_quot; lia).
  assert (Hx : x = IZR q + IZR r / IZR (2 ^ e)).
  { unfold x. rewrite Hdm at 1. rewrite plus_IZR, mult_IZR. field. lra. }
  assert (Hfrac : x - IZR (Zfloor x) = IZR r / IZR (2 ^ e)) by (rewrite Hfl, Hx; ring).
  assert (Hhalf : IZR (2 ^ e) = 2 * IZR A) by (rewrite H2, mult_IZR; reflexivity).
  assert (PA : 0 < IZR A) by (apply IZR_lt; lia).
  assert (Hceil : (0 < r)%Z -> Zceil x = (q + 1)%Z).
  { intros Hr0. apply Zceil_imp. rewrite Hx. split.
    - replace (q + 1 - 1)%Z with q by lia. assert (0 < IZR r / IZR (2 ^ e)); [|lra].
      apply Rdiv_lt_0_compat; [apply IZR_lt; lia|exact PE].
    - rewrite plus_IZR. assert (IZR r / IZR (2 ^ e) <= 1); [|lra].
      apply div_le; [exact PE|]. rewrite Rmult_1_l. apply IZR_le. lia. }
  unfold ZnearestE, Znearest. fold x. rewrite Hfrac.
  destruct (Z.ltb_spec A r) as [Hgt|Hle].
  - (* above the middle *)
    rewrite Rcompare_Gt; [apply Hceil; lia|].
    apply lt_div; [exact PE|]. rewrite Hhalf. apply IZR_lt in Hgt. lra.
  - destruct (Z.eqb_spec r A) as [Heq|Hne]; cbn [andb].
    + rewrite Rcompare_Eq; [|rewrite Heq, Hhalf; field; lra].
      rewrite Hfl. rewrite <- Z.negb_even. destruct (Z.even q); cbn [negb]; [reflexivity|apply Hceil; lia].
    + rewrite Rcompare_Lt; [exact Hfl|].
      apply div_lt; [exact PE|]. rewrite Hhalf. assert (r < A)%Z by lia. apply IZR_lt in H. lra.
Qed.

Theorem rne_mul_floor_is_binary64 k n : (0 <= k < 2 ^ 52)%Z -> (1 <= n <= 2 ^ 53)%Z ->
  rne_mul_floor k n = Zfloor (rnd64 (IZR k * bpow radix2 (-52) * IZR n)).
Proof.
  intros Hk Hn. unfold rne_mul_floor. set (K := (k * n)%Z).
  assert (HK0 : (0 <= K)%Z) by (unfold K; nia).
  assert (Hx : IZR k * bpow radix2 (-52) * IZR n = IZR K * bpow radix2 (-52)) by (unfold K; rewrite mult_IZR; ring).
  rewrite Hx.
  destruct (Z.ltb_spec K (2 ^ 53)) as [Hs|Hb].
  - (* the product is representable: no rounding *)
    assert (F : generic_format radix2 fexp64 (IZR K * bpow radix2 (-52))).
    { apply generic_format_FLT. exists (Float radix2 K (-52)); [reflexivity|cbn; lia|cbn; lia]. }
    rewrite round_generic by (try apply valid_rnd_N; exact F).
    rewrite bpow_m52. symmetry. apply Zfloor_quot. lia.
  - assert (HKp : (0 < K)%Z) by lia.
    destruct (Z.log2_spec K HKp) as [Hl1 Hl2]. set (L := Z.log2 K) in *.
    assert (HL53 : (53 <= L)%Z).
    { destruct (Z_lt_le_dec L 53) as [Hlt|]; [|assumption]. exfalso.
      assert (2 ^ Z.succ L <= 2 ^ 53)%Z by (apply Z.pow_le_mono_r; lia). lia. }
    assert (HL104 : (L <= 104)%Z).
    { destruct (Z_le_gt_dec L 104) as [|Hgt]; [assumption|exfalso].
      assert (2 ^ 105 <= 2 ^ L)%Z by (apply Z.pow_le_mono_r; lia).
      assert (K < 2 ^ 52 * 2 ^ 53)%Z by (unfold K; nia).
      change (2 ^ 52 * 2 ^ 53)%Z with (2 ^ 105)%Z in *. lia. }
    set (e := (L - 52)%Z). assert (He : (1 <= e <= 52)%Z) by (unfold e; lia).
    set (x := IZR K * bpow radix2 (-52)).
    (* magnitude of x *)
    assert (Hmag : mag radix2 x = (e + 1)%Z :> Z).
    { apply mag_unique. rewrite Rabs_pos_eq by (unfold x; apply Rmult_le_pos; [apply IZR_le; lia|apply bpow_ge_0]).
      unfold x. split.
      - replace (e + 1 - 1)%Z with (L + -52)%Z by (unfold e; lia). rewrite bpow_plus.
        apply Rmult_le_compat_r; [apply bpow_ge_0|]. rewrite <- IZR_Zpower by lia. apply IZR_le. exact Hl1.
      - replace (e + 1)%Z with (Z.succ L + -52)%Z by (unfold e; lia). rewrite bpow_plus.
        apply Rmult_lt_compat_r; [apply bpow_gt_0|]. rewrite <- IZR_Zpower by lia. apply IZR_lt. exact Hl2. }
    assert (Hcexp : cexp radix2 fexp64 x = (e - 52)%Z).
    { unfold cexp. rewrite Hmag. unfold fexp64, FLT_exp. lia. }
    assert (Hsm : scaled_mantissa radix2 fexp64 x = IZR K / IZR (2 ^ e)).
    { unfold scaled_mantissa. rewrite Hcexp. unfold x. rewrite Rmult_assoc, <- bpow_plus.
      replace (-52 + - (e - 52))%Z with (- e)%Z by lia. rewrite bpow_opp, <- IZR_Zpower by lia. reflexivity. }
    unfold round, F2R. cbn [Fnum Fexp]. rewrite Hsm, Hcexp.
    rewrite (ZnearestE_quot K e HK0 ltac:(lia)). cbv zeta.
    set (q' := (if (2 ^ (e - 1) <? K mod 2 ^ e)%Z then (K / 2 ^ e + 1)%Z
                else if (K mod 2 ^ e =? 2 ^ (e - 1))%Z && Z.odd (K / 2 ^ e) then (K / 2 ^ e + 1)%Z else (K / 2 ^ e)%Z)).
    replace (IZR q' * bpow radix2 (e - 52)) with (IZR (q' * 2 ^ e) / IZR (2 ^ 52)).
    + symmetry. apply Zfloor_quot. lia.
    + rewrite mult_IZR. replace (e - 52)%Z with (e + -52)%Z by lia. rewrite bpow_plus, bpow_m52, <- IZR_Zpower by lia.
      change (IZR (radix2 ^ e)) with (IZR (2 ^ e)). unfold Rdiv. ring.
Qed.

(* in terms of the raw generator output *)
Corollary fy_pick_is_binary64 u n : (0 <= u < 2 ^ 64)%Z -> (1 <= n <= 2 ^ 53)%Z ->
  fy_pick u n = Zfloor (rnd64 (IZR (u / 2 ^ 12) * bpow radix2 (-52) * IZR n)).
Proof.
  intros Hu Hn. unfold fy_pick. apply rne_mul_floor_is_binary64; [|exact Hn].
  split; [apply Z.div_pos; lia|]. apply Z.div_lt_upper_bound; [lia|]. change (2 ^ 12 * 2 ^ 52)%Z with (2 ^ 64)%Z. lia.
Qed.
