(* One entry point for the extracted runner: (property code, flat words) -> flat result. *)
From Coq Require Import List ZArith Bool.
From PMH Require Import Lib.ListArr Lib.Cases Lib.Wire Model.ProbMinHash Model.ProbMinHashRun Model.SketchRun.
Import ListNotations.
Open Scope Z_scope.

(* ---- ProbMinHash case: variant m maxv init calls{items{id points{h k lbn}}} oc regs sig ---- *)
Definition rd_point : rd (list Z) :=
  h <- rd_z ;; k <- rd_z ;; l <- rd_z ;; rd_ret [h; k; l].
Definition rd_item : rd (Z * list (list Z)) := rd_pair rd_z (rd_list rd_point).
Definition rd_pmh_case :=
  variant <- rd_z ;; m <- rd_z ;; maxv <- rd_z ;; init <- rd_z ;;
  calls <- rd_list (rd_list rd_item) ;;
  oc <- rd_z ;; regs <- rd_list rd_z ;; sig <- rd_list rd_z ;;
  rd_ret ((variant, m, maxv, init), calls, (oc, regs, sig)).

(* variant 2 scripts carry a dummy third field *)
Definition strip2 (c : (Z * Z * Z * Z) * list (list (Z * list (list Z))) * (Z * list Z * list Z)) :=
  let '((variant, m, maxv, init), calls, e) := c in
  if variant =? 2
  then ((variant, m, maxv, init),
        map (map (fun '(id, sc) => (id, map (fun p => match p with [h; k; _] => [h; k] | _ => p end) sc))) calls, e)
  else c.

Definition run_generic (code : Z) (ws : list Z) : list Z :=
  if code =? 2 then
    match rd_pmh_case ws with
    | Some (c, []) => [chk_pmh (strip2 c)]
    | _ => [-1]
    end
  else if code =? 20 then   (* model output for diagnosis *)
    match rd_pmh_case ws with
    | Some (c, []) => let '(oc, regs, sig) := out_pmh (strip2 c) in oc :: (Z.of_nat (length regs) :: regs) ++ sig
    | _ => [-1]
    end
  else if code =? 21 then   (* hypotheses monitor: [scripts well formed; tie free] *)
    match rd_pmh_case ws with
    | Some (c, []) => monitor_pmh (strip2 c)
    | _ => [-1]
    end
  else if code =? 5 then run_ss ws
  else if code =? 6 then run_smh ws
  else if code =? 7 then run_smh2 ws
  else if code =? 8 then run_dens ws
  else if code =? 9 then run_ord ws
  else if code =? 10 then run_json_parse ws
  else if code =? 11 then run_json_print ws
  else if code =? 12 then run_sig ws
  else [-2].
