(* correspondence glue for C02 / C01 / C13 (ProbMinHash) *)
From Coq Require Import List ZArith Bool.
From PMH Require Import Lib.ListArr Lib.Cases Model.ProbMinHash.
Import ListNotations.
Open Scope Z_scope.

Definition mk3 (sc : list (list Z)) : list point3 :=
  map (fun p => match p with [h; k; l] => (h, Z.to_nat k, l) | _ => (0, 0%nat, 0) end) sc.
Definition mk2 (sc : list (list Z)) : list point2 :=
  map (fun p => match p with [h; k] => (h, Z.to_nat k) | _ => (0, 0%nat) end) sc.

Definition items3 (c : list (Z * list (list Z))) := map (fun '(id, sc) => (id, mk3 sc)) c.
Definition items2 (c : list (Z * list (list Z))) := map (fun '(id, sc) => (id, mk2 sc)) c.

(* variant: 3 -> ProbMinHash3, 31 -> 3a / 3aSha, 2 -> ProbMinHash2 *)
Definition run_pmh (variant m maxv init : Z) (calls : list (list (Z * list (list Z)))) : pres pstate :=
  let st := p_new maxv init (Z.to_nat m) in
  if variant =? 3 then pmh3_items st (items3 (concat calls))
  else if variant =? 31 then pmh3a_batches st (map items3 calls)
  else pmh2_items st (items2 (concat calls)).

(* 0 = agrees, 1 = script exhausted (harness must send a longer prefix), 2 = differs, 3 = model failure outcome *)
Definition chk_pmh (c : (Z * Z * Z * Z) * list (list (Z * list (list Z))) * (Z * list Z * list Z)) : Z :=
  let '((variant, m, maxv, init), calls, (oc, regs, sig)) := c in
  match run_pmh variant m maxv init calls with
  | Done st => if (oc =? 0) && zlist_eqb regs (pregs st) && zlist_eqb sig (psig st) then 0 else 2
  | Exhausted => 1
  | PFail _ => if oc =? 1 then 0 else 3
  end.

Definition out_pmh (c : (Z * Z * Z * Z) * list (list (Z * list (list Z))) * (Z * list Z * list Z)) :=
  let '((variant, m, maxv, init), calls, _) := c in
  match run_pmh variant m maxv init calls with
  | Done st => (0, pregs st, psig st)
  | Exhausted => (1, [], [])
  | PFail n => (2, [Z.of_nat n], [])
  end.

(* ---- monitors reported in the evidence: do the scripts meet the theorems' hypotheses? ---- *)
Fixpoint chain_b (m : nat) (lb : Z) (sc : list point3) : bool :=
  match sc with
  | [] => true
  | (h, k, lbn) :: r => (lb <=? h) && (h <=? lbn) && (k <? m)%nat && chain_b m lbn r
  end.
Fixpoint chain2_b (m : nat) (lb : Z) (sc : list point2) : bool :=
  match sc with
  | [] => true
  | (h, k) :: r => (lb <=? h) && (k <? m)%nat && chain2_b m h r
  end.

Fixpoint min_at_b (Pts : list tpoint) (maxv : Z) (k : nat) : Z :=
  match Pts with
  | [] => maxv
  | (_, h, k') :: r => if Nat.eqb k' k then Z.min h (min_at_b r maxv k) else min_at_b r maxv k
  end.

Definition tie_free_slot (Pts : list tpoint) (maxv : Z) (k : nat) : bool :=
  let mn := min_at_b Pts maxv k in
  let ids := map (fun '(id, _, _) => id)
                 (filter (fun '(_, h, k') => Nat.eqb k' k && (h =? mn)) Pts) in
  match ids with [] => true | i :: r => forallb (Z.eqb i) r end.

Definition monitor_pmh (c : (Z * Z * Z * Z) * list (list (Z * list (list Z))) * (Z * list Z * list Z)) : list Z :=
  let '((variant, m, maxv, init), calls, _) := c in
  let mn := Z.to_nat m in
  if variant =? 2 then
    let items := items2 (concat calls) in
    let wf := forallb (fun it => chain2_b mn 0 (snd it)) items in
    let pts := concat (map (fun it => tag2 (fst it) (snd it)) items) in
    [if wf then 1 else 0; if forallb (tie_free_slot pts maxv) (seq 0 mn) then 1 else 0]
  else
    let items := items3 (concat calls) in
    let wf := forallb (fun it => chain_b mn 0 (snd it)) items in
    let pts := concat (map (fun it => tag3 (fst it) (snd it)) items) in
    [if wf then 1 else 0; if forallb (tie_free_slot pts maxv) (seq 0 mn) then 1 else 0].
