(* correspondence glue for the MLE part of C14 *)
From Coq Require Import QArith List ZArith.
From PMH Require Import Lib.ListArr Gen.MleGen Model.Mle.
Import ListNotations.

(* case = [n1; d1; n2; d2; dequal; m] with card_i = n_i / d_i; answer: 0 = Ok within [0,b_sup], 1 = failure *)
Definition run_mle (c : list Z) : Z :=
  match c with
  | [n1; d1; n2; d2; deq; m] =>
    let c1 := Qmake n1 (Z.to_pos d1) in let c2 := Qmake n2 (Z.to_pos d2) in
    match mle_model c1 c2 (inject_Z deq) (inject_Z m) true [] with
    | Ok j => if Qle_bool 0 j && Qle_bool j (mle_b_sup (c1 / c2)) then 0%Z else 2%Z
    | _ => 1%Z
    end
  | _ => 9%Z
  end.
