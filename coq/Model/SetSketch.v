(* Executable model of SetSketcher (src/setsketcher.rs): sketch, merge, reinit, get_low_sketch.
   Registers, lower_k and all draws are integers:
     script entry of draw j = (a_j, k_j, i_j)
        a_j = floor(-log_b x_j)                 (test "lb_xj > -lower_k"  <=>  a_j < lower_k)
        k_j = max(0, min(q+1, floor(1 - log_b x_j)))   as the code computes it
        i_j = position drawn from the per-item Fisher-Yates permutation
   No proofs here. *)
From Coq Require Import List Arith ZArith Bool.
From PMH Require Import Lib.ListArr.
Import ListNotations.
Open Scope Z_scope.

Record ssparams := mkSP { sp_m : nat; sp_q : Z; sp_imax : Z; sp_b : Z; sp_a : Z }.
(* sp_b, sp_a: bit patterns of the f64 parameters b and a (only compared, see merge) *)

Record ss := mkSS { ss_par : ssparams; ss_k : list Z; ss_lower : Z; ss_nbmin : Z; ss_ovf : Z }.

Definition ss_new (p : ssparams) : ss := mkSS p (repeat 0 (sp_m p)) 0 0 0.
Definition ss_reinit (s : ss) : ss := mkSS (ss_par s) (repeat 0 (sp_m (ss_par s))) 0 0 0.

Definition lmin (l : list Z) : Z := fold_left Z.min l (hd 0 l).

Definition sdraw := (Z * Z * nat)%type.

(* the for loop of sketch(); m iterations at most, i.e. the length of a full script *)
Fixpoint ss_item (s : ss) (script : list sdraw) : outcome ss :=
  match script with
  | [] => Ok s
  | (a, k, i) :: rest =>
    if a <? ss_lower s then Ok s                         (* lb_xj > -lower_k : break *)
    else if k <=? ss_lower s then Ok s                   (* k <= lower_k : break *)
    else if negb (i <? length (ss_k s))%nat then Oob
    else if nthz (ss_k s) i <? k then
      let imax := sp_imax (ss_par s) in
      let '(kv, ovf) := if imax <? k then (imax, ss_ovf s + 1) else (k, ss_ovf s) in
      let kvec := upd (ss_k s) i kv in
      let nb := ss_nbmin s + 1 in
      let low := if (nb mod Z.of_nat (sp_m (ss_par s)) =? 0)
                 then (let flow := lmin kvec in if ss_lower s <? flow then flow else ss_lower s)
                 else ss_lower s in
      ss_item (mkSS (ss_par s) kvec low nb ovf) rest
    else ss_item s rest
  end.

(* merge: parameter check first (m, q exact; a, b up to the code's sub-ulp tolerance), then
   position-wise maximum *)
(* |x - y| / x < f64::EPSILON on bit patterns of positive normal doubles: equal, or one ulp apart
   unless x is a power of two and y its successor (then the quotient is exactly EPSILON) *)
Definition f64_close (x y : Z) : bool :=
  (x =? y) || ((Z.abs (x - y) =? 1) && negb ((x mod 2 ^ 52 =? 0) && (y =? x + 1))).

Definition params_mergeable (p1 p2 : ssparams) : bool :=
  (sp_m p1 =? sp_m p2)%nat && (sp_q p1 =? sp_q p2) &&
  f64_close (sp_b p1) (sp_b p2) && f64_close (sp_a p1) (sp_a p2).

Fixpoint zipmax (a b : list Z) : list Z :=
  match a, b with
  | x :: a', y :: b' => Z.max x y :: zipmax a' b'
  | _, _ => a
  end.

Definition ss_merge (s o : ss) : ss * bool :=
  if params_mergeable (ss_par s) (ss_par o)
  then (mkSS (ss_par s) (zipmax (ss_k s) (ss_k o)) (ss_lower s) (ss_nbmin s) (ss_ovf s + ss_ovf o), true)
  else (s, false).

Definition ss_low (s : ss) : Z := ss_lower s.
