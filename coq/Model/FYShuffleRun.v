(* correspondence glue for C17 *)
From Coq Require Import List ZArith Bool.
From PMH Require Import Lib.ListArr Lib.Cases Model.FYShuffle.
Import ListNotations.
Open Scope Z_scope.

Definition mkfyops (l : list (list Z)) : list fyop :=
  map (fun o => match o with [0; u] => FNext u | _ => FReset end) l.

Definition run_fy (m : Z) (ops : list (list Z)) : Z * list Z * list Z :=
  match fy_run (fy_new (Z.to_nat m)) (mkfyops ops) [] with
  | Ok (s, outs) => (0, outs, map Z.of_nat (fv s))
  | _ => (1, [], [])
  end.

(* case = (m, ops, (outcome, outs, final)) *)
Definition chk_fy (c : Z * list (list Z) * (Z * list Z * list Z)) : bool :=
  let '(m, ops, (oc, outs, fin)) := c in
  let '(oc', outs', fin') := run_fy m ops in
  if oc =? 1 then oc' =? 1 else (oc' =? 0) && zlist_eqb outs outs' && zlist_eqb fin fin'.

(* pick case = [u; n; idx] *)
Definition chk_pick (c : list Z) : bool :=
  match c with [u; n; idx] => fy_pick u n =? idx | _ => false end.
