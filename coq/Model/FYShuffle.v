(* Executable model of src/fyshuffle.rs (lazy Fisher-Yates).  No proofs here.
   A draw consumes one raw 64-bit generator output u:
     xsi = (u >> 12) * 2^-52              (rand 0.9 Uniform<f64>::new(0.,1.))
     idx = lastidx + trunc( fl( xsi * (m - lastidx) as f64 ) )
   fl = round-to-nearest-even to 53 bits, written here on integers. *)
From Coq Require Import List Arith ZArith Bool.
From PMH Require Import Lib.ListArr.
Import ListNotations.

(* floor of the binary64 product (k * 2^-52) * n, for 0 <= k < 2^52, 0 <= n <= 2^53 *)
Definition rne_mul_floor (k n : Z) : Z :=
  let K := (k * n)%Z in
  if (K <? 2 ^ 53)%Z then (K / 2 ^ 52)%Z            (* exact product *)
  else
    let e := (Z.log2 K - 52)%Z in                    (* bits to drop, 1 <= e <= 52 *)
    let q := (K / 2 ^ e)%Z in
    let r := (K mod 2 ^ e)%Z in
    let half := (2 ^ (e - 1))%Z in
    let q' := if (half <? r)%Z then (q + 1)%Z
              else if (r =? half)%Z && Z.odd q then (q + 1)%Z else q in
    ((q' * 2 ^ e) / 2 ^ 52)%Z.

Definition fy_pick (u n : Z) : Z := rne_mul_floor (u / 2 ^ 12) n.

Record fy := mkFY { fm : nat; fv : list nat; flast : nat }.

Definition fy_new (m : nat) : fy := mkFY m (seq 0 m) m.
Definition fy_reset (s : fy) : fy := mkFY (fm s) (seq 0 (fm s)) 0.

Definition swap (l : list nat) (i j : nat) : list nat :=
  upd (upd l i (nth j l 0)) j (nth i l 0).

Definition fy_cur (s : fy) : nat := if (fm s <=? flast s) then 0 else flast s.

Section Pick.
Variable pick : Z -> Z -> Z.

Definition fy_next (s : fy) (u : Z) : outcome (fy * nat) :=
  let last := fy_cur s in
  let idx := last + Z.to_nat (pick u (Z.of_nat (fm s - last))) in
  if negb (idx <? length (fv s)) then Oob else
  Ok (mkFY (fm s) (swap (fv s) idx last) (S last), nth idx (fv s) 0).

Fixpoint fy_draws (s : fy) (us : list Z) : outcome (fy * list nat) :=
  match us with
  | [] => Ok (s, [])
  | u :: r =>
    bind (fy_next s u) (fun '(s1, x) =>
    bind (fy_draws s1 r) (fun '(s2, xs) => Ok (s2, x :: xs)))
  end.
End Pick.

(* operations as the harness sends them *)
Inductive fyop := FNext (u : Z) | FReset.

Fixpoint fy_run (s : fy) (ops : list fyop) (acc : list Z) : outcome (fy * list Z) :=
  match ops with
  | [] => Ok (s, rev acc)
  | FReset :: r => fy_run (fy_reset s) r ((-1)%Z :: acc)
  | FNext u :: r =>
    bind (fy_next fy_pick s u) (fun '(s1, x) => fy_run s1 r (Z.of_nat x :: acc))
  end.
