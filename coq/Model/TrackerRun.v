(* glue used by the correspondence check only: decode harness cases, run the model *)
From Coq Require Import List ZArith Bool.
From PMH Require Import Lib.ListArr Model.Tracker.
Import ListNotations.
Open Scope Z_scope.

Definition mkops (l : list (list Z)) : list top :=
  map (fun o => match o with
                | [0; k; v] => TUpdate (Z.to_nat k) v
                | [2; v] => TProbe v
                | _ => TReset end) l.

Definition run_case (m maxv : Z) (ops : list (list Z)) : Z * list Z * list Z :=
  match bind (t_new maxv (Z.to_nat m)) (fun t => t_run t (mkops ops) []) with
  | Ok (t, obs) => (0, tvals t, obs)
  | _ => (1, [], [])
  end.

Fixpoint zlist_eqb (a b : list Z) : bool :=
  match a, b with
  | [], [] => true
  | x :: a', y :: b' => (x =? y) && zlist_eqb a' b'
  | _, _ => false
  end.

(* case = ((m, maxv), ops, (outcome, nodes, obs)) *)
Definition chk_case (c : (Z * Z) * list (list Z) * (Z * list Z * list Z)) : bool :=
  let '((m, maxv), ops, (oc, nodes, obs)) := c in
  let '(oc', nodes', obs') := run_case m maxv ops in
  if oc =? 1 then oc' =? 1 else (oc' =? 0) && zlist_eqb nodes nodes' && zlist_eqb obs obs'.

Fixpoint bad_cases (i : Z) (cs : list ((Z * Z) * list (list Z) * (Z * list Z * list Z)))
  : list (Z * (Z * list Z * list Z)) :=
  match cs with
  | [] => []
  | c :: r =>
    let rest := bad_cases (i + 1) r in
    if chk_case c then rest else
      let '((m, maxv), ops, _) := c in (i, run_case m maxv ops) :: rest
  end.
