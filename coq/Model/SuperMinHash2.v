(* Executable model of SuperMinHash2<I,..> (src/superminhasher2.rs).
   item script = (hash, rounds) with round j = (r_j, k_j): r_j the usize draw, k_j the j-th
   element of the per-item Fisher-Yates permutation.  No proofs here. *)
From Coq Require Import List Arith ZArith Bool.
From PMH Require Import Lib.ListArr Model.SuperMinHash.
Import ListNotations.
Open Scope Z_scope.

Record smh2 := mkS2 {
  s2_m : nat;
  s2_h : list Z;        (* hsketch: item hashes *)
  s2_v : list Z;        (* values *)
  s2_l : list nat;      (* l: round of the current value *)
  s2_b : list Z;        (* histogram *)
  s2_rank : Z;
  s2_upper : nat }.

Definition usize_max : Z := 2 ^ 64 - 1.

Definition smh2_new (m : nat) : outcome smh2 :=
  match m with
  | O => Underflow
  | _ => Ok (mkS2 m (repeat 0 m) (repeat usize_max m) (repeat (m - 1)%nat m)
                  (upd (repeat 0 m) (m - 1) (Z.of_nat m)) 0 (m - 1))
  end.
Definition smh2_reinit (s : smh2) : smh2 :=
  let m := s2_m s in
  mkS2 m (repeat 0 m) (repeat usize_max m) (repeat (m - 1)%nat m)
       (upd (repeat 0 m) (m - 1) (Z.of_nat m)) 0 (m - 1).

Fixpoint smh2_rounds (s : smh2) (hv : Z) (j : nat) (script : list (Z * nat)) : outcome smh2 :=
  match script with
  | [] => Ok s
  | (r, k) :: rest =>
    if (s2_upper s <? j)%nat then Ok s else
    let m := s2_m s in
    if negb (k <? m)%nat then Oob else
    let lk := nthn (s2_l s) k in
    if (j <=? lk)%nat then
      if (lk =? j)%nat then
        if r <=? nthz (s2_v s) k
        then smh2_rounds (mkS2 m (upd (s2_h s) k hv) (upd (s2_v s) k r) (s2_l s) (s2_b s) (s2_rank s) (s2_upper s)) hv (S j) rest
        else smh2_rounds s hv (S j) rest
      else
        let b1 := upd (s2_b s) lk (nthz (s2_b s) lk - 1) in
        let b' := upd b1 j (nthz b1 j + 1) in
        match lower_upper (S m) b' (s2_upper s) with
        | Ok u => smh2_rounds (mkS2 m (upd (s2_h s) k hv) (upd (s2_v s) k r) (upd (s2_l s) k j) b' (s2_rank s) u) hv (S j) rest
        | Underflow => Underflow | OutOfFuel => OutOfFuel | Oob => Oob | AssertFail n => AssertFail n
        end
    else smh2_rounds s hv (S j) rest
  end.

Definition smh2_sketch (s : smh2) (hv : Z) (script : list (Z * nat)) : outcome smh2 :=
  bind (smh2_rounds s hv 0 script)
       (fun s' => Ok (mkS2 (s2_m s') (s2_h s') (s2_v s') (s2_l s') (s2_b s') (s2_rank s' + 1) (s2_upper s'))).
