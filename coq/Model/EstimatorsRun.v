(* correspondence glue for C14 *)
From Coq Require Import List ZArith Bool String.
From PMH Require Import Lib.Cases Model.Estimators Gen.EstimatorsGen.
Import ListNotations.
Open Scope Z_scope.

Definition run_est (idx : Z) (a b : list Z) : list Z :=
  match nth_error generated_estimators (Z.to_nat idx) with
  | None => [9; 0; 0]
  | Some (_, e) =>
    match est_run e a b with
    | EstOk c n => [0; Z.of_nat c; Z.of_nat n]
    | EstErr => [1; 0; 0]
    | EstPanic => [2; 0; 0]
    end
  end.

Definition run_est_all (cs : list (Z * list Z * list Z)) : list (list Z) :=
  map (fun '(i, a, b) => run_est i a b) cs.
