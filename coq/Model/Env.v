(* C12 / C13 audits: what the models declare about ambient reads and about reset coverage. *)
From Coq Require Import List String Bool.
Import ListNotations.
Open Scope string_scope.

(* ---- C12: an ambient read is acceptable when it cannot flow into a sketch ---- *)
Definition ambient_ok (r : string * string * string) : bool :=
  let '(file, fn, kind) := r in
  (* the lazily initialised logger *)
  (String.eqb file "lib.rs" && String.eqb fn "<module>" && String.eqb kind "global-state")
  (* ProbOrdMinHash2 / OrdMinHashStore keep a ThreadRng handle for the explicit re-seeding
     functions only; constructing the handle draws nothing *)
  || (String.eqb file "probminhasher/probordminhash2.rs" && String.eqb fn "new" && String.eqb kind "threadrng-construct")
  (* the occurrence counter map: only get_mut / insert / clear, never iterated *)
  || (String.eqb file "probminhasher/probordminhash2.rs" && String.eqb fn "new" && String.eqb kind "randomstate-map")
  (* explicit requests for fresh randomness (documented as changing the hashing) *)
  || (String.eqb file "probminhasher/probordminhash2.rs" &&
      (String.eqb fn "change_rng_seed" || String.eqb fn "change_wyhash_seed") && String.eqb kind "threadrng-draw").

(* ---- C13: fields a method may mutate without the reset having to restore them ---- *)
Definition reset_exempt (st f : string) : bool :=
  (* scratch buffer, overwritten before every use; re-seeding state (change_wyhash_seed only) *)
  (String.eqb st "OrdMinHashStore" && (String.eqb f "hashbuffer" || String.eqb f "seed_rng" || String.eqb f "wyhash_seed"))
  (* the per-pair permutation is reset at the top of every iteration of hash_set; seed and
     seed_rng change only through change_rng_seed *)
  || (String.eqb st "ProbOrdMinHash2" && (String.eqb f "permut_generator" || String.eqb f "seed" || String.eqb f "seed_rng")).

Definition mem (x : string) (l : list string) : bool := existsb (String.eqb x) l.

Definition reset_covers (row : string * list string * list string * list string) : bool :=
  let '(st, fields, mutated, reset) := row in
  forallb (fun f => mem f reset || reset_exempt st f) mutated
  && forallb (fun f => mem f fields) reset.

(* the fields each model carries (state that matters); the remaining struct fields are
   parameters, hashers and type markers, constant after construction *)
Definition model_fields (st : string) : list string :=
  if String.eqb st "SuperMinHash" then ["hsketch"; "q"; "p"; "b"; "item_rank"; "a_upper"]
  else if String.eqb st "SuperMinHash2" then ["hsketch"; "values"; "l"; "b"; "item_rank"; "a_upper"; "permut_generator"]
  else if String.eqb st "SetSketcher" then ["k_vec"; "lower_k"; "nbmin"; "permut_generator"; "nb_overflow"]
  else if String.eqb st "OptDensMinHash" then ["hsketch"; "values"; "init"; "nb_empty"]
  else if String.eqb st "RevOptDensMinHash" then ["hsketch"; "values"; "init"; "nb_empty"]
  else if String.eqb st "ProbMinHash2" then ["maxvaluetracker"; "permut_generator"; "signature"]
  else if String.eqb st "MaxValueTracker" then ["values"]
  else if String.eqb st "FYshuffle" then ["v"; "lastidx"]
  else if String.eqb st "OrdMinHashStore" then ["indices"; "values"; "hashbuffer"; "seed_rng"; "wyhash_seed"]
  else if String.eqb st "ProbOrdMinHash2" then ["max_tracker"; "min_store"; "permut_generator"; "counter"; "seed_rng"; "seed"]
  else [].

(* every mutated field is one the model knows about *)
Definition model_knows (row : string * list string * list string * list string) : bool :=
  let '(st, fields, mutated, reset) := row in forallb (fun f => mem f (model_fields st)) mutated.
