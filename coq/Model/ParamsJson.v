(* Model of SetSketchParams::dump_json / reload_json at byte level.
   A document is a list of bytes (Z).  Integers are printed from N through the standard
   decimal conversion; the two floats are carried as their printed tokens (the exact
   decimal<->binary conversion of ryu / serde_json is external code, see DESIGN.md).
   The parser covers the subset of JSON that the correspondence generates: one object with
   string keys (no escapes) whose values are numbers, simple strings, true/false/null; anything
   else is [PUnsupported].  No proofs here. *)
From Coq Require Import List ZArith Bool Decimal DecimalN NArith.
Import ListNotations.
Open Scope Z_scope.

Definition bytes := list Z.

Inductive presult := POk (b : bytes) (m : N) (a : bytes) (q : N) | PError | PUnsupported.

(* ---------- printing ---------- *)
Fixpoint uint_bytes (d : uint) : bytes :=
  match d with
  | Nil => []
  | D0 r => 48 :: uint_bytes r | D1 r => 49 :: uint_bytes r | D2 r => 50 :: uint_bytes r
  | D3 r => 51 :: uint_bytes r | D4 r => 52 :: uint_bytes r | D5 r => 53 :: uint_bytes r
  | D6 r => 54 :: uint_bytes r | D7 r => 55 :: uint_bytes r | D8 r => 56 :: uint_bytes r
  | D9 r => 57 :: uint_bytes r
  end.
Definition print_N (n : N) : bytes := uint_bytes (N.to_uint n).

(* {"b":B,"m":M,"a":A,"q":Q} *)
Definition print_params (b : bytes) (m : N) (a : bytes) (q : N) : bytes :=
  [123; 34; 98; 34; 58] ++ b ++ [44; 34; 109; 34; 58] ++ print_N m ++
  [44; 34; 97; 34; 58] ++ a ++ [44; 34; 113; 34; 58] ++ print_N q ++ [125].

(* ---------- lexing helpers ---------- *)
Definition is_ws (c : Z) : bool := (c =? 32) || (c =? 9) || (c =? 10) || (c =? 13).
Definition is_digit (c : Z) : bool := (48 <=? c) && (c <=? 57).

Fixpoint skip_ws (s : bytes) : bytes :=
  match s with c :: r => if is_ws c then skip_ws r else s | [] => [] end.

Fixpoint take_digits (s : bytes) : bytes * bytes :=
  match s with
  | c :: r => if is_digit c then let '(d, t) := take_digits r in (c :: d, t) else ([], s)
  | [] => ([], [])
  end.

(* a JSON number token: returns (token, is_plain_nonneg_integer, rest) *)
Definition lex_sign (s : bytes) : bool * bytes :=
  match s with c :: r => if c =? 45 then (true, r) else (false, s) | [] => (false, s) end.
Definition lex_frac (s : bytes) : bytes * bytes * bool :=
  match s with
  | c :: r => if c =? 46 then let '(f, t) := take_digits r in (46 :: f, t, true) else ([], s, false)
  | [] => ([], s, false)
  end.
Definition lex_esign (r : bytes) : bytes * bytes :=
  match r with c :: r' => if (c =? 43) || (c =? 45) then ([c], r') else ([], r) | [] => ([], r) end.
Definition lex_exp (s : bytes) : bytes * bytes * bool * bool :=
  match s with
  | e :: r =>
    if (e =? 101) || (e =? 69) then
      let '(sg, r1) := lex_esign r in
      let '(ed, t) := take_digits r1 in
      (e :: sg ++ ed, t, true, negb (match ed with [] => true | _ => false end))
    else ([], s, false, true)
  | [] => ([], s, false, true)
  end.

Definition lex_number (s : bytes) : option (bytes * bool * bytes) :=
  let '(neg, s1) := lex_sign s in
  let '(ip, s2) := take_digits s1 in
  match ip with
  | [] => None
  | d0 :: drest =>
    if (d0 =? 48) && negb (match drest with [] => true | _ => false end) then None   (* leading zero *)
    else
      let '(frac, s3, hasfrac) := lex_frac s2 in
      if hasfrac && (match frac with [_] => true | _ => false end) then None          (* "1." *)
      else
        let '(ex, s4, hasexp, okexp) := lex_exp s3 in
        if negb okexp then None
        else Some ((if neg then [45] else []) ++ ip ++ frac ++ ex, negb neg && negb hasfrac && negb hasexp, s4)
  end.

(* a string without escapes: returns (content, rest after the closing quote) *)
Fixpoint lex_string_body (s : bytes) : option (bytes * bytes) :=
  match s with
  | [] => None
  | c :: r =>
    if c =? 34 then Some ([], r)
    else if (c =? 92) || (c <? 32) then None
    else match lex_string_body r with Some (b, t) => Some (c :: b, t) | None => None end
  end.

Fixpoint bytes_eqb (a b : bytes) : bool :=
  match a, b with
  | [], [] => true
  | x :: a', y :: b' => (x =? y) && bytes_eqb a' b'
  | _, _ => false
  end.

Fixpoint starts_with (p s : bytes) : option bytes :=
  match p, s with
  | [], _ => Some s
  | x :: p', y :: s' => if x =? y then starts_with p' s' else None
  | _, [] => None
  end.

Fixpoint digits_to_uint (d : bytes) : uint :=
  match d with
  | [] => Nil
  | c :: r =>
    let t := digits_to_uint r in
    if c =? 48 then D0 t else if c =? 49 then D1 t else if c =? 50 then D2 t else if c =? 51 then D3 t
    else if c =? 52 then D4 t else if c =? 53 then D5 t else if c =? 54 then D6 t else if c =? 55 then D7 t
    else if c =? 56 then D8 t else D9 t
  end.

Definition u64_of_token (tok : bytes) : option N :=
  let n := N.of_uint (digits_to_uint tok) in
  if (n <=? 18446744073709551615)%N then Some n else None.

(* ---------- the struct visitor ---------- *)
Record acc := mkA { fb : option bytes; fm : option N; fa : option bytes; fq : option N }.
Definition acc0 := mkA None None None None.

Inductive vtok := VNum (tok : bytes) (plain : bool) | VOther | VBad | VUnsup.

Definition lex_value (s : bytes) : vtok * bytes :=
  match s with
  | [] => (VBad, [])
  | c :: r =>
    if c =? 34 then match lex_string_body r with Some (_, t) => (VOther, t) | None => (VBad, []) end
    else if c =? 116 then match starts_with [116; 114; 117; 101] s with Some t => (VOther, t) | None => (VBad, []) end
    else if c =? 102 then match starts_with [102; 97; 108; 115; 101] s with Some t => (VOther, t) | None => (VBad, []) end
    else if c =? 110 then match starts_with [110; 117; 108; 108] s with Some t => (VOther, t) | None => (VBad, []) end
    else if (c =? 91) || (c =? 123) then (VUnsup, [])
    else match lex_number s with Some (tok, plain, t) => (VNum tok plain, t) | None => (VBad, []) end
  end.

(* store a member; None = error (duplicate field or wrong type) *)
Definition store (a : acc) (key : bytes) (v : vtok) : option acc :=
  match v with
  | VNum tok plain =>
    if bytes_eqb key [98] then match fb a with Some _ => None | None => Some (mkA (Some tok) (fm a) (fa a) (fq a)) end
    else if bytes_eqb key [97] then match fa a with Some _ => None | None => Some (mkA (fb a) (fm a) (Some tok) (fq a)) end
    else if bytes_eqb key [109] then
      match fm a with Some _ => None | None =>
        if plain then match u64_of_token tok with Some n => Some (mkA (fb a) (Some n) (fa a) (fq a)) | None => None end else None end
    else if bytes_eqb key [113] then
      match fq a with Some _ => None | None =>
        if plain then match u64_of_token tok with Some n => Some (mkA (fb a) (fm a) (fa a) (Some n)) | None => None end else None end
    else Some a
  | VOther =>
    if bytes_eqb key [98] || bytes_eqb key [97] || bytes_eqb key [109] || bytes_eqb key [113] then None else Some a
  | _ => None
  end.

Definition finish (a : acc) (rest : bytes) : presult :=
  match skip_ws rest with
  | [] => match fb a, fm a, fa a, fq a with
          | Some b, Some m, Some x, Some q => POk b m x q
          | _, _, _, _ => PError
          end
  | _ => PError                                         (* trailing characters *)
  end.

(* members: after '{' or after ','.  fuel bounds the number of members *)
Fixpoint members (fuel : nat) (a : acc) (s : bytes) : presult :=
  match fuel with
  | O => PError
  | S f =>
    match skip_ws s with
    | [] => PError
    | c :: r =>
      if negb (c =? 34) then PError else
      match lex_string_body r with
      | None => PError
      | Some (key, t) =>
        match skip_ws t with
        | [] => PError
        | c1 :: t1 =>
          if negb (c1 =? 58) then PError else
          let '(v, t2) := lex_value (skip_ws t1) in
          match v with
          | VBad => PError
          | VUnsup => PUnsupported
          | _ =>
            match store a key v with
            | None => PError
            | Some a' =>
              match skip_ws t2 with
              | [] => PError
              | c2 :: t3 =>
                if c2 =? 44 then members f a' t3
                else if c2 =? 125 then finish a' t3
                else PError
              end
            end
          end
        end
      end
    end
  end.

Definition parse_params (s : bytes) : presult :=
  match skip_ws s with
  | [] => PError
  | c :: r =>
    if c =? 123 then
      match skip_ws r with
      | [] => PError
      | c1 :: t => if c1 =? 125 then finish acc0 t else members (S (length s)) acc0 r
      end
    else if c =? 91 then PUnsupported            (* serde also accepts the struct as an array *)
    else PError
  end.

(* reload_json: missing file -> Err; parse error -> Err (repaired code) or panic (original unwrap) *)
Inductive reload := RParams (b : bytes) (m : N) (a : bytes) (q : N) | RErr | RPanic | RUnsupported.
Definition reload_json (panic_on_parse_error : bool) (file : option bytes) : reload :=
  match file with
  | None => RErr
  | Some s => match parse_params s with
              | POk b m a q => RParams b m a q
              | PError => if panic_on_parse_error then RPanic else RErr
              | PUnsupported => RUnsupported
              end
  end.
