(* Executable model of ProbMinHash3 / 3a (also 3aSha) / 2 on draw scripts.
   Values (race points, registers) are Z keys: IEEE bit patterns of non-negative doubles,
   order-isomorphic to the float order.  Items are Z ids.  No proofs here.

   A script is the prefix of the item's point stream, already decoded by the harness with
   the crate's own samplers:
     variants 3/3a:  (h_i, k_i, lbn_i)   h_i = point value, k_i = slot, lbn_i = winv * i
                     (the lower bound of every later point)
     variant 2:      (h_i, k_i)          k_i from the per-item Fisher-Yates permutation *)
From Coq Require Import List Arith ZArith Bool.
From PMH Require Import Lib.ListArr.
Import ListNotations.
Open Scope Z_scope.

Record pstate := mkP { pregs : list Z; psig : list Z }.


Definition p_new (maxv init : Z) (m : nat) : pstate := mkP (repeat maxv m) (repeat init m).

(* the tracker's maximum; composed in through C15 (root = largest slot value) *)
Definition lmax (l : list Z) : Z := fold_left Z.max l (hd 0 l).
Definition pmax (st : pstate) : Z := lmax (pregs st).

Definition offer (st : pstate) (id h : Z) (k : nat) : pstate :=
  if h <? nthz (pregs st) k then mkP (upd (pregs st) k h) (upd (psig st) k id) else st.

Inductive pres (A : Type) := Done (a : A) | Exhausted | PFail (n : nat).
Arguments Done {A} a.
Arguments Exhausted {A}.
Arguments PFail {A} n.

Definition point3 := (Z * nat * Z)%type.
Definition point2 := (Z * nat)%type.

(* ---------------- ProbMinHash3::hash_item ---------------- *)
Fixpoint pmh3_item (st : pstate) (id : Z) (script : list point3) : pres pstate :=
  match script with
  | [] => Exhausted
  | (h, k, lbn) :: rest =>
    if h <? pmax st then
      if negb (k <? length (pregs st))%nat then PFail 0 else
      let st' := offer st id h k in
      if pmax st' <=? lbn then Done st' else pmh3_item st' id rest
    else Done st
  end.

Fixpoint pmh3_items (st : pstate) (items : list (Z * list point3)) : pres pstate :=
  match items with
  | [] => Done st
  | (id, sc) :: r =>
    match pmh3_item st id sc with Done st' => pmh3_items st' r | e => e end
  end.

(* ---------------- ProbMinHash3a::hash_weigthed_idxmap / _hashmap ---------------- *)
(* pending entry: (id, lower bound winv*(i-1) of its next point, remaining script) *)
Definition pend := (Z * Z * list point3)%type.

Fixpoint pmh3a_first (st : pstate) (items : list (Z * list point3)) (acc : list pend)
  : pres (pstate * list pend) :=
  match items with
  | [] => Done (st, rev acc)
  | (id, sc) :: r =>
    match sc with
    | [] => Exhausted
    | (h, k, lbn) :: rest =>
      if h <? pmax st then
        if negb (k <? length (pregs st))%nat then PFail 0 else
        let st' := offer st id h k in
        if lbn <? pmax st' then pmh3a_first st' r ((id, lbn, rest) :: acc)
        else pmh3a_first st' r acc
      else pmh3a_first st r acc
    end
  end.

(* one round over the pending buffer (in-place compaction = building the kept list in order) *)
Fixpoint pmh3a_round (st : pstate) (pending : list pend) (acc : list pend)
  : pres (pstate * list pend) :=
  match pending with
  | [] => Done (st, rev acc)
  | (id, lb, sc) :: r =>
    if lb <? pmax st then
      match sc with
      | [] => Exhausted
      | (h, k, lbn) :: rest =>
        if negb (k <? length (pregs st))%nat then PFail 0 else
        let st' := offer st id h k in
        if lbn <? pmax st' then pmh3a_round st' r ((id, lbn, rest) :: acc)
        else pmh3a_round st' r acc
      end
    else pmh3a_round st r acc
  end.

Fixpoint pmh3a_rounds (fuel : nat) (st : pstate) (pending : list pend) : pres pstate :=
  match pending with
  | [] => Done st
  | _ =>
    match fuel with
    | O => PFail 9
    | S f =>
      match pmh3a_round st pending [] with
      | Done (st', p') => pmh3a_rounds f st' p'
      | Exhausted => Exhausted
      | PFail n => PFail n
      end
    end
  end.

Definition total_len (items : list (Z * list point3)) : nat :=
  fold_left (fun n it => (n + length (snd it))%nat) items 0%nat.

Definition pmh3a_batch (st : pstate) (items : list (Z * list point3)) : pres pstate :=
  match pmh3a_first st items [] with
  | Done (st', p) => pmh3a_rounds (S (total_len items)) st' p
  | Exhausted => Exhausted
  | PFail n => PFail n
  end.

Fixpoint pmh3a_batches (st : pstate) (batches : list (list (Z * list point3))) : pres pstate :=
  match batches with
  | [] => Done st
  | b :: r => match pmh3a_batch st b with Done st' => pmh3a_batches st' r | e => e end
  end.

(* ---------------- ProbMinHash2::hash_item ---------------- *)
Fixpoint pmh2_item (st : pstate) (id : Z) (script : list point2) (i : nat) : pres pstate :=
  match script with
  | [] => Exhausted
  | (h, k) :: rest =>
    if h <? pmax st then
      if negb (k <? length (pregs st))%nat then PFail 0 else
      let st' := offer st id h k in
      if (h <? nthz (pregs st) k) && (pmax st' <=? h) then Done st'
      else if (S i <? length (pregs st))%nat then pmh2_item st' id rest (S i) else PFail 1
    else Done st
  end.

Fixpoint pmh2_items (st : pstate) (items : list (Z * list point2)) : pres pstate :=
  match items with
  | [] => Done st
  | (id, sc) :: r =>
    match pmh2_item st id sc 0 with Done st' => pmh2_items st' r | e => e end
  end.

Definition p_reset (maxv init : Z) (st : pstate) : pstate :=
  mkP (map (fun _ => maxv) (pregs st)) (map (fun _ => init) (psig st)).

(* ---------------- the specification: naive fold over tagged points ---------------- *)
Definition tpoint := (Z * Z * nat)%type.   (* id, value, slot *)
Definition naive (st : pstate) (pts : list tpoint) : pstate :=
  fold_left (fun s '(id, h, k) => offer s id h k) pts st.
Definition tag3 (id : Z) (sc : list point3) : list tpoint := map (fun '(h, k, _) => (id, h, k)) sc.
Definition tag2 (id : Z) (sc : list point2) : list tpoint := map (fun '(h, k) => (id, h, k)) sc.
