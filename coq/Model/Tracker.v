(* Executable model of src/maxvaluetrack.rs (MaxValueTracker<V>), values as Z keys.
   No proofs here. *)
From Coq Require Import List Arith ZArith Bool.
From PMH Require Import Lib.ListArr.
Import ListNotations.
Open Scope Z_scope.

Record tracker := mkT { tm : nat; tmax : Z; tvals : list Z }.


(* new: last_index = (m << 1) - 2 underflows for m = 0 (panic in debug builds) *)
Definition t_new (maxv : Z) (m : nat) : outcome tracker :=
  match m with
  | O => Underflow
  | _ => Ok (mkT m maxv (repeat maxv (2 * m - 1)))
  end.

Definition xor1 (k : nat) : nat := if Nat.even k then S k else pred k.

(* the while loop of update, entered with more = true *)
Fixpoint t_loop (fuel m : nat) (vals : list Z) (ck : nat) (cv : Z) : outcome (list Z) :=
  match fuel with
  | O => OutOfFuel
  | S f =>
    if negb (ck <? length vals)%nat then Oob else
    let vals1 := upd vals ck cv in
    let pidx := (m + ck / 2)%nat in
    if (2 * m - 2 <? pidx)%nat then Ok vals1 else
    let sib := xor1 ck in
    if negb (sib <? length vals)%nat || negb (pidx <? length vals)%nat then Oob else
    let vs := nthz vals1 sib in
    let vp := nthz vals1 pidx in
    if negb (vs <=? vp) then AssertFail 1 else
    if negb (cv <=? vp) then AssertFail 2 else
    if (vp <=? vs) && (vp <=? cv) then Ok vals1 else
    let cv' := if cv <? vs then vs else cv in
    if vp <=? cv' then Ok vals1 else t_loop f m vals1 pidx cv'
  end.

Definition t_update (t : tracker) (k : nat) (v : Z) : outcome tracker :=
  if negb (k <? tm t)%nat then AssertFail 0 else
  if v <? nthz (tvals t) k then
    bind (t_loop (2 * tm t) (tm t) (tvals t) k v) (fun vs => Ok (mkT (tm t) (tmax t) vs))
  else Ok t.

Definition t_get_max (t : tracker) : Z := nthz (tvals t) (2 * tm t - 2).
Definition t_get_value (t : tracker) (slot : nat) : Z := nthz (tvals t) slot.
Definition t_is_update_possible (t : tracker) (v : Z) : bool := v <? t_get_max t.
Definition t_reset (t : tracker) : tracker :=
  mkT (tm t) (tmax t) (map (fun _ => tmax t) (tvals t)).

(* operations as the correspondence harness sends them *)
Inductive top := TUpdate (k : nat) (v : Z) | TReset | TProbe (v : Z).

(* one observation per operation: the maximum after an update / reset,
   the answer of is_update_possible for a probe *)
Definition t_step (t : tracker) (o : top) : outcome (tracker * Z) :=
  match o with
  | TUpdate k v => bind (t_update t k v) (fun t' => Ok (t', t_get_max t'))
  | TReset => let t' := t_reset t in Ok (t', t_get_max t')
  | TProbe v => Ok (t, if t_is_update_possible t v then 1 else 0)
  end.

Fixpoint t_run (t : tracker) (ops : list top) (obs : list Z) : outcome (tracker * list Z) :=
  match ops with
  | [] => Ok (t, rev obs)
  | o :: r => bind (t_step t o) (fun '(t', ob) => t_run t' r (ob :: obs))
  end.
