(* Model of the counting Jaccard estimators: a shape record (which argument is used
   at each place of the common loop) and its interpreter.  No proofs here. *)
From Coq Require Import List Arith ZArith Bool.
Import ListNotations.

Inductive arg := ArgA | ArgB.
Inductive policy := OnMismatchPanic | OnMismatchErr.
Inductive restype := ResF64 | ResF32 | ResGeneric.

Record estimator := {
  e_policy : policy;          (* what a length mismatch does *)
  e_chk_l : arg; e_chk_r : arg;   (* X.len() != Y.len() *)
  e_loop : arg;               (* for i in 0..X.len() *)
  e_lhs : arg; e_rhs : arg;   (* X[i] == Y[i] *)
  e_div : arg;                (* count / X.len() *)
  e_res : restype }.

Definition sel {A} (x : arg) (a b : A) : A := match x with ArgA => a | ArgB => b end.

Definition est_alias (e : estimator) (x y : arg) : estimator :=
  {| e_policy := e_policy e;
     e_chk_l := sel (e_chk_l e) x y; e_chk_r := sel (e_chk_r e) x y;
     e_loop := sel (e_loop e) x y;
     e_lhs := sel (e_lhs e) x y; e_rhs := sel (e_rhs e) x y;
     e_div := sel (e_div e) x y; e_res := e_res e |}.

Inductive est_result := EstOk (count len : nat) | EstErr | EstPanic.

(* the loop: Some count, or None when an index leaves one of the slices (panic) *)
Fixpoint est_loop (l r : list Z) (i n : nat) (acc : nat) : option nat :=
  match n with
  | O => Some acc
  | S n' =>
    match nth_error l i, nth_error r i with
    | Some x, Some y => est_loop l r (S i) n' (if Z.eqb x y then S acc else acc)
    | _, _ => None
    end
  end.

Definition est_run (e : estimator) (a b : list Z) : est_result :=
  if negb (length (sel (e_chk_l e) a b) =? length (sel (e_chk_r e) a b)) then
    match e_policy e with OnMismatchPanic => EstPanic | OnMismatchErr => EstErr end
  else
    match est_loop (sel (e_lhs e) a b) (sel (e_rhs e) a b) 0 (length (sel (e_loop e) a b)) 0 with
    | Some c => EstOk c (length (sel (e_div e) a b))
    | None => EstPanic
    end.

(* the specification: number of equal positions *)
Fixpoint count_eq (a b : list Z) : nat :=
  match a, b with
  | x :: a', y :: b' => (if Z.eqb x y then 1 else 0) + count_eq a' b'
  | _, _ => 0
  end.

Definition arg_eqb (x y : arg) : bool :=
  match x, y with ArgA, ArgA | ArgB, ArgB => true | _, _ => false end.

(* a shape is sane when the length test and the comparison each look at both sketches *)
Definition est_sane (e : estimator) : bool :=
  negb (arg_eqb (e_chk_l e) (e_chk_r e)) && negb (arg_eqb (e_lhs e) (e_rhs e)).
