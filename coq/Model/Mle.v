(* Model of the control flow of MleJaccard::get_mle around argmin 0.10's golden section
   search, over Q.  The cost function is not evaluated: every comparison of two costs is an
   oracle answer (so NaN costs, which make every comparison false, are covered).  No proofs. *)
From Coq Require Import QArith Qminmax Qabs List Bool.
From PMH Require Import Lib.ListArr Gen.MleGen.
Import ListNotations.
Open Scope Q_scope.

(* G2 = (3 - sqrt 5)/2 as argmin rounds it; only 0 <= g2 <= 1 and g1 = 1 - g2 matter *)
Definition g2 : Q := 381966011250105 # 1000000000000000.
Definition g1 : Q := 1 - g2.

Record gss := mkG { x0 : Q; x1 : Q; x2 : Q; x3 : Q }.

(* GoldenSectionSearch::new(min, max): Err when min >= max;  .unwrap() -> panic 1 *)
Definition gss_new (lo hi : Q) : outcome (Q * Q) :=
  if Qle_bool hi lo then AssertFail 1 else Ok (lo, hi).

(* init: Err when the start is outside [min,max]; Executor::run().unwrap() -> panic 2 *)
Definition gss_init (lo hi init : Q) : outcome gss :=
  if negb (Qle_bool lo init) || negb (Qle_bool init hi) then AssertFail 2 else
  let ie_min := init - lo in
  let max_ie := hi - init in
  if Qle_bool (Qabs max_ie) (Qabs ie_min)
  then Ok (mkG lo (init - g2 * ie_min) init hi)
  else Ok (mkG lo init (init + g2 * max_ie) hi).

(* next_iter; the argument is the oracle's answer to  f2 < f1 *)
Definition gss_next (s : gss) (f2_lt_f1 : bool) : gss :=
  if f2_lt_f1
  then mkG (x1 s) (x2 s) (g1 * x2 s + g2 * x3 s) (x3 s)
  else mkG (x0 s) (g1 * x1 s + g2 * x0 s) (x1 s) (x2 s).

(* the parameter reported after a step: x1 when f1 < f2 (second oracle answer), else x2 *)
Definition gss_param (s : gss) (f1_lt_f2 : bool) : Q := if f1_lt_f2 then x1 s else x2 s.

Fixpoint gss_iter (s : gss) (answers : list (bool * bool)) (fuel : nat) (cur : Q) : Q :=
  match fuel, answers with
  | S f, (a, b) :: r => let s' := gss_next s a in gss_iter s' r f (gss_param s' b)
  | _, _ => cur
  end.

(* get_mle: every reported parameter is a candidate for best_param *)
Definition mle_model (card1 card2 dequal m : Q) (first : bool) (answers : list (bool * bool))
  : outcome Q :=
  let aux := card1 / card2 in
  let b_sup := mle_b_sup aux in
  let jac := dequal / m in
  bind (gss_new mle_b_inf b_sup) (fun '(lo, hi) =>
  bind (gss_init lo hi (mle_init jac mle_b_inf b_sup)) (fun s =>
  Ok (gss_iter s answers mle_max_iters (gss_param s first)))).
