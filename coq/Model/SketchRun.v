(* correspondence glue for SetSketch, SuperMinHash, SuperMinHash2 and the densified sketchers:
   decode the harness wire, run the model over the history, compare with the observed state.
   Result codes: 0 agree, 1 script / target data exhausted, 2 differ, 3 model error outcome
   where the implementation returned normally, -1 malformed wire. *)
From Coq Require Import List Arith ZArith Bool.
From PMH Require Import Lib.ListArr Lib.Cases Lib.Wire
  Model.SetSketch Model.SuperMinHash Model.SuperMinHash2 Model.DensMinHash.
Import ListNotations.
Open Scope Z_scope.

Fixpoint blist_eqb (a b : list bool) : bool :=
  match a, b with
  | [], [] => true
  | x :: a', y :: b' => Bool.eqb x y && blist_eqb a' b'
  | _, _ => false
  end.

(* ------------------------------ SetSketch ------------------------------ *)
Definition rd_sdraw : rd sdraw := a <- rd_z ;; k <- rd_z ;; i <- rd_nat ;; rd_ret (a, k, i).
Definition rd_ssparams : rd ssparams :=
  m <- rd_nat ;; q <- rd_z ;; imax <- rd_z ;; b <- rd_z ;; a <- rd_z ;; rd_ret (mkSP m q imax b a).

Inductive ssop := SSk (sc : list sdraw) | SReinit | SMerge (p : ssparams) (items : list (list sdraw)).

Definition rd_ssop : rd ssop :=
  c <- rd_z ;;
  if c =? 0 then (sc <- rd_list rd_sdraw ;; rd_ret (SSk sc))
  else if c =? 1 then rd_ret SReinit
  else (p <- rd_ssparams ;; its <- rd_list (rd_list rd_sdraw) ;; rd_ret (SMerge p its)).

Fixpoint ss_items (s : ss) (its : list (list sdraw)) : outcome ss :=
  match its with [] => Ok s | sc :: r => bind (ss_item s sc) (fun s' => ss_items s' r) end.

Fixpoint ss_history (s : ss) (ops : list ssop) (merges : list Z) : outcome (ss * list Z) :=
  match ops with
  | [] => Ok (s, rev merges)
  | SSk sc :: r => bind (ss_item s sc) (fun s' => ss_history s' r merges)
  | SReinit :: r => ss_history (ss_reinit s) r merges
  | SMerge p its :: r =>
    bind (ss_items (ss_new p) its) (fun o =>
      let '(s', ok) := ss_merge s o in ss_history s' r ((if ok then 1 else 0) :: merges))
  end.

Definition run_ss (ws : list Z) : list Z :=
  match (p <- rd_ssparams ;; ops <- rd_list rd_ssop ;;
         kv <- rd_list rd_z ;; lower <- rd_z ;; nbmin <- rd_z ;; ovf <- rd_z ;; mg <- rd_list rd_z ;;
         rd_ret (p, ops, (kv, lower, nbmin, ovf, mg))) ws with
  | Some ((p, ops, (kv, lower, nbmin, ovf, mg)), []) =>
    match ss_history (ss_new p) ops [] with
    | Ok (s, merges) =>
      if zlist_eqb kv (ss_k s) && (lower =? ss_lower s) && (nbmin =? ss_nbmin s) && (ovf =? ss_ovf s)
         && zlist_eqb mg merges then [0] else [2]
    | _ => [3]
    end
  | _ => [-1]
  end.

(* ------------------------------ SuperMinHash ------------------------------ *)
Definition rd_round : rd (Z * Z * nat) := a <- rd_z ;; f <- rd_z ;; k <- rd_nat ;; rd_ret (a, f, k).
Inductive smop := MSk (sc : list (Z * Z * nat)) | MReinit.
Definition rd_smop : rd smop :=
  c <- rd_z ;; if c =? 0 then (sc <- rd_list rd_round ;; rd_ret (MSk sc)) else rd_ret MReinit.

Fixpoint smh_history (hist : bool) (large : Z * Z) (s : smh) (ops : list smop) : outcome smh :=
  match ops with
  | [] => Ok s
  | MSk sc :: r => bind (smh_sketch hist s sc) (fun s' => smh_history hist large s' r)
  | MReinit :: r => smh_history hist large (smh_reinit s large) r
  end.

Definition run_smh (ws : list Z) : list Z :=
  match (m <- rd_nat ;; lk <- rd_z ;; lf <- rd_z ;; hist <- rd_z ;; ops <- rd_list rd_smop ;;
         oc <- rd_z ;; hk <- rd_list rd_z ;; b <- rd_list rd_z ;; upper <- rd_nat ;; rank <- rd_z ;;
         rd_ret (m, (lk, lf), hist, ops, (oc, hk, b, upper, rank))) ws with
  | Some ((m, large, hist, ops, (oc, hk, b, upper, rank)), []) =>
    match bind (smh_new m large) (fun s => smh_history (negb (hist =? 0)) large s ops) with
    | Ok s =>
      if (oc =? 0) && zlist_eqb hk (map fst (sm_h s)) && zlist_eqb b (sm_b s)
         && (upper =? sm_upper s)%nat && (rank =? sm_rank s) then [0] else [2]
    | _ => if oc =? 1 then [0] else [3]
    end
  | _ => [-1]
  end.

(* ------------------------------ SuperMinHash2 ------------------------------ *)
Definition rd_round2 : rd (Z * nat) := r <- rd_z ;; k <- rd_nat ;; rd_ret (r, k).
Inductive sm2op := M2Sk (hv : Z) (sc : list (Z * nat)) | M2Reinit.
Definition rd_sm2op : rd sm2op :=
  c <- rd_z ;; if c =? 0 then (h <- rd_z ;; sc <- rd_list rd_round2 ;; rd_ret (M2Sk h sc)) else rd_ret M2Reinit.

Fixpoint smh2_history (s : smh2) (ops : list sm2op) : outcome smh2 :=
  match ops with
  | [] => Ok s
  | M2Sk h sc :: r => bind (smh2_sketch s h sc) (fun s' => smh2_history s' r)
  | M2Reinit :: r => smh2_history (smh2_reinit s) r
  end.

Definition run_smh2 (ws : list Z) : list Z :=
  match (m <- rd_nat ;; ops <- rd_list rd_sm2op ;;
         oc <- rd_z ;; h <- rd_list rd_z ;; v <- rd_list rd_z ;; l <- rd_list rd_z ;; b <- rd_list rd_z ;;
         upper <- rd_nat ;; rd_ret (m, ops, (oc, h, v, l, b, upper))) ws with
  | Some ((m, ops, (oc, h, v, l, b, upper)), []) =>
    match bind (smh2_new m) (fun s => smh2_history s ops) with
    | Ok s =>
      if (oc =? 0) && zlist_eqb h (s2_h s) && zlist_eqb v (s2_v s)
         && zlist_eqb l (map Z.of_nat (s2_l s)) && zlist_eqb b (s2_b s) && (upper =? s2_upper s)%nat
      then [0] else [2]
    | _ => if oc =? 1 then [0] else [3]
    end
  | _ => [-1]
  end.

(* ------------------------------ densified ------------------------------ *)
Definition rd_ditem : rd (Z * nat * Z) := r <- rd_z ;; k <- rd_nat ;; h <- rd_z ;; rd_ret (r, k, h).
Inductive dop := DSk (it : Z * nat * Z) | DReinit | DEnd | DSlice (its : list (Z * nat * Z)).
Definition rd_dop : rd dop :=
  c <- rd_z ;;
  if c =? 0 then (it <- rd_ditem ;; rd_ret (DSk it))
  else if c =? 1 then rd_ret DReinit
  else if c =? 2 then rd_ret DEnd
  else (its <- rd_list rd_ditem ;; rd_ret (DSlice its)).

Section DensRun.
Variables (variant : Z) (tie report : bool) (large : Z) (tdata : list (list nat)).

Definition densify (s : dens) : dres :=
  if variant =? 0
  then opt_densify report s (fun k => nth k tdata [])
  else rev_densify report s (map (fun row k => nth k row 0%nat) tdata).

(* the history stops at the first non-normal outcome, like the harness does *)
Fixpoint dens_history (s : dens) (ops : list dop) : dres :=
  match ops with
  | [] => DDone s
  | DSk it :: r => match dens_sketch tie s it with Ok s' => dens_history s' r | _ => DFail 7 end
  | DReinit :: r => dens_history (dens_reinit s large) r
  | DEnd :: r =>
    if d_empty s =? 0 then dens_history s r
    else match densify s with DDone s' => dens_history s' r | e => e end
  | DSlice its :: r =>
    match dens_items tie s its with
    | Ok s1 => if 0 <? d_empty s1
               then match densify s1 with DDone s' => dens_history s' r | e => e end
               else dens_history s1 r
    | _ => DFail 7
    end
  end.
End DensRun.

Definition run_dens (ws : list Z) : list Z :=
  match (variant <- rd_z ;; m <- rd_nat ;; large <- rd_z ;; tie <- rd_z ;; report <- rd_z ;;
         tdata <- rd_list (rd_list rd_nat) ;; ops <- rd_list rd_dop ;;
         oc <- rd_z ;; h <- rd_list rd_z ;; v <- rd_list rd_z ;; ini <- rd_list rd_z ;; empty <- rd_z ;;
         rd_ret (variant, m, large, (tie, report), tdata, ops, (oc, h, v, ini, empty))) ws with
  | Some ((variant, m, large, (tie, report), tdata, ops, (oc, h, v, ini, empty)), []) =>
    match dens_history variant (negb (tie =? 0)) (negb (report =? 0)) large tdata (dens_new m large) ops with
    | DDone s =>
      if (oc =? 0) && zlist_eqb h (d_h s) && zlist_eqb v (d_v s)
         && blist_eqb (map (fun x => negb (x =? 0)) ini) (d_init s) && (empty =? d_empty s) then [0] else [2]
    | DExhausted => [1]
    | DHang => if oc =? 2 then [0] else [2]
    | DFail _ => if (oc =? 1) || (oc =? 3) then [0] else [3]
    end
  | _ => [-1]
  end.

(* ------------------------------ ProbOrdMinHash2 ------------------------------ *)
From PMH Require Import Model.ProbMinHash Model.OrdMinHash.

Fixpoint zll_eqb (a b : list (list Z)) : bool :=
  match a, b with
  | [], [] => true
  | x :: a', y :: b' => zlist_eqb x y && zll_eqb a' b'
  | _, _ => false
  end.

Definition run_ord (ws : list Z) : list Z :=
  match (m <- rd_nat ;; l <- rd_nat ;; maxv <- rd_z ;; brk <- rd_z ;;
         pairs <- rd_list (rd_list rd_round2) ;;
         oc <- rd_z ;; sel <- rd_list (rd_list rd_z) ;; vals <- rd_list (rd_list rd_z) ;;
         rd_ret (m, l, maxv, brk, pairs, (oc, sel, vals))) ws with
  | Some ((m, l, maxv, brk, pairs, (oc, sel, vals)), []) =>
    match o_hash_set (negb (brk =? 0)) maxv m l pairs with
    | Done st => (if (oc =? 0) && zll_eqb sel (o_selected st) && zll_eqb vals (o_values st) then 0 else 2)
                 :: (if pairs_okb m pairs then 1 else 0) :: (if slots_distinctb m pairs then 1 else 0)
                 :: (if pairs_disjointb pairs then 1 else 0) :: nil
    | Exhausted => [1]
    | PFail _ => if oc =? 1 then [0] else [3]
    end
  | _ => [-1]
  end.

(* ------------------------------ SetSketchParams JSON ------------------------------ *)
From PMH Require Import Model.ParamsJson.
Definition run_json_parse (ws : list Z) : list Z :=
  match parse_params ws with
  | POk b m a q => 0 :: Z.of_N m :: Z.of_N q :: (Z.of_nat (length b) :: b) ++ (Z.of_nat (length a) :: a)
  | PError => [1]
  | PUnsupported => [2]
  end.
Definition run_json_print (ws : list Z) : list Z :=
  match (b <- rd_list rd_z ;; m <- rd_z ;; a <- rd_list rd_z ;; q <- rd_z ;; rd_ret (b, m, a, q)) ws with
  | Some ((b, m, a, q), []) => print_params b (Z.to_N m) a (Z.to_N q)
  | _ => [-1]
  end.

(* ------------------------------ Sig ------------------------------ *)
From PMH Require Import Model.Sig.
Definition run_sig (ws : list Z) : list Z :=
  match ws with
  | code :: w :: vals =>
    let sh := if code =? 0 then ShScalar (Z.to_nat w) false else if code =? 1 then ShVec (Z.to_nat w) else ShUtf8 in
    sig_bytes sh vals
  | _ => [-1]
  end.
