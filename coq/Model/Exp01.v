(* Executable model of ExpRestricted01::sample on IEEE binary64 (Coq primitive floats).
   draws: the unit uniforms the generator delivers, in order; b3s: for every loop iteration
   that reaches the third acceptance test, its outcome (exp_m1 cannot be evaluated in Coq;
   the harness supplies it).  Returns the sample and the number of draws consumed. *)
From Coq Require Import List Floats Bool.
Import ListNotations.
Open Scope float_scope.

Fixpoint exp01_loop (c1 c2 c3 : float) (draws : list float) (b3s : list bool) (used : nat) (fuel : nat)
  : option (float * nat) :=
  match fuel with
  | O => None
  | S f =>
    match draws with
    | x0 :: rest =>
      if x0 <? c2 then Some (x0, S used)
      else
        match rest with
        | u :: rest' =>
          let y0 := 0.5 * u in
          let '(x, y) := if (1 - x0) <? y0 then (1 - x0, 1 - y0) else (x0, y0) in
          if x <=? c3 * (1 - y) then Some (x, S (S used))
          else if c1 * y <=? 1 - x then Some (x, S (S used))
          else
            match b3s with
            | b :: bs => if b then Some (x, S (S used)) else exp01_loop c1 c2 c3 rest' bs (S (S used)) f
            | [] => None
            end
        | [] => None
        end
    | [] => None
    end
  end.

Definition exp01_sample (c1 c2 c3 : float) (draws : list float) (b3s : list bool) : option (float * nat) :=
  match draws with
  | u0 :: rest =>
    let x := c1 * u0 in
    if x <? 1 then Some (x, 1%nat) else exp01_loop c1 c2 c3 rest b3s 1 (length draws)
  | [] => None
  end.

(* case: ((c1, c2, c3), draws, b3s, (result, used)) -> 0 agree / 1 script too short / 2 differ *)
Definition chk_exp01 (c : (float * float * float) * list float * list bool * (float * nat)) : nat :=
  let '((c1, c2, c3), draws, b3s, (r, n)) := c in
  match exp01_sample c1 c2 c3 draws b3s with
  | Some (r', n') => if (r' =? r) && Nat.eqb n n' then 0%nat else 2%nat
  | None => 1%nat
  end.

(* every sample lies in [0, 1): checked on each case as well *)
Definition in_unit (r : float) : bool := (0 <=? r) && (r <? 1).
