(* Executable model of SuperMinHash<F,..> (src/superminhasher.rs).
   A value is (key, floor): key = IEEE bit pattern of the float (order-isomorphic, values are
   non-negative), floor = what to_usize() returns for it.
   script entry of round j = (key_j, floor_j, k_j): rpj = fl(r_j + j), k_j in [j, m).
   No proofs here. *)
From Coq Require Import List Arith ZArith Bool.
From PMH Require Import Lib.ListArr.
Import ListNotations.
Open Scope Z_scope.

Record smh := mkSMH {
  sm_m : nat;
  sm_h : list (Z * Z);      (* hsketch: (key, floor) *)
  sm_q : list Z;            (* initialisation marker *)
  sm_p : list nat;          (* lazy permutation *)
  sm_b : list Z;            (* histogram *)
  sm_rank : Z;
  sm_upper : nat }.

Definition smh_new (m : nat) (large : Z * Z) : outcome smh :=
  match m with
  | O => Underflow                                   (* b_init[size - 1] *)
  | _ => Ok (mkSMH m (repeat large m) (repeat (-1) m) (repeat 0%nat m)
                   (upd (repeat 0 m) (m - 1) (Z.of_nat m)) 0 (m - 1))
  end.

Definition smh_reinit (s : smh) (large : Z * Z) : smh :=
  let m := sm_m s in
  mkSMH m (repeat large m) (repeat (-1) m) (repeat 0%nat m)
        (upd (repeat 0 m) (m - 1) (Z.of_nat m)) 0 (m - 1).

Definition nthn (l : list nat) (i : nat) : nat := nth i l 0%nat.
Definition nthp (l : list (Z * Z)) (i : nat) : Z * Z := nth i l (0, 0).

(* while self.b[self.a_upper] == 0 { self.a_upper -= 1; } *)
Fixpoint lower_upper (fuel : nat) (b : list Z) (u : nat) : outcome nat :=
  match fuel with
  | O => OutOfFuel
  | S f => if nthz b u =? 0 then (match u with O => Underflow | S u' => lower_upper f b u' end) else Ok u
  end.

(* which histogram bucket a freshly stored value is counted in:
   [hist_by_floor = false]: bucket j (the round), as the original code does;
   [hist_by_floor = true]: bucket min(floor(value), m-1) *)
Section Hist.
Variable hist_by_floor : bool.

Fixpoint smh_rounds (s : smh) (irank : Z) (j : nat) (script : list (Z * Z * nat)) : outcome smh :=
  match script with
  | [] => Ok s
  | (key, fl, k) :: rest =>
    if (sm_upper s <? j)%nat then Ok s else
    let m := sm_m s in
    if negb (k <? m)%nat || negb (j <? m)%nat then Oob else
    let q1 := sm_q s in let p1 := sm_p s in
    let '(q2, p2) := if nthz q1 j =? irank then (q1, p1) else (upd q1 j irank, upd p1 j j) in
    let '(q3, p3) := if nthz q2 k =? irank then (q2, p2) else (upd q2 k irank, upd p2 k k) in
    let pj := nthn p3 j in let pk := nthn p3 k in
    let p4 := upd (upd p3 j pk) k pj in
    let pos := nthn p4 j in
    if negb (pos <? m)%nat then Oob else
    let '(okey, ofl) := nthp (sm_h s) pos in
    if key <? okey then
      let j2 := Z.to_nat (Z.min ofl (Z.of_nat (m - 1))) in
      let h' := upd (sm_h s) pos (key, fl) in
      let j1 := if hist_by_floor then Z.to_nat (Z.min fl (Z.of_nat (m - 1))) else j in
      if (j1 <? j2)%nat then
        let b' := upd (upd (sm_b s) j2 (nthz (sm_b s) j2 - 1)) j1 (nthz (upd (sm_b s) j2 (nthz (sm_b s) j2 - 1)) j1 + 1) in
        match lower_upper (S m) b' (sm_upper s) with
        | Ok u => smh_rounds (mkSMH m h' q3 p4 b' (sm_rank s) u) irank (S j) rest
        | Underflow => Underflow | OutOfFuel => OutOfFuel | Oob => Oob | AssertFail n => AssertFail n
        end
      else smh_rounds (mkSMH m h' q3 p4 (sm_b s) (sm_rank s) (sm_upper s)) irank (S j) rest
    else smh_rounds (mkSMH m (sm_h s) q3 p4 (sm_b s) (sm_rank s) (sm_upper s)) irank (S j) rest
  end.

Definition smh_sketch (s : smh) (script : list (Z * Z * nat)) : outcome smh :=
  bind (smh_rounds s (sm_rank s) 0 script)
       (fun s' => Ok (mkSMH (sm_m s') (sm_h s') (sm_q s') (sm_p s') (sm_b s') (sm_rank s' + 1) (sm_upper s'))).
End Hist.
