(* Executable model of OptDensMinHash / RevOptDensMinHash (src/densminhash.rs).
   item = (r key, bin, hash).  Densification targets are given as data (replayed ChaCha12 streams):
     optimal:  for every bin k the stream of candidate source bins  targets k : list nat
     reverse:  for every pass p (1-based) and bin k the single target  rtargets p k
   No proofs here. *)
From Coq Require Import List Arith ZArith Bool.
From PMH Require Import Lib.ListArr Model.SuperMinHash.
Import ListNotations.
Open Scope Z_scope.

Record dens := mkD {
  d_m : nat;
  d_h : list Z;          (* hsketch keys *)
  d_v : list Z;          (* values: hashes *)
  d_init : list bool;
  d_empty : Z }.

Definition dens_new (m : nat) (large : Z) : dens :=
  mkD m (repeat large m) (repeat (2 ^ 64 - 1) m) (repeat false m) (Z.of_nat m).
Definition dens_reinit (s : dens) (large : Z) : dens := dens_new (d_m s) large.

Definition nthb (l : list bool) (i : nat) : bool := nth i l false.

(* [tie_on_hash]: false = the original `r <= hsketch[k]`; true = strict, ties broken on the hash *)
Section Tie.
Variable tie_on_hash : bool.

Definition dens_sketch (s : dens) (it : Z * nat * Z) : outcome dens :=
  let '(r, k, hv) := it in
  if negb (k <? d_m s)%nat then Oob else
  let better := if tie_on_hash
                then (r <? nthz (d_h s) k) || ((r =? nthz (d_h s) k) && (hv <? nthz (d_v s) k))
                else r <=? nthz (d_h s) k in
  if better then
    Ok (mkD (d_m s) (upd (d_h s) k r) (upd (d_v s) k hv)
            (upd (d_init s) k true)
            (if nthb (d_init s) k then d_empty s else d_empty s - 1))
  else Ok s.

Fixpoint dens_items (s : dens) (its : list (Z * nat * Z)) : outcome dens :=
  match its with [] => Ok s | it :: r => bind (dens_sketch s it) (fun s' => dens_items s' r) end.
End Tie.

Inductive dres := DDone (s : dens) | DExhausted | DHang | DFail (n : nat).

(* optimal densification: for k in 0..m: if !init[k], walk its target stream until a populated bin *)
Fixpoint opt_fill (s : dens) (k : nat) (tg : list nat) : option dens :=
  match tg with
  | [] => None
  | j :: r =>
    if nthb (d_init s) j
    then Some (mkD (d_m s) (upd (d_h s) k (nthz (d_h s) j)) (upd (d_v s) k (nthz (d_v s) j))
                   (upd (d_init s) k true) (d_empty s - 1))
    else opt_fill s k r
  end.

Fixpoint opt_densify_from (s : dens) (targets : nat -> list nat) (ks : list nat) : dres :=
  match ks with
  | [] => if d_empty s =? 0 then DDone s else DFail 1        (* assert_eq!(nb_empty, 0) *)
  | k :: r =>
    if nthb (d_init s) k then opt_densify_from s targets r
    else match opt_fill s k (targets k) with
         | Some s' => opt_densify_from s' targets r
         | None => DExhausted
         end
  end.

Definition has_populated (s : dens) : bool := existsb (fun b => b) (d_init s).

(* [report_empty]: false = original (never returns when nothing was sketched: DHang);
   true = the repaired code reports an error (DFail 2) *)
Definition opt_densify (report_empty : bool) (s : dens) (targets : nat -> list nat) : dres :=
  if negb (has_populated s) && (0 <? d_empty s)
  then (if report_empty then DFail 2 else DHang)
  else opt_densify_from s targets (seq 0 (d_m s)).

(* reverse: passes over populated bins pushing into empty targets *)
Fixpoint rev_pass (s : dens) (tg : nat -> nat) (ks : list nat) : dens :=
  match ks with
  | [] => s
  | k :: r =>
    if nthb (d_init s) k then
      let j := tg k in
      if nthb (d_init s) j then rev_pass s tg r
      else rev_pass (mkD (d_m s) (upd (d_h s) j (nthz (d_h s) k)) (upd (d_v s) j (nthz (d_v s) k))
                         (upd (d_init s) j true) (d_empty s - 1)) tg r
    else rev_pass s tg r
  end.

Fixpoint rev_densify_loop (s : dens) (rtargets : list (nat -> nat)) : dres :=
  if d_empty s <=? 0 then (if d_empty s =? 0 then DDone s else DFail 1) else
  match rtargets with
  | [] => DExhausted
  | tg :: r => rev_densify_loop (rev_pass s tg (seq 0 (d_m s))) r
  end.

Definition rev_densify (report_empty : bool) (s : dens) (rtargets : list (nat -> nat)) : dres :=
  if negb (has_populated s) && (0 <? d_empty s)
  then (if report_empty then DFail 2 else DHang)
  else rev_densify_loop s rtargets.
