(* Model of the byte identities of src/probminhasher/sig.rs (little-endian target) and of the
   ownership of the buffers get_sig touches.  No proofs here. *)
From Coq Require Import List Arith ZArith Bool.
Import ListNotations.
Open Scope Z_scope.

(* width in bytes; signed = two's complement *)
Inductive shape := ShScalar (w : nat) (signed : bool) | ShVec (w : nat) | ShUtf8.

Fixpoint le_bytes (n : nat) (x : Z) : list Z :=
  match n with O => [] | S n' => (x mod 256) :: le_bytes n' (x / 256) end.

Fixpoint of_le_bytes (bs : list Z) : Z :=
  match bs with [] => 0 | b :: r => b + 256 * of_le_bytes r end.

(* value of a scalar as the machine stores it *)
Definition enc_scalar (w : nat) (x : Z) : list Z := le_bytes w (x mod 256 ^ Z.of_nat w).

Definition sig_bytes (sh : shape) (v : list Z) : list Z :=
  match sh with
  | ShScalar w _ => match v with [x] => enc_scalar w x | _ => [] end
  | ShVec w => concat (map (enc_scalar w) v)
  | ShUtf8 => v                                    (* the UTF-8 bytes of the string *)
  end.

(* ---- ownership: buffers by number; Alloc b align, Adopt b align' (a second owner takes the
        same buffer, to be freed with align'), DropOwner b (an owner goes out of scope and frees),
        Return b (ownership of one owner moves to the caller, who frees later) ---- *)
Inductive mem_event := Alloc (b align : nat) | Adopt (b align : nat) | DropOwner (b : nat) | Return (b : nat).

(* owners of buffer 0 with their alignments; freed count *)
Record mstate := mkM { owners : list nat; freed : nat; bad : bool }.

Definition mem_step (s : mstate) (e : mem_event) : mstate :=
  match e with
  | Alloc _ a => mkM (a :: owners s) (freed s) (bad s)
  | Adopt _ a => mkM (a :: owners s) (freed s) (bad s)
  | DropOwner _ => match owners s with
                   | a :: r => mkM r (S (freed s)) (bad s || (0 <? freed s)%nat)
                   | [] => mkM [] (freed s) true
                   end
  | Return _ => s          (* the returned owner frees later: accounted at the end *)
  end.

(* at the end every remaining owner (returned to the caller) frees once; correct iff the buffer
   is freed exactly once in total and all owners agree on the alignment it was allocated with *)
Definition mem_ok (tr : list mem_event) : bool :=
  let s := fold_left mem_step tr (mkM [] 0 false) in
  let total := (freed s + length (owners s))%nat in
  negb (bad s) && (total =? 1)%nat &&
  match tr with Alloc _ a :: _ => forallb (Nat.eqb a) (owners s) | _ => false end.
