(* Executable model of ProbOrdMinHash2::hash_set / OrdMinHashStore (src/probminhasher/probordminhash2.rs).
   A pair (element, occurrence number) enters as its script [(x_t, k_t)], x increasing,
   k_t the per-pair Fisher-Yates permutation.  Values are Z keys (bit patterns of non-negative
   doubles).  The combining hasher is abstract: the signature model returns, per slot, the list
   of selected sequence indices sorted increasingly (what create_signature hashes in order).
   No proofs here. *)
From Coq Require Import List Arith ZArith Bool.
From PMH Require Import Lib.ListArr Model.ProbMinHash.
Import ListNotations.
Open Scope Z_scope.

(* one slot: l (value, index) pairs, values ascending *)
Definition oslot := list (Z * Z).
Record ostore := mkO { o_m : nat; o_l : nat; o_slots : list oslot }.

Definition o_new (maxv : Z) (m l : nat) : ostore :=
  mkO m l (repeat (repeat (maxv, 2 ^ 64 - 1) l) m).

Definition slot_last (s : oslot) : Z := fst (last s (0, 0)).

(* sorted insertion after every smaller-or-equal value (the while loop shifts only strictly
   larger values), dropping the last element *)
Fixpoint ins (x idx : Z) (s : oslot) : oslot :=
  match s with
  | [] => [(x, idx)]
  | (v, i) :: r => if x <? v then (x, idx) :: (v, i) :: r else (v, i) :: ins x idx r
  end.

Definition slot_update (s : oslot) (x idx : Z) : oslot * bool :=
  if x <? slot_last s then (removelast (ins x idx s), true) else (s, false).

Definition nths (l : list oslot) (k : nat) : oslot := nth k l [].

(* the tracker holds, per slot, the l-th smallest value; its maximum bounds the loop (C15) *)
Definition o_max (st : ostore) : Z := lmax (map slot_last (o_slots st)).

(* [break_on_reject]: true = the original `if !inserted { break; }` ; false = keep going *)
Section Loop.
Variable break_on_reject : bool.

Fixpoint o_pair (st : ostore) (idx : Z) (script : list (Z * nat)) (nb : nat) : pres ostore :=
  match script with
  | [] => Exhausted
  | (x, k) :: rest =>
    if x <? o_max st then
      if negb (k <? o_m st)%nat then PFail 0 else
      let '(s', inserted) := slot_update (nths (o_slots st) k) x idx in
      let st' := mkO (o_m st) (o_l st) (upd (o_slots st) k s') in
      if negb inserted && break_on_reject then Done st'
      else if inserted && negb (x <? o_max st') then Done st'
      else if (o_m st <=? nb + 1)%nat then Done st'
      else o_pair st' idx rest (S nb)
    else Done st
  end.

Fixpoint o_pairs (st : ostore) (idx : Z) (pairs : list (list (Z * nat))) : pres ostore :=
  match pairs with
  | [] => Done st
  | sc :: r => match o_pair st idx sc 0 with Done st' => o_pairs st' (idx + 1) r | e => e end
  end.

(* hash_set clears everything first: the result never depends on earlier calls *)
Definition o_hash_set (maxv : Z) (m l : nat) (pairs : list (list (Z * nat))) : pres ostore :=
  o_pairs (o_new maxv m l) 0 pairs.
End Loop.

(* what create_signature reads: per slot the selected indices in increasing order *)
Fixpoint insz (x : Z) (l : list Z) : list Z :=
  match l with [] => [x] | y :: r => if x <=? y then x :: y :: r else y :: insz x r end.
Definition sortz (l : list Z) : list Z := fold_right insz [] l.
Definition o_selected (st : ostore) : list (list Z) := map (fun s => sortz (map snd s)) (o_slots st).
Definition o_values (st : ostore) : list (list Z) := map (map fst) (o_slots st).

(* monitors of the hypotheses of the characterisation theorems (Proofs/OrdTopL.v), evaluated on
   every case of the correspondence run *)
Fixpoint script_okb (m : nat) (prev : Z) (script : list (Z * nat)) : bool :=
  match script with
  | [] => true
  | (x, k) :: r => (prev <=? x) && (k <? m)%nat && script_okb m x r
  end.
Definition pairs_okb (m : nat) (pairs : list (list (Z * nat))) : bool :=
  forallb (fun sc => script_okb m 0 sc && (length sc <=? m)%nat) pairs.
Fixpoint nodupz (l : list Z) : bool :=
  match l with [] => true | x :: r => negb (existsb (Z.eqb x) r) && nodupz r end.
Definition slot_vals (k : nat) (pairs : list (list (Z * nat))) : list Z :=
  flat_map (fun sc => map fst (filter (fun p => (snd p =? k)%nat) sc)) pairs.
Definition slots_distinctb (m : nat) (pairs : list (list (Z * nat))) : bool :=
  forallb (fun k => nodupz (slot_vals k pairs)) (seq 0 m).
(* no two pairs share a race value: under independent continuous races this fails with probability
   about 2^-52 per pair of points; a generator that gives two pairs a common value fails it at once *)
Definition pairs_disjointb (pairs : list (list (Z * nat))) : bool :=
  nodupz (flat_map (map fst) pairs).
