(* Extraction of the executable models for the high-volume correspondence runs.
   Only ExtrOcamlBasic is used (bool, option, list, prod, unit, sumbool -> OCaml natives);
   Z, positive, N and nat stay the extracted inductive types.  No Extract Constant. *)
Require Extraction.
Require Import ExtrOcamlBasic.
From PMH Require Import Model.Dispatch.
Extraction Language OCaml.
From Coq Require Import ZArith.
(* Z.mul, Z.add, Z.opp, Z.div_eucl are used by the driver to read and print decimal integers *)
Extraction "modelcore.ml" run_generic Z.mul Z.add Z.opp Z.div_eucl.
