(* C06 - pinned statements (cardinality estimator of SetSketch).  card_of_sum is the expression
   found, identically, in get_cardinal_stats and in the parallel get_cardinal_estimate. *)
From Coq Require Import Reals List.
From PMH Require Import Gen.SetSketchFormulas Proofs.SetFormulas Gen.SetSketchLaw Proofs.SetLaw.
Import ListNotations.
Open Scope R_scope.

(* raising any registers never lowers the estimate (adding an item or merging only raises registers, C05) *)
Theorem C06_card_monotone : forall b a m K K', 1 < b -> 0 < a -> 0 < m -> K <> [] -> Forall2 Rle K K' ->
  card_of_sum b a m (reg_sum b K) <= card_of_sum b a m (reg_sum b K').
Proof. exact card_monotone. Qed.

Theorem C06_card_positive : forall b a m K, 1 < b -> 0 < a -> 0 < m -> K <> [] -> 0 < card_of_sum b a m (reg_sum b K).
Proof. exact card_positive. Qed.

Theorem C06_sum_antitone : forall b, 1 < b -> forall K K', Forall2 Rle K K' -> reg_sum b K' <= reg_sum b K.
Proof. exact reg_sum_antitone. Qed.

(* the register law, on the formulas regenerated from SetSketcher::sketch: the increment of the j-th value is
   Exp(1)/(a (m - j)) (Renyi spacing of m exponentials of rate a); a register is >= k exactly when the value
   reaching it is <= b^(1-k); a larger value gives a smaller register (so the early exits are sound) *)
Theorem C06_increment_is_renyi_spacing : forall a m j, 0 < a -> j < m -> ss_gap a m j = / (a * (m - j)).
Proof. exact ss_gap_is_renyi_spacing. Qed.

Theorem C06_register_threshold : forall lnb x k, 0 < lnb -> 0 < x ->
  (k <= ss_reg_real lnb x <-> x <= exp ((1 - k) * lnb)).
Proof. exact ss_reg_threshold. Qed.

Theorem C06_register_antitone : forall lnb x y, 0 < lnb -> 0 < x -> x <= y -> ss_reg_real lnb y <= ss_reg_real lnb x.
Proof. exact ss_reg_antitone. Qed.

Print Assumptions C06_card_monotone.
Print Assumptions C06_card_positive.
Print Assumptions C06_sum_antitone.
Print Assumptions C06_increment_is_renyi_spacing.
Print Assumptions C06_register_threshold.
Print Assumptions C06_register_antitone.
