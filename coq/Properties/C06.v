(* C06 - pinned statements (cardinality estimator of SetSketch).  card_of_sum is the expression
   found, identically, in get_cardinal_stats and in the parallel get_cardinal_estimate. *)
From Coq Require Import Reals List.
From PMH Require Import Gen.SetSketchFormulas Proofs.SetFormulas.
Import ListNotations.
Open Scope R_scope.

(* raising any registers never lowers the estimate (adding an item or merging only raises registers, C05) *)
Theorem C06_card_monotone : forall b a m K K', 1 < b -> 0 < a -> 0 < m -> K <> [] -> Forall2 Rle K K' ->
  card_of_sum b a m (reg_sum b K) <= card_of_sum b a m (reg_sum b K').
Proof. exact card_monotone. Qed.

Theorem C06_card_positive : forall b a m K, 1 < b -> 0 < a -> 0 < m -> K <> [] -> 0 < card_of_sum b a m (reg_sum b K).
Proof. exact card_positive. Qed.

Theorem C06_sum_antitone : forall b, 1 < b -> forall K K', Forall2 Rle K K' -> reg_sum b K' <= reg_sum b K.
Proof. exact reg_sum_antitone. Qed.

Print Assumptions C06_card_monotone.
Print Assumptions C06_card_positive.
Print Assumptions C06_sum_antitone.
