(* C06 - pinned statements (cardinality estimator of SetSketch).  card_of_sum is the expression
   found, identically, in get_cardinal_stats and in the parallel get_cardinal_estimate. *)
From Coq Require Import Reals List ZArith.
From PMH Require Import Gen.SetSketchFormulas Proofs.SetFormulas Gen.SetSketchLaw Proofs.SetLaw Proofs.FloatSum Lib.ListArr Model.SetSketch Proofs.SetSketch Proofs.CardModel Gen.SetFormulasSrc Proofs.SetFormulasSrc.
Import ListNotations.
Open Scope R_scope.

(* raising any registers never lowers the estimate (adding an item or merging only raises registers, C05) *)
Theorem C06_card_monotone : forall b a m K K', 1 < b -> 0 < a -> 0 < m -> K <> [] -> Forall2 Rle K K' ->
  card_of_sum b a m (reg_sum b K) <= card_of_sum b a m (reg_sum b K').
Proof. exact card_monotone. Qed.

Theorem C06_card_positive : forall b a m K, 1 < b -> 0 < a -> 0 < m -> K <> [] -> 0 < card_of_sum b a m (reg_sum b K).
Proof. exact card_positive. Qed.

Theorem C06_sum_antitone : forall b, 1 < b -> forall K K', Forall2 Rle K K' -> reg_sum b K' <= reg_sum b K.
Proof. exact reg_sum_antitone. Qed.

(* the register law, on the formulas regenerated from SetSketcher::sketch: the increment of the j-th value is
   Exp(1)/(a (m - j)) (Renyi spacing of m exponentials of rate a); a register is >= k exactly when the value
   reaching it is <= b^(1-k); a larger value gives a smaller register (so the early exits are sound) *)
Theorem C06_increment_is_renyi_spacing : forall a m j, 0 < a -> j < m -> ss_gap a m j = / (a * (m - j)).
Proof. exact ss_gap_is_renyi_spacing. Qed.

Theorem C06_register_threshold : forall lnb x k, 0 < lnb -> 0 < x ->
  (k <= ss_reg_real lnb x <-> x <= exp ((1 - k) * lnb)).
Proof. exact ss_reg_threshold. Qed.

Theorem C06_register_antitone : forall lnb x y, 0 < lnb -> 0 < x -> x <= y -> ss_reg_real lnb y <= ss_reg_real lnb x.
Proof. exact ss_reg_antitone. Qed.

(* 'agrees up to rounding': the sketcher adds the m binary64 terms b^-K_i from left to right starting from 0.0, the estimator on
   a raw slice adds the same terms in whatever tree the work-stealing scheduler builds (zeros as identities).  For EVERY such
   tree the two binary64 sums are within (1 +- 2^-53)^(number of additions) of each other ... *)
Theorem C06_sequential_and_any_parallel_sum_agree : forall xs t,
  Forall (fun x => fmt64 x /\ 0 <= x) xs -> leaves_ok t -> Permutation.Permutation (nonzero xs) (nonzero (leaves t)) ->
  let s := fold_left (fun a x => rnd64 (a + x)) xs 0 in
  (1 - u64) ^ length xs * fsum t <= (1 + u64) ^ depth t * s /\
  (1 - u64) ^ depth t * s <= (1 + u64) ^ length xs * fsum t.
Proof. exact fold_vs_tree. Qed.

(* ... every binary64 summation tree over non-negative terms is within (1 +- 2^-53)^depth of the exact sum ... *)
Theorem C06_any_sum_tree_is_accurate : forall t, leaves_ok t ->
  0 <= rsum t /\ (1 - u64) ^ depth t * rsum t <= fsum t <= (1 + u64) ^ depth t * rsum t.
Proof. exact fsum_bounds. Qed.

(* ... and the two estimates are in the inverse ratio of the two sums *)
Theorem C06_estimates_in_inverse_ratio_of_sums : forall b a m S1 S2, 1 < b -> 0 < a -> 0 < S1 -> 0 < S2 ->
  card_of_sum b a m S1 * S1 = card_of_sum b a m S2 * S2.
Proof. exact card_inverse_ratio. Qed.

(* the estimator and its advertised spread as the source text of get_cardinal_stats and of the parallel get_cardinal_estimate
   writes them (Gen/SetFormulasSrc.v, read off the Rust expressions on every run, `let` chains inlined) are the formulas the
   theorems above are stated on; in particular the two functions compute the same function of the registers' sum *)
Theorem C06_source_estimators_are_the_proved_estimator : forall b a m S, 1 < b -> 0 < a -> 0 < S ->
  card_stats_src b a m S = card_of_sum b a m S /\ card_estimate_src b a m S = card_of_sum b a m S /\
  card_stats_src b a m S = card_estimate_src b a m S.
Proof.
  intros b a m S Hb Ha HS.
  exact (conj (card_stats_src_ok b a m S Hb Ha HS) (conj (card_estimate_src_ok b a m S Hb Ha HS) (card_sources_agree b a m S Hb Ha HS))).
Qed.

Theorem C06_source_spread_is_the_advertised_spread : forall b m, 1 < b -> 0 < m -> card_rsd_src b m = card_rel_std_dev b m.
Proof. exact card_rsd_src_ok. Qed.

(* the coefficient of the j-th exponential increment and the register before flooring, as the source text of
   SetSketcher::sketch writes them, are the formulas the register-law theorems are stated on *)
Theorem C06_source_register_law_is_the_proved_law : forall a m j lnb x, 0 < a -> j < m -> 0 < lnb ->
  ss_gap_src a m j = ss_gap a m j /\ ss_reg_real_src lnb x = ss_reg_real lnb x.
Proof. intros a m j lnb x Ha Hj Hl. exact (conj (ss_gap_src_ok a m j Ha Hj) (ss_reg_real_src_ok lnb x Hl)). Qed.

(* the monotonicity clause closed on the model of the sketcher: from any state satisfying the invariant of C05, streaming an item
   or merging another sketch never lowers the estimate computed from the registers (register theorems of C05 + card_monotone) *)
Theorem C06_item_never_lowers_estimate : forall b a m s sc s', 1 < b -> 0 < a -> 0 < m ->
  ssinv s -> (1 <= sp_m (ss_par s))%nat -> ss_item s sc = Ok s' ->
  model_estimate b a m s <= model_estimate b a m s'.
Proof. exact item_never_lowers_estimate. Qed.

Theorem C06_merge_never_lowers_estimate : forall b a m s o, 1 < b -> 0 < a -> 0 < m ->
  ssinv s -> ssinv o -> (1 <= sp_m (ss_par s))%nat -> sp_imax (ss_par s) = sp_imax (ss_par o) ->
  model_estimate b a m s <= model_estimate b a m (fst (ss_merge s o)).
Proof. exact merge_never_lowers_estimate. Qed.

Print Assumptions C06_card_monotone.
Print Assumptions C06_sequential_and_any_parallel_sum_agree.
Print Assumptions C06_any_sum_tree_is_accurate.
Print Assumptions C06_estimates_in_inverse_ratio_of_sums.
Print Assumptions C06_card_positive.
Print Assumptions C06_sum_antitone.
Print Assumptions C06_increment_is_renyi_spacing.
Print Assumptions C06_register_threshold.
Print Assumptions C06_register_antitone.
Print Assumptions C06_source_estimators_are_the_proved_estimator.
Print Assumptions C06_source_spread_is_the_advertised_spread.
Print Assumptions C06_source_register_law_is_the_proved_law.
Print Assumptions C06_item_never_lowers_estimate.
Print Assumptions C06_merge_never_lowers_estimate.
