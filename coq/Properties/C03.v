(* C03 - pinned statements.  The property is an expectation; what is decided here:
   (i)  exact characterisation: SuperMinHash position = minimum over the items of the value the
        item's own permutation puts there; SuperMinHash2 position = lexicographic minimum of
        (round, value) and the hash of an item attaining it;
   (ii) a single complete item puts its m values (integer part of the i-th one >= i) on a
        permutation of the positions, the permutation being the Fisher-Yates image of its choice
        vector (C17).  The counting lemmas (uniform permutation, arg-min symmetry) and every
        variance clause are not part of this file: see DESIGN.md. *)
From Coq Require Import List ZArith Bool.
From PMH Require Import Lib.ListArr Model.ProbMinHash Proofs.ProbMinHash Model.FYShuffle Proofs.FYShuffle
  Model.SuperMinHash Model.SuperMinHash2 Proofs.SuperMinHash Proofs.SuperMinHash2 Gen.FlagsSmh.
Import ListNotations.
Open Scope Z_scope.

Theorem C03_source_flag : smh_hist_by_floor = true.
Proof. exact eq_refl. Qed.

Theorem C03_superminhash_is_min : forall (F : Z -> Z), (forall a b, a <= b -> F a <= F b) -> (forall a, 0 <= F a) ->
  forall large, snd large = F (fst large) ->
  forall m its s, (1 <= m)%nat -> Z.of_nat m <= snd large -> (forall sc, In sc its -> itemF_ok F large m sc) ->
  bind (smh_new m large) (fun s0 => smh_items s0 its) = Ok s ->
  sm_m s = m /\ forall x, (x < m)%nat -> fst (nthp (sm_h s) x) = min_at (alltagsF m its) (fst large) x.
Proof. exact smh_is_min. Qed.

Theorem C03_superminhash2_final : forall m its s, (1 <= m)%nat -> (forall it, In it its -> item2_ok m it) ->
  bind (smh2_new m) (fun s0 => smh2_items s0 its) = Ok s ->
  final m (Z.of_nat m * W - 1) 0 (alltags_s2 its) (abs2 s) /\ s2_m s = m.
Proof. exact smh2_final. Qed.

Theorem C03_single_item_is_a_permutation : forall m sc, ks_ok m 0 sc -> length sc = m ->
  map (fun p : tpoint => snd p) (tagsF (seq 0 m) 0 sc) = final_perm (seq 0 m) 0 sc /\
  arr m (final_perm (seq 0 m) 0 sc).
Proof. exact single_item_positions. Qed.

Print Assumptions C03_source_flag.
Print Assumptions C03_superminhash_is_min.
Print Assumptions C03_superminhash2_final.
Print Assumptions C03_single_item_is_a_permutation.
