(* C03 - pinned statements.  The property is an expectation; what is decided here:
   (i)  exact characterisation: SuperMinHash position = minimum over the items of the value the
        item's own permutation puts there; SuperMinHash2 position = lexicographic minimum of
        (round, value) and the hash of an item attaining it;
   (ii) a single complete item puts its m values (integer part of the i-th one >= i) on a
        permutation of the positions, the permutation being the Fisher-Yates image of its choice
        vector (C17).  The counting lemmas (uniform permutation, arg-min symmetry) and every
        variance clause are not part of this file: see DESIGN.md. *)
From Coq Require Import List ZArith Bool Factorial.
From PMH Require Import Lib.ListArr Model.ProbMinHash Proofs.ProbMinHash Model.FYShuffle Proofs.FYShuffle
  Model.SuperMinHash Model.SuperMinHash2 Proofs.SuperMinHash Proofs.SuperMinHash2 Gen.FlagsSmh
  Proofs.SmhUniform Lib.Counting Model.Estimators Gen.EstSmh Proofs.Estimators.
Import ListNotations.
Open Scope Z_scope.

Theorem C03_source_flag : smh_hist_by_floor = true.
Proof. exact eq_refl. Qed.

Theorem C03_superminhash_is_min : forall (F : Z -> Z), (forall a b, a <= b -> F a <= F b) -> (forall a, 0 <= F a) ->
  forall large, snd large = F (fst large) ->
  forall m its s, (1 <= m)%nat -> Z.of_nat m <= snd large -> (forall sc, In sc its -> itemF_ok F large m sc) ->
  bind (smh_new m large) (fun s0 => smh_items s0 its) = Ok s ->
  sm_m s = m /\ forall x, (x < m)%nat -> fst (nthp (sm_h s) x) = min_at (alltagsF m its) (fst large) x.
Proof. exact smh_is_min. Qed.

Theorem C03_superminhash2_final : forall m its s, (1 <= m)%nat -> (forall it, In it its -> item2_ok m it) ->
  bind (smh2_new m) (fun s0 => smh2_items s0 its) = Ok s ->
  final m (Z.of_nat m * W - 1) 0 (alltags_s2 its) (abs2 s) /\ s2_m s = m.
Proof. exact smh2_final. Qed.

Theorem C03_single_item_is_a_permutation : forall m sc, ks_ok m 0 sc -> length sc = m ->
  map (fun p : tpoint => snd p) (tagsF (seq 0 m) 0 sc) = final_perm (seq 0 m) 0 sc /\
  arr m (final_perm (seq 0 m) 0 sc).
Proof. exact single_item_positions. Qed.

(* uniform permutation of a single item: every arrangement of the positions comes from exactly one
   index vector (k_0 .. k_{m-1}), j <= k_j < m; there are m! such vectors *)
Theorem C03_single_item_permutation_uniform : forall m sigma, arr m sigma ->
  exists ks, length ks = m /\ ksn_ok m 0 ks /\
    forall sc, length sc = m -> ks_ok m 0 sc -> (final_perm (seq 0 m) 0 sc = sigma <-> ks_of sc = ks).
Proof. exact smh_single_item_uniform. Qed.

Theorem C03_index_vectors_counted : forall n j,
  length (all_ks j n) = fact n /\ forall ks, In ks (all_ks j n) <-> (length ks = n /\ ksn_ok (j + n) j ks).
Proof. intros n j. split; [exact (all_ks_count n j)|exact (all_ks_spec n j)]. Qed.

(* under a uniformly random ranking of the items of A u B, the lowest-ranked item of A is the
   lowest-ranked item of B with probability |A n B| / |A u B| (counting over all |U|! rankings) *)
Theorem C03_collision_share_under_uniform_ranking : forall (inA inB : nat -> bool) (U : list nat),
  U <> [] -> NoDup U -> (forall x, In x U -> inA x || inB x = true) ->
  (length (filter (collide Nat.eqb inA inB) (perms U)) * length U
   = length (filter (fun x => inA x && inB x) U) * fact (length U))%nat.
Proof. intros inA inB U. apply (collision_share Nat.eqb Nat.eqb_eq inA inB U). Qed.

(* the estimators of superminhasher.rs / superminhasher2.rs (regenerated shapes): on equal lengths each returns
   exactly (number of equal positions, length) *)
Theorem C03_estimator_is_match_fraction : forall name e, In (name, e) smh_estimators ->
  forall a b, length a = length b -> est_run e a b = EstOk (count_eq a b) (length a).
Proof. exact (fun name e Hin a b H => est_exact e a b (list_sane smh_estimators eq_refl name e Hin) H). Qed.

Print Assumptions C03_source_flag.
Print Assumptions C03_superminhash_is_min.
Print Assumptions C03_superminhash2_final.
Print Assumptions C03_single_item_is_a_permutation.
Print Assumptions C03_single_item_permutation_uniform.
Print Assumptions C03_index_vectors_counted.
Print Assumptions C03_collision_share_under_uniform_ranking.
Print Assumptions C03_estimator_is_match_fraction.
