(* C16 - pinned statements (truncated exponential sampler).  Constants and tests are the
   definitions regenerated from src/exp01.rs (Gen/Exp01Gen.v). *)
From Coq Require Import Reals.
From Coquelicot Require Import Coquelicot.
From PMH Require Import Gen.Exp01Gen Proofs.Exp01.
Open Scope R_scope.

(* the three acceptance tests of the loop accept exactly the region under f *)
Theorem C16_accept_iff : forall lambda x y, 0 < lambda ->
  (exp01_test1 lambda x y \/ exp01_test2 lambda x y \/ exp01_test3 lambda x y) <-> y <= f01 lambda x.
Proof. exact exp01_accept_iff. Qed.

(* the early return `x < c2` is sound: c2 is where f = 1/2 and y < 1/2 there *)
Theorem C16_c2_is_half : forall lambda, 0 < lambda -> f01 lambda (exp01_c2 lambda) = 1 / 2.
Proof. exact exp01_c2_half. Qed.

(* target density = uniform part of weight 1/c1 + lambda * f *)
Theorem C16_mixture : forall lambda x, 0 < lambda -> rho01 lambda x = / exp01_c1 lambda + lambda * f01 lambda x.
Proof. exact exp01_mixture. Qed.

(* its distribution function is (1 - e^{-lambda t}) / (1 - e^{-lambda}) *)
Theorem C16_cdf : forall lambda t, 0 < lambda ->
  is_derive (cdf01 lambda) t (rho01 lambda t) /\ cdf01 lambda 0 = 0 /\ cdf01 lambda 1 = 1.
Proof. exact exp01_cdf. Qed.

Theorem C16_f_range : forall lambda x, 0 < lambda -> 0 <= x <= 1 -> 0 <= f01 lambda x <= 1.
Proof. exact exp01_f_range. Qed.

(* every value the sampler can return lies in [0,1): the control flow of sample() over the reals (first try
   c1 * u0 returned if < 1; then rounds on two unit draws with the early return x < c2, the reflection of the
   upper triangle and the three generated tests), for every rate and all unit draws in [0,1) *)
Theorem C16_returned_values_in_unit_interval : forall lambda u0 ux uy x, 0 < lambda ->
  0 <= u0 < 1 -> 0 <= ux < 1 -> 0 <= uy < 1 ->
  (first_try lambda u0 = Some x -> 0 <= x < 1) /\ (one_round lambda ux uy = Accept x -> 0 <= x < 1).
Proof.
  intros lambda u0 ux uy x Hl H0 Hx Hy. split.
  - exact (exp01_first_try_range lambda u0 x Hl H0).
  - exact (exp01_round_range lambda ux uy x Hx Hy).
Qed.

Print Assumptions C16_accept_iff.
Print Assumptions C16_c2_is_half.
Print Assumptions C16_mixture.
Print Assumptions C16_cdf.
Print Assumptions C16_f_range.
Print Assumptions C16_returned_values_in_unit_interval.
