(* C12 - pinned statement: every ambient read found in the non-test source (regenerated list)
   is of a kind that cannot flow into a sketch.  The models themselves are closed Gallina
   functions of (parameters, scripts): they have no other input. *)
From Coq Require Import List String Bool.
From PMH Require Import Model.Env Gen.Ambient Proofs.AuditAmbient.

Theorem C12_ambient_reads_classified : forallb ambient_ok ambient_reads = true.
Proof. exact ambient_reads_classified. Qed.

Print Assumptions C12_ambient_reads_classified.
