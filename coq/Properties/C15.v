(* C15 - pinned statements. *)
From Coq Require Import List ZArith.
From PMH Require Import Lib.ListArr Model.Tracker Proofs.Tracker.
Import ListNotations.
Open Scope Z_scope.

(* For every slot count m >= 1, every type maximum and EVERY history of updates (slot < m),
   resets and probes: the model of the code raises no assert / index error and does not run
   out of fuel; the tree is consistent; each slot holds the smallest value offered to it since
   the last reset (or the type maximum); the reported maximum is the largest slot value (an
   upper bound that some slot attains); an update is reported possible exactly below it. *)
Theorem C15_tracker_history : forall maxv m ops, (1 <= m)%nat -> ops_valid m ops ->
  exists t0 t obs, t_new maxv m = Ok t0 /\ t_run t0 ops [] = Ok (t, obs) /\
    twf t /\ tm t = m /\
    (forall k, (k < m)%nat -> t_get_value t k = spec_leaf maxv ops k) /\
    (forall k, (k < m)%nat -> spec_leaf maxv ops k <= t_get_max t) /\
    (exists k, (k < m)%nat /\ spec_leaf maxv ops k = t_get_max t) /\
    (forall v, t_is_update_possible t v = true <-> v < t_get_max t).
Proof. exact tracker_history. Qed.

(* one update, from any consistent state *)
Theorem C15_tracker_update : forall t k v, twf t -> (k < tm t)%nat ->
  exists t', t_update t k v = Ok t' /\ twf t' /\ tm t' = tm t /\ tmax t' = tmax t /\
    (forall j, (j < tm t)%nat -> j <> k -> t_get_value t' j = t_get_value t j) /\
    t_get_value t' k = Z.min (t_get_value t k) v.
Proof. exact t_update_ok. Qed.

(* in every consistent state the root is the maximum of the slots *)
Theorem C15_tracker_root : forall t, twf t ->
  (forall k, (k < tm t)%nat -> t_get_value t k <= t_get_max t) /\
  (exists k, (k < tm t)%nat /\ t_get_value t k = t_get_max t).
Proof. exact root_is_max. Qed.

(* reset = the initial state *)
Theorem C15_tracker_reset : forall t, twf t -> t_new (tmax t) (tm t) = Ok (t_reset t).
Proof. exact tracker_reset. Qed.

Print Assumptions C15_tracker_history.
Print Assumptions C15_tracker_update.
Print Assumptions C15_tracker_root.
Print Assumptions C15_tracker_reset.
