(* C11 - pinned statements (ProbOrdMinHash2).
   The source no longer abandons a pair at its first rejected value (flag from the translator);
   for that loop: hash_set gives the store in which EVERY point of EVERY pair was offered to its
   slot; a slot is the first l entries of a sorted arrangement of the points that fall in it; the
   stored values never depend on the sequence order, and when the values falling in one slot are
   pairwise distinct neither do the selected (element, occurrence) labels. *)
From Coq Require Import List ZArith Bool Permutation.
From PMH Require Import Lib.ListArr Model.ProbMinHash Model.OrdMinHash Gen.FlagsOrd Proofs.OrdMinHash Proofs.OrdTopL.
Import ListNotations.
Open Scope Z_scope.

Theorem C11_source_flag : ord_break_on_reject = false.
Proof. exact eq_refl. Qed.

Theorem C11_slot_update : forall s x i, vsorted s -> (1 <= length s)%nat ->
  let '(s', ins') := slot_update s x i in
  vsorted s' /\ length s' = length s /\ slot_last s' <= slot_last s /\
  (ins' = true <-> x < slot_last s) /\ (ins' = false -> s' = s).
Proof. exact slot_update_spec. Qed.

Theorem C11_hash_set_history_free : forall b maxv m l pairs,
  o_hash_set b maxv m l pairs = o_pairs b (o_new maxv m l) 0 pairs.
Proof. exact ord_hash_set_history_free. Qed.

(* pruning soundness: nothing that could enter a slot is skipped *)
Theorem C11_hash_set_offers_every_point : forall maxv m l pairs st, (1 <= l)%nat -> pairs_ok m pairs ->
  o_hash_set ord_break_on_reject maxv m l pairs = Done st ->
  store_ok st /\ o_slots st = o_naive l (tag_pairs 0 pairs) (o_slots (o_new maxv m l)).
Proof. exact hash_set_naive. Qed.

Theorem C11_selection_order_independent : forall maxv m l (lp lp' : list lpair) st st',
  (1 <= l)%nat -> Permutation lp lp' -> pairs_ok m (map snd lp) -> Z.of_nat (length lp) <= 2 ^ 64 - 1 ->
  (forall k, (k < m)%nat -> vals_distinct (filter (in_slot k) (label_points lp))) ->
  o_hash_set ord_break_on_reject maxv m l (map snd lp) = Done st ->
  o_hash_set ord_break_on_reject maxv m l (map snd lp') = Done st' ->
  forall k, (k < m)%nat ->
  relabel (map fst lp) (nths (o_slots st) k) = relabel (map fst lp') (nths (o_slots st') k).
Proof. exact hash_set_order_independent. Qed.

Theorem C11_values_order_independent : forall maxv m l (lp lp' : list lpair) st st',
  (1 <= l)%nat -> Permutation lp lp' -> pairs_ok m (map snd lp) ->
  o_hash_set ord_break_on_reject maxv m l (map snd lp) = Done st ->
  o_hash_set ord_break_on_reject maxv m l (map snd lp') = Done st' ->
  forall k, (k < m)%nat -> map fst (nths (o_slots st) k) = map fst (nths (o_slots st') k).
Proof. exact hash_set_values_order_independent. Qed.

(* the monitors evaluated on every correspondence case imply the hypotheses *)
Theorem C11_monitors_sound : forall m (lp : list lpair),
  (pairs_okb m (map snd lp) = true -> pairs_ok m (map snd lp)) /\
  (slots_distinctb m (map snd lp) = true -> forall k, (k < m)%nat -> vals_distinct (filter (in_slot k) (label_points lp))).
Proof. intros m lp. split; [exact (pairs_okb_ok m (map snd lp))|exact (slots_distinctb_ok m lp)]. Qed.

Print Assumptions C11_source_flag.
Print Assumptions C11_slot_update.
Print Assumptions C11_hash_set_history_free.
Print Assumptions C11_hash_set_offers_every_point.
Print Assumptions C11_selection_order_independent.
Print Assumptions C11_values_order_independent.
Print Assumptions C11_monitors_sound.
