(* C11 - pinned statements (ProbOrdMinHash2).  Partial: store-level facts and history freedom;
   the order-independence characterisation is not yet a theorem (decided by correspondence and
   the implementation-level permutation search). *)
From Coq Require Import List ZArith Bool.
From PMH Require Import Lib.ListArr Model.ProbMinHash Model.OrdMinHash Gen.FlagsOrd Proofs.OrdMinHash.
Import ListNotations.
Open Scope Z_scope.

Theorem C11_source_flag : ord_break_on_reject = false.
Proof. exact eq_refl. Qed.

Theorem C11_slot_update : forall s x i, vsorted s -> (1 <= length s)%nat ->
  let '(s', ins') := slot_update s x i in
  vsorted s' /\ length s' = length s /\ slot_last s' <= slot_last s /\
  (ins' = true <-> x < slot_last s) /\ (ins' = false -> s' = s).
Proof. exact slot_update_spec. Qed.

Theorem C11_hash_set_history_free : forall b maxv m l pairs,
  o_hash_set b maxv m l pairs = o_pairs b (o_new maxv m l) 0 pairs.
Proof. exact ord_hash_set_history_free. Qed.

Print Assumptions C11_source_flag.
Print Assumptions C11_slot_update.
Print Assumptions C11_hash_set_history_free.
