(* C13 - pinned statements: reset = constructor in every model; the audits regenerated from
   the source show every field a method mutates is re-established by the reset (or exempt,
   with the reason given in Model/Env.v) and is a field the model carries. *)
From Coq Require Import List ZArith String Bool.
From PMH Require Import Lib.ListArr Model.Tracker Model.FYShuffle Model.ProbMinHash Model.SetSketch
  Model.SuperMinHash Model.SuperMinHash2 Model.DensMinHash Model.OrdMinHash Model.Env Gen.Fields
  Proofs.Tracker Proofs.FYShuffle Proofs.Reinit Proofs.AuditFields.
Import ListNotations.

Theorem C13_reset_covers_mutated : forallb reset_covers struct_fields = true.
Proof. exact reset_covers_mutated. Qed.
Theorem C13_models_know_mutated_fields : forallb model_knows struct_fields = true.
Proof. exact models_know_mutated_fields. Qed.
Theorem C13_ten_structs : List.length struct_fields = 10%nat.
Proof. exact ten_structs_audited. Qed.

Theorem C13_superminhash : forall s large, (1 <= sm_m s)%nat -> smh_new (sm_m s) large = Ok (smh_reinit s large).
Proof. exact smh_reinit_fresh. Qed.
Theorem C13_superminhash2 : forall s, (1 <= s2_m s)%nat -> smh2_new (s2_m s) = Ok (smh2_reinit s).
Proof. exact smh2_reinit_fresh. Qed.
Theorem C13_setsketch : forall s, ss_reinit s = ss_new (ss_par s).
Proof. exact ss_reinit_fresh. Qed.
Theorem C13_densified : forall s large, dens_reinit s large = dens_new (d_m s) large.
Proof. exact dens_reinit_fresh. Qed.
Theorem C13_probminhash2 : forall maxv init st m, List.length (pregs st) = m -> List.length (psig st) = m ->
  p_reset maxv init st = p_new maxv init m.
Proof. exact pmh2_reset_fresh. Qed.
Theorem C13_tracker : forall t, twf t -> t_new (tmax t) (tm t) = Ok (t_reset t).
Proof. exact tracker_reset. Qed.
Theorem C13_shuffle : forall s us,
  match fy_draws fy_pick (fy_reset s) us, fy_draws fy_pick (fy_new (fm s)) us with
  | Ok (s1, o1), Ok (s2, o2) => o1 = o2 /\ (us <> [] -> s1 = s2)
  | Ok _, _ | _, Ok _ => False
  | _, _ => True
  end.
Proof. exact (fy_reset_as_new fy_pick). Qed.
Theorem C13_ordminhash_self_clearing : forall b maxv m l pairs,
  o_hash_set b maxv m l pairs = o_pairs b (o_new maxv m l) 0%Z pairs.
Proof. exact ord_store_fresh. Qed.

Print Assumptions C13_reset_covers_mutated.
Print Assumptions C13_models_know_mutated_fields.
Print Assumptions C13_ten_structs.
Print Assumptions C13_superminhash.
Print Assumptions C13_superminhash2.
Print Assumptions C13_setsketch.
Print Assumptions C13_densified.
Print Assumptions C13_probminhash2.
Print Assumptions C13_tracker.
Print Assumptions C13_shuffle.
Print Assumptions C13_ordminhash_self_clearing.
