(* C07 - pinned statements (Jaccard bounds of SetSketch).  jb_sup, jb_binf, jb_inf, pb_fun and the
   two flags are regenerated from src/setsketcher.rs; X stands for b^(jac/2). *)
From Coq Require Import Reals.
From PMH Require Import Gen.SetSketchFormulas Proofs.SetFormulas.
Open Scope R_scope.

(* the function asserts nothing about the order of its results: it returns for every jac <= 1 *)
Theorem C07_no_order_assertion : jb_asserts_order = false.
Proof. exact eq_refl. Qed.

(* the interval is well formed for every base b > 1 and every collision fraction >= 0 *)
Theorem C07_bounds_ordered : forall b X, 1 < b -> 1 <= X -> 0 <= jb_inf b X /\ jb_inf b X <= jb_sup b X.
Proof. exact bounds_ordered. Qed.

Theorem C07_bounds_gap : forall b X, 1 < b -> jb_sup b X - jb_binf b X = (X - sqrt b) * (X - sqrt b) / (b - 1).
Proof. exact bounds_gap. Qed.

(* it contains the Jaccard index for the collision probability of (u, v, J) *)
Theorem C07_bounds_contain_J : forall b u v J X, 1 < b -> u + v = 1 -> 0 <= J ->
  0 <= u - v * J -> 0 <= v - u * J -> 0 <= X ->
  X * X = b * (1 - (u - v * J) * (b - 1) / b) * (1 - (v - u * J) * (b - 1) / b) ->
  jb_binf b X <= J /\ J <= jb_sup b X.
Proof. exact bounds_contain_J. Qed.

(* that collision probability is 1 - pb(u - vJ) - pb(v - uJ) with the cost function's pb *)
Theorem C07_pb_collision : forall b x y, 1 < b -> x * (b - 1) / b < 1 -> y * (b - 1) / b < 1 ->
  Rpower b (1 - pb_fun b x - pb_fun b y) = b * (1 - x * (b - 1) / b) * (1 - y * (b - 1) / b).
Proof. exact pb_collision. Qed.

Print Assumptions C07_no_order_assertion.
Print Assumptions C07_bounds_ordered.
Print Assumptions C07_bounds_gap.
Print Assumptions C07_bounds_contain_J.
Print Assumptions C07_pb_collision.
