(* C07 - pinned statements (Jaccard bounds of SetSketch).  jb_sup, jb_binf, jb_inf, pb_fun and the
   two flags are regenerated from src/setsketcher.rs; X stands for b^(jac/2). *)
From Coq Require Import Reals.
From Coq Require Import List.
From PMH Require Import Gen.SetSketchFormulas Proofs.SetFormulas Gen.SetSketchLaw Proofs.SetLaw Gen.SetFormulasSrc Proofs.SetFormulasSrc Model.Estimators Gen.EstIdx Proofs.Estimators.
Open Scope R_scope.

(* the function asserts nothing about the order of its results: it returns for every jac <= 1 *)
Theorem C07_no_order_assertion : jb_asserts_order = false.
Proof. exact eq_refl. Qed.

(* the interval is well formed for every base b > 1 and every collision fraction >= 0 *)
Theorem C07_bounds_ordered : forall b X, 1 < b -> 1 <= X -> 0 <= jb_inf b X /\ jb_inf b X <= jb_sup b X.
Proof. exact bounds_ordered. Qed.

Theorem C07_bounds_gap : forall b X, 1 < b -> jb_sup b X - jb_binf b X = (X - sqrt b) * (X - sqrt b) / (b - 1).
Proof. exact bounds_gap. Qed.

(* it contains the Jaccard index for the collision probability of (u, v, J) *)
Theorem C07_bounds_contain_J : forall b u v J X, 1 < b -> u + v = 1 -> 0 <= J ->
  0 <= u - v * J -> 0 <= v - u * J -> 0 <= X ->
  X * X = b * (1 - (u - v * J) * (b - 1) / b) * (1 - (v - u * J) * (b - 1) / b) ->
  jb_binf b X <= J /\ J <= jb_sup b X.
Proof. exact bounds_contain_J. Qed.

(* that collision probability is 1 - pb(u - vJ) - pb(v - uJ) with the cost function's pb *)
Theorem C07_pb_collision : forall b x y, 1 < b -> x * (b - 1) / b < 1 -> y * (b - 1) / b < 1 ->
  Rpower b (1 - pb_fun b x - pb_fun b y) = b * (1 - x * (b - 1) / b) * (1 - y * (b - 1) / b).
Proof. exact pb_collision. Qed.

(* the register law, on the formulas regenerated from SetSketcher::sketch: the increment of the j-th value is
   Exp(1)/(a (m - j)) (Renyi spacing of m exponentials of rate a); a register is >= k exactly when the value
   reaching it is <= b^(1-k); a larger value gives a smaller register (so the early exits are sound) *)
Theorem C07_increment_is_renyi_spacing : forall a m j, 0 < a -> j < m -> ss_gap a m j = / (a * (m - j)).
Proof. exact ss_gap_is_renyi_spacing. Qed.

Theorem C07_register_threshold : forall lnb x k, 0 < lnb -> 0 < x ->
  (k <= ss_reg_real lnb x <-> x <= exp ((1 - k) * lnb)).
Proof. exact ss_reg_threshold. Qed.

Theorem C07_register_antitone : forall lnb x y, 0 < lnb -> 0 < x -> x <= y -> ss_reg_real lnb y <= ss_reg_real lnb x.
Proof. exact ss_reg_antitone. Qed.

(* the fraction of equal registers is computed by jaccard::get_jaccard_index_estimate (regenerated shape):
   on equal lengths exactly (number of equal positions, length) *)
Theorem C07_estimator_is_match_fraction : forall a b, length a = length b ->
  est_run est_jaccard_get_jaccard_index_estimate a b = EstOk (count_eq a b) (length a).
Proof. exact (fun a b H => est_exact est_jaccard_get_jaccard_index_estimate a b (eq_refl true) H). Qed.

(* the two bounds as the source text of get_jaccard_bounds writes them are the formulas the theorems above are stated on *)
Theorem C07_source_bounds_are_the_proved_bounds : forall b X, 1 < b ->
  jb_sup_src b X = jb_sup b X /\ jb_binf_src b X = jb_binf b X.
Proof. intros b X Hb. exact (conj (jb_sup_src_ok b X Hb) (jb_binf_src_ok b X Hb)). Qed.

(* the coefficient of the j-th exponential increment and the register before flooring, as the source text of
   SetSketcher::sketch writes them, are the formulas the register-law theorems are stated on *)
Theorem C07_source_register_law_is_the_proved_law : forall a m j lnb x, 0 < a -> j < m -> 0 < lnb ->
  ss_gap_src a m j = ss_gap a m j /\ ss_reg_real_src lnb x = ss_reg_real lnb x.
Proof. intros a m j lnb x Ha Hj Hl. exact (conj (ss_gap_src_ok a m j Ha Hj) (ss_reg_real_src_ok lnb x Hl)). Qed.

Print Assumptions C07_no_order_assertion.
Print Assumptions C07_bounds_ordered.
Print Assumptions C07_bounds_gap.
Print Assumptions C07_bounds_contain_J.
Print Assumptions C07_pb_collision.
Print Assumptions C07_increment_is_renyi_spacing.
Print Assumptions C07_register_threshold.
Print Assumptions C07_register_antitone.
Print Assumptions C07_estimator_is_match_fraction.
Print Assumptions C07_source_bounds_are_the_proved_bounds.
Print Assumptions C07_source_register_law_is_the_proved_law.
