(* C02 - pinned statements.  States, scripts and the specification are those of
   Model/ProbMinHash.v; [final] (Proofs/ProbMinHash.v) says: the state is what one gets by
   offering input points only, and every input point is covered. *)
From Coq Require Import List ZArith.
From PMH Require Import Lib.ListArr Model.ProbMinHash Proofs.ProbMinHash.
Import ListNotations.
Open Scope Z_scope.

(* --- each variant ends in the state determined by the set of points (when the script
       prefixes sufficed, i.e. the run is Done) --- *)
Theorem C02_pmh3_characterised : forall m maxv init items st, (1 <= m)%nat -> scripts_wf m items ->
  pmh3_items (p_new maxv init m) items = Done st -> final m maxv init (alltags3 items) st.
Proof. exact pmh3_final. Qed.

Theorem C02_pmh3a_characterised : forall m maxv init batches st, (1 <= m)%nat ->
  (forall b, In b batches -> scripts_wf m b) ->
  pmh3a_batches (p_new maxv init m) batches = Done st -> final m maxv init (alltags3b batches) st.
Proof. exact pmh3a_final. Qed.

Theorem C02_pmh2_characterised : forall m maxv init items st, (1 <= m)%nat -> scripts2_wf m items ->
  pmh2_items (p_new maxv init m) items = Done st -> final m maxv init (alltags2 items) st.
Proof. exact pmh2_final. Qed.

(* --- what a final state is: registers = per-slot minimum; signature = placeholder iff nothing
       is below the initial value, else the id of a point attaining the minimum --- *)
Theorem C02_final_registers : forall m maxv init Pts st k, final m maxv init Pts st -> (k < m)%nat ->
  nthz (pregs st) k = min_at Pts maxv k.
Proof. exact final_regs. Qed.

Theorem C02_final_signature : forall m maxv init Pts st k, final m maxv init Pts st -> (k < m)%nat ->
  (min_at Pts maxv k = maxv /\ nthz (psig st) k = init) \/
  (min_at Pts maxv k < maxv /\ In (nthz (psig st) k, min_at Pts maxv k, k) Pts).
Proof. exact final_sig. Qed.

(* --- set semantics: any order, any repetition of pairs, any batch split, 3 versus 3a --- *)
Theorem C02_pmh3_set_semantics : forall m maxv init items items' st st', (1 <= m)%nat ->
  scripts_wf m items -> scripts_wf m items' -> (forall x, In x items <-> In x items') ->
  pmh3_items (p_new maxv init m) items = Done st -> pmh3_items (p_new maxv init m) items' = Done st' ->
  pregs st = pregs st' /\
  ((forall k, (k < m)%nat -> tie_free (alltags3 items) maxv k) -> psig st = psig st').
Proof. exact pmh3_set_semantics. Qed.

Theorem C02_pmh3a_set_semantics : forall m maxv init bs bs' st st', (1 <= m)%nat ->
  (forall b, In b bs -> scripts_wf m b) -> (forall b, In b bs' -> scripts_wf m b) ->
  (forall x, In x (concat bs) <-> In x (concat bs')) ->
  pmh3a_batches (p_new maxv init m) bs = Done st -> pmh3a_batches (p_new maxv init m) bs' = Done st' ->
  pregs st = pregs st' /\
  ((forall k, (k < m)%nat -> tie_free (alltags3b bs) maxv k) -> psig st = psig st').
Proof. exact pmh3a_set_semantics. Qed.

Theorem C02_pmh2_set_semantics : forall m maxv init items items' st st', (1 <= m)%nat ->
  scripts2_wf m items -> scripts2_wf m items' -> (forall x, In x items <-> In x items') ->
  pmh2_items (p_new maxv init m) items = Done st -> pmh2_items (p_new maxv init m) items' = Done st' ->
  pregs st = pregs st' /\
  ((forall k, (k < m)%nat -> tie_free (alltags2 items) maxv k) -> psig st = psig st').
Proof. exact pmh2_set_semantics. Qed.

Theorem C02_pmh3_equals_pmh3a : forall m maxv init items batches st st', (1 <= m)%nat ->
  scripts_wf m items -> (forall b, In b batches -> scripts_wf m b) ->
  (forall x, In x items <-> In x (concat batches)) ->
  pmh3_items (p_new maxv init m) items = Done st ->
  pmh3a_batches (p_new maxv init m) batches = Done st' ->
  pregs st = pregs st' /\
  ((forall k, (k < m)%nat -> tie_free (alltags3 items) maxv k) -> psig st = psig st').
Proof. exact pmh3_pmh3a_agree. Qed.

(* --- union of two sets that give common items the same script --- *)
Theorem C02_union : forall m maxv init A B sA sB sAB k,
  final m maxv init A sA -> final m maxv init B sB -> final m maxv init (A ++ B) sAB -> (k < m)%nat ->
  nthz (pregs sAB) k = Z.min (nthz (pregs sA) k) (nthz (pregs sB) k) /\
  (tie_free (A ++ B) maxv k -> nthz (psig sAB) k = nthz (psig sA) k \/ nthz (psig sAB) k = nthz (psig sB) k).
Proof. exact final_union. Qed.

(* --- every position holds an item of the set once a finite point reached that slot --- *)
Theorem C02_signature_member : forall m maxv init Pts st k, final m maxv init Pts st -> (k < m)%nat ->
  (exists id h, In (id, h, k) Pts /\ h < maxv) -> exists h, In (nthz (psig st) k, h, k) Pts.
Proof. exact final_sig_member. Qed.

(* --- a strictly monotone relabelling of the race values (all weights times 2^k) --- *)
Theorem C02_monotone_relabelling : forall m maxv init f Pts st st' k,
  (forall a b, a < b -> f a < f b) ->
  final m maxv init Pts st -> final m (f maxv) init (map_pts f Pts) st' -> (k < m)%nat ->
  tie_free Pts maxv k -> nthz (psig st) k = nthz (psig st') k.
Proof. exact final_monotone_iso. Qed.

(* --- variant 2: the m points of a script suffice and assert!(i < m) never fires --- *)
Theorem C02_pmh2_item_total : forall m id sc st lb i,
  wfst m st -> sc <> [] -> (length sc + i = m)%nat -> chain2 m lb sc ->
  (forall j, (j < m)%nat -> In j (map snd sc) \/ nthz (pregs st) j <= lb) ->
  exists st', pmh2_item st id sc i = Done st'.
Proof. exact pmh2_item_total. Qed.

Print Assumptions C02_pmh3_characterised.
Print Assumptions C02_pmh3a_characterised.
Print Assumptions C02_pmh2_characterised.
Print Assumptions C02_final_registers.
Print Assumptions C02_final_signature.
Print Assumptions C02_pmh3_set_semantics.
Print Assumptions C02_pmh3a_set_semantics.
Print Assumptions C02_pmh2_set_semantics.
Print Assumptions C02_pmh3_equals_pmh3a.
Print Assumptions C02_union.
Print Assumptions C02_signature_member.
Print Assumptions C02_monotone_relabelling.
Print Assumptions C02_pmh2_item_total.
