(* C14 - pinned statements. *)
From Coq Require Import List ZArith Reals QArith.
From Flocq Require Import Core.
From PMH Require Import Lib.ListArr Lib.FloatFacts Model.Estimators Gen.EstimatorsGen Proofs.Estimators
  Gen.MleGen Model.Mle Proofs.Mle.
Import ListNotations.
Close Scope R_scope. Close Scope Q_scope. Open Scope nat_scope.

(* the eight estimator shapes regenerated from the source are all sane ... *)
Theorem C14_generated_estimators_sane :
  length generated_estimators = 8 /\
  forall name e, In (name, e) generated_estimators -> est_sane e = true.
Proof. exact (conj generated_count generated_sane). Qed.

(* ... and every sane shape returns exactly (equal positions, length) on equal lengths *)
Theorem C14_est_exact : forall e a b, est_sane e = true -> length a = length b ->
  est_run e a b = EstOk (count_eq a b) (length a).
Proof. exact est_exact. Qed.

Theorem C14_est_symmetric : forall e a b, est_sane e = true -> est_run e a b = est_run e b a.
Proof. exact est_sym. Qed.

Theorem C14_est_identical_is_one : forall e a, est_sane e = true ->
  est_run e a a = EstOk (length a) (length a).
Proof. exact est_refl_one. Qed.

Theorem C14_est_range : forall e a b c n, est_sane e = true -> est_run e a b = EstOk c n ->
  c <= n /\ n = length a /\ n = length b.
Proof. exact est_range. Qed.

(* a length mismatch is reported (error or panic), nothing is computed on a prefix *)
Theorem C14_est_len_mismatch : forall e a b, est_sane e = true -> length a <> length b ->
  est_run e a b = match e_policy e with OnMismatchPanic => EstPanic | OnMismatchErr => EstErr end.
Proof. exact est_len_mismatch. Qed.

(* float layer (binary64 and binary32): count/len rounds into [0,1], len/len to exactly 1 *)
Theorem C14_quotient_rounding :
  (forall c n : Z, (0 <= c <= n)%Z -> (1 <= n)%Z ->
     (0 <= round radix2 (FLT_exp (-1074) 53) ZnearestE (IZR c / IZR n) <= 1)%R) /\
  (forall n : Z, (1 <= n)%Z -> round radix2 (FLT_exp (-1074) 53) ZnearestE (IZR n / IZR n) = 1%R) /\
  (forall c n : Z, (0 <= c <= n)%Z -> (1 <= n)%Z ->
     (0 <= round radix2 (FLT_exp (-149) 24) ZnearestE (IZR c / IZR n) <= 1)%R) /\
  (forall n : Z, (1 <= n)%Z -> round radix2 (FLT_exp (-149) 24) ZnearestE (IZR n / IZR n) = 1%R).
Proof. exact quotient_rounding_b64_b32. Qed.

(* MLE glue: the generated start value lies in the search bracket ... *)
Theorem C14_mle_start_in_bracket : forall jac lo hi : Q, (lo <= hi)%Q ->
  (lo <= mle_init jac lo hi)%Q /\ (mle_init jac lo hi <= hi)%Q.
Proof. exact mle_start_in_bracket. Qed.

(* ... so the model of get_mle reaches no unwrap failure and returns a value in [0, b_sup],
   b_sup <= 1, for all positive cardinality estimates, all counts and ALL cost comparisons *)
Theorem C14_mle_total : forall card1 card2 dequal m first answers,
  (0 < card1)%Q -> (0 < card2)%Q -> (0 <= dequal)%Q -> (0 < m)%Q ->
  exists j, mle_model card1 card2 dequal m first answers = Ok j /\
    (0 <= j)%Q /\ (j <= mle_b_sup (card1 / card2))%Q /\ (mle_b_sup (card1 / card2) <= 1)%Q.
Proof. exact mle_total. Qed.

Print Assumptions C14_generated_estimators_sane.
Print Assumptions C14_est_exact.
Print Assumptions C14_est_symmetric.
Print Assumptions C14_est_identical_is_one.
Print Assumptions C14_est_range.
Print Assumptions C14_est_len_mismatch.
Print Assumptions C14_quotient_rounding.
Print Assumptions C14_mle_start_in_bracket.
Print Assumptions C14_mle_total.
