(* C19 - pinned statements.  Only statements, [exact] and Print Assumptions. *)
From Coq Require Import ZArith.
From PMH Require Import Lib.BitVec Gen.InvHashGen Proofs.InvHash.
Open Scope Z_scope.

Theorem C19_int64_inverse_left :
  forall x, 0 <= x < 2 ^ 64 -> int64_hash_inverse (int64_hash x) = x.
Proof. exact int64_inverse_left. Qed.

Theorem C19_int64_inverse_right :
  forall x, 0 <= x < 2 ^ 64 -> int64_hash (int64_hash_inverse x) = x.
Proof. exact int64_inverse_right. Qed.

Theorem C19_int32_inverse_left :
  forall x, 0 <= x < 2 ^ 32 -> int32_hash_inverse (int32_hash x) = x.
Proof. exact int32_inverse_left. Qed.

Theorem C19_int32_inverse_right :
  forall x, 0 <= x < 2 ^ 32 -> int32_hash (int32_hash_inverse x) = x.
Proof. exact int32_inverse_right. Qed.

(* results stay machine words, so the identities compose *)
Theorem C19_ranges :
  (forall x, 0 <= x < 2 ^ 64 -> 0 <= int64_hash x < 2 ^ 64) /\
  (forall x, 0 <= x < 2 ^ 64 -> 0 <= int64_hash_inverse x < 2 ^ 64) /\
  (forall x, 0 <= x < 2 ^ 32 -> 0 <= int32_hash x < 2 ^ 32) /\
  (forall x, 0 <= x < 2 ^ 32 -> 0 <= int32_hash_inverse x < 2 ^ 32).
Proof.
  exact (conj int64_hash_range (conj int64_hash_inverse_range
        (conj int32_hash_range int32_hash_inverse_range))).
Qed.

Print Assumptions C19_int64_inverse_left.
Print Assumptions C19_int64_inverse_right.
Print Assumptions C19_int32_inverse_left.
Print Assumptions C19_int32_inverse_right.
Print Assumptions C19_ranges.
