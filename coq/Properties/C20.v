(* C20 - pinned statements (SetSketchParams dump / reload). *)
From Coq Require Import List ZArith NArith Bool.
From PMH Require Import Model.ParamsJson Gen.FlagsJson Proofs.ParamsJson Proofs.JsonRoundTrip.
Import ListNotations.
Open Scope Z_scope.

Theorem C20_source_flag : json_panic_on_parse_error = false.
Proof. exact eq_refl. Qed.

(* anything that parses to parameters contains a closing brace ... *)
Theorem C20_parse_ok_contains_close : forall s b m a q, parse_params s = POk b m a q -> In 125 s.
Proof. exact parse_ok_contains_close. Qed.

(* ... the dumped document has exactly one, as its last byte; so EVERY strict prefix of EVERY
   dumped file (the crash point) fails to parse to parameters: never different parameters *)
Theorem C20_torn_file_rejected : forall b m a q n b' m' a' q', num_token b -> num_token a ->
  (n < length (print_params b m a q))%nat ->
  parse_params (firstn n (print_params b m a q)) <> POk b' m' a' q'.
Proof. exact torn_file_rejected. Qed.

Theorem C20_reload_torn : forall flag b m a q n, num_token b -> num_token a ->
  (n < length (print_params b m a q))%nat ->
  match reload_json flag (Some (firstn n (print_params b m a q))) with RParams _ _ _ _ => False | _ => True end.
Proof. exact reload_torn. Qed.

(* a missing file is an error; with the repaired code no input makes reload panic *)
Theorem C20_reload_missing_file : forall flag, reload_json flag None = RErr.
Proof. exact reload_missing_file. Qed.
Theorem C20_reload_never_panics : forall file, reload_json false file <> RPanic.
Proof. exact reload_never_panics. Qed.

(* round trip: the dumped document parses back to the dumped parameters - m and q exactly for every value below
   2^64, b and a as the printed tokens (any token of the shape [-]digits[.digits][e[+|-]digits]) *)
Theorem C20_roundtrip : forall tb m ta q, ftok_ok tb -> ftok_ok ta ->
  (m <= 18446744073709551615)%N -> (q <= 18446744073709551615)%N ->
  parse_params (print_params (ftok_bytes tb) m (ftok_bytes ta) q) = POk (ftok_bytes tb) m (ftok_bytes ta) q.
Proof. exact roundtrip. Qed.

(* every such token is lexed whole, whatever follows the delimiter *)
Theorem C20_number_token_lexed_whole : forall t c r, ftok_ok t -> delim c ->
  lex_number (ftok_bytes t ++ c :: r) = Some (ftok_bytes t, is_plain t, c :: r).
Proof. exact lex_number_ftok. Qed.

Print Assumptions C20_source_flag.
Print Assumptions C20_parse_ok_contains_close.
Print Assumptions C20_torn_file_rejected.
Print Assumptions C20_reload_torn.
Print Assumptions C20_reload_missing_file.
Print Assumptions C20_reload_never_panics.
Print Assumptions C20_roundtrip.
Print Assumptions C20_number_token_lexed_whole.
