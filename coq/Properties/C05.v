(* C05 - pinned statements (SetSketch: registers are maxima, merge = union, lower bound sound). *)
From Coq Require Import List ZArith Bool.
From PMH Require Import Lib.ListArr Model.SetSketch Proofs.SetSketch Proofs.SetMergeLaws Model.ProbMinHash Proofs.ProbMinHash
  Model.SuperMinHash Proofs.SuperMinHash Gen.FlagsSmh.
Import ListNotations.
Open Scope Z_scope.

(* lower_k <= every register <= I::MAX in every reachable state: new, any item (no hypothesis
   on the draws), reinit, merge *)
Theorem C05_invariant_new : forall p, 0 <= sp_imax p -> ssinv (ss_new p).
Proof. exact ss_new_inv. Qed.
Theorem C05_invariant_item : forall sc s s', ssinv s -> ss_item s sc = Ok s' ->
  ssinv s' /\ smono s s' /\ ss_par s' = ss_par s.
Proof. exact ss_item_inv. Qed.
Theorem C05_invariant_reinit : forall s, ssinv s -> ssinv (ss_reinit s).
Proof. exact ss_reinit_inv. Qed.
Theorem C05_invariant_merge : forall s o, ssinv s -> ssinv o -> sp_imax (ss_par s) = sp_imax (ss_par o) ->
  ssinv (fst (ss_merge s o)) /\ smono s (fst (ss_merge s o)).
Proof. exact ss_merge_inv. Qed.

(* registers of a final state are the position-wise maximum of the clipped draws *)
Theorem C05_registers_are_max : forall D s i, sfinal D s -> (i < sp_m (ss_par s))%nat ->
  nthz (ss_k s) i = max_at D (sp_imax (ss_par s)) i.
Proof. exact sfinal_regs. Qed.

Theorem C05_new_is_final : forall p, 0 <= sp_imax p -> sfinal [] (ss_new p).
Proof. exact sfinal_new. Qed.

(* streaming an item with a well-formed script keeps the state final (also after a merge) *)
Theorem C05_item_keeps_final : forall D s sc s', sfinal D s ->
  schain (sp_m (ss_par s)) (sp_q (ss_par s) + 1) sc -> ss_item s sc = Ok s' ->
  sfinal (D ++ sdraws sc) s' /\ ss_par s' = ss_par s.
Proof. exact sfinal_item. Qed.

(* merge of two final states = final state of the union of the draws *)
Theorem C05_merge_is_union : forall D1 D2 s o, sfinal D1 s -> sfinal D2 o ->
  params_mergeable (ss_par s) (ss_par o) = true -> sp_imax (ss_par s) = sp_imax (ss_par o) ->
  sfinal (D1 ++ D2) (fst (ss_merge s o)) /\ snd (ss_merge s o) = true /\
  ss_par (fst (ss_merge s o)) = ss_par s.
Proof. exact sfinal_merge. Qed.

Theorem C05_merge_equals_sketch_of_union : forall D1 D2 DU s o u i,
  sfinal D1 s -> sfinal D2 o -> sfinal DU u -> (forall d, In d DU <-> In d (D1 ++ D2)) ->
  params_mergeable (ss_par s) (ss_par o) = true -> sp_imax (ss_par s) = sp_imax (ss_par o) ->
  ss_par u = ss_par s -> (i < sp_m (ss_par s))%nat ->
  nthz (ss_k (fst (ss_merge s o))) i = nthz (ss_k u) i.
Proof. exact merge_union_registers. Qed.

(* position-wise maximum: commutative, associative, idempotent on registers *)
Theorem C05_merge_registers : forall s o i, params_mergeable (ss_par s) (ss_par o) = true ->
  length (ss_k s) = length (ss_k o) ->
  nthz (ss_k (fst (ss_merge s o))) i = Z.max (nthz (ss_k s) i) (nthz (ss_k o) i).
Proof. exact merge_registers. Qed.

(* a refused merge leaves every field of the receiver unchanged *)
Theorem C05_merge_refused : forall s o, params_mergeable (ss_par s) (ss_par o) = false ->
  ss_merge s o = (s, false).
Proof. exact ss_merge_refused. Qed.

(* SuperMinHash: the sketch is the position-wise minimum over the draws of all items, so the sketch of
   a union is the position-wise minimum of the sketches (in particular of the single-item sketches) *)
Theorem C05_superminhash_source_flag : smh_hist_by_floor = true.
Proof. exact eq_refl. Qed.

Theorem C05_superminhash_is_min : forall (F : Z -> Z), (forall a b, a <= b -> F a <= F b) -> (forall a, 0 <= F a) ->
  forall large, snd large = F (fst large) ->
  forall m its s, (1 <= m)%nat -> Z.of_nat m <= snd large -> (forall sc, In sc its -> itemF_ok F large m sc) ->
  bind (smh_new m large) (fun s0 => smh_items s0 its) = Ok s ->
  sm_m s = m /\ forall x, (x < m)%nat -> fst (nthp (sm_h s) x) = min_at (alltagsF m its) (fst large) x.
Proof. exact smh_is_min. Qed.

Theorem C05_superminhash_union_is_min : forall (F : Z -> Z), (forall a b, a <= b -> F a <= F b) -> (forall a, 0 <= F a) ->
  forall large, snd large = F (fst large) ->
  forall m its1 its2 s1 s2 s12, (1 <= m)%nat -> Z.of_nat m <= snd large ->
  (forall sc, In sc (its1 ++ its2) -> itemF_ok F large m sc) ->
  bind (smh_new m large) (fun s0 => smh_items s0 its1) = Ok s1 ->
  bind (smh_new m large) (fun s0 => smh_items s0 its2) = Ok s2 ->
  bind (smh_new m large) (fun s0 => smh_items s0 (its1 ++ its2)) = Ok s12 ->
  forall x, (x < m)%nat -> fst (nthp (sm_h s12) x) = Z.min (fst (nthp (sm_h s1) x)) (fst (nthp (sm_h s2) x)).
Proof. exact smh_union_is_min. Qed.

(* merge is commutative, associative and idempotent on the registers *)
Theorem C05_merge_commutative : forall s o, length (regs s) = length (regs o) ->
  params_mergeable (ss_par s) (ss_par o) = true -> params_mergeable (ss_par o) (ss_par s) = true ->
  regs (merged s o) = regs (merged o s).
Proof. exact merge_commutative. Qed.

Theorem C05_merge_associative : forall a b c, length (regs a) = length (regs b) -> length (regs b) = length (regs c) ->
  params_mergeable (ss_par a) (ss_par b) = true -> params_mergeable (ss_par a) (ss_par c) = true ->
  params_mergeable (ss_par b) (ss_par c) = true ->
  regs (merged (merged a b) c) = regs (merged a (merged b c)).
Proof. exact merge_associative. Qed.

Theorem C05_merge_idempotent : forall s o, length (regs s) = length (regs o) ->
  params_mergeable (ss_par s) (ss_par o) = true ->
  regs (merged (merged s o) o) = regs (merged s o) /\ (params_mergeable (ss_par s) (ss_par s) = true -> regs (merged s s) = regs s).
Proof. exact merge_idempotent. Qed.

Print Assumptions C05_superminhash_source_flag.
Print Assumptions C05_superminhash_is_min.
Print Assumptions C05_superminhash_union_is_min.
Print Assumptions C05_invariant_new.
Print Assumptions C05_invariant_item.
Print Assumptions C05_invariant_reinit.
Print Assumptions C05_invariant_merge.
Print Assumptions C05_registers_are_max.
Print Assumptions C05_new_is_final.
Print Assumptions C05_item_keeps_final.
Print Assumptions C05_merge_is_union.
Print Assumptions C05_merge_equals_sketch_of_union.
Print Assumptions C05_merge_registers.
Print Assumptions C05_merge_refused.
Print Assumptions C05_merge_commutative.
Print Assumptions C05_merge_associative.
Print Assumptions C05_merge_idempotent.
