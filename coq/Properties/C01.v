(* C01 - pinned statements.  The property is an expectation; what is decided here:
   (i)  exact refinement: the signature is the per-slot arg-min over the points of all items, each
        item's points depending on its hash only (C02 theorems, restated);
   (ii) ideal-law facts: with the generated rate the slot clock is exponential; the race integral;
        the single-set corollary.  See DESIGN.md for what remains assumed. *)
From Coq Require Import Reals List ZArith.
From Coquelicot Require Import Coquelicot.
From PMH Require Import Lib.ListArr Model.ProbMinHash Proofs.ProbMinHash Gen.PmhFormulas Gen.PmhFormulasSrc Proofs.PmhFormulasSrc Proofs.PmhLaw Model.Estimators Gen.EstPmh Proofs.Estimators.
Import ListNotations.

(* (i) *)
Theorem C01_signature_is_argmin : forall m maxv init Pts st k, final m maxv init Pts st -> (k < m)%nat ->
  (min_at Pts maxv k = maxv /\ nthz (psig st) k = init) \/
  ((min_at Pts maxv k < maxv)%Z /\ In (nthz (psig st) k, min_at Pts maxv k, k) Pts).
Proof. exact final_sig. Qed.

Theorem C01_pmh3_reaches_final : forall m maxv init items st, (1 <= m)%nat -> scripts_wf m items ->
  pmh3_items (p_new maxv init m) items = Done st -> final m maxv init (alltags3 items) st.
Proof. exact pmh3_final. Qed.
Theorem C01_pmh3a_reaches_final : forall m maxv init batches st, (1 <= m)%nat ->
  (forall b, In b batches -> scripts_wf m b) ->
  pmh3a_batches (p_new maxv init m) batches = Done st -> final m maxv init (alltags3b batches) st.
Proof. exact pmh3a_final. Qed.
Theorem C01_pmh2_reaches_final : forall m maxv init items st, (1 <= m)%nat -> scripts2_wf m items ->
  pmh2_items (p_new maxv init m) items = Done st -> final m maxv init (alltags2 items) st.
Proof. exact pmh2_final. Qed.

Open Scope R_scope.
(* (ii) *)
Theorem C01_slot_clock_exponential : forall m (n : nat) s, 1 < m ->
  ((m - 1) / m) ^ n * (1 - (1 / m) * ((1 - exp (- pmh_lambda m * s)) / (1 - exp (- pmh_lambda m))))
  = exp (- pmh_lambda m * (INR n + s)).
Proof. exact slot_survival_is_exponential. Qed.

Theorem C01_rate_is_forced : forall m l, 1 < m -> 0 < l -> 1 - 1 / m = exp (- l) -> l = pmh_lambda m.
Proof. exact rate_is_forced. Qed.

Theorem C01_beta_spacing : forall m i, m - i - 1 <> 0 -> pmh2_beta m i * (m - i - 1) = m.
Proof. exact beta_spacing. Qed.

Theorem C01_race_integral : forall rho C T, 0 < rho -> 0 <= C ->
  is_RInt (fun x => rho * exp (- rho * x) * exp (- rho * C * x)) 0 T ((1 - exp (- rho * (1 + C) * T)) / (1 + C)).
Proof. exact race_integral. Qed.

Theorem C01_race_limit : forall rho C T, 0 < rho -> 0 <= C -> 0 <= T ->
  0 <= 1 / (1 + C) - (1 - exp (- rho * (1 + C) * T)) / (1 + C) <= 1 / ((1 + C) * (1 + rho * (1 + C) * T)).
Proof. exact race_limit. Qed.

Theorem C01_single_set : forall wd rest, 0 < wd -> 0 <= rest -> 1 / (1 + rest / wd) = wd / (wd + rest).
Proof. exact single_set_probability. Qed.

(* jaccard::compute_probminhash_jaccard (regenerated shape): on equal lengths exactly (number of equal positions, length) *)
Theorem C01_estimator_is_match_fraction : forall a b, length a = length b ->
  est_run est_jaccard_compute_probminhash_jaccard a b = EstOk (count_eq a b) (length a).
Proof. exact (fun a b H => est_exact est_jaccard_compute_probminhash_jaccard a b (eq_refl true) H). Qed.

(* the rate and the increments as the source text writes them (Gen/PmhFormulasSrc.v, read off the Rust expressions on every
   run) are the formulas the theorems above are stated on, for every signature length the constructors accept *)
Theorem C01_source_rates_are_the_proved_rate : forall m, 1 < m ->
  pmh_lambda_src_1 m = pmh_lambda m /\ pmh_lambda_src_2 m = pmh_lambda m /\ pmh_lambda_src_3 m = pmh_lambda m.
Proof. intros m H. exact (conj (pmh_lambda_src_1_ok m H) (conj (pmh_lambda_src_2_ok m H) (pmh_lambda_src_3_ok m H))). Qed.

Theorem C01_source_increment_is_the_proved_increment : forall m i, i + 1 < m -> pmh2_beta_src m i = pmh2_beta m i.
Proof. exact pmh2_beta_src_ok. Qed.

Print Assumptions C01_signature_is_argmin.
Print Assumptions C01_pmh3_reaches_final.
Print Assumptions C01_pmh3a_reaches_final.
Print Assumptions C01_pmh2_reaches_final.
Print Assumptions C01_slot_clock_exponential.
Print Assumptions C01_rate_is_forced.
Print Assumptions C01_beta_spacing.
Print Assumptions C01_race_integral.
Print Assumptions C01_race_limit.
Print Assumptions C01_single_set.
Print Assumptions C01_estimator_is_match_fraction.
Print Assumptions C01_source_rates_are_the_proved_rate.
Print Assumptions C01_source_increment_is_the_proved_increment.
