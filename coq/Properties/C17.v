(* C17 - pinned statements. *)
From Coq Require Import List ZArith Reals Permutation.
From Flocq Require Import Core.
From Coq Require Import Factorial.
From PMH Require Import Lib.ListArr Lib.FloatFacts Model.FYShuffle Proofs.FYShuffle Proofs.FYUniform Proofs.FYBalance Proofs.FYBridge.
Import ListNotations.
Close Scope R_scope.
Open Scope nat_scope.

(* index bound on real IEEE-754 rounding (Flocq): the product of a 52-bit fraction in [0,1)
   with n <= 2^53, rounded to nearest-even in binary64 and truncated, stays below n *)
Theorem C17_index_bound_binary64 : forall k n : Z,
  (0 <= k < 2 ^ 52)%Z -> (1 <= n <= 2 ^ 53)%Z ->
  (Zfloor (round radix2 (FLT_exp (-1074) 53) ZnearestE
            (IZR k * bpow radix2 (-52) * IZR n)) < n)%Z.
Proof. exact idx_lt. Qed.

(* the same bound for the executable integer rounding the model runs, for every raw 64-bit
   generator output and every remaining count n <= 2^53 *)
Theorem C17_index_bound_model : forall u n : Z,
  (0 <= u < 2 ^ 64)%Z -> (1 <= n <= 2 ^ 53)%Z -> (0 <= fy_pick u n < n)%Z.
Proof. exact fy_pick_range. Qed.

(* from any state whose array is an arrangement of 0..m-1 with the cursor on a block boundary
   (in particular: new, after reset, after any whole number of blocks), m draws on ANY generator
   outputs return each of 0..m-1 exactly once, without error, and end on a block boundary again *)
Theorem C17_block_is_permutation : forall s us,
  arr (fm s) (fv s) -> 1 <= fm s -> (Z.of_nat (fm s) <= 2 ^ 53)%Z -> fy_cur s = 0 ->
  length us = fm s -> Forall (fun u => 0 <= u < 2 ^ 64)%Z us ->
  exists s' outs, fy_draws fy_pick s us = Ok (s', outs) /\ Permutation outs (seq 0 (fm s)) /\
    arr (fm s') (fv s') /\ fm s' = fm s /\ fy_cur s' = 0.
Proof. exact fy_concrete_block. Qed.

(* reset forgets history: for all states s t of the same size and all draw lists *)
Theorem C17_reset_forgets : forall s t us, fm s = fm t ->
  fy_draws fy_pick (fy_reset s) us = fy_draws fy_pick (fy_reset t) us.
Proof. exact fy_concrete_reset_forgets. Qed.

(* ... and the draws after a reset are those of a new shuffle *)
Theorem C17_reset_as_new : forall s us,
  match fy_draws fy_pick (fy_reset s) us, fy_draws fy_pick (fy_new (fm s)) us with
  | Ok (s1, o1), Ok (s2, o2) => o1 = o2 /\ (us <> [] -> s1 = s2)
  | Ok _, _ | _, Ok _ => False
  | _, _ => True
  end.
Proof. exact (fy_reset_as_new fy_pick). Qed.

(* the states the block theorem starts from are reachable *)
Theorem C17_new_and_reset_are_block_starts : forall m s,
  (arr m (fv (fy_new m)) /\ (1 <= m -> fy_cur (fy_new m) = 0)) /\
  (arr (fm s) (fv (fy_reset s)) /\ fy_cur (fy_reset s) = 0).
Proof.
  intros m s. split; split; try apply arr_seq.
  - intros _. unfold fy_cur, fy_new; cbn. now rewrite Nat.leb_refl.
  - unfold fy_cur, fy_reset; cbn. destruct (fm s); reflexivity.
Qed.

(* uniformity: with the index offset c_t given directly (0 <= c_t < m - t), every permutation of
   0..m-1 is the output of exactly one choice vector ... *)
Theorem C17_every_order_has_exactly_one_choice_vector : forall m sigma, 1 <= m -> Permutation sigma (seq 0 m) ->
  exists cs, (length cs = m /\ choices_ok 0 m cs /\ exists s', fy_draws cpick (fy_reset (fy_new m)) cs = Ok (s', sigma)) /\
    forall cs', length cs' = m -> choices_ok 0 m cs' ->
      (exists s', fy_draws cpick (fy_reset (fy_new m)) cs' = Ok (s', sigma)) -> cs' = cs.
Proof. exact fy_order_has_unique_choice. Qed.

(* ... and there are m! choice vectors: under independent uniform choices each order has probability 1/m! *)
Theorem C17_choice_vectors_counted : forall n,
  length (all_choices n) = fact n /\ forall cs, In cs (all_choices n) <-> (length cs = n /\ choices_ok 0 n cs).
Proof. intros n. split; [exact (all_choices_count n)|exact (all_choices_spec n)]. Qed.

(* the in-range choice is what the code's index computation returns when the generator output maps to it *)
Theorem C17_choice_is_identity_in_range : forall u n, (0 <= u < n)%Z -> cpick u n = u.
Proof. exact cpick_id. Qed.

(* how far from uniform one index choice is: for every remaining count n the 2^52 values of k = u >> 12 fall into the n cells
   as consecutive intervals [lobound n j, lobound n (j+1)), which tile [0, 2^52) and whose lengths differ from 2^52 / n by at
   most 2 - under a uniform generator output every index has probability within 2^-51 of 1/n *)
Theorem C17_cells_are_balanced_intervals : forall n, (1 <= n <= 2 ^ 53)%Z ->
  (lobound n 0 = 0)%Z /\ (lobound n n = 2 ^ 52)%Z /\ 
  (forall j k, (0 <= j < n)%Z -> (0 <= k < 2 ^ 52)%Z -> ((rne_mul_floor k n = j)%Z <-> (lobound n j <= k < lobound n (j + 1))%Z)) /\ 
  (forall j, (0 <= j < n)%Z -> (2 ^ 52 / n - 1 <= lobound n (j + 1) - lobound n j <= 2 ^ 52 / n + 2)%Z).
Proof. exact fy_cells_are_intervals. Qed.

(* the same in terms of the raw generator output *)
Theorem C17_pick_cells : forall u n j, (0 <= u < 2 ^ 64)%Z -> (1 <= n <= 2 ^ 53)%Z -> (0 <= j < n)%Z ->
  ((fy_pick u n = j)%Z <-> (lobound n j * 2 ^ 12 <= u < lobound n (j + 1) * 2 ^ 12)%Z).
Proof. exact fy_pick_cells. Qed.

(* the integer rounding the model executes IS the binary64 computation of the code: trunc (fl (k * 2^-52 * n)) with fl = round to
   nearest, ties to even (Flocq), for every 52-bit fraction and every n <= 2^53 - so the theorems above and below, stated on
   rne_mul_floor / fy_pick, speak about the float expression `(xsi * (m - lastidx) as f64) as usize` *)
Theorem C17_model_rounding_is_binary64 : forall k n : Z, (0 <= k < 2 ^ 52)%Z -> (1 <= n <= 2 ^ 53)%Z ->
  rne_mul_floor k n = Zfloor (round radix2 (FLT_exp (-1074) 53) ZnearestE (IZR k * bpow radix2 (-52) * IZR n)).
Proof. exact rne_mul_floor_is_binary64. Qed.

Theorem C17_pick_is_binary64 : forall u n : Z, (0 <= u < 2 ^ 64)%Z -> (1 <= n <= 2 ^ 53)%Z ->
  fy_pick u n = Zfloor (round radix2 (FLT_exp (-1074) 53) ZnearestE (IZR (u / 2 ^ 12) * bpow radix2 (-52) * IZR n)).
Proof. exact fy_pick_is_binary64. Qed.

(* both together, stated on the IEEE expression itself: the binary64 value trunc (fl ((u >> 12) * 2^-52 * n)) equals j exactly on the
   interval of generator outputs [lobound n j * 2^12, lobound n (j+1) * 2^12) *)
Theorem C17_binary64_index_cells : forall u n j : Z, (0 <= u < 2 ^ 64)%Z -> (1 <= n <= 2 ^ 53)%Z -> (0 <= j < n)%Z ->
  (Zfloor (round radix2 (FLT_exp (-1074) 53) ZnearestE (IZR (u / 2 ^ 12) * bpow radix2 (-52) * IZR n)) = j <->
   (lobound n j * 2 ^ 12 <= u < lobound n (j + 1) * 2 ^ 12)%Z).
Proof.
  intros u n j Hu Hn Hj. pose proof (fy_pick_is_binary64 u n Hu Hn) as E. pose proof (fy_pick_cells u n j Hu Hn Hj) as C.
  unfold FYBridge.fexp64 in E. rewrite E in C. exact C.
Qed.

Print Assumptions C17_index_bound_binary64.
Print Assumptions C17_binary64_index_cells.
Print Assumptions C17_model_rounding_is_binary64.
Print Assumptions C17_pick_is_binary64.
Print Assumptions C17_cells_are_balanced_intervals.
Print Assumptions C17_pick_cells.
Print Assumptions C17_index_bound_model.
Print Assumptions C17_block_is_permutation.
Print Assumptions C17_reset_forgets.
Print Assumptions C17_reset_as_new.
Print Assumptions C17_new_and_reset_are_block_starts.
Print Assumptions C17_every_order_has_exactly_one_choice_vector.
Print Assumptions C17_choice_vectors_counted.
Print Assumptions C17_choice_is_identity_in_range.
