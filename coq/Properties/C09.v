(* C09 - pinned statements (densified one-permutation hashing). *)
From Coq Require Import List ZArith Bool.
From PMH Require Import Lib.ListArr Model.SuperMinHash Model.DensMinHash Gen.FlagsDens Proofs.DensMinHash Proofs.DensIdem Proofs.DensViews.
Import ListNotations.
Open Scope Z_scope.

(* the source implements the alternatives the theorems are about *)
Theorem C09_source_flags : dens_tie_on_hash = true /\ dens_report_empty = true.
Proof. exact (conj eq_refl eq_refl). Qed.

(* one item: invariant kept (in particular nb_empty = number of unpopulated bins), only its
   bin changes, and the bin holds the lexicographic minimum of (value, hash) *)
Theorem C09_sketch_step : forall s r k hv, dwf s -> (k < d_m s)%nat -> 0 <= hv < W64 ->
  exists s', dens_sketch true s (r, k, hv) = Ok s' /\ dwf s' /\ d_m s' = d_m s /\
    (forall j, j <> k -> nthz (d_h s') j = nthz (d_h s) j /\ nthz (d_v s') j = nthz (d_v s) j /\
                         nthb (d_init s') j = nthb (d_init s) j) /\
    enc (nthz (d_h s') k) (nthz (d_v s') k) = Z.min (enc (nthz (d_h s) k) (nthz (d_v s) k)) (enc r hv) /\
    (nthb (d_init s') k = nthb (d_init s) k || (enc r hv <? enc (nthz (d_h s) k) (nthz (d_v s) k))).
Proof. exact dens_sketch_ok. Qed.

(* optimal densification: populated bins untouched, every bin ends populated with the pair of a
   bin populated before, nb_empty = 0, invariant kept *)
Theorem C09_opt_densify : forall rep targets s s', dwf s -> opt_densify rep s targets = DDone s' ->
  dwf s' /\ dens_extends s s' /\ d_empty s' = 0 /\ (forall k, (k < d_m s)%nat -> nthb (d_init s') k = true).
Proof. exact opt_densify_ok. Qed.

Theorem C09_rev_densify : forall rep rt s s', dwf s ->
  (forall tg, In tg rt -> forall k, (k < d_m s)%nat -> (tg k < d_m s)%nat) ->
  rev_densify rep s rt = DDone s' ->
  dwf s' /\ dens_extends s s' /\ d_empty s' = 0 /\ (forall k, (k < d_m s)%nat -> nthb (d_init s') k = true).
Proof. exact rev_densify_ok. Qed.

(* termination of the optimal densification under fair target streams *)
Theorem C09_opt_terminates : forall targets s, dwf s ->
  (forall k, (k < d_m s)%nat -> exists j, In j (targets k) /\ nthb (d_init s) j = true) ->
  opt_densify true s targets <> DExhausted /\ opt_densify true s targets <> DHang.
Proof. exact opt_densify_terminates. Qed.

(* nothing streamed: an error is reported; no finite target data could ever fill a bin *)
Theorem C09_empty_reports : forall s targets rt, has_populated s = false -> 0 < d_empty s ->
  opt_densify true s targets = DFail 2 /\ rev_densify true s rt = DFail 2.
Proof. exact densify_empty_reports. Qed.

Theorem C09_empty_never_fills : forall s k tg, has_populated s = false -> opt_fill s k tg = None.
Proof. exact densify_empty_never_fills. Qed.

(* every populated bin of a sketch holds the (value, hash) pair of a streamed item *)
Theorem C09_holds_streamed : forall m large its s k, items_ok m its ->
  dens_items true (dens_new m large) its = Ok s -> (k < m)%nat ->
  nthb (d_init s) k = true -> exists r, In (r, k, nthz (d_v s) k) its /\ nthz (d_h s) k = r.
Proof. exact dens_holds_streamed. Qed.

(* end_sketch is idempotent: finishing a finished sketch returns it unchanged, whatever target streams are offered *)
Theorem C09_end_sketch_idempotent : forall rep targets targets' rt rt' s s',
  dwf s ->
  (opt_densify rep s targets = DDone s' -> opt_densify rep s' targets' = DDone s') /\
  ((forall tg, In tg rt -> forall k, (k < d_m s)%nat -> (tg k < d_m s)%nat) ->
   rev_densify rep s rt = DDone s' -> rev_densify rep s' rt' = DDone s').
Proof.
  intros rep targets targets' rt rt' s s' Wf. split.
  - exact (opt_densify_idempotent rep targets targets' s s' Wf).
  - exact (rev_densify_idempotent rep rt rt' s s' Wf).
Qed.

(* two finished sketches (each = items streamed, then extended by either densification, C09_opt_densify /
   C09_rev_densify) that agree at positions p, q in the u64 view agree there in the float view, when an item's
   value is a function of its hash (same generator seed) *)
Theorem C09_views_agree : forall m large A B sA sB sA' sB' p q, items_ok m A -> items_ok m B -> value_by_hash A B ->
  dens_items true (dens_new m large) A = Ok sA -> dens_items true (dens_new m large) B = Ok sB ->
  dens_extends sA sA' -> dens_extends sB sB' ->
  (forall k, (k < m)%nat -> nthb (d_init sA') k = true) -> (forall k, (k < m)%nat -> nthb (d_init sB') k = true) ->
  (p < m)%nat -> (q < m)%nat ->
  nthz (d_v sA') p = nthz (d_v sB') q -> nthz (d_h sA') p = nthz (d_h sB') q.
Proof. exact views_agree_finished. Qed.

Print Assumptions C09_source_flags.
Print Assumptions C09_sketch_step.
Print Assumptions C09_opt_densify.
Print Assumptions C09_rev_densify.
Print Assumptions C09_opt_terminates.
Print Assumptions C09_empty_reports.
Print Assumptions C09_empty_never_fills.
Print Assumptions C09_holds_streamed.
Print Assumptions C09_end_sketch_idempotent.
Print Assumptions C09_views_agree.
