(* C18 - pinned statements (byte identities). *)
From Coq Require Import List ZArith Bool String.
From PMH Require Import Model.Sig Gen.SigGen Proofs.Sig Proofs.SigTable.
Import ListNotations.
Open Scope Z_scope.

(* the ten implementations regenerated from the source have the shapes of their types ... *)
Theorem C18_table_shapes :
  map (fun r => (fst (fst r), snd (fst r))) sig_impls =
  [("u8", ShScalar 1 false); ("u16", ShScalar 2 false); ("u32", ShScalar 4 false); ("u64", ShScalar 8 false);
   ("i16", ShScalar 2 true); ("i32", ShScalar 4 true); ("Vec<u8>", ShVec 1); ("Vec<u16>", ShVec 2);
   ("Vec<u32>", ShVec 4); ("String", ShUtf8)]%string.
Proof. exact sig_table_shapes. Qed.

(* ... and each of their ownership traces frees every buffer exactly once, with its layout *)
Theorem C18_ownership_ok : forallb (fun r => mem_ok (snd r)) sig_impls = true.
Proof. exact sig_ownership_ok. Qed.

(* different values of a type give different bytes; the bytes decode back to the value *)
Theorem C18_scalar_injective_unsigned : forall w x y,
  0 <= x < 256 ^ Z.of_nat w -> 0 <= y < 256 ^ Z.of_nat w -> enc_scalar w x = enc_scalar w y -> x = y.
Proof. exact enc_scalar_inj_unsigned. Qed.
Theorem C18_scalar_injective_signed : forall w x y, (1 <= w)%nat ->
  - (256 ^ Z.of_nat w / 2) <= x < 256 ^ Z.of_nat w / 2 -> - (256 ^ Z.of_nat w / 2) <= y < 256 ^ Z.of_nat w / 2 ->
  enc_scalar w x = enc_scalar w y -> x = y.
Proof. exact enc_scalar_inj_signed. Qed.
Theorem C18_vector_injective : forall w, (1 <= w)%nat -> forall v v',
  Forall (fun x => 0 <= x < 256 ^ Z.of_nat w) v -> Forall (fun x => 0 <= x < 256 ^ Z.of_nat w) v' ->
  sig_bytes (ShVec w) v = sig_bytes (ShVec w) v' -> v = v'.
Proof. exact sig_vec_inj. Qed.
Theorem C18_scalar_faithful : forall w x, 0 <= x < 256 ^ Z.of_nat w -> of_le_bytes (enc_scalar w x) = x.
Proof. exact sig_scalar_faithful. Qed.

Print Assumptions C18_table_shapes.
Print Assumptions C18_ownership_ok.
Print Assumptions C18_scalar_injective_unsigned.
Print Assumptions C18_scalar_injective_signed.
Print Assumptions C18_vector_injective.
Print Assumptions C18_scalar_faithful.
