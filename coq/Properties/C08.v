(* C08 - pinned statements.  An expectation; decided here:
   (i)  two sketches (same parameters) collide on a bin, before densification, exactly when an item
        common to both sets attains the per-bin minimum of the union;
   (ii) densification fills every other bin with the pair of a bin populated before (C09), the
        candidate bins coming from target streams that depend on (bin, m, pass) only.
   That the arg-min of the union is uniform over its items (hence the conditional probability J),
   and the handling of the occupancy pattern, are not formalised: see DESIGN.md. *)
From Coq Require Import List ZArith Bool Factorial.
From PMH Require Import Lib.ListArr Model.ProbMinHash Proofs.ProbMinHash Model.SuperMinHash Model.DensMinHash
  Gen.FlagsDens Proofs.DensMinHash Lib.Counting Model.Estimators Gen.EstIdx Proofs.Estimators.
Import ListNotations.
Open Scope Z_scope.

Theorem C08_source_flags : dens_tie_on_hash = true /\ dens_report_empty = true.
Proof. exact (conj eq_refl eq_refl). Qed.

Theorem C08_collision_iff : forall m large A B sA sB k,
  items_ok m A -> items_ok m B ->
  (forall r k' hv, In (r, k', hv) (A ++ B) -> r < large) ->
  dens_items true (dens_new m large) A = Ok sA -> dens_items true (dens_new m large) B = Ok sB -> (k < m)%nat ->
  let E0 := enc large (2 ^ 64 - 1) in
  (nthb (d_init sA) k = true /\ nthb (d_init sB) k = true /\
   nthz (d_h sA) k = nthz (d_h sB) k /\ nthz (d_v sA) k = nthz (d_v sB) k)
  <->
  (exists r hv, In (r, k, hv) A /\ In (r, k, hv) B /\ enc r hv = min_at (dtag (A ++ B)) E0 k).
Proof. exact dens_collision_iff. Qed.

Theorem C08_opt_densify_copies_populated : forall rep targets s s', dwf s -> opt_densify rep s targets = DDone s' ->
  dwf s' /\ dens_extends s s' /\ d_empty s' = 0 /\ (forall k, (k < d_m s)%nat -> nthb (d_init s') k = true).
Proof. exact opt_densify_ok. Qed.

Theorem C08_rev_densify_copies_populated : forall rep rt s s', dwf s ->
  (forall tg, In tg rt -> forall k, (k < d_m s)%nat -> (tg k < d_m s)%nat) ->
  rev_densify rep s rt = DDone s' ->
  dwf s' /\ dens_extends s s' /\ d_empty s' = 0 /\ (forall k, (k < d_m s)%nat -> nthb (d_init s') k = true).
Proof. exact rev_densify_ok. Qed.

(* the event of C08_collision_iff - an item common to both sets attains the minimum of the union - has, under
   a uniformly random ranking of the items of the bin, probability |A n B| / |A u B| (counted over all rankings) *)
Theorem C08_collision_share_under_uniform_ranking : forall (inA inB : nat -> bool) (U : list nat),
  U <> [] -> NoDup U -> (forall x, In x U -> inA x || inB x = true) ->
  (length (filter (collide Nat.eqb inA inB) (perms U)) * length U
   = length (filter (fun x => inA x && inB x) U) * fact (length U))%nat.
Proof. intros inA inB U. apply (collision_share Nat.eqb Nat.eqb_eq inA inB U). Qed.

Theorem C08_estimator_is_match_fraction : forall a b, length a = length b ->
  est_run est_jaccard_get_jaccard_index_estimate a b = EstOk (count_eq a b) (length a).
Proof. exact (fun a b H => est_exact est_jaccard_get_jaccard_index_estimate a b (eq_refl true) H). Qed.

Print Assumptions C08_source_flags.
Print Assumptions C08_collision_iff.
Print Assumptions C08_opt_densify_copies_populated.
Print Assumptions C08_rev_densify_copies_populated.
Print Assumptions C08_collision_share_under_uniform_ranking.
Print Assumptions C08_estimator_is_match_fraction.
