(* C08 - pinned statements.  An expectation; decided here:
   (i)  two sketches (same parameters) collide on a bin, before densification, exactly when an item
        common to both sets attains the per-bin minimum of the union;
   (ii) densification fills every other bin with the pair of a bin populated before (C09), the
        candidate bins coming from target streams that depend on (bin, m, pass) only.
   That the arg-min of the union is uniform over its items (hence the conditional probability J),
   and the handling of the occupancy pattern, are not formalised: see DESIGN.md. *)
From Coq Require Import List ZArith Bool.
From PMH Require Import Lib.ListArr Model.ProbMinHash Proofs.ProbMinHash Model.SuperMinHash Model.DensMinHash
  Gen.FlagsDens Proofs.DensMinHash.
Import ListNotations.
Open Scope Z_scope.

Theorem C08_source_flags : dens_tie_on_hash = true /\ dens_report_empty = true.
Proof. exact (conj eq_refl eq_refl). Qed.

Theorem C08_collision_iff : forall m large A B sA sB k,
  items_ok m A -> items_ok m B ->
  (forall r k' hv, In (r, k', hv) (A ++ B) -> r < large) ->
  dens_items true (dens_new m large) A = Ok sA -> dens_items true (dens_new m large) B = Ok sB -> (k < m)%nat ->
  let E0 := enc large (2 ^ 64 - 1) in
  (nthb (d_init sA) k = true /\ nthb (d_init sB) k = true /\
   nthz (d_h sA) k = nthz (d_h sB) k /\ nthz (d_v sA) k = nthz (d_v sB) k)
  <->
  (exists r hv, In (r, k, hv) A /\ In (r, k, hv) B /\ enc r hv = min_at (dtag (A ++ B)) E0 k).
Proof. exact dens_collision_iff. Qed.

Theorem C08_opt_densify_copies_populated : forall rep targets s s', dwf s -> opt_densify rep s targets = DDone s' ->
  dwf s' /\ dens_extends s s' /\ d_empty s' = 0 /\ (forall k, (k < d_m s)%nat -> nthb (d_init s') k = true).
Proof. exact opt_densify_ok. Qed.

Theorem C08_rev_densify_copies_populated : forall rep rt s s', dwf s ->
  (forall tg, In tg rt -> forall k, (k < d_m s)%nat -> (tg k < d_m s)%nat) ->
  rev_densify rep s rt = DDone s' ->
  dwf s' /\ dens_extends s s' /\ d_empty s' = 0 /\ (forall k, (k < d_m s)%nat -> nthb (d_init s') k = true).
Proof. exact rev_densify_ok. Qed.

Print Assumptions C08_source_flags.
Print Assumptions C08_collision_iff.
Print Assumptions C08_opt_densify_copies_populated.
Print Assumptions C08_rev_densify_copies_populated.
