(* C10 - pinned statements.  An expectation about ProbOrdMinHash2; decided so far:
   the store-level facts of C11 (sorted insertion keeps the l smallest of old values + new one,
   a value is rejected exactly when it is not below the l-th), history freedom, and the increments
   g[i-1] = m/(m-i) (Renyi spacings, regenerated from the source).  The characterisation of a slot as
   the l smallest values over all (element, occurrence) pairs and the uniform-ranking argument are
   not yet theorems: see DESIGN.md. *)
From Coq Require Import List ZArith Reals Bool.
From PMH Require Import Lib.ListArr Model.ProbMinHash Model.OrdMinHash Gen.FlagsOrd Gen.PmhFormulas Proofs.OrdMinHash Proofs.PmhLaw.
Import ListNotations.

Theorem C10_source_flag : ord_break_on_reject = false.
Proof. exact eq_refl. Qed.

Theorem C10_slot_update : forall s x i, vsorted s -> (1 <= length s)%nat ->
  let '(s', ins') := slot_update s x i in
  vsorted s' /\ length s' = length s /\ (slot_last s' <= slot_last s)%Z /\
  (ins' = true <-> (x < slot_last s)%Z) /\ (ins' = false -> s' = s).
Proof. exact slot_update_spec. Qed.

Theorem C10_increments_are_spacings : forall m i : R, ord_g m (i + 1) = pmh2_beta m i.
Proof. exact g_is_beta. Qed.

Print Assumptions C10_source_flag.
Print Assumptions C10_slot_update.
Print Assumptions C10_increments_are_spacings.
