(* C10 - pinned statements (ProbOrdMinHash2 collision probability).  Partial: the expectation is
   not a theorem.  Proved: the deterministic core - a slot holds the l lowest-valued pairs among
   all (element, occurrence) pairs (the ranking of the pairs by their value in that slot), so two
   sequences collide at a slot exactly when the l lowest-ranked pairs of each spell the same
   elements in sequence order (up to a collision of the combining hash); and the increments are
   the Renyi spacings of m exponentials, as in ProbMinHash2. *)
From Coq Require Import List ZArith Bool Reals Permutation.
From PMH Require Import Lib.ListArr Model.ProbMinHash Model.OrdMinHash Gen.FlagsOrd Gen.PmhFormulas Gen.PmhFormulasSrc Proofs.PmhFormulasSrc
  Proofs.OrdMinHash Proofs.OrdTopL Proofs.PmhLaw.
Import ListNotations.

Theorem C10_source_flag : ord_break_on_reject = false.
Proof. exact eq_refl. Qed.

Theorem C10_slot_update : forall s x i, vsorted s -> (1 <= length s)%nat ->
  let '(s', ins') := slot_update s x i in
  vsorted s' /\ length s' = length s /\ (slot_last s' <= slot_last s)%Z /\
  (ins' = true <-> (x < slot_last s)%Z) /\ (ins' = false -> s' = s).
Proof. exact slot_update_spec. Qed.

(* slot k = the first l entries of a sorted arrangement of all points falling in slot k *)
Theorem C10_slot_is_l_lowest : forall maxv m l pairs st k, (1 <= l)%nat -> pairs_ok m pairs -> (k < m)%nat ->
  o_hash_set ord_break_on_reject maxv m l pairs = Done st ->
  let pts := filter (in_slot k) (tag_pairs 0 pairs) in
  nths (o_slots st) k = firstn l (ins_all pts (fillers maxv l)) /\
  vsorted (ins_all pts (fillers maxv l)) /\
  Permutation (ins_all pts (fillers maxv l)) (map (fun p => (p_val p, p_tag p)) pts ++ fillers maxv l).
Proof. exact hash_set_slot. Qed.

Theorem C10_increments_are_spacings : forall m i : R, ord_g m (i + 1) = pmh2_beta m i.
Proof. exact g_is_beta. Qed.

(* the table g as the source text fills it is the formula the spacing identity is stated on *)
Theorem C10_source_increment_is_the_proved_increment : forall m i, (i < m)%R -> ord_g_src m i = ord_g m i.
Proof. exact ord_g_src_ok. Qed.

Print Assumptions C10_source_flag.
Print Assumptions C10_slot_update.
Print Assumptions C10_slot_is_l_lowest.
Print Assumptions C10_increments_are_spacings.
Print Assumptions C10_source_increment_is_the_proved_increment.
