(* C04 - pinned statements (set semantics of the five unweighted sketchers). *)
From Coq Require Import List ZArith Bool.
From PMH Require Import Lib.ListArr Model.SetSketch Proofs.SetSketch
  Model.ProbMinHash Proofs.ProbMinHash Model.SuperMinHash Model.SuperMinHash2 Model.DensMinHash
  Gen.FlagsSmh Gen.FlagsDens Proofs.DensMinHash Proofs.SuperMinHash Proofs.SuperMinHash2.
Import ListNotations.
Open Scope Z_scope.

Theorem C04_source_flags : dens_tie_on_hash = true /\ smh_hist_by_floor = true.
Proof. exact (conj eq_refl eq_refl). Qed.

(* SetSketch: two final states over the same SET of draws have the same registers *)
Theorem C04_setsketch_set_semantics : forall D D' s s' i, sfinal D s -> sfinal D' s' ->
  (forall d, In d D <-> In d D') -> ss_par s = ss_par s' -> (i < sp_m (ss_par s))%nat ->
  nthz (ss_k s) i = nthz (ss_k s') i.
Proof. exact sfinal_set_semantics. Qed.

(* densified sketchers, sketching phase: same set of items (any order, any repetition) from a
   new sketcher => identical arrays and nb_empty; every populated bin holds a streamed pair *)
Theorem C04_dens_set_semantics : forall m large its its', items_ok m its -> items_ok m its' ->
  (forall x, In x its <-> In x its') ->
  exists s s', dens_items true (dens_new m large) its = Ok s /\ dens_items true (dens_new m large) its' = Ok s' /\
    d_h s = d_h s' /\ d_v s = d_v s' /\ d_init s = d_init s' /\ d_empty s = d_empty s'.
Proof. exact dens_set_semantics. Qed.

Theorem C04_dens_holds_streamed_hash : forall m large its s k, items_ok m its ->
  dens_items true (dens_new m large) its = Ok s -> (k < m)%nat ->
  nthb (d_init s) k = true -> exists r, In (r, k, nthz (d_v s) k) its /\ nthz (d_h s) k = r.
Proof. exact dens_holds_streamed. Qed.

(* SuperMinHash (values (key, integer part), integer part = F key for a monotone F): same set of
   item scripts, any order / repetition => the same value on every position *)
Theorem C04_superminhash_set_semantics : forall (F : Z -> Z), (forall a b, a <= b -> F a <= F b) -> (forall a, 0 <= F a) ->
  forall large, snd large = F (fst large) ->
  forall m its its' s s', (1 <= m)%nat -> Z.of_nat m <= snd large ->
  (forall sc, In sc its -> itemF_ok F large m sc) -> (forall sc, In sc its' -> itemF_ok F large m sc) ->
  (forall x, In x its <-> In x its') ->
  bind (smh_new m large) (fun s0 => smh_items s0 its) = Ok s ->
  bind (smh_new m large) (fun s0 => smh_items s0 its') = Ok s' ->
  forall x, (x < m)%nat -> fst (nthp (sm_h s) x) = fst (nthp (sm_h s') x).
Proof. exact smh_set_semantics. Qed.

(* SuperMinHash2: same set of (hash, rounds) items => same (round, value) keys, and the same stored
   hashes wherever no two items tie; every position that saw a draw holds a streamed item's hash *)
Theorem C04_superminhash2_set_semantics : forall m its its' s s', (1 <= m)%nat ->
  (forall it, In it its -> item2_ok m it) -> (forall it, In it its' -> item2_ok m it) ->
  (forall x, In x its <-> In x its') ->
  bind (smh2_new m) (fun s0 => smh2_items s0 its) = Ok s ->
  bind (smh2_new m) (fun s0 => smh2_items s0 its') = Ok s' ->
  pregs (abs2 s) = pregs (abs2 s') /\
  ((forall k, (k < m)%nat -> tie_free (alltags_s2 its) (Z.of_nat m * W - 1) k) -> s2_h s = s2_h s').
Proof. exact smh2_set_semantics. Qed.

Theorem C04_superminhash2_holds_streamed_hash : forall m its s k, (1 <= m)%nat -> (forall it, In it its -> item2_ok m it) ->
  bind (smh2_new m) (fun s0 => smh2_items s0 its) = Ok s -> (k < m)%nat ->
  (exists id h, In (id, h, k) (alltags_s2 its) /\ h < Z.of_nat m * W - 1) ->
  exists h, In (nthz (s2_h s) k, h, k) (alltags_s2 its).
Proof. exact smh2_holds_streamed_hash. Qed.

Print Assumptions C04_superminhash_set_semantics.
Print Assumptions C04_superminhash2_set_semantics.
Print Assumptions C04_superminhash2_holds_streamed_hash.
Print Assumptions C04_source_flags.
Print Assumptions C04_setsketch_set_semantics.
Print Assumptions C04_dens_set_semantics.
Print Assumptions C04_dens_holds_streamed_hash.
