(* C04 - pinned statements (set semantics of the unweighted sketchers).
   SetSketch and the densified sketchers: proved here.  SuperMinHash / SuperMinHash2: the
   characterisation theorems are not yet part of this file (see DESIGN.md); their set semantics
   is currently decided by the correspondence and the implementation-level search only. *)
From Coq Require Import List ZArith Bool.
From PMH Require Import Lib.ListArr Model.SetSketch Proofs.SetSketch
  Model.SuperMinHash Model.DensMinHash Gen.FlagsSmh Gen.FlagsDens Proofs.DensMinHash.
Import ListNotations.
Open Scope Z_scope.

Theorem C04_source_flags : dens_tie_on_hash = true /\ smh_hist_by_floor = true.
Proof. exact (conj eq_refl eq_refl). Qed.

(* SetSketch: two final states over the same SET of draws have the same registers *)
Theorem C04_setsketch_set_semantics : forall D D' s s' i, sfinal D s -> sfinal D' s' ->
  (forall d, In d D <-> In d D') -> ss_par s = ss_par s' -> (i < sp_m (ss_par s))%nat ->
  nthz (ss_k s) i = nthz (ss_k s') i.
Proof. exact sfinal_set_semantics. Qed.

(* densified sketchers, sketching phase: same set of items (any order, any repetition) from a
   new sketcher => identical arrays and nb_empty; every populated bin holds a streamed pair *)
Theorem C04_dens_set_semantics : forall m large its its', items_ok m its -> items_ok m its' ->
  (forall x, In x its <-> In x its') ->
  exists s s', dens_items true (dens_new m large) its = Ok s /\ dens_items true (dens_new m large) its' = Ok s' /\
    d_h s = d_h s' /\ d_v s = d_v s' /\ d_init s = d_init s' /\ d_empty s = d_empty s'.
Proof. exact dens_set_semantics. Qed.

Theorem C04_dens_holds_streamed_hash : forall m large its s k, items_ok m its ->
  dens_items true (dens_new m large) its = Ok s -> (k < m)%nat ->
  nthb (d_init s) k = true -> exists r, In (r, k, nthz (d_v s) k) its /\ nthz (d_h s) k = r.
Proof. exact dens_holds_streamed. Qed.

Print Assumptions C04_source_flags.
Print Assumptions C04_setsketch_set_semantics.
Print Assumptions C04_dens_set_semantics.
Print Assumptions C04_dens_holds_streamed_hash.
