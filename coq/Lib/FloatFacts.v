(* Facts about IEEE-754 binary64 rounding (Flocq), used where a property is about float arithmetic. *)
From Coq Require Import ZArith Reals Lia Lra.
From Flocq Require Import Core.
Open Scope R_scope.

Section B64.
Let prec := 53%Z.
Let emin := (-1074)%Z.
Let fexp := FLT_exp emin prec.
Instance prec_gt_0_ : Prec_gt_0 prec. Proof. unfold Prec_gt_0, prec; lia. Qed.
Notation rnd := (round radix2 fexp ZnearestE).
Notation F := (generic_format radix2 fexp).

Lemma pred_ge_sub_ulp x : 0 < x -> F x -> x - ulp radix2 fexp x <= pred radix2 fexp x.
Proof.
  intros Hx Fx. rewrite pred_eq_pos by lra. unfold pred_pos.
  destruct (Req_bool_spec x (bpow radix2 (mag radix2 x - 1))) as [He|Hn]; [|lra].
  apply Rplus_le_compat_l, Ropp_le_contravar.
  rewrite ulp_neq_0 by lra. apply bpow_le. unfold cexp.
  apply (@monotone_exp fexp (FLT_exp_monotone emin prec)). lia.
Qed.

(* C17, "top of the unit interval": for a 52-bit fraction k*2^-52 in [0,1) and an integer
   n <= 2^53, the binary64 product rounded to nearest-even, truncated, is below n. *)
Theorem idx_lt (k n : Z) : (0 <= k < 2^52)%Z -> (1 <= n <= 2^53)%Z ->
  (Zfloor (rnd (IZR k * bpow radix2 (-52) * IZR n)) < n)%Z.
Proof.
  intros Hk Hn.
  set (x := IZR k * bpow radix2 (-52) * IZR n).
  assert (Hn0 : 0 < IZR n) by (apply IZR_lt; lia).
  assert (Fn : F (IZR n)).
  { apply generic_format_FLT. destruct (Z.eq_dec n (2^53)) as [->|Hne].
    - exists (Float radix2 1 53); simpl; [unfold F2R; simpl; lra| unfold prec; simpl; lia |unfold emin; lia].
    - exists (Float radix2 n 0); simpl; [unfold F2R; simpl; lra| unfold prec; lia |unfold emin; lia]. }
  assert (Hulp : ulp radix2 fexp (IZR n) <= IZR n * bpow radix2 (-52)).
  { replace (-52)%Z with (1 - prec)%Z by (unfold prec; lia). rewrite <- (Rabs_pos_eq (IZR n)) at 2 by lra.
    apply ulp_FLT_le. rewrite Rabs_pos_eq by lra. apply Rle_trans with 1.
    - change 1 with (bpow radix2 0). apply bpow_le. unfold emin, prec; lia.
    - apply IZR_le; lia. }
  assert (Hx : x <= pred radix2 fexp (IZR n)).
  { eapply Rle_trans; [|apply pred_ge_sub_ulp; auto].
    unfold x. assert (IZR k <= bpow radix2 52 - 1).
    { change (bpow radix2 52) with (IZR (2^52)). rewrite <- minus_IZR. apply IZR_le. lia. }
    assert (Hb: bpow radix2 52 * bpow radix2 (-52) = 1) by (rewrite <- bpow_plus; reflexivity).
    assert (HB: 0 < bpow radix2 (-52)) by apply bpow_gt_0.
    assert (Hk0 : 0 <= IZR k) by (apply IZR_le; lia).
    assert (H1: IZR k * bpow radix2 (-52) <= 1 - bpow radix2 (-52)).
    { rewrite <- Hb. replace (bpow radix2 52 * bpow radix2 (-52) - bpow radix2 (-52)) with ((bpow radix2 52 - 1) * bpow radix2 (-52)) by ring.
      apply Rmult_le_compat_r; lra. }
    assert (H2: IZR k * bpow radix2 (-52) * IZR n <= (1 - bpow radix2 (-52)) * IZR n).
    { apply Rmult_le_compat_r; lra. }
    lra. }
  assert (Hr : rnd x <= pred radix2 fexp (IZR n)).
  { apply round_le_generic; [apply FLT_exp_valid; exact prec_gt_0_ | apply valid_rnd_N | | exact Hx].
    apply generic_format_pred; [apply FLT_exp_valid; exact prec_gt_0_ | exact Fn]. }
  assert (Hp : pred radix2 fexp (IZR n) < IZR n) by (apply pred_lt_id; lra).
  apply lt_IZR. eapply Rle_lt_trans; [apply Zfloor_lb|]. lra.
Qed.
End B64.

(* C14, float layer: the quotient of two integers 0 <= c <= n, 1 <= n, rounded to nearest in
   any binary format with at least one digit, lies in [0,1], and n/n rounds to exactly 1. *)
Section Quot.
Variables prec emin : Z.
Hypothesis Hprec : (1 <= prec)%Z.
Hypothesis Hemin : (emin <= 0)%Z.
Let fexp := FLT_exp emin prec.
Local Instance prec_gt_0_q : Prec_gt_0 prec. Proof. unfold Prec_gt_0; lia. Qed.
Notation rnd := (round radix2 fexp ZnearestE).

Lemma format_one : generic_format radix2 fexp 1.
Proof.
  change 1 with (bpow radix2 0). apply generic_format_bpow. unfold fexp, FLT_exp. lia.
Qed.

Theorem quot_round_range (c n : Z) : (0 <= c <= n)%Z -> (1 <= n)%Z ->
  0 <= rnd (IZR c / IZR n) <= 1.
Proof.
  intros Hc Hn.
  assert (Hn0 : 0 < IZR n) by (apply IZR_lt; lia).
  assert (H0 : 0 <= IZR c / IZR n).
  { apply Rmult_le_pos; [apply IZR_le; lia|]. left. apply Rinv_0_lt_compat. exact Hn0. }
  assert (H1 : IZR c / IZR n <= 1).
  { apply (Rmult_le_reg_r (IZR n)); [exact Hn0|]. unfold Rdiv.
    rewrite Rmult_assoc, Rinv_l, Rmult_1_r, Rmult_1_l by lra. apply IZR_le. lia. }
  split.
  - apply round_ge_generic; [apply FLT_exp_valid; exact prec_gt_0_q|apply valid_rnd_N|apply generic_format_0|exact H0].
  - apply round_le_generic; [apply FLT_exp_valid; exact prec_gt_0_q|apply valid_rnd_N|apply format_one|exact H1].
Qed.

Theorem quot_round_one (n : Z) : (1 <= n)%Z -> rnd (IZR n / IZR n) = 1.
Proof.
  intros Hn. assert (Hn0 : 0 < IZR n) by (apply IZR_lt; lia).
  unfold Rdiv. rewrite Rinv_r by lra.
  apply round_generic; [apply valid_rnd_N|apply format_one].
Qed.
End Quot.

Theorem quotient_rounding_b64_b32 :
  (forall c n : Z, (0 <= c <= n)%Z -> (1 <= n)%Z ->
     (0 <= round radix2 (FLT_exp (-1074) 53) ZnearestE (IZR c / IZR n) <= 1)%R) /\
  (forall n : Z, (1 <= n)%Z -> round radix2 (FLT_exp (-1074) 53) ZnearestE (IZR n / IZR n) = 1%R) /\
  (forall c n : Z, (0 <= c <= n)%Z -> (1 <= n)%Z ->
     (0 <= round radix2 (FLT_exp (-149) 24) ZnearestE (IZR c / IZR n) <= 1)%R) /\
  (forall n : Z, (1 <= n)%Z -> round radix2 (FLT_exp (-149) 24) ZnearestE (IZR n / IZR n) = 1%R).
Proof.
  split; [|split; [|split]].
  - intros c n Hc Hn. apply (quot_round_range 53 (-1074)); lia.
  - intros n Hn. apply (quot_round_one 53 (-1074)); lia.
  - intros c n Hc Hn. apply (quot_round_range 24 (-149)); lia.
  - intros n Hn. apply (quot_round_one 24 (-149)); lia.
Qed.
